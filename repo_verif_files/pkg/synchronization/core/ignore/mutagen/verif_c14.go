//go:build verif

package mutagen

// VerifC14Parse exposes the fields of a parsed Mutagen-style ignore pattern to
// the verification harness.
func VerifC14Parse(pattern string) (negated, directoryOnly, matchLeaf bool, cleaned string, err error) {
	p, err := newIgnorePattern(pattern)
	if err != nil {
		return false, false, false, "", err
	}
	return p.negated, p.directoryOnly, p.matchLeaf, p.pattern, nil
}

// VerifC14Matches exposes ignorePattern.matches for a single pattern.
func VerifC14Matches(pattern, path string, directory bool) (bool, error) {
	p, err := newIgnorePattern(pattern)
	if err != nil {
		return false, err
	}
	return p.matches(path, directory), nil
}
