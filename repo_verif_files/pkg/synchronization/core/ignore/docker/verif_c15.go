//go:build verif

package docker

import (
	"github.com/mutagen-io/mutagen/pkg/synchronization/core/ignore/docker/internal/third_party/patternmatcher"
)

// VerifC15Matcher gives the verification harness access to the vendored
// pattern matcher (an internal package) behind a Docker-style ignorer: the
// cleaned patterns, the per-pattern match and the upstream
// MatchesOrParentMatches used by Docker's build-context walk.
type VerifC15Matcher struct {
	pm *patternmatcher.PatternMatcher
}

// VerifC15New validates and compiles patterns exactly as NewIgnorer does.
func VerifC15New(patterns []string) (*VerifC15Matcher, error) {
	pm, err := newValidatedPatternMatcher(patterns)
	if err != nil {
		return nil, err
	}
	return &VerifC15Matcher{pm}, nil
}

// Count returns the number of active patterns.
func (m *VerifC15Matcher) Count() int { return len(m.pm.Patterns()) }

// Exclusion reports whether pattern i is an exclusion ("!") pattern.
func (m *VerifC15Matcher) Exclusion(i int) bool { return m.pm.Patterns()[i].Exclusion() }

// Cleaned returns the cleaned text of pattern i.
func (m *VerifC15Matcher) Cleaned(i int) string { return m.pm.Patterns()[i].String() }

// Exclusions reports whether any pattern is an exclusion.
func (m *VerifC15Matcher) Exclusions() bool { return m.pm.Exclusions() }

// Match evaluates pattern i alone on a path.
func (m *VerifC15Matcher) Match(i int, path string) (bool, error) {
	return m.pm.Patterns()[i].VerifC15Match(path)
}

// MatchesOrParentMatches is the upstream (moby) parent-inclusive match.
func (m *VerifC15Matcher) MatchesOrParentMatches(path string) (bool, error) {
	return m.pm.MatchesOrParentMatches(path)
}

// MatchesForMutagen is the per-path trinary match (0 nominal, 1 matched, 2 inverted).
func (m *VerifC15Matcher) MatchesForMutagen(path string, directory bool) (int, bool) {
	s, c := m.pm.MatchesForMutagen(path, directory)
	return int(s), c
}
