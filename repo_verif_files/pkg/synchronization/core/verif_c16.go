//go:build verif

package core

// VerifC16Normalize exposes normalizeSymbolicLinkAndEnsurePortable to the
// verification harness.
func VerifC16Normalize(path, target string) (string, error) {
	return normalizeSymbolicLinkAndEnsurePortable(path, target)
}
