//go:build verif

package synchronization

// VerifSESSCancel cancels the context of the running synchronization loop of
// the session with the given identifier, exactly as the first step of
// controller.halt does, but without waiting for the loop to exit. The
// verification harness calls it from a filesystem fault hook (that is, from
// inside a transition) to place a cancellation at a chosen operation; it then
// pauses the session through the regular Manager.Pause, which completes the
// halt. It reports whether a loop was running. It exists only in builds with
// the verif tag.
func (m *Manager) VerifSESSCancel(identifier string) bool {
	m.sessionsLock.Lock()
	controller, ok := m.sessions[identifier]
	m.sessionsLock.UnlockWithoutNotify()
	if !ok {
		return false
	}
	controller.lifecycleLock.Lock()
	defer controller.lifecycleLock.Unlock()
	if controller.cancel == nil {
		return false
	}
	controller.cancel()
	return true
}
