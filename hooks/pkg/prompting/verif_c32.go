//go:build verif

package prompting

import "sort"

// VerifC32DetermineResponseMode exposes determineResponseMode.
func VerifC32DetermineResponseMode(prompt string) ResponseMode {
	return determineResponseMode(prompt)
}

// VerifC32RegisteredIdentifiers returns the identifiers currently in the
// global registry, sorted.
func VerifC32RegisteredIdentifiers() []string {
	registryLock.RLock()
	defer registryLock.RUnlock()
	ids := make([]string, 0, len(registry))
	for id := range registry {
		ids = append(ids, id)
	}
	sort.Strings(ids)
	return ids
}
