//go:build verif

package logging

import "time"

// VerifC44Write exposes (*Logger).write with a caller-supplied timestamp.
func VerifC44Write(l *Logger, timestamp time.Time, level Level, message string) {
	l.write(timestamp, level, message)
}

// VerifC44LinePrefixSource returns the source text of linePrefixMatcher.
func VerifC44LinePrefixSource() string { return linePrefixMatcher.String() }

// VerifC44TimestampFormat returns timestampFormat.
func VerifC44TimestampFormat() string { return timestampFormat }
