package scriptx

import (
	"bytes"

	"github.com/mutagen-io/mutagen/pkg/synchronization"
	"github.com/mutagen-io/mutagen/pkg/synchronization/core"

	"verif/harness/hx"
)

// PureCycle is the decision part of controller.synchronize (after the scans)
// recomposed from the real exported pieces: core.PropagateExecutability, the
// (verif-exported) safety helpers, core.Reconcile, core.Apply and
// Entry.EnsureValid, with endpoints that apply every transition exactly. The
// glue between the pieces is a transcription of controller.go:1150-1421; the
// real glue is exercised by the session streams.
type PureCycle struct {
	AlphaContent, BetaContent *core.Entry // after executability propagation
	Outcome                   string      // completed | failed | halted-on-…
	Anc, Alpha, Beta          []*core.Change
	Conflicts                 []*core.Conflict
	NewAncestor               *core.Entry
	AlphaAfter, BetaAfter     *core.Entry
	Reconciled                bool
}

// RunPure runs the recomposed cycle.
func RunPure(mode core.SynchronizationMode, portable bool, anc, alpha, beta *core.Entry, alphaPreserves, betaPreserves bool) *PureCycle {
	return RunPureSyntax(mode, portable, false, anc, alpha, beta, alphaPreserves, betaPreserves)
}

// RunPureSyntax is RunPure with the ignore syntax: with Docker-style ignores
// phantom directories are reified first (controller.go:1120-1126).
func RunPureSyntax(mode core.SynchronizationMode, portable, docker bool, anc, alpha, beta *core.Entry, alphaPreserves, betaPreserves bool) *PureCycle {
	if docker {
		alpha, beta, _, _ = core.ReifyPhantomDirectories(anc, alpha, beta)
	}
	r := &PureCycle{AlphaContent: alpha, BetaContent: beta, NewAncestor: anc, AlphaAfter: alpha, BetaAfter: beta}
	if portable {
		if alphaPreserves && beta != nil && !betaPreserves {
			r.BetaContent = core.PropagateExecutability(anc, alpha, beta)
		} else if betaPreserves && alpha != nil && !alphaPreserves {
			r.AlphaContent = core.PropagateExecutability(anc, beta, alpha)
		}
	}
	if synchronization.VerifC11OneEndpointEmptiedRoot(anc, r.AlphaContent, r.BetaContent) {
		r.Outcome = "halted-on-root-emptied"
		return r
	}
	r.Anc, r.Alpha, r.Beta, r.Conflicts = core.Reconcile(anc, r.AlphaContent, r.BetaContent, mode)
	r.Reconciled = true
	if synchronization.VerifC11ContainsRootDeletion(r.Alpha) || synchronization.VerifC11ContainsRootDeletion(r.Beta) {
		r.Outcome = "halted-on-root-deletion"
		return r
	}
	if synchronization.VerifC11ContainsRootTypeChange(r.Alpha) || synchronization.VerifC11ContainsRootTypeChange(r.Beta) {
		r.Outcome = "halted-on-root-type-change"
		return r
	}
	ideal := func(tree *core.Entry, ts []*core.Change) (*core.Entry, []*core.Change, bool) {
		if len(ts) == 0 {
			return tree, nil, true
		}
		cs := make([]*core.Change, len(ts))
		for i, t := range ts {
			cs[i] = &core.Change{Path: t.Path, New: t.New}
		}
		next, err := core.Apply(tree, cs)
		if err != nil {
			return tree, nil, false
		}
		return next, cs, true
	}
	var aChanges, bChanges []*core.Change
	var aOK, bOK bool
	r.AlphaAfter, aChanges, aOK = ideal(alpha, r.Alpha)
	r.BetaAfter, bChanges, bOK = ideal(beta, r.Beta)
	changes := append(append(append([]*core.Change{}, r.Anc...), aChanges...), bChanges...)
	r.Outcome = "completed"
	if len(changes) > 0 {
		next, err := core.Apply(anc, changes)
		if err != nil {
			r.Outcome = "failed"
			return r
		}
		if next.EnsureValid(true) != nil {
			r.Outcome = "failed"
			return r
		}
		r.NewAncestor = next
	}
	if !aOK || !bOK {
		r.Outcome = "failed"
	}
	return r
}

// ExecOracle is the C18 preservation predicate, written from the statement:
// for every path at which the preserving endpoint P and the other endpoint N
// both hold a file before the cycle, P holds a file with the same executable
// bit after the cycle. It returns "" or "class=<class> <details>". Failures
// inside the documented by-design deviation (the non-preserving side is alpha
// in a mode where alpha wins, and N's content differs from both P's and the
// ancestor's) are classified `alpha-nonpreserving-wins`.
func ExecOracle(mode core.SynchronizationMode, nIsAlpha bool, A, P, N, PAfter *core.Entry) string {
	for _, q := range hx.Paths(P) {
		p := hx.Lookup(P, q)
		n := hx.Lookup(N, q)
		if p.Kind != core.EntryKind_File || n == nil || n.Kind != core.EntryKind_File {
			continue
		}
		after := hx.Lookup(PAfter, q)
		if after != nil && after.Kind == core.EntryKind_File && after.Executable == p.Executable {
			continue
		}
		a := hx.Lookup(A, q)
		replica := mode == core.SynchronizationMode_SynchronizationModeOneWayReplica
		alphaWins := replica || mode == core.SynchronizationMode_SynchronizationModeTwoWayResolved
		ancestorFile := a != nil && a.Kind == core.EntryKind_File
		nDiffers := !bytes.Equal(n.Digest, p.Digest) && !(ancestorFile && bytes.Equal(n.Digest, a.Digest))
		contentKept := after != nil && after.Kind == core.EntryKind_File && bytes.Equal(after.Digest, p.Digest)
		class := "exec-bit-changed"
		switch {
		case contentKept:
			// The file's content stays: nothing may touch its bit, in any mode.
			class = "exec-bit-changed-content-kept"
		case alphaWins && nIsAlpha && nDiffers:
			// Documented deviation: alpha's differently modified content overwrites P's file.
			class = "alpha-nonpreserving-wins"
		case replica && nIsAlpha && ancestorFile && bytes.Equal(n.Digest, a.Digest) && !bytes.Equal(n.Digest, p.Digest) &&
			after != nil && after.Kind == core.EntryKind_File && bytes.Equal(after.Digest, a.Digest) && after.Executable == a.Executable:
			// Replica mode reverts P's modification to the last-synchronized content and bit.
			class = "replica-reverts-to-ancestor"
		}
		return "class=" + class + " at " + hx.EncPath(q) + " P held " + hx.EncEntry(p) + ", N held " + hx.EncEntry(n) +
			", ancestor " + hx.EncEntry(shallow(a)) + "; after the cycle P holds " + hx.EncEntry(shallow(after))
	}
	return ""
}

func shallow(e *core.Entry) *core.Entry {
	if e == nil {
		return nil
	}
	return e.Copy(core.EntryCopyBehaviorSlim)
}
