// Package sessx runs *real* synchronization sessions (synchronization.Manager
// and its controller: run loop, synchronize, safety checks, reconciliation,
// ancestor bookkeeping) over scripted in-memory endpoints, so that the
// controller's decisions can be observed for arbitrary (ancestor, alpha,
// beta) triples and executability-preservation flags. Used by the C11 and
// C18 drivers.
//
// The scripted endpoint implements synchronization.Endpoint: Scan reports a
// tree held in memory, Stage reports everything as already staged, Transition
// applies the requested changes exactly (core.Apply) and reports ideal
// results, and every call is appended to a shared event log. The endpoints
// are plugged in through synchronization.ProtocolHandlers under an otherwise
// unused URL protocol.
package scriptx

import (
	"context"
	"fmt"
	"os"
	"path/filepath"
	"strings"
	"sync"
	"time"

	"github.com/mutagen-io/mutagen/pkg/encoding"
	"github.com/mutagen-io/mutagen/pkg/filesystem"
	"github.com/mutagen-io/mutagen/pkg/logging"
	"github.com/mutagen-io/mutagen/pkg/selection"
	"github.com/mutagen-io/mutagen/pkg/synchronization"
	"github.com/mutagen-io/mutagen/pkg/synchronization/core"
	"github.com/mutagen-io/mutagen/pkg/synchronization/core/ignore"
	"github.com/mutagen-io/mutagen/pkg/synchronization/rsync"
	urlpkg "github.com/mutagen-io/mutagen/pkg/url"

	"verif/harness/hx"
)

// FakeProtocol is the URL protocol under which scripted endpoints are registered.
const FakeProtocol = urlpkg.Protocol_Docker

// World is the shared state of one pair of scripted endpoints; it survives
// reconnections of the session.
type World struct {
	mu     sync.Mutex
	Alpha  *Side
	Beta   *Side
	Real   *RealRoots // non-nil: the endpoints are real local endpoints over these directories
	events []string
}

// Side is one scripted endpoint's state.
type Side struct {
	Tree      *core.Entry // what the next Scan reports
	Preserves bool        // Snapshot.PreservesExecutability
	StripExec bool        // the "filesystem" cannot store executable bits: they are cleared when content is written
	Phantom   []string    // paths whose directories a scan reports as phantom directories (Docker-style ignores)
}

// Events returns and clears the event log.
func (w *World) Events() []string {
	w.mu.Lock()
	defer w.mu.Unlock()
	out := w.events
	w.events = nil
	return out
}

func (w *World) log(s string) {
	w.mu.Lock()
	w.events = append(w.events, s)
	w.mu.Unlock()
}

// Set replaces the trees reported by the next scans.
func (w *World) Set(alpha, beta *core.Entry) {
	w.mu.Lock()
	w.Alpha.Tree, w.Beta.Tree = alpha, beta
	w.mu.Unlock()
}

// Trees returns the current trees (read from disk for real roots).
func (w *World) Trees() (alpha, beta *core.Entry) {
	if w.Real != nil {
		return ReadTree(w.Real.Alpha), ReadTree(w.Real.Beta)
	}
	w.mu.Lock()
	defer w.mu.Unlock()
	return w.Alpha.Tree, w.Beta.Tree
}

func stripExec(e *core.Entry) *core.Entry {
	if e == nil {
		return nil
	}
	out := &core.Entry{Kind: e.Kind, Digest: e.Digest, Target: e.Target, Problem: e.Problem}
	for n, c := range e.Contents {
		if out.Contents == nil {
			out.Contents = make(map[string]*core.Entry, len(e.Contents))
		}
		out.Contents[n] = stripExec(c)
	}
	return out
}

type endpoint struct {
	w     *World
	alpha bool
}

func (e *endpoint) side() *Side {
	if e.alpha {
		return e.w.Alpha
	}
	return e.w.Beta
}

func (e *endpoint) name() string {
	if e.alpha {
		return "alpha"
	}
	return "beta"
}

func (e *endpoint) Poll(ctx context.Context) error {
	<-ctx.Done()
	return nil
}

func (e *endpoint) Scan(_ context.Context, _ *core.Entry, _ bool) (*core.Snapshot, error, bool) {
	e.w.mu.Lock()
	defer e.w.mu.Unlock()
	s := e.side()
	return &core.Snapshot{Content: Phantomize(s.Tree, s.Phantom), PreservesExecutability: s.Preserves}, nil, false
}

// Phantomize returns a deep copy of the tree in which the directories at the
// given paths are phantom directories: what a scan with Docker-style ignores
// reports for an ignored directory that contains unignored content.
func Phantomize(tree *core.Entry, paths []string) *core.Entry {
	out := tree.Copy(core.EntryCopyBehaviorDeep)
	for _, p := range paths {
		if e := hx.Lookup(out, p); e != nil && e.Kind == core.EntryKind_Directory {
			e.Kind = core.EntryKind_PhantomDirectory
		}
	}
	return out
}

func (e *endpoint) Stage(paths []string, digests [][]byte) ([]string, []*rsync.Signature, rsync.Receiver, error) {
	items := make([]string, len(paths))
	for i, p := range paths {
		items[i] = hx.EncPath(p) + "#" + hx.Hex(digests[i])
	}
	sortStrings(items)
	e.w.log("stage-" + e.name() + ":" + strings.Join(items, ","))
	return nil, nil, nil, nil
}

func (e *endpoint) Supply(paths []string, _ []*rsync.Signature, _ rsync.Receiver) error {
	e.w.log("supply-" + e.name())
	return fmt.Errorf("scripted endpoint cannot supply")
}

func (e *endpoint) Transition(_ context.Context, transitions []*core.Change) ([]*core.Entry, []*core.Problem, bool, error) {
	e.w.log("transition-" + e.name() + ":" + hx.EncChanges(transitions))
	e.w.mu.Lock()
	defer e.w.mu.Unlock()
	s := e.side()
	results := make([]*core.Entry, len(transitions))
	ideal := make([]*core.Change, len(transitions))
	for i, t := range transitions {
		results[i] = t.New
		n := t.New
		if s.StripExec {
			n = stripExec(n)
		}
		ideal[i] = &core.Change{Path: t.Path, New: n}
	}
	next, err := core.Apply(s.Tree, ideal)
	if err != nil {
		return nil, nil, false, fmt.Errorf("scripted endpoint cannot apply: %w", err)
	}
	s.Tree = next
	return results, nil, false, nil
}

func (e *endpoint) Shutdown() error { return nil }

func sortStrings(s []string) {
	for i := 1; i < len(s); i++ {
		for j := i; j > 0 && s[j] < s[j-1]; j-- {
			s[j], s[j-1] = s[j-1], s[j]
		}
	}
}

var (
	worldsMu sync.Mutex
	worlds   = map[string]*World{}
)

type handler struct{}

func (handler) Connect(_ context.Context, logger *logging.Logger, url *urlpkg.URL, _ string, session string,
	version synchronization.Version, configuration *synchronization.Configuration, alpha bool) (synchronization.Endpoint, error) {
	worldsMu.Lock()
	w := worlds[url.Path]
	worldsMu.Unlock()
	if w == nil {
		return nil, fmt.Errorf("no scripted world %q", url.Path)
	}
	if w.Real != nil {
		return connectReal(logger, w, session, version, configuration, alpha)
	}
	return &endpoint{w: w, alpha: alpha}, nil
}

// Env is a manager with its own data directory.
type Env struct {
	Manager *synchronization.Manager
	Dir     string
	n       int
}

// NewEnv points MUTAGEN_DATA_DIRECTORY at a fresh scratch directory below
// $VERIF_OUT (or ./out) and creates a manager. The scripted protocol handler
// is registered.
func NewEnv(tag string) (*Env, error) {
	base := os.Getenv("VERIF_OUT")
	if base == "" {
		base = "out"
	}
	dir, err := filepath.Abs(filepath.Join(base, "data-"+tag))
	if err != nil {
		return nil, err
	}
	os.RemoveAll(dir)
	if err := os.MkdirAll(dir, 0o700); err != nil {
		return nil, err
	}
	os.Setenv("MUTAGEN_DATA_DIRECTORY", dir)
	synchronization.ProtocolHandlers[FakeProtocol] = handler{}
	m, err := synchronization.NewManager(logging.NewLogger(logging.LevelDisabled, nil))
	if err != nil {
		return nil, err
	}
	return &Env{Manager: m, Dir: dir}, nil
}

// Close shuts the manager down and removes the data directory.
func (e *Env) Close() {
	e.Manager.Shutdown()
	os.RemoveAll(e.Dir)
}

// Session is one real session over a scripted World.
type Session struct {
	Env   *Env
	ID    string
	World *World
	key   string
}

func sel(id string) *selection.Selection {
	return &selection.Selection{Specifications: []string{id}}
}

// Config builds a session configuration with watching disabled.
func Config(mode core.SynchronizationMode, perms core.PermissionsMode) *synchronization.Configuration {
	return &synchronization.Configuration{
		SynchronizationMode: mode,
		PermissionsMode:     perms,
		WatchMode:           synchronization.WatchMode_WatchModeNoWatch,
	}
}

// ConfigDocker is Config with Docker-style ignore syntax (snapshots may hold
// phantom directories, which the controller reifies before reconciling).
func ConfigDocker(mode core.SynchronizationMode, perms core.PermissionsMode) *synchronization.Configuration {
	c := Config(mode, perms)
	c.IgnoreSyntax = ignore.Syntax_SyntaxDocker
	return c
}

// NewFakeSession creates a *paused* session over a fresh World.
func (e *Env) NewFakeSession(cfg *synchronization.Configuration, w *World) (*Session, error) {
	e.n++
	key := fmt.Sprintf("world-%d", e.n)
	worldsMu.Lock()
	worlds[key] = w
	worldsMu.Unlock()
	mk := func() *urlpkg.URL {
		return &urlpkg.URL{Kind: urlpkg.Kind_Synchronization, Protocol: FakeProtocol, Host: "h", Path: key}
	}
	id, err := e.Manager.Create(context.Background(), mk(), mk(), cfg, &synchronization.Configuration{}, &synchronization.Configuration{}, "", nil, true, "")
	if err != nil {
		return nil, err
	}
	return &Session{Env: e, ID: id, World: w, key: key}, nil
}

// ArchivePath is where the controller keeps the session's ancestor.
func (s *Session) ArchivePath() string {
	d, err := filesystem.Mutagen(true, filesystem.MutagenSynchronizationArchivesDirectoryName)
	if err != nil {
		panic(err)
	}
	return filepath.Join(d, s.ID)
}

// SetAncestor overwrites the archive on disk (only meaningful while paused:
// synchronize loads the archive when it starts).
func (s *Session) SetAncestor(a *core.Entry) error {
	return encoding.MarshalAndSaveProtobuf(s.ArchivePath(), &core.Archive{Content: a})
}

// Ancestor reads the archive on disk.
func (s *Session) Ancestor() (*core.Entry, error) {
	ar := &core.Archive{}
	if err := encoding.LoadAndUnmarshalProtobuf(s.ArchivePath(), ar); err != nil {
		return nil, err
	}
	return ar.Content, nil
}

// Resume resumes the session.
func (s *Session) Resume() error {
	return s.Env.Manager.Resume(context.Background(), sel(s.ID), "")
}

// Pause pauses the session.
func (s *Session) Pause() error {
	return s.Env.Manager.Pause(context.Background(), sel(s.ID), "")
}

// Terminate terminates the session and forgets its world.
func (s *Session) Terminate() error {
	err := s.Env.Manager.Terminate(context.Background(), sel(s.ID), "")
	if s.key != "" {
		worldsMu.Lock()
		delete(worlds, s.key)
		worldsMu.Unlock()
	}
	return err
}

// Flush forces one synchronization cycle and waits for it; right after a
// resume the loop may not be ready yet ("not currently able to
// synchronize"), so that refusal is retried for a short while.
func (s *Session) Flush() error {
	deadline := time.Now().Add(60 * time.Second)
	for {
		ctx, cancel := context.WithTimeout(context.Background(), 120*time.Second)
		err := s.Env.Manager.Flush(ctx, sel(s.ID), "", false)
		cancel()
		if err != nil && strings.Contains(err.Error(), "not currently able to synchronize") && time.Now().Before(deadline) {
			st, lerr := s.State()
			if lerr == nil && IsHalted(st.Status) {
				return err
			}
			time.Sleep(200 * time.Microsecond)
			continue
		}
		return err
	}
}

// State returns the session state as reported by Manager.List.
func (s *Session) State() (*synchronization.State, error) {
	_, states, err := s.Env.Manager.List(context.Background(), sel(s.ID), 0)
	if err != nil {
		return nil, err
	}
	if len(states) != 1 {
		return nil, fmt.Errorf("%d states", len(states))
	}
	return states[0], nil
}

// IsHalted reports whether the status is one of the three safety halts.
func IsHalted(st synchronization.Status) bool {
	return st == synchronization.Status_HaltedOnRootEmptied || st == synchronization.Status_HaltedOnRootDeletion ||
		st == synchronization.Status_HaltedOnRootTypeChange
}

// StatusName is the canonical (text-marshalled) name of a status.
func StatusName(st synchronization.Status) string {
	b, _ := st.MarshalText()
	return string(b)
}
