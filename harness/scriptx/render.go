package scriptx

import (
	"sort"
	"strings"

	"github.com/mutagen-io/mutagen/pkg/synchronization/core"

	"verif/harness/hx"
)

var eventRank = map[string]int{"stage-alpha": 0, "supply-beta": 1, "stage-beta": 2, "supply-alpha": 3, "transition-alpha": 4, "transition-beta": 5}

// EncEvents renders an event log canonically (the two Transition calls of a
// cycle run concurrently: alpha is listed first).
func EncEvents(evs []string, transitionsOnly bool) string {
	var out []string
	for _, e := range evs {
		if transitionsOnly && !strings.HasPrefix(e, "transition-") {
			continue
		}
		out = append(out, e)
	}
	if len(out) == 0 {
		return "-"
	}
	rank := func(s string) int {
		name, _, _ := strings.Cut(s, ":")
		return eventRank[name]
	}
	sort.SliceStable(out, func(i, j int) bool { return rank(out[i]) < rank(out[j]) })
	return strings.Join(out, " ^ ")
}

// ConflictRoots renders the sorted roots of the conflicts.
func ConflictRoots(cs []*core.Conflict) string {
	if len(cs) == 0 {
		return "-"
	}
	var r []string
	for _, c := range cs {
		r = append(r, hx.EncPath(c.Root))
	}
	sort.Strings(r)
	return strings.Join(r, ",")
}

// Cycle is what one flush of a session shows.
type Cycle struct {
	Outcome      string // completed | failed | halted-on-… | refused:halted-on-…
	Events       []string
	Ancestor     *core.Entry // archive on disk after the cycle
	Alpha, Beta  *core.Entry // endpoint contents after the cycle
	Conflicts    []*core.Conflict
	FlushError   error
	StatusBefore string
}

// Flush forces one cycle and collects its observable result. A session that is
// already halted refuses the flush.
func (s *Session) Cycle() *Cycle {
	before, err := s.State()
	if err != nil {
		panic(err)
	}
	c := &Cycle{StatusBefore: StatusName(before.Status)}
	wasHalted := IsHalted(before.Status)
	c.FlushError = s.Flush()
	st, err := s.State()
	if err != nil {
		panic(err)
	}
	switch {
	case wasHalted:
		c.Outcome = "refused:" + StatusName(st.Status)
		if c.FlushError == nil {
			c.Outcome = "flush-accepted-while-halted"
		}
	case c.FlushError == nil && st.SuccessfulCycles == before.SuccessfulCycles+1:
		c.Outcome = "completed"
	case IsHalted(st.Status):
		c.Outcome = StatusName(st.Status)
	default:
		c.Outcome = "failed"
	}
	c.Ancestor, err = s.Ancestor()
	if err != nil {
		panic(err)
	}
	if s.World.Real != nil {
		c.Ancestor = Abstract(c.Ancestor)
	}
	c.Alpha, c.Beta = s.World.Trees()
	c.Events = s.World.Events()
	c.Conflicts = st.Conflicts
	return c
}

// Enc renders `<outcome> ev=<events> anc=<A> alpha=<tree> beta=<tree>`.
func (c *Cycle) Enc(transitionsOnly bool) string {
	return c.Outcome + " ev=" + EncEvents(c.Events, transitionsOnly) + " anc=" + hx.EncEntry(c.Ancestor) +
		" alpha=" + hx.EncEntry(c.Alpha) + " beta=" + hx.EncEntry(c.Beta)
}

// HasEndpointEvents reports whether the controller called Stage, Supply or
// Transition on an endpoint.
func (c *Cycle) HasEndpointEvents() bool { return len(c.Events) > 0 }
