package scriptx

import (
	"context"
	"crypto/sha1"
	"fmt"
	"os"
	"path/filepath"
	"sort"
	"strings"
	"time"

	"github.com/mutagen-io/mutagen/pkg/logging"
	"github.com/mutagen-io/mutagen/pkg/synchronization"
	"github.com/mutagen-io/mutagen/pkg/synchronization/core"
	"github.com/mutagen-io/mutagen/pkg/synchronization/endpoint/local"
	"github.com/mutagen-io/mutagen/pkg/synchronization/rsync"
	urlpkg "github.com/mutagen-io/mutagen/pkg/url"

	"verif/harness/hx"
)

// Real sessions: both endpoints are real local endpoints (local.NewEndpoint)
// over real directories; they are wrapped only to record the Transition calls
// the controller makes. File contents are single bytes, so that a content can
// be written as a one-byte "digest" in the line protocol: idOfDigest maps the
// real SHA-1 digests back.

var idOfDigest = func() map[string]byte {
	m := make(map[string]byte, 256)
	for b := 0; b < 256; b++ {
		h := sha1.Sum([]byte{byte(b)})
		m[string(h[:])] = byte(b)
	}
	return m
}()

// Abstract rewrites real digests of one-byte contents to that byte.
func Abstract(e *core.Entry) *core.Entry {
	if e == nil {
		return nil
	}
	out := &core.Entry{Kind: e.Kind, Executable: e.Executable, Digest: e.Digest, Target: e.Target, Problem: e.Problem}
	if b, ok := idOfDigest[string(e.Digest)]; ok {
		out.Digest = []byte{b}
	}
	for n, c := range e.Contents {
		if out.Contents == nil {
			out.Contents = make(map[string]*core.Entry, len(e.Contents))
		}
		out.Contents[n] = Abstract(c)
	}
	return out
}

func abstractChanges(ts []*core.Change) []*core.Change {
	out := make([]*core.Change, len(ts))
	for i, t := range ts {
		out[i] = &core.Change{Path: t.Path, Old: Abstract(t.Old), New: Abstract(t.New)}
	}
	return out
}

type recording struct {
	synchronization.Endpoint
	w     *World
	alpha bool
}

func (e *recording) name() string {
	if e.alpha {
		return "alpha"
	}
	return "beta"
}

func (e *recording) Stage(paths []string, digests [][]byte) ([]string, []*rsync.Signature, rsync.Receiver, error) {
	e.w.log("stage-" + e.name())
	return e.Endpoint.Stage(paths, digests)
}

func (e *recording) Transition(ctx context.Context, ts []*core.Change) ([]*core.Entry, []*core.Problem, bool, error) {
	e.w.log("transition-" + e.name() + ":" + hx.EncChanges(abstractChanges(ts)))
	return e.Endpoint.Transition(ctx, ts)
}

// RealRoots marks a World as backed by two real directories.
type RealRoots struct {
	Alpha, Beta string
}

func connectReal(logger *logging.Logger, w *World, session string, version synchronization.Version,
	configuration *synchronization.Configuration, alpha bool) (synchronization.Endpoint, error) {
	root := w.Real.Beta
	if alpha {
		root = w.Real.Alpha
	}
	ep, err := local.NewEndpoint(logger, root, session, version, configuration, alpha)
	if err != nil {
		return nil, err
	}
	return &recording{Endpoint: ep, w: w, alpha: alpha}, nil
}

// NewRealSession creates two empty root directories below dir and a running
// session between them (through real local endpoints).
func (e *Env) NewRealSession(cfg *synchronization.Configuration, dir string) (*Session, error) {
	w := &World{Real: &RealRoots{Alpha: filepath.Join(dir, "alpha"), Beta: filepath.Join(dir, "beta")}}
	for _, r := range []string{w.Real.Alpha, w.Real.Beta} {
		if err := os.MkdirAll(r, 0o755); err != nil {
			return nil, err
		}
	}
	e.n++
	key := fmt.Sprintf("world-%d", e.n)
	worldsMu.Lock()
	worlds[key] = w
	worldsMu.Unlock()
	mk := func() *urlpkg.URL {
		return &urlpkg.URL{Kind: urlpkg.Kind_Synchronization, Protocol: FakeProtocol, Host: "h", Path: key}
	}
	id, err := e.Manager.Create(context.Background(), mk(), mk(), cfg, &synchronization.Configuration{}, &synchronization.Configuration{}, "", nil, false, "")
	if err != nil {
		return nil, err
	}
	return &Session{Env: e, ID: id, World: w, key: key}, nil
}

// ReadTree reads a real root as an abstract entry tree: nil if missing, files
// with their (one-byte) content as digest and the owner-executable bit.
func ReadTree(path string) *core.Entry {
	info, err := os.Lstat(path)
	if err != nil {
		return nil
	}
	switch {
	case info.Mode().IsRegular():
		data, err := os.ReadFile(path)
		if err != nil {
			return &core.Entry{Kind: core.EntryKind_Problematic, Problem: "unreadable"}
		}
		return &core.Entry{Kind: core.EntryKind_File, Digest: data, Executable: info.Mode()&0o100 != 0}
	case info.IsDir():
		e := &core.Entry{Kind: core.EntryKind_Directory}
		items, _ := os.ReadDir(path)
		for _, it := range items {
			if e.Contents == nil {
				e.Contents = map[string]*core.Entry{}
			}
			e.Contents[it.Name()] = ReadTree(filepath.Join(path, it.Name()))
		}
		return e
	case info.Mode()&os.ModeSymlink != 0:
		t, _ := os.Readlink(path)
		return &core.Entry{Kind: core.EntryKind_SymbolicLink, Target: t}
	}
	return &core.Entry{Kind: core.EntryKind_Untracked}
}

var fakeClock = time.Date(2001, 1, 1, 0, 0, 0, 0, time.UTC)

// stamp gives the file a modification time never used before, so that the
// endpoint's digest cache (keyed on mtime, size, file ID) cannot go stale.
func stamp(path string) {
	fakeClock = fakeClock.Add(time.Second)
	os.Chtimes(path, fakeClock, fakeClock)
}

func parentIsDir(root, rel string) bool {
	if rel == "" {
		return true
	}
	info, err := os.Lstat(filepath.Dir(filepath.Join(root, filepath.FromSlash(rel))))
	return err == nil && info.IsDir()
}

// FSEdit applies one edit (`w=<path>=<hex>[x]`, `m=<path>`, `d=<path>`, `e`)
// to the real root; edits whose parent is not a directory are no-ops.
func FSEdit(root string, edit []string) error {
	target := func(p string) (string, string, error) {
		rel, err := hx.DecPath(p)
		if err != nil {
			return "", "", err
		}
		return filepath.Join(root, filepath.FromSlash(rel)), rel, nil
	}
	switch {
	case len(edit) == 3 && edit[0] == "w":
		t, rel, err := target(edit[1])
		if err != nil {
			return err
		}
		spec := edit[2]
		mode := os.FileMode(0o644)
		if strings.HasSuffix(spec, "x") {
			mode = 0o755
			spec = strings.TrimSuffix(spec, "x")
		}
		var content []byte
		if spec != "-" {
			var b byte
			if _, err := fmt.Sscanf(spec, "%02x", &b); err != nil || len(spec) != 2 {
				return fmt.Errorf("bad content %q", spec)
			}
			content = []byte{b}
		}
		if !parentIsDir(root, rel) {
			return nil
		}
		os.RemoveAll(t)
		if err := os.WriteFile(t, content, mode); err != nil {
			return err
		}
		os.Chmod(t, mode)
		stamp(t)
	case len(edit) == 2 && edit[0] == "m":
		t, rel, err := target(edit[1])
		if err != nil {
			return err
		}
		if !parentIsDir(root, rel) {
			return nil
		}
		os.RemoveAll(t)
		return os.Mkdir(t, 0o755)
	case len(edit) == 2 && edit[0] == "d":
		t, rel, err := target(edit[1])
		if err != nil {
			return err
		}
		if !parentIsDir(root, rel) {
			return nil
		}
		return os.RemoveAll(t)
	case len(edit) == 1 && edit[0] == "e":
		info, err := os.Lstat(root)
		if err != nil || !info.IsDir() {
			return nil
		}
		items, _ := os.ReadDir(root)
		names := make([]string, 0, len(items))
		for _, it := range items {
			names = append(names, it.Name())
		}
		sort.Strings(names)
		for _, n := range names {
			os.RemoveAll(filepath.Join(root, n))
		}
	default:
		return fmt.Errorf("bad edit %v", edit)
	}
	return nil
}
