package muxh

import (
	"context"
	"errors"
	"fmt"
	"io"
	"net"
	"os"
	"sort"
	"strconv"
	"strings"
	"sync"
	"testing/synctest"
	"time"

	"github.com/mutagen-io/mutagen/pkg/multiplexing"

	"verif/harness/hx"
)

// Cfg is the per-side configuration of a trace case.
type Cfg struct {
	Window  int
	Buffers int
	Backlog int
}

func (c Cfg) String() string { return fmt.Sprintf("%d,%d,%d", c.Window, c.Buffers, c.Backlog) }

// ParseCfg parses "window,buffers,backlog".
func ParseCfg(s string) (Cfg, error) {
	p := strings.Split(s, ",")
	if len(p) != 3 {
		return Cfg{}, fmt.Errorf("bad cfg %q", s)
	}
	var c Cfg
	var err error
	if c.Window, err = strconv.Atoi(p[0]); err != nil {
		return c, err
	}
	if c.Buffers, err = strconv.Atoi(p[1]); err != nil {
		return c, err
	}
	c.Backlog, err = strconv.Atoi(p[2])
	return c, err
}

// rejectTable maps the reader's error texts to the model's Reject enum. This
// is canonicalisation only: the texts are never compared between runs.
var rejectTable = []struct{ text, name string }{
	{"received unknown message kind", "unknownKind"},
	{"zero-value stream identifier received", "zeroId"},
	{"outbound stream identifier used by remote to open stream", "openOutboundId"},
	{"remote stream identifiers not monotonically increasing", "openNotMonotone"},
	{"inbound stream identifier used by remote to accept stream", "acceptInboundId"},
	{"received for unopened inbound stream identifier", "unopenedInbound"},
	{"received for unused outbound stream identifier", "unusedOutbound"},
	{"remote accepted the same stream twice", "acceptTwice"},
	{"remote accepted stream after closing it", "acceptAfterClose"},
	{"zero-length data received", "zeroLengthData"},
	{"data received for partially established stream", "dataPartial"},
	{"data received for write-closed stream", "dataAfterCloseWrite"},
	{"data received for closed stream", "dataAfterClose"},
	{"remote violated stream receive window", "windowViolated"},
	{"zero-valued window increment received", "zeroIncrement"},
	{"window increment received for partially established outbound stream", "incrPartialOutbound"},
	{"window increment received for closed stream", "incrAfterClose"},
	{"window increment overflows maximum value", "incrOverflow"},
	{"close write received for partially established outbound stream", "cwPartialOutbound"},
	{"close write received for closed stream", "cwAfterClose"},
	{"close write received for the same stream twice", "cwTwice"},
	{"close received the same stream twice", "closeTwice"},
	{"heartbeat timeout", "heartbeatTimeout"},
}

// RejectName canonicalises Multiplexer.InternalError().
func RejectName(err error) string {
	if err == nil {
		return "nil"
	}
	t := err.Error()
	for _, r := range rejectTable {
		if strings.Contains(t, r.text) {
			return r.name
		}
	}
	return "carrier"
}

func isClosedCh(ch <-chan struct{}) bool {
	select {
	case <-ch:
		return true
	default:
		return false
	}
}

func sideIndex(s string) int {
	if s == "B" {
		return 1
	}
	return 0
}

var sideName = [2]string{"A", "B"}

type opRec struct {
	idx    int
	side   int
	kind   byte // 'o','a','r','w'
	id     uint64
	cancel context.CancelFunc
	done   bool
	shown  bool
	result string
}

// Trace executes one deterministic API/delivery schedule on two real
// multiplexers. It must run inside a synctest bubble.
type Trace struct {
	Cfg     [2]Cfg
	Mux     [2]*multiplexing.Multiplexer
	Car     [2]*Carrier
	Streams [2]map[uint64]*multiplexing.Stream
	Stalled [2]bool
	mu      sync.Mutex
	ops     []*opRec
	start   time.Time
	// what the property oracles need
	Written  [2]map[uint64][]byte // bytes accepted by Write per (side, stream)
	ReadBack [2]map[uint64][]byte // bytes returned by Read per (side, stream)
	EOFSeen  [2]map[uint64]bool
	HalfShut [2]map[uint64]bool // CloseWrite or Close called on (side, stream)
	Injected bool
	Hung     []string
	spinSeed uint64
}

var spinSink, spinCounter uint64

// raceSpin is the adaptive delay (spin iterations) between releasing a frame
// and calling CloseWrite in a "dcw" step.
var raceSpin = float64(1 << 14)

// spinFor burns a little real CPU time (the bubble's clock is fake).
func spinFor(n int) {
	x := uint64(n)
	for i := 0; i < n; i++ {
		x = x*2862933555777941757 + 3037000493
	}
	spinSink += x
}

// NewTrace creates the two multiplexers (A odd, B even) over controlled carriers.
func NewTrace(a, b Cfg) *Trace {
	t := &Trace{Cfg: [2]Cfg{a, b}, start: time.Now()}
	t.Car[0], t.Car[1] = NewCarrierPair()
	for i := 0; i < 2; i++ {
		t.Streams[i] = map[uint64]*multiplexing.Stream{}
		t.Written[i] = map[uint64][]byte{}
		t.ReadBack[i] = map[uint64][]byte{}
		t.EOFSeen[i] = map[uint64]bool{}
		t.HalfShut[i] = map[uint64]bool{}
		c := t.Cfg[i]
		t.Mux[i] = multiplexing.Multiplex(t.Car[i], i == 1, &multiplexing.Configuration{
			StreamReceiveWindow: c.Window, WriteBufferCount: c.Buffers, AcceptBacklog: c.Backlog,
		})
	}
	synctest.Wait()
	return t
}

func streamID(s *multiplexing.Stream) uint64 {
	a := s.LocalAddr().String()
	id, _ := strconv.ParseUint(a[strings.IndexByte(a, ':')+1:], 10, 64)
	return id
}

func readErrName(err error) string {
	switch {
	case err == nil:
		return "ok"
	case err == io.EOF:
		return "eof"
	case err == net.ErrClosed:
		return "closed"
	case err == multiplexing.ErrMultiplexerClosed:
		return "muxclosed"
	case errors.Is(err, os.ErrDeadlineExceeded):
		return "deadline"
	}
	return "other"
}

func writeErrName(err error) string {
	switch {
	case err == nil:
		return "ok"
	case err == net.ErrClosed:
		return "closed"
	case err == multiplexing.ErrWriteClosed:
		return "writeclosed"
	case err == multiplexing.ErrMultiplexerClosed:
		return "muxclosed"
	case errors.Is(err, os.ErrDeadlineExceeded):
		return "deadline"
	case errors.Is(err, net.ErrClosed):
		return "remoteclosed"
	}
	return "other"
}

func openErrName(err error) string {
	switch {
	case err == multiplexing.ErrStreamRejected:
		return "rejected"
	case err == context.Canceled:
		return "canceled"
	case err == multiplexing.ErrMultiplexerClosed:
		return "muxclosed"
	}
	return "other"
}

func (t *Trace) newOp(side int, kind byte, id uint64) *opRec {
	t.mu.Lock()
	defer t.mu.Unlock()
	o := &opRec{idx: len(t.ops), side: side, kind: kind, id: id}
	t.ops = append(t.ops, o)
	return o
}

func (t *Trace) finish(o *opRec, res string) {
	t.mu.Lock()
	o.done, o.result = true, res
	t.mu.Unlock()
}

// InFlight lists the indices of unfinished ops of the given kind on a side
// (kind 0 = any).
func (t *Trace) InFlight(side int, kind byte) []int {
	t.mu.Lock()
	defer t.mu.Unlock()
	var out []int
	for _, o := range t.ops {
		if !o.done && o.side == side && (kind == 0 || o.kind == kind) {
			out = append(out, o.idx)
		}
	}
	return out
}

// InFlightOn reports whether an unfinished op of the kind exists on (side, stream).
func (t *Trace) InFlightOn(side int, kind byte, id uint64) bool {
	t.mu.Lock()
	defer t.mu.Unlock()
	for _, o := range t.ops {
		if !o.done && o.side == side && o.kind == kind && o.id == id {
			return true
		}
	}
	return false
}

// OpKind returns the kind byte of op k (0 if unknown) and whether it is done.
func (t *Trace) OpKind(k int) (byte, bool) {
	t.mu.Lock()
	defer t.mu.Unlock()
	if k < 0 || k >= len(t.ops) {
		return 0, true
	}
	return t.ops[k].kind, t.ops[k].done
}

func frameList(fs []Frame) string {
	if len(fs) == 0 {
		return "-"
	}
	s := make([]string, len(fs))
	for i, f := range fs {
		s[i] = f.String()
	}
	return strings.Join(s, ",")
}

// settle waits until every goroutine is blocked and renders what happened.
func (t *Trace) settle(sync string) string {
	synctest.Wait()
	t.mu.Lock()
	var comp []string
	for _, o := range t.ops {
		if o.done && !o.shown {
			o.shown = true
			comp = append(comp, fmt.Sprintf("%d=%s", o.idx, o.result))
		}
	}
	t.mu.Unlock()
	c := "-"
	if len(comp) > 0 {
		c = strings.Join(comp, ",")
	}
	return sync + "|" + c + "|" + frameList(t.Car[0].TakeLogCanonical()) + "|" + frameList(t.Car[1].TakeLogCanonical())
}

// syncCall runs f in a goroutine and reports "hung" if it has not returned
// once everything is blocked.
func (t *Trace) syncCall(label string, f func() string) func() string {
	var mu sync.Mutex
	res, done := "", false
	go func() {
		r := f()
		mu.Lock()
		res, done = r, true
		mu.Unlock()
	}()
	return func() string {
		mu.Lock()
		defer mu.Unlock()
		if !done {
			t.Hung = append(t.Hung, label)
			return "hung"
		}
		return res
	}
}

func (t *Trace) closedResult(side int, err error) string {
	if isClosedCh(t.Mux[side].Closed()) && (err == nil || err == multiplexing.ErrMultiplexerClosed) {
		return "ok*"
	}
	if err == nil {
		return "ok"
	}
	if err == multiplexing.ErrMultiplexerClosed {
		return "muxclosed"
	}
	return "other"
}

func parseDeadline(k string, now time.Time) time.Time {
	switch {
	case k == "z":
		return time.Time{}
	case k == "p":
		return now.Add(-time.Second)
	default:
		ms, _ := strconv.Atoi(k[1:])
		return now.Add(time.Duration(ms) * time.Millisecond)
	}
}

// Step executes one step token and returns the canonical token (with the
// observed annotations) and the observed output.
func (t *Trace) Step(tok string) (canon string, out string) {
	p := strings.Split(tok, ":")
	switch p[0] {
	case "o":
		side := sideIndex(p[1])
		ctx, cancel := context.WithCancel(context.Background())
		o := t.newOp(side, 'o', 0)
		o.cancel = cancel
		go func() {
			s, err := t.Mux[side].OpenStream(ctx)
			if err != nil {
				t.finish(o, openErrName(err))
				return
			}
			id := streamID(s)
			t.mu.Lock()
			t.Streams[side][id] = s
			t.mu.Unlock()
			t.finish(o, fmt.Sprintf("ok:%d", id))
		}()
		return tok, t.settle("-")
	case "a":
		side := sideIndex(p[1])
		ctx, cancel := context.WithCancel(context.Background())
		o := t.newOp(side, 'a', 0)
		o.cancel = cancel
		go func() {
			s, err := t.Mux[side].AcceptStream(ctx)
			if err != nil {
				t.finish(o, openErrName(err))
				return
			}
			id := streamID(s)
			t.mu.Lock()
			t.Streams[side][id] = s
			t.mu.Unlock()
			t.finish(o, fmt.Sprintf("ok:%d", id))
		}()
		synctest.Wait()
		// Annotation: the number of stale streams this accept skipped = close
		// frames it caused before its accept frame (visible when a buffer was free).
		stale := 0
		t.Car[side].mu.Lock()
		for _, f := range t.Car[side].Log {
			if f.Kind == 6 {
				stale++
			}
		}
		t.Car[side].mu.Unlock()
		return fmt.Sprintf("a:%s:%d", p[1], stale), t.settle("-")
	case "r":
		side := sideIndex(p[1])
		id, _ := strconv.ParseUint(p[2], 10, 64)
		n, _ := strconv.Atoi(p[3])
		s := t.Streams[side][id]
		if s == nil {
			return tok, "nostream"
		}
		o := t.newOp(side, 'r', id)
		go func() {
			buf := make([]byte, n)
			m, err := s.Read(buf)
			t.mu.Lock()
			t.ReadBack[side][id] = append(t.ReadBack[side][id], buf[:m]...)
			if err == io.EOF {
				t.EOFSeen[side][id] = true
			}
			t.mu.Unlock()
			t.finish(o, hx.Hex(buf[:m])+"/"+readErrName(err))
		}()
		return tok, t.settle("-")
	case "w":
		side := sideIndex(p[1])
		id, _ := strconv.ParseUint(p[2], 10, 64)
		data := unhex(p[3])
		s := t.Streams[side][id]
		if s == nil {
			return tok, "nostream"
		}
		o := t.newOp(side, 'w', id)
		go func() {
			m, err := s.Write(data)
			t.mu.Lock()
			t.Written[side][id] = append(t.Written[side][id], data[:m]...)
			t.mu.Unlock()
			t.finish(o, fmt.Sprintf("%d/%s", m, writeErrName(err)))
		}()
		return tok, t.settle("-")
	case "cw", "c":
		side := sideIndex(p[1])
		id, _ := strconv.ParseUint(p[2], 10, 64)
		s := t.Streams[side][id]
		if s == nil {
			return tok, "nostream"
		}
		t.mu.Lock()
		t.HalfShut[side][id] = true
		t.mu.Unlock()
		get := t.syncCall(tok, func() string {
			if p[0] == "cw" {
				return t.closedResult(side, s.CloseWrite())
			}
			return t.closedResult(side, s.Close())
		})
		synctest.Wait()
		return tok, t.settle(get())
	case "dcw":
		// The next frame reaches this side's reader while the program calls
		// CloseWrite on the stream: a Write that is blocked mid-payload races
		// with the close-write. Annotated with the data bytes it still sent.
		side := sideIndex(p[1])
		id, _ := strconv.ParseUint(p[2], 10, 64)
		s := t.Streams[side][id]
		if s == nil {
			return tok, "nostream"
		}
		f, ok := t.Car[1-side].PopOut()
		if !ok {
			return tok, "noframe"
		}
		t.mu.Lock()
		t.HalfShut[side][id] = true
		t.mu.Unlock()
		wasClosed := isClosedCh(t.Mux[side].Closed())
		// Real concurrency is wanted here: the frame is released first and the
		// call follows a (real-time) instant later. The instant is steered to
		// where the two outcomes (the writer still got its window / it did not)
		// are about equally likely, which is where the calls really overlap.
		spinCounter++
		t.spinSeed = (t.spinSeed+spinCounter)*6364136223846793005 + 1442695040888963407
		jitter := 0.6 + float64((t.spinSeed>>33)%1000)/1250.0 // 0.6 .. 1.4
		spin := int(raceSpin * jitter)
		t.Car[side].Feed(f.Encode())
		spinFor(spin)
		get := t.syncCall(tok, func() string { return t.closedResult(side, s.CloseWrite()) })
		synctest.Wait()
		n := 0
		t.Car[side].mu.Lock()
		for _, g := range t.Car[side].Log {
			if g.Kind == 3 && g.ID == id {
				n += len(g.Data)
			}
		}
		t.Car[side].mu.Unlock()
		if f.Kind == 4 && f.ID == id {
			if n == 0 {
				raceSpin *= 1.15
			} else {
				raceSpin *= 0.87
			}
			if raceSpin < 16 {
				raceSpin = 16
			} else if raceSpin > 1<<24 {
				raceSpin = 1 << 24
			}
		}
		res := get()
		if !wasClosed && isClosedCh(t.Mux[side].Closed()) {
			res = "rej:" + RejectName(t.Mux[side].InternalError())
		}
		return fmt.Sprintf("dcw:%s:%d:%s:%d", p[1], id, f.String(), n), t.settle(res)
	case "dr", "dw":
		side := sideIndex(p[1])
		id, _ := strconv.ParseUint(p[2], 10, 64)
		s := t.Streams[side][id]
		if s == nil {
			return tok, "nostream"
		}
		dl := parseDeadline(p[3], time.Now())
		get := t.syncCall(tok, func() string {
			var err error
			if p[0] == "dr" {
				err = s.SetReadDeadline(dl)
			} else {
				err = s.SetWriteDeadline(dl)
			}
			switch err {
			case nil:
				return "ok"
			case net.ErrClosed:
				return "closed"
			case multiplexing.ErrWriteClosed:
				return "writeclosed"
			}
			return "other"
		})
		synctest.Wait()
		return tok, t.settle(get())
	case "x":
		k, _ := strconv.Atoi(p[1])
		t.mu.Lock()
		var cancel context.CancelFunc
		if k >= 0 && k < len(t.ops) {
			cancel = t.ops[k].cancel
		}
		t.mu.Unlock()
		if cancel != nil {
			cancel()
		}
		return tok, t.settle("-")
	case "d", "i":
		side := sideIndex(p[1])
		var f Frame
		if p[0] == "d" {
			var ok bool
			if f, ok = t.Car[1-side].PopOut(); !ok {
				return "d:" + p[1] + ":none", t.settle("-")
			}
		} else {
			var err error
			if f, err = ParseFrame(p[2]); err != nil {
				return tok, "badframe"
			}
			t.Injected = true
		}
		wasClosed := isClosedCh(t.Mux[side].Closed())
		t.Car[side].Feed(f.Encode())
		synctest.Wait()
		res := "-"
		if !wasClosed && isClosedCh(t.Mux[side].Closed()) {
			res = "rej:" + RejectName(t.Mux[side].InternalError())
		}
		return p[0] + ":" + p[1] + ":" + f.String(), t.settle(res)
	case "t":
		ms, _ := strconv.Atoi(p[1])
		time.Sleep(time.Duration(ms) * time.Millisecond)
		return tok, t.settle("-")
	case "st":
		side := sideIndex(p[1])
		t.Stalled[side] = true
		t.Car[side].SetStalled(true)
		return tok, t.settle("-")
	case "us":
		side := sideIndex(p[1])
		t.Stalled[side] = false
		t.Car[side].SetStalled(false)
		return tok, t.settle("-")
	case "mc":
		side := sideIndex(p[1])
		get := t.syncCall(tok, func() string {
			t.Mux[side].Close()
			return "ok"
		})
		synctest.Wait()
		return tok, t.settle(get())
	case "end":
		t.Car[0].SetStalled(false)
		t.Car[1].SetStalled(false)
		synctest.Wait()
		for i := 0; i < 2; i++ {
			t.Mux[i].Close()
			synctest.Wait()
		}
		o := t.settle("end")
		// anything still unfinished now would hang forever
		t.mu.Lock()
		for _, op := range t.ops {
			if !op.done {
				t.Hung = append(t.Hung, fmt.Sprintf("op%d(%c)", op.idx, op.kind))
			}
		}
		t.mu.Unlock()
		return tok, o + "|" + RejectName(t.Mux[0].InternalError()) + "|" + RejectName(t.Mux[1].InternalError())
	}
	return tok, "badstep"
}

// Elapsed is the model time in milliseconds.
func (t *Trace) Elapsed() int { return int(time.Since(t.start) / time.Millisecond) }

// Ops returns a snapshot (kind, side, stream, done, result) of all ops.
func (t *Trace) Ops() []OpInfo {
	t.mu.Lock()
	defer t.mu.Unlock()
	out := make([]OpInfo, len(t.ops))
	for i, o := range t.ops {
		out[i] = OpInfo{Idx: o.idx, Side: o.side, Kind: o.kind, ID: o.id, Done: o.done, Result: o.result}
	}
	return out
}

// OpInfo is a snapshot of one asynchronous API call.
type OpInfo struct {
	Idx    int
	Side   int
	Kind   byte
	ID     uint64
	Done   bool
	Result string
}

// StreamIDs lists the stream handles the program holds on a side, sorted.
func (t *Trace) StreamIDs(side int) []uint64 {
	t.mu.Lock()
	defer t.mu.Unlock()
	var ids []uint64
	for id := range t.Streams[side] {
		ids = append(ids, id)
	}
	sort.Slice(ids, func(i, j int) bool { return ids[i] < ids[j] })
	return ids
}

func unhex(s string) []byte {
	if s == "-" || s == "" {
		return nil
	}
	b := make([]byte, len(s)/2)
	for i := range b {
		v, _ := strconv.ParseUint(s[2*i:2*i+2], 16, 8)
		b[i] = byte(v)
	}
	return b
}
