package muxh

import (
	"fmt"
	"strconv"
	"strings"
	"sync"
	"testing"
	"testing/synctest"
	"time"

	"verif/harness/hx"
)

// Profile weights the step generator for one property.
type Profile struct {
	Name      string
	Data      int // read / write
	ZeroLen   int // zero-length read / empty write
	Shut      int // close-write / close
	OpenClose int // open / accept / cancel
	Deadline  int // deadlines and time steps
	Stall     int // carrier stalls (increment aggregation, cancellation by close)
	MuxClose  int // explicit multiplexer close in the middle
	Inject    int // percentage of cases that end with injected (adversarial) frames
	Deliver   int
	Race      int  // percentage of cases that start with the Write/CloseWrite race scenario
	ZeroReads bool // zero-length reads (tear the unrepaired code down: C24's finding)
	ConcOpen  bool // concurrent opens in the stress workload (ditto)
}

// Profiles per property.
var Profiles = map[string]Profile{
	"C23": {Name: "C23", Data: 40, ZeroLen: 4, Shut: 8, OpenClose: 8, Deadline: 3, Stall: 3, MuxClose: 1, Inject: 0, Deliver: 40, Race: 35},
	"C24": {Name: "C24", Data: 22, ZeroLen: 10, Shut: 12, OpenClose: 16, Deadline: 5, Stall: 6, MuxClose: 1, Inject: 20, Deliver: 34, Race: 30, ZeroReads: true, ConcOpen: true},
	"C25": {Name: "C25", Data: 22, ZeroLen: 3, Shut: 12, OpenClose: 16, Deadline: 14, Stall: 4, MuxClose: 4, Inject: 0, Deliver: 30},
}

// caseState is the generator's and the oracle's bookkeeping for one trace.
type caseState struct {
	tr        *Trace
	r         *hx.Rand
	prof      Profile
	toks      []string
	outs      []string
	nextByte  [2]map[uint64]int // running payload counter per (side, stream)
	opens     [2]int            // number of open steps per side (k-th open has a known identifier)
	openID    map[int]uint64    // op index -> identifier its open message carries
	deadlines map[string]int    // "<side>/<id>/<r|w>" -> absolute ms of an armed future deadline
	prog      *progress
	muxClosed bool
	queued    [2]int   // inbound streams delivered to a side and not yet taken by an accept
	problems  []string // oracle findings (C25 exits)
	counts    map[string]int
}

func (cs *caseState) do(tok string) string {
	if strings.HasPrefix(tok, "o:") && !cs.muxClosed {
		side := sideIndex(tok[2:])
		cs.opens[side]++
		cs.openID[len(cs.tr.Ops())] = uint64(2*cs.opens[side] - 1 + side)
	}
	cs.prog.begin(tok)
	canon, out := cs.tr.Step(tok)
	cs.prog.end(canon, out)
	cs.toks = append(cs.toks, canon)
	cs.outs = append(cs.outs, out)
	cs.counts[strings.SplitN(tok, ":", 2)[0]]++
	cs.after(canon, out)
	return out
}

func (cs *caseState) problem(format string, a ...any) {
	cs.problems = append(cs.problems, fmt.Sprintf(format, a...))
}

// after is the C25 oracle: every exit event must have released the blocked
// calls it is an exit for (independent of the model: plain bookkeeping).
func (cs *caseState) after(tok, out string) {
	p := strings.Split(tok, ":")
	tr := cs.tr
	if strings.Contains(out, "rej:") || strings.HasPrefix(out, "hung") {
		cs.muxClosed = true
	}
	// accepts that completed in this step took one stream each out of the backlog
	if parts := strings.Split(out, "|"); len(parts) >= 2 && parts[1] != "-" {
		for _, c := range strings.Split(parts[1], ",") {
			kv := strings.SplitN(c, "=", 2)
			k, _ := strconv.Atoi(kv[0])
			if kind, _ := tr.OpKind(k); kind == 'a' && len(kv) == 2 && strings.HasPrefix(kv[1], "ok:") {
				cs.queued[tr.ops[k].side]--
			}
		}
	}
	if p[0] == "a" && len(p) >= 3 {
		stale, _ := strconv.Atoi(p[2])
		cs.queued[sideIndex(p[1])] -= stale
	}
	switch p[0] {
	case "c":
		side := sideIndex(p[1])
		id, _ := strconv.ParseUint(p[2], 10, 64)
		if tr.InFlightOn(side, 'r', id) || tr.InFlightOn(side, 'w', id) {
			cs.problem("class=blocked-after-exit local Close left a blocked Read/Write on %s/%d", p[1], id)
		}
	case "cw":
		side := sideIndex(p[1])
		id, _ := strconv.ParseUint(p[2], 10, 64)
		if tr.InFlightOn(side, 'w', id) {
			cs.problem("class=blocked-after-exit CloseWrite left a blocked Write on %s/%d", p[1], id)
		}
	case "dr", "dw":
		side := sideIndex(p[1])
		id, _ := strconv.ParseUint(p[2], 10, 64)
		kind := byte('r')
		if p[0] == "dw" {
			kind = 'w'
		}
		key := fmt.Sprintf("%d/%d/%c", side, id, kind)
		delete(cs.deadlines, key)
		if p[3] == "p" && tr.InFlightOn(side, kind, id) {
			cs.problem("class=blocked-after-exit past deadline left a blocked %c on %s/%d", kind, p[1], id)
		}
		if p[3][0] == 'f' && strings.HasPrefix(out, "ok") {
			ms, _ := strconv.Atoi(p[3][1:])
			cs.deadlines[key] = tr.Elapsed() + ms
		}
	case "t":
		now := tr.Elapsed()
		for key, at := range cs.deadlines {
			if at < now {
				var side int
				var id uint64
				var kind byte
				fmt.Sscanf(key, "%d/%d/%c", &side, &id, &kind)
				if tr.InFlightOn(side, kind, id) {
					cs.problem("class=blocked-after-exit deadline passed but %c on %s/%d still blocked", kind, sideName[side], id)
				}
				delete(cs.deadlines, key)
			}
		}
	case "x":
		k, _ := strconv.Atoi(p[1])
		if _, done := tr.OpKind(k); !done {
			cs.problem("class=blocked-after-exit cancelled op %d still blocked", k)
		}
	case "mc":
		cs.muxClosed = true
		for side := 0; side < 2; side++ {
			if l := tr.InFlight(side, 0); len(l) > 0 {
				cs.problem("class=blocked-after-exit multiplexer close left ops %v blocked on %s", l, sideName[side])
			}
		}
	case "d":
		if len(p) < 3 || p[2] == "none" {
			return
		}
		side := sideIndex(p[1])
		f, err := ParseFrame(p[2])
		if err != nil {
			return
		}
		if f.Kind == 1 && !tr.Injected && !cs.muxClosed { // open request
			if cs.queued[side] >= tr.Cfg[side].Backlog {
				// beyond the backlog: it must be refused, not left pending
				held := tr.Stalled[side]
				parts := strings.Split(out, "|")
				if !held && (len(parts) < 4 || !strings.Contains(","+parts[2+side]+",", fmt.Sprintf(",6.%d,", f.ID))) {
					cs.problem("class=backlog-not-rejected open of stream %d reached %s with a full backlog (%d) and was not answered with a close", f.ID, p[1], cs.queued[side])
				}
			} else {
				cs.queued[side]++
			}
		}
		if f.Kind == 6 && !tr.Injected { // remote close
			if tr.InFlightOn(side, 'r', f.ID) || tr.InFlightOn(side, 'w', f.ID) {
				cs.problem("class=blocked-after-exit remote close left a blocked Read/Write on %s/%d", p[1], f.ID)
			}
			for k, id := range cs.openID {
				if id == f.ID {
					if kind, done := tr.OpKind(k); kind == 'o' && !done && tr.ops[k].side == side {
						cs.problem("class=blocked-after-exit rejected open %d still blocked", k)
					}
				}
			}
		}
	}
}

// raceCandidate finds a stream of the side with a Write in flight whose next
// inbound frame is a window increment for it.
func (cs *caseState) raceCandidate(side int) (uint64, bool) {
	tr := cs.tr
	if cs.muxClosed || tr.Stalled[side] {
		return 0, false
	}
	f, ok := tr.Car[1-side].PeekOut()
	if !ok || f.Kind != 4 {
		return 0, false
	}
	if tr.Streams[side][f.ID] != nil && tr.InFlightOn(side, 'w', f.ID) {
		return f.ID, true
	}
	return 0, false
}

// raceScenario drives one established stream into the race: a multi-chunk
// Write blocked on the window, the peer reads, the increment is in flight,
// and CloseWrite arrives together with it.
func (cs *caseState) raceScenario() {
	tr, r := cs.tr, cs.r
	side := r.Intn(2)
	ids := tr.StreamIDs(side)
	var id uint64
	found := false
	for _, x := range ids {
		if tr.Streams[1-side][x] != nil && !tr.InFlightOn(side, 'w', x) && !tr.InFlightOn(1-side, 'r', x) {
			id, found = x, true
			break
		}
	}
	w := tr.Cfg[1-side].Window
	if !found || w == 0 || tr.Stalled[side] || tr.Stalled[1-side] || cs.muxClosed {
		return
	}
	S, P := sideName[side], sideName[1-side]
	rounds := 1 + r.Intn(3)
	cs.do(fmt.Sprintf("w:%s:%d:%s", S, id, hx.Hex(cs.payload(side, id, w*(rounds+1)+1+r.Intn(3)))))
	for k := 0; k < rounds; k++ {
		for tr.Car[side].Pending() > 0 {
			cs.do("d:" + P)
		}
		cs.do(fmt.Sprintf("r:%s:%d:%d", P, id, 1+r.Intn(w+1)))
		if k < rounds-1 {
			for tr.Car[1-side].Pending() > 0 {
				cs.do("d:" + S)
			}
		}
	}
	if x, ok := cs.raceCandidate(side); ok && x == id {
		cs.do(fmt.Sprintf("dcw:%s:%d", S, id))
	}
	// let the peer drain and observe the end of the stream
	for k := 0; k < 6; k++ {
		for tr.Car[side].Pending() > 0 {
			cs.do("d:" + P)
		}
		if !tr.InFlightOn(1-side, 'r', id) {
			cs.do(fmt.Sprintf("r:%s:%d:%d", P, id, w+2))
		}
	}
}

func (cs *caseState) payload(side int, id uint64, n int) []byte {
	b := make([]byte, n)
	for i := range b {
		k := cs.nextByte[side][id]
		cs.nextByte[side][id] = k + 1
		b[i] = byte(int(id)*37 + side*101 + k)
	}
	return b
}

func (cs *caseState) pickStream(side int) (uint64, bool) {
	ids := cs.tr.StreamIDs(side)
	if len(ids) == 0 {
		return 0, false
	}
	return ids[cs.r.Intn(len(ids))], true
}

// sizeFor draws a length biased to the interesting boundaries of window w.
func (cs *caseState) sizeFor(w int) int {
	r := cs.r
	switch r.Intn(8) {
	case 0:
		return 1
	case 1:
		return w
	case 2:
		return w + 1 + r.Intn(3)
	case 3:
		return 2*w + r.Intn(3)
	default:
		return 1 + r.Intn(w+3)
	}
}

// next proposes and executes one random feasible step; false if none was found.
func (cs *caseState) next() bool {
	r, tr, pf := cs.r, cs.tr, cs.prof
	side := r.Intn(2)
	S := sideName[side]
	total := pf.Data + pf.ZeroLen + pf.Shut + pf.OpenClose + pf.Deadline + pf.Stall + pf.MuxClose + pf.Deliver
	x := r.Intn(total)
	pick := func(w int) bool {
		if x < w {
			x = 1 << 30
			return true
		}
		x -= w
		return false
	}
	stalled := tr.Stalled[side]
	switch {
	case pick(pf.Deliver):
		// deliver to `side` if the peer has something in flight, else to the other
		for k := 0; k < 2; k++ {
			s := (side + k) % 2
			if tr.Car[1-s].Pending() > 0 {
				n := 1
				if r.Chance(1, 4) {
					n = 1 + r.Intn(4)
				}
				for ; n > 0 && tr.Car[1-s].Pending() > 0; n-- {
					cs.do("d:" + sideName[s])
				}
				return true
			}
		}
	case pick(pf.Data):
		id, ok := cs.pickStream(side)
		if !ok {
			return false
		}
		if r.Chance(1, 2) {
			if tr.InFlightOn(side, 'r', id) {
				return false
			}
			cs.do(fmt.Sprintf("r:%s:%d:%d", S, id, cs.sizeFor(tr.Cfg[side].Window)))
		} else {
			if tr.InFlightOn(side, 'w', id) || stalled || cs.muxClosed && r.Chance(3, 4) {
				return false
			}
			n := cs.sizeFor(tr.Cfg[1-side].Window)
			if n > 200 {
				n = 200
			}
			cs.do(fmt.Sprintf("w:%s:%d:%s", S, id, hx.Hex(cs.payload(side, id, n))))
		}
		return true
	case pick(pf.ZeroLen):
		id, ok := cs.pickStream(side)
		if !ok {
			return false
		}
		if pf.ZeroReads && r.Chance(2, 3) {
			if tr.InFlightOn(side, 'r', id) {
				return false
			}
			cs.do(fmt.Sprintf("r:%s:%d:0", S, id))
		} else {
			if tr.InFlightOn(side, 'w', id) || stalled {
				return false
			}
			cs.do(fmt.Sprintf("w:%s:%d:-", S, id))
		}
		return true
	case pick(pf.Shut):
		// CloseWrite racing with a Write that is blocked mid-payload and is about
		// to receive more window
		if id, ok := cs.raceCandidate(side); ok && r.Chance(2, 3) {
			cs.do(fmt.Sprintf("dcw:%s:%d", S, id))
			return true
		}
		id, ok := cs.pickStream(side)
		if !ok {
			return false
		}
		if r.Chance(1, 2) {
			cs.do(fmt.Sprintf("cw:%s:%d", S, id))
		} else {
			cs.do(fmt.Sprintf("c:%s:%d", S, id))
		}
		return true
	case pick(pf.OpenClose):
		switch r.Intn(5) {
		case 0, 1:
			if stalled || cs.muxClosed && r.Chance(3, 4) {
				return false
			}
			cs.do("o:" + S)
		case 2, 3:
			if stalled || cs.muxClosed || len(tr.InFlight(side, 'a')) > 0 {
				return false
			}
			cs.do("a:" + S)
		default:
			var cand []int
			for _, o := range tr.Ops() {
				if !o.Done && (o.Kind == 'o' || o.Kind == 'a') {
					cand = append(cand, o.Idx)
				}
			}
			if len(cand) == 0 {
				return false
			}
			cs.do(fmt.Sprintf("x:%d", cand[r.Intn(len(cand))]))
		}
		return true
	case pick(pf.Deadline):
		if r.Chance(1, 3) {
			cs.do(fmt.Sprintf("t:%d", 2*(1+r.Intn(40))))
			return true
		}
		id, ok := cs.pickStream(side)
		if !ok {
			return false
		}
		k := "z"
		switch r.Intn(4) {
		case 0:
			k = "p"
		case 1, 2:
			k = fmt.Sprintf("f%d", 2*r.Intn(60)+1)
		}
		cs.do(fmt.Sprintf("%s:%s:%d:%s", r.Pick("dr", "dw"), S, id, k))
		return true
	case pick(pf.Stall):
		if stalled {
			cs.do("us:" + S)
			return true
		}
		if cs.muxClosed || tr.Cfg[side].Buffers > 1 || len(tr.InFlight(side, 'a')) > 0 || len(tr.InFlight(side, 'w')) > 0 {
			return false
		}
		cs.do("st:" + S)
		return true
	case pick(pf.MuxClose):
		if cs.muxClosed || len(cs.toks) < 6 {
			return false
		}
		cs.do("mc:" + S)
		return true
	}
	return false
}

// injectTail ends a case with adversarial frames fed straight to a reader.
func (cs *caseState) injectTail() {
	r, tr := cs.r, cs.tr
	n := 1 + r.Intn(3)
	for i := 0; i < n && !cs.muxClosed; i++ {
		side := r.Intn(2)
		kind := r.Intn(9)
		var id uint64
		if ids := tr.StreamIDs(side); len(ids) > 0 && r.Chance(3, 4) {
			id = ids[r.Intn(len(ids))]
		} else {
			id = uint64(r.Intn(8))
		}
		if r.Chance(1, 6) {
			id += uint64(r.Intn(4))
		}
		f := Frame{Kind: byte(kind), ID: id}
		switch kind {
		case 1, 2, 4:
			f.Arg = uint64(r.Intn(6))
			if r.Chance(1, 8) {
				f.Arg = ^uint64(0) - uint64(r.Intn(3))
			}
		case 3:
			f.Data = r.Bytes(r.Intn(tr.Cfg[side].Window+3), 0)
		}
		cs.do(fmt.Sprintf("i:%s:%s", sideName[side], f.String()))
		cs.counts["inject-kind-"+strconv.Itoa(kind)]++
		// let the consequences play out
		for k := 0; k < 6 && !cs.muxClosed; k++ {
			if !cs.next() {
				continue
			}
		}
	}
}

// TraceResult is everything a property driver needs from one trace case.
type TraceResult struct {
	Line     string
	Out      string
	Trace    *Trace
	Problems []string
	Panic    string
	TimedOut bool
	Counts   map[string]int
}

// progress is what a trace case has done so far, readable from outside the
// bubble when the case never finishes (goroutines stuck on locks are not
// "durably blocked", so the bubble cannot detect that deadlock itself).
type progress struct {
	mu      sync.Mutex
	cfg     string
	toks    []string
	outs    []string
	pending string
}

func (p *progress) begin(tok string) {
	p.mu.Lock()
	p.pending = tok
	p.mu.Unlock()
}

func (p *progress) end(canon, out string) {
	p.mu.Lock()
	p.toks = append(p.toks, canon)
	p.outs = append(p.outs, out)
	p.pending = ""
	p.mu.Unlock()
}

func (p *progress) snapshot() (string, string) {
	p.mu.Lock()
	defer p.mu.Unlock()
	toks := append([]string(nil), p.toks...)
	outs := append([]string(nil), p.outs...)
	if p.pending != "" {
		toks = append(toks, p.pending)
		outs = append(outs, "hang")
	}
	return "T " + p.cfg + " " + strings.Join(toks, " "), strings.Join(outs, " ")
}

// traceWatchdog bounds the real time of one trace case.
const traceWatchdog = 30 * time.Second

// RunTrace runs one trace case under a real-time watchdog.
func RunTrace(t *testing.T, r *hx.Rand, prof Profile, steps int, replay []string) TraceResult {
	prog := &progress{}
	ch := make(chan TraceResult, 1)
	go func() { ch <- runTraceInner(t, r, prof, steps, replay, prog) }()
	select {
	case res := <-ch:
		return res
	case <-time.After(traceWatchdog):
		line, out := prog.snapshot()
		return TraceResult{Line: line, Out: out, TimedOut: true, Counts: map[string]int{},
			Panic: fmt.Sprintf("deadlock: trace case did not finish within %v (calls blocked for good)", traceWatchdog)}
	}
}

func cfgFor(r *hx.Rand, prof Profile) Cfg {
	c := Cfg{Window: r.Intn(9), Buffers: 1 + r.Intn(3), Backlog: 1 + r.Intn(3)}
	switch r.Intn(10) {
	case 0:
		c.Window = 0
	case 1:
		c.Window = 16 + r.Intn(64)
	case 2:
		c.Window = -1 - r.Intn(3) // normalised to 0
	}
	if r.Chance(1, 2) {
		c.Buffers = 1
	}
	if r.Chance(1, 12) {
		c.Buffers = 0 - r.Intn(2) // normalised to 1
	}
	if r.Chance(1, 12) {
		c.Backlog = 0 - r.Intn(2) // normalised to 1
	}
	return c
}

// effective mirrors Configuration.normalize for the generator's own use.
func (c Cfg) effective() Cfg {
	if c.Window < 0 {
		c.Window = 0
	}
	if c.Buffers <= 0 {
		c.Buffers = 1
	}
	if c.Backlog <= 0 {
		c.Backlog = 1
	}
	return c
}

// RunTrace runs one trace case in a synctest bubble: either a replay of the
// given tokens or a random program of about `steps` steps.
func runTraceInner(t *testing.T, r *hx.Rand, prof Profile, steps int, replay []string, prog *progress) (res TraceResult) {
	res.Counts = map[string]int{}
	defer func() {
		if p := recover(); p != nil {
			res.Panic = fmt.Sprint(p)
		}
	}()
	synctest.Test(t, func(t *testing.T) {
		var ca, cb Cfg
		var toks []string
		if replay != nil {
			ca, _ = ParseCfg(replay[1])
			cb, _ = ParseCfg(replay[2])
			toks = replay[3:]
		} else {
			ca, cb = cfgFor(r, prof), cfgFor(r, prof)
		}
		prog.mu.Lock()
		prog.cfg = ca.String() + " " + cb.String()
		prog.mu.Unlock()
		tr := NewTrace(ca, cb)
		tr.Cfg = [2]Cfg{ca.effective(), cb.effective()}
		cs := &caseState{tr: tr, r: r, prof: prof, counts: res.Counts, prog: prog,
			nextByte: [2]map[uint64]int{{}, {}}, openID: map[int]uint64{}, deadlines: map[string]int{}}
		res.Trace = tr
		if replay != nil {
			for _, tok := range toks {
				if tok == "end" {
					break
				}
				// annotations are re-observed
				if strings.HasPrefix(tok, "a:") || strings.HasPrefix(tok, "d:") {
					p := strings.Split(tok, ":")
					tok = p[0] + ":" + p[1]
				}
				if strings.HasPrefix(tok, "dcw:") {
					p := strings.Split(tok, ":")
					tok = p[0] + ":" + p[1] + ":" + p[2]
				}
				cs.do(tok)
			}
		} else {
			// a few streams first so that the program has something to work on
			pre := r.Intn(3)
			for i := 0; i < pre; i++ {
				s := r.Intn(2)
				cs.do("o:" + sideName[s])
				cs.do("d:" + sideName[1-s])
				if len(tr.InFlight(1-s, 'a')) == 0 {
					cs.do("a:" + sideName[1-s])
				}
				cs.do("d:" + sideName[s])
			}
			if pre > 0 && prof.Race > 0 && r.Intn(100) < prof.Race {
				cs.raceScenario()
				cs.counts["race-scenario"]++
			}
			tries := 0
			for len(cs.toks) < steps && tries < steps*20 {
				tries++
				cs.next()
				if cs.muxClosed && r.Chance(1, 3) {
					break
				}
			}
			if !cs.muxClosed && r.Intn(100) < prof.Inject {
				cs.injectTail()
			}
		}
		// drain what is deliverable in some cases, then end
		if replay == nil && !cs.muxClosed && r.Chance(1, 2) {
			for k := 0; k < 40 && (tr.Car[0].Pending() > 0 || tr.Car[1].Pending() > 0); k++ {
				s := r.Intn(2)
				if tr.Car[1-s].Pending() == 0 {
					s = 1 - s
				}
				cs.do("d:" + sideName[s])
			}
		}
		cs.do("end")
		res.Line = "T " + ca.String() + " " + cb.String() + " " + strings.Join(cs.toks, " ")
		res.Out = strings.Join(cs.outs, " ")
		res.Problems = cs.problems
	})
	return res
}
