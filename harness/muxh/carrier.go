// Package muxh is the shared harness of the multiplexer properties C23–C25:
// a harness-controlled multiplexing.Carrier that records and decodes every
// frame and hands frames to the peer's reader one at a time, a deterministic
// scheduler for API programs on two real multiplexers (run inside a
// testing/synctest bubble, so that "all goroutines are blocked" is an event and
// not a timeout), and a concurrent stress runner over net.Pipe.
package muxh

import (
	"encoding/binary"
	"encoding/hex"
	"errors"
	"fmt"
	"io"
	"sort"
	"strconv"
	"strings"
	"sync"
)

// Frame is one decoded wire message. Kind is the numeric kind byte as it
// appeared on the wire.
type Frame struct {
	Kind  byte
	ID    uint64
	Arg   uint64
	Data  []byte
	Batch int // sequence number of the carrier Write call it arrived in
}

// String prints the frame in the line protocol: kind.id[.arg|.hex].
func (f Frame) String() string {
	switch {
	case f.Kind == 0 || f.Kind > 6:
		return strconv.Itoa(int(f.Kind))
	case f.Kind == 1 || f.Kind == 2 || f.Kind == 4:
		return fmt.Sprintf("%d.%d.%d", f.Kind, f.ID, f.Arg)
	case f.Kind == 3:
		h := "-"
		if len(f.Data) > 0 {
			h = hex.EncodeToString(f.Data)
		}
		return fmt.Sprintf("%d.%d.%s", f.Kind, f.ID, h)
	default:
		return fmt.Sprintf("%d.%d", f.Kind, f.ID)
	}
}

// ParseFrame is the inverse of Frame.String.
func ParseFrame(s string) (Frame, error) {
	p := strings.Split(s, ".")
	k, err := strconv.Atoi(p[0])
	if err != nil || k < 0 || k > 255 {
		return Frame{}, fmt.Errorf("bad frame %q", s)
	}
	f := Frame{Kind: byte(k)}
	if len(p) > 1 {
		if f.ID, err = strconv.ParseUint(p[1], 10, 64); err != nil {
			return Frame{}, err
		}
	}
	if len(p) > 2 {
		if f.Kind == 3 {
			if p[2] != "-" {
				if f.Data, err = hex.DecodeString(p[2]); err != nil {
					return Frame{}, err
				}
			}
		} else if f.Arg, err = strconv.ParseUint(p[2], 10, 64); err != nil {
			return Frame{}, err
		}
	}
	return f, nil
}

// Encode produces the wire bytes of the frame (protocol.go layout).
func (f Frame) Encode() []byte {
	out := []byte{f.Kind}
	if f.Kind == 0 || f.Kind > 6 {
		return out
	}
	out = binary.AppendUvarint(out, f.ID)
	switch f.Kind {
	case 1, 2, 4:
		out = binary.AppendUvarint(out, f.Arg)
	case 3:
		out = binary.BigEndian.AppendUint16(out, uint16(len(f.Data)))
		out = append(out, f.Data...)
	}
	return out
}

// Decoder splits a byte stream into frames.
type Decoder struct {
	buf []byte
}

// Feed appends bytes and returns the frames completed by them.
func (d *Decoder) Feed(p []byte, batch int) ([]Frame, error) {
	d.buf = append(d.buf, p...)
	var out []Frame
	for len(d.buf) > 0 {
		f := Frame{Kind: d.buf[0], Batch: batch}
		if f.Kind > 6 {
			return out, fmt.Errorf("unknown kind %d on the wire", f.Kind)
		}
		pos := 1
		if f.Kind != 0 {
			id, n := binary.Uvarint(d.buf[pos:])
			if n == 0 {
				return out, nil
			} else if n < 0 {
				return out, errors.New("bad uvarint")
			}
			f.ID = id
			pos += n
			switch f.Kind {
			case 1, 2, 4:
				a, n := binary.Uvarint(d.buf[pos:])
				if n == 0 {
					return out, nil
				} else if n < 0 {
					return out, errors.New("bad uvarint")
				}
				f.Arg = a
				pos += n
			case 3:
				if len(d.buf) < pos+2 {
					return out, nil
				}
				l := int(binary.BigEndian.Uint16(d.buf[pos:]))
				pos += 2
				if len(d.buf) < pos+l {
					return out, nil
				}
				f.Data = append([]byte(nil), d.buf[pos:pos+l]...)
				pos += l
			}
		}
		out = append(out, f)
		d.buf = d.buf[pos:]
	}
	return out, nil
}

// Canonical orders the frames of one batch: within a run of equal kinds that
// the enqueue goroutine produced by ranging over a Go map (window increments,
// close-writes, closes), sort by stream identifier.
func Canonical(fs []Frame) []Frame {
	out := append([]Frame(nil), fs...)
	i := 0
	for i < len(out) {
		j := i
		for j < len(out) && out[j].Kind == out[i].Kind && out[j].Batch == out[i].Batch {
			j++
		}
		if k := out[i].Kind; k == 4 || k == 5 || k == 6 {
			seg := out[i:j]
			sort.SliceStable(seg, func(a, b int) bool { return seg[a].ID < seg[b].ID })
		}
		i = j
	}
	return out
}

// Carrier is a harness-controlled multiplexing.Carrier. Bytes written by the
// multiplexer are decoded into frames and queued (Out); the harness moves
// frames to the peer's reader explicitly (Feed). All blocking uses sync.Cond,
// which is durable blocking inside a synctest bubble.
type Carrier struct {
	mu      sync.Mutex
	cond    *sync.Cond
	in      []byte // delivered, not yet consumed by the reader goroutine
	inEOF   bool
	closed  bool
	stalled bool
	dec     Decoder
	batch   int
	Out     []Frame // frames written by this side, not yet delivered to the peer
	Log     []Frame // frames written by this side since the last TakeLog
	DecErr  error
	Runaway bool // the multiplexer wrote an absurd number of frames: the carrier was cut
	Peer    *Carrier
}

// maxFramesPerCase bounds what one side may write in one trace case (a runaway
// writer loop must not exhaust the memory of the harness).
const maxFramesPerCase = 50000

// NewCarrierPair creates two connected carriers.
func NewCarrierPair() (*Carrier, *Carrier) {
	a, b := &Carrier{}, &Carrier{}
	a.cond, b.cond = sync.NewCond(&a.mu), sync.NewCond(&b.mu)
	a.Peer, b.Peer = b, a
	return a, b
}

func (c *Carrier) waitInput() error {
	for len(c.in) == 0 {
		if c.closed {
			return io.ErrClosedPipe
		}
		if c.inEOF {
			return io.EOF
		}
		c.cond.Wait()
	}
	return nil
}

// Read implements io.Reader.
func (c *Carrier) Read(p []byte) (int, error) {
	c.mu.Lock()
	defer c.mu.Unlock()
	if len(p) == 0 {
		return 0, nil
	}
	if err := c.waitInput(); err != nil {
		return 0, err
	}
	n := copy(p, c.in)
	c.in = c.in[n:]
	return n, nil
}

// ReadByte implements io.ByteReader.
func (c *Carrier) ReadByte() (byte, error) {
	c.mu.Lock()
	defer c.mu.Unlock()
	if err := c.waitInput(); err != nil {
		return 0, err
	}
	b := c.in[0]
	c.in = c.in[1:]
	return b, nil
}

// Discard implements multiplexing.Carrier.
func (c *Carrier) Discard(n int) (int, error) {
	c.mu.Lock()
	defer c.mu.Unlock()
	done := 0
	for done < n {
		if err := c.waitInput(); err != nil {
			return done, err
		}
		k := n - done
		if k > len(c.in) {
			k = len(c.in)
		}
		c.in = c.in[k:]
		done += k
	}
	return done, nil
}

// Write implements io.Writer: decode, queue, then block while stalled.
func (c *Carrier) Write(p []byte) (int, error) {
	c.mu.Lock()
	defer c.mu.Unlock()
	if c.closed {
		return 0, io.ErrClosedPipe
	}
	c.batch++
	fs, err := c.dec.Feed(p, c.batch)
	if err != nil && c.DecErr == nil {
		c.DecErr = err
	}
	fs = Canonical(fs)
	c.Out = append(c.Out, fs...)
	c.Log = append(c.Log, fs...)
	if c.batch > maxFramesPerCase || len(c.Out) > maxFramesPerCase {
		c.Runaway = true
		c.closed = true
		c.cond.Broadcast()
		return len(p), io.ErrClosedPipe
	}
	for c.stalled && !c.closed {
		c.cond.Wait()
	}
	if c.closed {
		return len(p), io.ErrClosedPipe
	}
	return len(p), nil
}

// Close implements io.Closer: unblocks everything here and gives the peer's
// reader EOF.
func (c *Carrier) Close() error {
	c.mu.Lock()
	c.closed = true
	c.cond.Broadcast()
	c.mu.Unlock()
	p := c.Peer
	p.mu.Lock()
	p.inEOF = true
	p.cond.Broadcast()
	p.mu.Unlock()
	return nil
}

// SetStalled makes subsequent Write calls block (after queueing their frames).
func (c *Carrier) SetStalled(v bool) {
	c.mu.Lock()
	c.stalled = v
	c.cond.Broadcast()
	c.mu.Unlock()
}

// TakeLog returns and clears the frames written since the last call.
func (c *Carrier) TakeLog() []Frame {
	c.mu.Lock()
	defer c.mu.Unlock()
	l := c.Log
	c.Log = nil
	return l
}

// TakeLogCanonical is TakeLog after ordering the frames written since the last
// call by stream identifier (stable), in the log and in the undelivered queue:
// frames of different streams written during one step commute, and their
// order depends on goroutine scheduling.
func (c *Carrier) TakeLogCanonical() []Frame {
	c.mu.Lock()
	defer c.mu.Unlock()
	l := c.Log
	c.Log = nil
	if len(l) > 1 && len(c.Out) >= len(l) {
		sort.SliceStable(l, func(a, b int) bool { return l[a].ID < l[b].ID })
		copy(c.Out[len(c.Out)-len(l):], l)
	}
	return l
}

// Pending is the number of frames written by this side and not yet delivered.
func (c *Carrier) Pending() int {
	c.mu.Lock()
	defer c.mu.Unlock()
	return len(c.Out)
}

// PeekOut returns the oldest undelivered frame written by this side.
func (c *Carrier) PeekOut() (Frame, bool) {
	c.mu.Lock()
	defer c.mu.Unlock()
	if len(c.Out) == 0 {
		return Frame{}, false
	}
	return c.Out[0], true
}

// PopOut removes the oldest undelivered frame written by this side.
func (c *Carrier) PopOut() (Frame, bool) {
	c.mu.Lock()
	defer c.mu.Unlock()
	if len(c.Out) == 0 {
		return Frame{}, false
	}
	f := c.Out[0]
	c.Out = c.Out[1:]
	return f, true
}

// Feed hands bytes to this side's reader goroutine.
func (c *Carrier) Feed(p []byte) {
	c.mu.Lock()
	c.in = append(c.in, p...)
	c.cond.Broadcast()
	c.mu.Unlock()
}
