package muxh

import (
	"bytes"
	"fmt"
	"os"
	"sort"
	"strings"
	"testing"
	"time"

	"verif/harness/hx"
)

// traceOracle evaluates the property's own predicate on one finished trace.
func traceOracle(prop string, res TraceResult) string {
	tr := res.Trace
	if res.Panic != "" {
		if strings.Contains(res.Panic, "deadlock") || strings.Contains(res.Panic, "blocked") {
			if prop == "C25" {
				return "class=hang " + res.Panic
			}
			return ""
		}
		return "class=panic " + res.Panic
	}
	if res.TimedOut {
		if prop == "C25" {
			return "class=hang " + res.Panic
		}
		return ""
	}
	if tr == nil {
		return "class=panic no trace"
	}
	for side := 0; side < 2; side++ {
		if tr.Car[side].Runaway {
			return fmt.Sprintf("class=runaway side %s wrote more than %d frames in one case", sideName[side], maxFramesPerCase)
		}
	}
	switch prop {
	case "C23":
		if tr.Injected {
			return ""
		}
		for side := 0; side < 2; side++ {
			var ids []uint64
			for id := range tr.ReadBack[side] {
				ids = append(ids, id)
			}
			sort.Slice(ids, func(i, j int) bool { return ids[i] < ids[j] })
			for _, id := range ids {
				got, sent := tr.ReadBack[side][id], tr.Written[1-side][id]
				if !bytes.HasPrefix(sent, got) {
					return fmt.Sprintf("class=stream-bytes stream %d: side %s read %x, peer wrote %x", id, sideName[side], got, sent)
				}
			}
			for id := range tr.EOFSeen[side] {
				peerHasHandle := tr.Streams[1-side][id] != nil
				if peerHasHandle && !tr.HalfShut[1-side][id] {
					return fmt.Sprintf("class=early-eof stream %d: side %s saw EOF but the peer never closed", id, sideName[side])
				}
				if !bytes.Equal(tr.ReadBack[side][id], tr.Written[1-side][id]) {
					return fmt.Sprintf("class=early-eof stream %d: side %s saw EOF after %d of %d bytes", id, sideName[side], len(tr.ReadBack[side][id]), len(tr.Written[1-side][id]))
				}
			}
		}
	case "C24":
		// A reader rejected a frame that a conforming peer produced.
		toks := strings.Fields(res.Line)[3:]
		outs := strings.Fields(res.Out)
		for i, o := range outs {
			if k := strings.Index(o, "rej:"); k >= 0 && i < len(toks) && strings.HasPrefix(toks[i], "d:") {
				injectedBefore := false
				for _, t := range toks[:i] {
					if strings.HasPrefix(t, "i:") {
						injectedBefore = true
					}
				}
				if injectedBefore {
					continue
				}
				name := o[k+4:]
				if j := strings.IndexByte(name, '|'); j >= 0 {
					name = name[:j]
				}
				cls := "teardown"
				switch name {
				case "zeroIncrement":
					cls = "zero-increment"
				case "openNotMonotone":
					cls = "open-reorder"
				}
				return fmt.Sprintf("class=%s step %d (%s): the peer's reader rejected the frame: %s", cls, i, toks[i], name)
			}
		}
		for side := 0; side < 2; side++ {
			if tr.Car[side].DecErr != nil {
				return fmt.Sprintf("class=teardown side %s wrote bytes that do not decode: %v", sideName[side], tr.Car[side].DecErr)
			}
		}
	case "C25":
		if len(res.Problems) > 0 {
			return res.Problems[0]
		}
		if len(tr.Hung) > 0 {
			return "class=hang calls that never returned: " + strings.Join(tr.Hung, ",")
		}
	}
	return ""
}

func stressParams(r *hx.Rand, prof Profile, big bool) StressParams {
	p := StressParams{Seed: r.U64() >> 1}
	for i := 0; i < 2; i++ {
		p.Cfg[i] = Cfg{Window: 1 + r.Intn(40), Buffers: 1 + r.Intn(4), Backlog: 1 + r.Intn(6)}
		if r.Chance(1, 4) {
			p.Cfg[i].Window = 1 + r.Intn(3)
		}
		if r.Chance(1, 6) {
			p.Cfg[i].Window = 65535
		}
		if r.Chance(1, 3) {
			p.Cfg[i].Buffers = 1
		}
	}
	p.Heartbeat = r.Chance(1, 3)
	p.Streams = [2]int{1 + r.Intn(6), r.Intn(5)}
	p.Bytes = 1 + r.Intn(600)
	if big && r.Chance(1, 5) {
		p.Bytes = 60000 + r.Intn(150000)
		p.Cfg[0].Window, p.Cfg[1].Window = 65535, 4096+r.Intn(70000)
	}
	p.Stallers = r.Intn(3)
	p.Burst = r.Chance(1, 3)
	p.Deadlines = r.Chance(1, 3)
	p.ZeroOps = r.Chance(1, 2)
	p.ZeroReads = prof.ZeroReads && r.Chance(1, 2)
	p.ConcOpen = prof.ConcOpen
	p.UseClose = r.Chance(1, 3)
	if prof.Race > 0 && r.Chance(2, 5) {
		// dedicated round: CloseWrite races with multi-block Writes, small windows
		p.CWRace, p.UseClose, p.Deadlines, p.Burst = true, false, false, false
		p.Streams = [2]int{3 + r.Intn(6), 1 + r.Intn(4)}
		p.Bytes = 300 + r.Intn(5000)
		for i := 0; i < 2; i++ {
			p.Cfg[i].Window = 2 + r.Intn(63)
			p.Cfg[i].Buffers = 2 + r.Intn(3)
		}
	}
	return p
}

func pickStress(prop string, res *StressResult) string {
	var l []string
	switch prop {
	case "C23":
		l = res.C23
	case "C24":
		l = res.C24
	case "C25":
		l = res.C25
	}
	if len(l) > 0 {
		return l[0]
	}
	return ""
}

// Run is the main function of the C23/C24/C25 drivers.
func Run(prop string) {
	prof := Profiles[prop]
	saved := os.Args
	os.Args = saved[:1]
	testing.Main(func(pat, str string) (bool, error) { return true, nil },
		[]testing.InternalTest{{Name: prop, F: func(t *testing.T) {
			os.Args = saved
			hx.Main(prop, func(c *hx.Ctx) { drive(c, t, prop, prof) })
		}}}, nil, nil)
}

func drive(c *hx.Ctx, t *testing.T, prop string, prof Profile) {
	emitTrace := func(res TraceResult) {
		oracle := traceOracle(prop, res)
		key := ""
		if res.Trace != nil {
			// non-trivial: something was blocked, rejected, expired, refused or torn down
			for _, w := range []string{"rejected", "deadline", "eof", "closed", "rej:", "canceled", "/ok,"} {
				if strings.Contains(res.Out, w) {
					key = res.Out
					break
				}
			}
		}
		if res.Panic != "" && res.Line == "" {
			res.Line, res.Out = "T panic", "panic:"+res.Panic
		}
		for k, v := range res.Counts {
			for i := 0; i < v; i++ {
				c.Count("step-" + k)
			}
		}
		c.Case(res.Line, res.Out, oracle, key)
	}
	hangs := 0
	emitStress := func(p StressParams) {
		if hangs >= 3 {
			// every further workload would sit out its watchdog as well
			c.Count("stress-skipped-after-hangs")
			return
		}
		res := RunStress(p, 90*time.Second)
		if len(res.C25) > 0 {
			hangs++
		}
		oracle := pickStress(prop, res)
		for k, v := range res.Stats {
			for i := 0; i < v; i++ {
				c.Count("stress-" + k)
			}
		}
		c.Count("stress")
		c.Case(p.String(), "ok", oracle, fmt.Sprintf("S%d/%d/%v", res.Frames[0], res.Frames[1], p))
	}
	if lines := c.ReplayLines(); lines != nil {
		for _, l := range lines {
			f := strings.Fields(l)
			if len(f) > 0 && f[0] == "S" {
				p, err := ParseStress(l)
				if err != nil {
					c.Case(l, "bad-line", "", "")
					continue
				}
				emitStress(p)
			} else if len(f) >= 3 && f[0] == "T" {
				emitTrace(RunTrace(t, c.R, prof, 0, f))
			} else {
				c.Case(l, "bad-line", "", "")
			}
		}
		return
	}
	// Directed programs first (short, every API call at least once).
	for _, l := range directed(prof) {
		emitTrace(RunTrace(t, c.R, prof, 0, strings.Fields(l)))
		c.Count("directed")
	}
	defer func() { c.Note(fmt.Sprintf("race timing: final spin %.0f iterations", raceSpin)) }()
	nTrace := c.Size(8000, 300000)
	nStress := c.Size(100, 4000)
	timeouts := 0
	for i := 0; i < nTrace; i++ {
		if timeouts >= 3 {
			c.Note("trace generation stopped after 3 cases that never finished")
			break
		}
		steps := 6 + c.R.Intn(40)
		if c.R.Chance(1, 10) {
			steps = 60 + c.R.Intn(80)
		}
		tres := RunTrace(t, c.R, prof, steps, nil)
		if tres.TimedOut {
			timeouts++
		}
		emitTrace(tres)
		c.Count("trace")
		if i%((nTrace/nStress)+1) == 0 {
			emitStress(stressParams(c.R, prof, c.Thorough()))
		}
	}
}

// directed lists hand-written schedules: the known defect scenarios and one
// of every exit of every blocking call.
func directed(prof Profile) []string {
	l := []string{
		// open/accept/data/half-close/close round trip
		"T 4,1,1 4,1,1 o:A d:B a:B d:A w:A:1:0102030405 d:B r:B:1:3 d:A r:B:1:9 cw:A:1 d:B d:B r:B:1:1 c:B:1 d:A d:A r:A:1:1 c:A:1 d:B end",
		// backlog overflow: second open is refused, the opener closes its end too
		"T 4,1,1 4,1,1 o:A o:A d:B d:B d:A a:B d:A d:B end",
		// cancelled open, stale accept
		"T 4,2,2 4,2,2 o:A d:B x:0 d:B a:B a:B o:A d:B d:A end",
		// blocked read: deadline, local close, remote close, mux close
		"T 4,1,1 4,1,1 o:A d:B a:B d:A r:A:1:2 dr:A:1:f5 t:10 r:A:1:2 dr:A:1:z r:A:1:2 c:B:1 d:A r:B:1:1 end",
		"T 4,1,1 4,1,1 o:A d:B a:B d:A r:A:1:2 w:A:1:0102030405060708 c:A:1 r:B:1:1 mc:B end",
		// writer blocked on window does not keep the only write buffer
		"T 9,1,2 2,1,2 o:A o:A d:B d:B a:B a:B d:A d:A w:A:1:010203040506 w:A:3:0a0b d:B d:B r:B:3:2 d:A r:B:1:2 d:A d:B r:B:1:9 end",
		// CloseWrite arrives together with the increment a blocked multi-chunk Write waits for
		"T 4,1,1 4,1,1 o:A d:B a:B d:A w:A:1:0102030405060708090a d:B r:B:1:3 dcw:A:1 d:B d:B d:B r:B:1:9 r:B:1:9 r:B:1:9 end",
		// stall: increments aggregate, close cancels them
		"T 8,1,2 8,1,2 o:A d:B a:B d:A o:A d:B a:B d:A w:A:1:01020304 w:A:3:0506 d:B d:B st:B r:B:1:1 r:B:1:1 r:B:3:1 r:B:1:1 c:B:3 us:B d:A d:A d:A end",
	}
	if prof.ZeroReads {
		// the C24 scenario: zero-length read while data is buffered
		l = append(l, "T 8,1,1 8,1,1 o:A d:B a:B d:A w:A:1:01 d:B r:B:1:0 d:A end")
	}
	return l
}
