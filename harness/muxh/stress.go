package muxh

import (
	"bytes"
	"context"
	"errors"
	"fmt"
	"io"
	"net"
	"os"
	"runtime"
	"strings"
	"sync"
	"sync/atomic"
	"time"

	"github.com/mutagen-io/mutagen/pkg/multiplexing"

	"verif/harness/hx"
)

// recConn records and decodes everything written to one end of a pipe.
type recConn struct {
	net.Conn
	mu     sync.Mutex
	dec    Decoder
	frames []Frame
	err    error
	n      int
}

func (c *recConn) Write(p []byte) (int, error) {
	c.mu.Lock()
	if len(c.frames) > 2000000 {
		// runaway writer: cut the connection instead of exhausting memory
		c.mu.Unlock()
		c.Conn.Close()
		return 0, io.ErrClosedPipe
	}
	c.n++
	fs, err := c.dec.Feed(p, c.n)
	c.frames = append(c.frames, fs...)
	if err != nil && c.err == nil {
		c.err = err
	}
	c.mu.Unlock()
	return c.Conn.Write(p)
}

// StressParams describes one concurrent workload.
type StressParams struct {
	Seed      uint64
	Cfg       [2]Cfg
	Heartbeat bool
	Streams   [2]int // streams opened by each side
	Bytes     int    // bytes per stream direction
	Stallers  int    // streams whose reader sleeps before reading (head-of-line check)
	Burst     bool   // open more streams than the backlog before accepting
	Deadlines bool   // readers/writers use short deadlines and retry
	ZeroOps   bool   // empty writes mixed in
	ZeroReads bool   // zero-length reads mixed in
	ConcOpen  bool   // all opens of a side run concurrently (else one after the other)
	UseClose  bool   // end streams with Close instead of CloseWrite on one side
	CWRace    bool   // CloseWrite from another goroutine while a multi-block Write is in progress
}

func (p StressParams) String() string {
	b := func(v bool) int {
		if v {
			return 1
		}
		return 0
	}
	return fmt.Sprintf("S %d %s %s hb%d o%d,%d n%d st%d bu%d dl%d z%d cl%d zr%d co%d cwr%d concurrent-stress-workload-over-net.Pipe(seed,cfgA,cfgB,heartbeat,opens,bytes,stallers,burst,deadlines,emptywrites,close,zeroreads,concurrentopens)", p.Seed, p.Cfg[0], p.Cfg[1], b(p.Heartbeat),
		p.Streams[0], p.Streams[1], p.Bytes, p.Stallers, b(p.Burst), b(p.Deadlines), b(p.ZeroOps), b(p.UseClose), b(p.ZeroReads), b(p.ConcOpen), b(p.CWRace))
}

// ParseStress parses a line produced by StressParams.String.
func ParseStress(line string) (StressParams, error) {
	var p StressParams
	var ca, cb string
	var hb, bu, dl, z, cl, zr, co, cwr int
	_, err := fmt.Sscanf(line, "S %d %s %s hb%d o%d,%d n%d st%d bu%d dl%d z%d cl%d zr%d co%d cwr%d", &p.Seed, &ca, &cb, &hb,
		&p.Streams[0], &p.Streams[1], &p.Bytes, &p.Stallers, &bu, &dl, &z, &cl, &zr, &co, &cwr)
	if err != nil {
		return p, err
	}
	if p.Cfg[0], err = ParseCfg(ca); err != nil {
		return p, err
	}
	if p.Cfg[1], err = ParseCfg(cb); err != nil {
		return p, err
	}
	p.Heartbeat, p.Burst, p.Deadlines, p.ZeroOps, p.UseClose = hb == 1, bu == 1, dl == 1, z == 1, cl == 1
	p.ZeroReads, p.ConcOpen, p.CWRace = zr == 1, co == 1, cwr == 1
	return p, nil
}

// StressResult carries the verdicts of the three properties' oracles.
type StressResult struct {
	C23    []string // byte stream findings
	C24    []string // tear-down findings
	C25    []string // hang findings
	Frames [2]int
	Stats  map[string]int
}

func pattern(side int, id uint64, n int) []byte {
	b := make([]byte, n)
	for i := range b {
		b[i] = byte(int(id)*131 + side*17 + i*7 + i/251)
	}
	return b
}

type stressRun struct {
	p     StressParams
	mux   [2]*multiplexing.Multiplexer
	mu    sync.Mutex
	res   *StressResult
	stats map[string]*int64
	// failures of CloseWrite/Close: consequences when a tear-down is reported
	closeNotes []string
	// sum of the counts returned by Write per (side, stream), sent when the writer is done
	written sync.Map
	// bytes read so far by the peer per writing (side, stream)
	progress sync.Map
}

// readProgress counts the bytes of (side, stream)'s data the peer has read so far.
func (s *stressRun) readProgress(side int, id uint64) *int64 {
	v, _ := s.progress.LoadOrStore(fmt.Sprintf("%d/%d", side, id), new(int64))
	return v.(*int64)
}

func (s *stressRun) writtenCh(side int, id uint64) chan int {
	ch, _ := s.written.LoadOrStore(fmt.Sprintf("%d/%d", side, id), make(chan int, 1))
	return ch.(chan int)
}

func (s *stressRun) note(list *[]string, format string, a ...any) {
	s.mu.Lock()
	if len(*list) < 8 {
		*list = append(*list, fmt.Sprintf(format, a...))
	}
	s.mu.Unlock()
}

func (s *stressRun) count(label string) {
	s.mu.Lock()
	v := s.stats[label]
	if v == nil {
		v = new(int64)
		s.stats[label] = v
	}
	s.mu.Unlock()
	atomic.AddInt64(v, 1)
}

// writer sends the pattern of (side, id) in random chunks, then half-closes.
func (s *stressRun) writer(r *hx.Rand, side int, st *multiplexing.Stream, id uint64, useClose bool) {
	data := pattern(side, id, s.p.Bytes)
	maxChunk := s.p.Cfg[1-side].effective().Window*2 + 3
	total := 0
	defer func() { s.writtenCh(side, id) <- total }()
	if s.p.CWRace && !useClose {
		// one or two Writes spanning many blocks; another goroutine closes for
		// writing while they are in progress
		maxChunk = len(data)
		go func() {
			// strike while the Write is in the middle of its payload: wait until
			// the peer has read a random part of it (or a while, whichever is first)
			target := int64(1 + r.Intn(len(data)))
			prog := s.readProgress(side, id)
			deadline := time.Now().Add(time.Duration(200+r.Intn(3000)) * time.Microsecond)
			for atomic.LoadInt64(prog) < target && time.Now().Before(deadline) {
				runtime.Gosched()
			}
			if err := st.CloseWrite(); err != nil {
				s.note(&s.closeNotes, "class=teardown CloseWrite on %d/%d: %v", side, id, err)
			}
			s.count("racing-closewrite")
		}()
	}
	for len(data) > 0 {
		if s.p.ZeroOps && r.Chance(1, 6) {
			if n, err := st.Write(nil); errors.Is(err, os.ErrDeadlineExceeded) {
				st.SetWriteDeadline(time.Time{})
			} else if s.p.CWRace && err == multiplexing.ErrWriteClosed {
				return
			} else if n != 0 || (err != nil && err != multiplexing.ErrMultiplexerClosed) {
				s.note(&s.res.C23, "class=stream-bytes empty Write returned %d,%v on %d/%d", n, err, side, id)
			}
			s.count("empty-write")
		}
		k := 1 + r.Intn(maxChunk)
		if k > len(data) {
			k = len(data)
		}
		if s.p.Deadlines && r.Chance(1, 4) {
			st.SetWriteDeadline(time.Now().Add(time.Duration(50+r.Intn(400)) * time.Microsecond))
		}
		n, err := st.Write(data[:k])
		data = data[n:]
		total += n
		if err != nil {
			if s.p.CWRace && err == multiplexing.ErrWriteClosed {
				if n < k {
					s.count("write-cut-by-closewrite")
				}
				return
			}
			if errors.Is(err, os.ErrDeadlineExceeded) {
				s.count("write-deadline")
				st.SetWriteDeadline(time.Time{})
				continue
			}
			if err == multiplexing.ErrMultiplexerClosed {
				s.count("aborted-by-mux-close")
				return
			}
			s.note(&s.res.C23, "class=stream-bytes Write failed on %d/%d: %v", side, id, err)
			return
		}
		if n != k {
			s.note(&s.res.C23, "class=stream-bytes short Write without error on %d/%d", side, id)
		}
	}
	if useClose {
		// Close only after the peer direction has been fully read by our reader; the caller does that.
		return
	}
	if err := st.CloseWrite(); err != nil {
		s.note(&s.closeNotes, "class=teardown CloseWrite on %d/%d: %v", side, id, err)
	}
}

// reader reads the peer's pattern until EOF and compares.
func (s *stressRun) reader(r *hx.Rand, side int, st *multiplexing.Stream, id uint64, stall bool) {
	want := pattern(1-side, id, s.p.Bytes)
	var got []byte
	if stall {
		time.Sleep(time.Duration(3+r.Intn(5)) * time.Millisecond)
		s.count("stalled-reader")
	}
	maxBuf := s.p.Cfg[side].effective().Window + 4
	for {
		n := 1 + r.Intn(maxBuf)
		if s.p.CWRace {
			// many small reads = a steady stream of window increments towards the writer
			n = 1 + r.Intn(3)
		}
		if s.p.ZeroReads && r.Chance(1, 5) {
			n = 0
			s.count("zero-read")
		}
		if s.p.Deadlines && r.Chance(1, 4) {
			st.SetReadDeadline(time.Now().Add(time.Duration(50+r.Intn(400)) * time.Microsecond))
		}
		buf := make([]byte, n)
		m, err := st.Read(buf)
		got = append(got, buf[:m]...)
		if m > 0 && s.p.CWRace {
			atomic.AddInt64(s.readProgress(1-side, id), int64(m))
		}
		if !bytes.HasPrefix(want, got) {
			s.note(&s.res.C23, "class=stream-bytes stream %d read by side %d: got %d bytes that are not a prefix of what the peer wrote (first difference at %d)", id, side, len(got), firstDiff(want, got))
			return
		}
		if err == io.EOF {
			// everything the peer's Write calls reported as written must have been read
			select {
			case n := <-s.writtenCh(1-side, id):
				if len(got) != n {
					s.note(&s.res.C23, "class=early-eof stream %d side %d: EOF after %d bytes, the peer's Write calls returned %d", id, side, len(got), n)
				}
			case <-time.After(60 * time.Second):
				if isClosedCh(s.mux[0].Closed()) || isClosedCh(s.mux[1].Closed()) {
					s.count("aborted-by-mux-close")
				} else {
					s.note(&s.res.C23, "class=early-eof stream %d side %d: EOF while the peer is still writing", id, side)
				}
			}
			return
		}
		if err != nil {
			if errors.Is(err, os.ErrDeadlineExceeded) {
				s.count("read-deadline")
				st.SetReadDeadline(time.Time{})
				continue
			}
			if err == multiplexing.ErrMultiplexerClosed {
				s.count("aborted-by-mux-close")
				return
			}
			s.note(&s.res.C23, "class=stream-bytes Read failed on stream %d side %d after %d bytes: %v", id, side, len(got), err)
			return
		}
		if n > 0 && m == 0 {
			s.note(&s.res.C23, "class=stream-bytes Read returned 0,nil for a non-empty buffer on stream %d side %d", id, side)
			return
		}
	}
}

func firstDiff(a, b []byte) int {
	for i := 0; i < len(a) && i < len(b); i++ {
		if a[i] != b[i] {
			return i
		}
	}
	if len(a) < len(b) {
		return len(a)
	}
	return len(b)
}

// serve runs both directions of one established stream end.
func (s *stressRun) serve(r *hx.Rand, side int, st *multiplexing.Stream, wg *sync.WaitGroup) {
	defer wg.Done()
	id := streamID(st)
	useClose := s.p.UseClose && side == int(id%2)
	stall := int(id/2)%7 < s.p.Stallers && side == 1
	var inner sync.WaitGroup
	inner.Add(2)
	rw, rr := r.Fork(), r.Fork()
	go func() { defer inner.Done(); s.writer(rw, side, st, id, useClose) }()
	go func() { defer inner.Done(); s.reader(rr, side, st, id, stall) }()
	inner.Wait()
	if err := st.Close(); err != nil {
		s.note(&s.closeNotes, "class=teardown Close on %d/%d: %v", side, id, err)
	}
}

// RunStress runs one concurrent workload on two real multiplexers over
// net.Pipe, under a watchdog.
func RunStress(p StressParams, watchdog time.Duration) *StressResult {
	res := &StressResult{Stats: map[string]int{}}
	s := &stressRun{p: p, res: res, stats: map[string]*int64{}}
	r := hx.NewRand(p.Seed)
	p1, p2 := net.Pipe()
	rec := [2]*recConn{{Conn: p1}, {Conn: p2}}
	for i := 0; i < 2; i++ {
		c := p.Cfg[i]
		cfg := &multiplexing.Configuration{StreamReceiveWindow: c.Window, WriteBufferCount: c.Buffers, AcceptBacklog: c.Backlog}
		if p.Heartbeat {
			cfg.HeartbeatTransmitInterval = 300 * time.Microsecond
			cfg.MaximumHeartbeatReceiveInterval = 30 * time.Second
		}
		s.mux[i] = multiplexing.Multiplex(multiplexing.NewCarrierFromStream(rec[i]), i == 1, cfg)
	}
	done := make(chan struct{})
	var wg sync.WaitGroup
	ctx, cancel := context.WithCancel(context.Background())
	total := p.Streams[0] + p.Streams[1]
	var accepted int64
	// acceptors
	for side := 0; side < 2; side++ {
		side := side
		want := p.Streams[1-side]
		ra := r.Fork()
		wg.Add(1)
		go func() {
			defer wg.Done()
			if p.Burst {
				time.Sleep(2 * time.Millisecond)
			}
			for i := 0; i < want; i++ {
				st, err := s.mux[side].AcceptStream(ctx)
				if err != nil {
					if err != multiplexing.ErrMultiplexerClosed {
						s.note(&res.C25, "class=hang accept %d on side %d failed: %v", i, side, err)
					}
					return
				}
				atomic.AddInt64(&accepted, 1)
				wg.Add(1)
				go s.serve(ra.Fork(), side, st, &wg)
			}
		}()
	}
	// openers: all concurrently (identifier allocation races with transmission)
	// or, per side, one after the other
	var openLock [2]sync.Mutex
	for side := 0; side < 2; side++ {
		for i := 0; i < p.Streams[side]; i++ {
			side := side
			ro := r.Fork()
			wg.Add(1)
			go func() {
				defer wg.Done()
				if !p.ConcOpen {
					openLock[side].Lock()
					defer openLock[side].Unlock()
				}
				for attempt := 0; ; attempt++ {
					st, err := s.mux[side].OpenStream(ctx)
					if err == multiplexing.ErrStreamRejected {
						s.count("open-rejected")
						time.Sleep(200 * time.Microsecond)
						continue
					}
					if err != nil {
						if err != multiplexing.ErrMultiplexerClosed {
							s.note(&res.C25, "class=hang open on side %d failed: %v", side, err)
						}
						return
					}
					wg.Add(1)
					go s.serve(ro.Fork(), side, st, &wg)
					return
				}
			}()
		}
	}
	go func() { wg.Wait(); close(done) }()
	timer := time.NewTimer(watchdog)
	select {
	case <-done:
		timer.Stop()
	case <-timer.C:
		// A torn-down connection explains a stall; report that first.
		torn := false
		for i := 0; i < 2; i++ {
			if e := s.mux[i].InternalError(); e != nil {
				torn = true
			}
		}
		if !torn {
			buf := make([]byte, 1<<16)
			buf = buf[:runtime.Stack(buf, true)]
			s.note(&res.C25, "class=hang workload did not finish within %v (%d of %d streams accepted); goroutines: %s", watchdog, atomic.LoadInt64(&accepted), total, summarizeStacks(string(buf)))
		}
	}
	// C24: nobody was torn down.
	order := []int{0, 1}
	if RejectName(s.mux[0].InternalError()) == "carrier" {
		order = []int{1, 0}
	}
	for _, i := range order {
		if e := s.mux[i].InternalError(); e != nil {
			name := RejectName(e)
			cls := "teardown"
			switch name {
			case "zeroIncrement":
				cls = "zero-increment"
			case "openNotMonotone":
				cls = "open-reorder"
			}
			s.note(&res.C24, "class=%s side %d internal error: %s", cls, i, name)
		} else if isClosedCh(s.mux[i].Closed()) {
			s.note(&res.C24, "class=teardown side %d closed without an explicit Close", i)
		}
	}
	s.mu.Lock()
	res.C24 = append(res.C24, s.closeNotes...)
	s.mu.Unlock()
	cancel()
	s.mux[0].Close()
	s.mux[1].Close()
	<-waitOrTimeout(done, 5*time.Second)
	for i := 0; i < 2; i++ {
		rec[i].mu.Lock()
		res.Frames[i] = len(rec[i].frames)
		for _, v := range wireCheck(rec[i].frames) {
			s.note(&res.C24, "%s (written by side %d)", v, i)
		}
		rec[i].mu.Unlock()
	}
	s.mu.Lock()
	for k, v := range s.stats {
		res.Stats[k] = int(atomic.LoadInt64(v))
	}
	s.mu.Unlock()
	return res
}

func waitOrTimeout(done chan struct{}, d time.Duration) <-chan struct{} {
	out := make(chan struct{})
	go func() {
		select {
		case <-done:
		case <-time.After(d):
		}
		close(out)
	}()
	return out
}

func summarizeStacks(dump string) string {
	var keep []string
	for _, g := range strings.Split(dump, "\n\n") {
		if strings.Contains(g, "pkg/multiplexing") {
			lines := strings.Split(g, "\n")
			if len(lines) > 3 {
				keep = append(keep, strings.TrimSpace(lines[0])+" @ "+strings.TrimSpace(lines[1]))
			}
		}
		if len(keep) >= 8 {
			break
		}
	}
	return strings.Join(keep, " ;; ")
}

// wireCheck validates what one side put on the wire, independent of any local
// state of the receiver: the sender-side obligations of the protocol.
func wireCheck(fs []Frame) []string {
	var out []string
	closed := map[uint64]bool{}
	closedWrite := map[uint64]bool{}
	var lastOpen uint64
	for i, f := range fs {
		bad := func(cls, format string, a ...any) {
			if len(out) < 4 {
				out = append(out, fmt.Sprintf("class=%s frame #%d %s: ", cls, i, f)+fmt.Sprintf(format, a...))
			}
		}
		if f.Kind == 0 {
			continue
		}
		if f.ID == 0 {
			bad("teardown", "zero stream identifier")
		}
		switch f.Kind {
		case 1:
			if f.ID <= lastOpen {
				bad("open-reorder", "open identifiers not increasing (previous %d)", lastOpen)
			}
			lastOpen = f.ID
		case 3:
			if len(f.Data) == 0 {
				bad("teardown", "zero-length data")
			}
			if closedWrite[f.ID] || closed[f.ID] {
				bad("teardown", "data after close-write/close")
			}
		case 4:
			if f.Arg == 0 {
				bad("zero-increment", "zero-valued window increment")
			}
			if closed[f.ID] {
				bad("teardown", "increment after close")
			}
		case 5:
			if closedWrite[f.ID] || closed[f.ID] {
				bad("teardown", "close-write after close-write/close")
			}
			closedWrite[f.ID] = true
		case 6:
			if closed[f.ID] {
				bad("teardown", "close twice")
			}
			closed[f.ID] = true
		}
	}
	return out
}
