// Package corex holds helpers shared by the C01–C07 implementation drivers:
// small, independently written reference functions on core.Entry trees (used
// by the oracles, never by the code under test) and the plumbing to run
// core.Reconcile on encoded triples.
package corex

import (
	"bytes"
	"strings"

	"github.com/mutagen-io/mutagen/pkg/synchronization/core"

	"verif/harness/hx"
)

// SyncKind reports whether the kind is directory, file or symbolic link.
func SyncKind(k core.EntryKind) bool {
	return k == core.EntryKind_Directory || k == core.EntryKind_File || k == core.EntryKind_SymbolicLink
}

// IsDirKind reports whether e is a (phantom) directory.
func IsDirKind(e *core.Entry) bool {
	return e != nil && (e.Kind == core.EntryKind_Directory || e.Kind == core.EntryKind_PhantomDirectory)
}

// Filter is the reference "synchronizable part" of a tree: the tree with
// every untracked, problematic and phantom sub-tree removed (nil if the root
// itself is one of those).
func Filter(e *core.Entry) *core.Entry {
	if e == nil || !SyncKind(e.Kind) {
		return nil
	}
	out := &core.Entry{Kind: e.Kind, Executable: e.Executable, Digest: e.Digest, Target: e.Target, Problem: e.Problem}
	for n, c := range e.Contents {
		if fc := Filter(c); fc != nil {
			if out.Contents == nil {
				out.Contents = make(map[string]*core.Entry)
			}
			out.Contents[n] = fc
		}
	}
	return out
}

// Nodes counts the nodes of a tree.
func Nodes(e *core.Entry) uint64 {
	if e == nil {
		return 0
	}
	n := uint64(1)
	for _, c := range e.Contents {
		n += Nodes(c)
	}
	return n
}

// HasUnsync reports whether the tree contains an entry that is not a
// directory, file or symbolic link.
func HasUnsync(e *core.Entry) bool {
	if e == nil {
		return false
	}
	if !SyncKind(e.Kind) {
		return true
	}
	for _, c := range e.Contents {
		if HasUnsync(c) {
			return true
		}
	}
	return false
}

// HasKind reports whether the tree contains an entry of the given kind.
func HasKind(e *core.Entry, k core.EntryKind) bool {
	if e == nil {
		return false
	}
	if e.Kind == k {
		return true
	}
	for _, c := range e.Contents {
		if HasKind(c, k) {
			return true
		}
	}
	return false
}

// Same is structural equality of two trees (nil and empty maps identified),
// decided on the canonical encoding.
func Same(a, b *core.Entry) bool { return hx.EncEntry(a) == hx.EncEntry(b) }

// ShallowSame compares existence and the scalar fields only.
func ShallowSame(a, b *core.Entry) bool {
	if a == nil || b == nil {
		return a == nil && b == nil
	}
	return a.Kind == b.Kind && a.Executable == b.Executable && bytes.Equal(a.Digest, b.Digest) &&
		a.Target == b.Target && a.Problem == b.Problem
}

// Join appends a name to a synchronization path.
func Join(path, name string) string {
	if path == "" {
		return name
	}
	return path + "/" + name
}

// Under returns the path of rel (relative) below p.
func Under(p, rel string) string {
	if p == "" {
		return rel
	}
	if rel == "" {
		return p
	}
	return p + "/" + rel
}

// Comparable reports whether one path is a prefix of (or equal to) the other.
func Comparable(a, b string) bool { return hx.PathIsPrefix(a, b) || hx.PathIsPrefix(b, a) }

// Rel returns q relative to its prefix p.
func Rel(p, q string) string {
	if p == "" {
		return q
	}
	if p == q {
		return ""
	}
	return strings.TrimPrefix(q, p+"/")
}

// Plan is the output of core.Reconcile.
type Plan struct {
	Anc, Alpha, Beta []*core.Change
	Conflicts        []*core.Conflict
}

// Enc renders the plan canonically.
func (p *Plan) Enc() string { return hx.EncPlan(p.Anc, p.Alpha, p.Beta, p.Conflicts) }

// Reconcile runs the real core.Reconcile.
func Reconcile(anc, alpha, beta *core.Entry, mode core.SynchronizationMode) *Plan {
	a, b, c, d := core.Reconcile(anc, alpha, beta, mode)
	return &Plan{a, b, c, d}
}

// Triple is a parsed `<mode> <A> <alpha> <beta>` case.
type Triple struct {
	ModeName         string
	Mode             core.SynchronizationMode
	Anc, Alpha, Beta *core.Entry
}

// ParseTriple parses the fields `<mode> <A> <alpha> <beta>`.
func ParseTriple(f []string) (*Triple, bool) {
	if len(f) < 4 {
		return nil, false
	}
	m, ok := hx.ModeByName(f[0])
	if !ok {
		return nil, false
	}
	t := &Triple{ModeName: f[0], Mode: m}
	var err error
	if t.Anc, err = hx.DecEntry(f[1]); err != nil {
		return nil, false
	}
	if t.Alpha, err = hx.DecEntry(f[2]); err != nil {
		return nil, false
	}
	if t.Beta, err = hx.DecEntry(f[3]); err != nil {
		return nil, false
	}
	return t, true
}

// TripleLine renders `<mode> <A> <alpha> <beta>`.
func TripleLine(mode string, anc, alpha, beta *core.Entry) string {
	return mode + " " + hx.EncEntry(anc) + " " + hx.EncEntry(alpha) + " " + hx.EncEntry(beta)
}

// AllPaths lists every path that exists in at least one of the trees.
func AllPaths(trees ...*core.Entry) []string {
	seen := map[string]bool{}
	var out []string
	for _, t := range trees {
		for _, p := range hx.Paths(t) {
			if !seen[p] {
				seen[p] = true
				out = append(out, p)
			}
		}
	}
	return out
}

// ApplyIdeal applies planned changes to an endpoint tree the way a perfect
// transition would (each change replaces the content at its path by New).
func ApplyIdeal(tree *core.Entry, changes []*core.Change) (*core.Entry, error) {
	cs := make([]*core.Change, len(changes))
	for i, c := range changes {
		cs[i] = &core.Change{Path: c.Path, New: c.New}
	}
	return core.Apply(tree, cs)
}
