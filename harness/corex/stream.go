package corex

import (
	"fmt"
	"strings"

	"github.com/mutagen-io/mutagen/pkg/synchronization/core"

	"verif/harness/hx"
)

// StreamCfg describes a stream of (mode, ancestor, alpha, beta) cases.
type StreamCfg struct {
	Modes       []string    // protocol names of the modes to cover
	Stride      int         // take every Stride-th exhaustive triple (offset drawn from the PRNG); <=1 = all
	ForceUnsync bool        // only triples in which an endpoint holds unsynchronizable content
	Random      int         // number of random related deep triples per mode
	Opts        hx.TreeOpts // options of the random generator
}

// AllModes lists the protocol names of the four modes.
var AllModes = []string{"two-way-safe", "two-way-resolved", "one-way-safe", "one-way-replica"}

// Triples generates the stream: first the exhaustive depth-1 space over two
// names (ancestors: synchronizable shapes; endpoints: all shapes including
// untracked and problematic children), then random related deep triples.
func Triples(c *hx.Ctx, cfg StreamCfg, emit func(mode string, anc, alpha, beta *core.Entry)) {
	ancs := hx.SmallShapes([]string{"a", "b"}, false)
	ends := hx.SmallShapes([]string{"a", "b"}, true)
	stride := cfg.Stride
	if stride < 1 {
		stride = 1
	}
	for _, mode := range cfg.Modes {
		i := c.R.Intn(stride)
		for _, a := range ancs {
			for _, al := range ends {
				for _, be := range ends {
					if cfg.ForceUnsync && !HasUnsync(al) && !HasUnsync(be) {
						continue
					}
					i++
					if i%stride != 0 {
						continue
					}
					emit(mode, a, al, be)
					if stride == 1 {
						c.Count("exhaustive")
					} else {
						c.Count("exhaustive-sampled")
					}
				}
			}
		}
	}
	for _, mode := range cfg.Modes {
		for i := 0; i < cfg.Random; i++ {
			a, al, be := hx.GenTriple(c.R, cfg.Opts)
			if cfg.ForceUnsync && !HasUnsync(al) && !HasUnsync(be) {
				// Plant unsynchronizable content somewhere on one endpoint.
				bad := &core.Entry{Kind: core.EntryKind_Untracked}
				if c.R.Chance(1, 2) {
					bad = &core.Entry{Kind: core.EntryKind_Problematic, Problem: "p"}
				}
				target := &al
				if c.R.Chance(1, 2) {
					target = &be
				}
				paths := hx.Paths(*target)
				p := ""
				if len(paths) > 0 {
					p = paths[c.R.Intn(len(paths))]
				}
				if IsDirKind(hx.Lookup(*target, p)) {
					p = Join(p, "u")
				}
				if next, ok := hx.Set(*target, p, bad); ok {
					*target = next
				}
				if !HasUnsync(al) && !HasUnsync(be) {
					continue
				}
			}
			emit(mode, a, al, be)
			c.Count("random")
		}
	}
}

// NoPhantom reports whether neither endpoint contains a phantom directory
// (the standing hypothesis of the reconciliation properties: phantoms are
// reified before reconciliation).
func NoPhantom(t *Triple) bool {
	return !HasKind(t.Alpha, core.EntryKind_PhantomDirectory) && !HasKind(t.Beta, core.EntryKind_PhantomDirectory)
}

// RunReconcileCases is the common main loop of the drivers whose cases are
// `<mode> <A> <alpha> <beta>` lines answered by the canonical plan: it replays
// or generates the lines, runs the real core.Reconcile, and evaluates oracle
// (which returns "" or "class=<class> <details>").
func RunReconcileCases(c *hx.Ctx, gen func(emit func(mode string, anc, alpha, beta *core.Entry), raw func(line string)), oracle func(t *Triple, p *Plan) string) {
	run := func(line string) {
		var verdict, key string
		impl := hx.Try(func() string {
			if rest, ok := strings.CutPrefix(line, "cfvalid "); ok {
				c.Count("op:cfvalid")
				cf, err := DecConflict(rest)
				if err != nil {
					return "bad-op"
				}
				valid := "0"
				if cf.EnsureValid() == nil {
					valid = "1"
					key = "cfvalid"
				}
				return valid + "|" + hx.EncConflict(cf.Slim())
			}
			t, ok := ParseTriple(strings.Fields(line))
			if !ok {
				return "bad-op"
			}
			p := Reconcile(t.Anc, t.Alpha, t.Beta, t.Mode)
			if NoPhantom(t) {
				verdict = oracle(t, p)
			} else {
				c.Count("oracle-skipped-phantom")
			}
			key = Classify(p)
			c.Count("mode:" + t.ModeName)
			if len(p.Conflicts) > 0 {
				c.Count("with-conflict")
			}
			if len(p.Alpha) > 0 {
				c.Count("with-alpha-change")
			}
			if len(p.Beta) > 0 {
				c.Count("with-beta-change")
			}
			if len(p.Anc) > 0 {
				c.Count("with-ancestor-change")
			}
			if HasUnsync(t.Alpha) || HasUnsync(t.Beta) {
				c.Count("with-unsynchronizable")
			}
			return p.Enc()
		})
		if strings.HasPrefix(impl, "panic:") {
			verdict = "class=panic " + impl
		}
		if key != "" {
			key += " " + impl
		}
		c.Case(line, impl, verdict, key)
	}
	if lines := c.ReplayLines(); lines != nil {
		for _, l := range lines {
			run(l)
		}
		return
	}
	gen(func(mode string, anc, alpha, beta *core.Entry) {
		run(TripleLine(mode, anc, alpha, beta))
	}, run)
}

// DecConflict parses `path[changes|changes]`.
func DecConflict(s string) (*core.Conflict, error) {
	i := strings.IndexByte(s, '[')
	if i < 0 || !strings.HasSuffix(s, "]") {
		return nil, fmt.Errorf("bad conflict %q", s)
	}
	parts := strings.Split(s[i+1:len(s)-1], "|")
	if len(parts) != 2 {
		return nil, fmt.Errorf("bad conflict %q", s)
	}
	root, err := hx.DecPath(s[:i])
	if err != nil {
		return nil, err
	}
	a, err := hx.DecChanges(parts[0])
	if err != nil {
		return nil, err
	}
	b, err := hx.DecChanges(parts[1])
	if err != nil {
		return nil, err
	}
	return &core.Conflict{Root: root, AlphaChanges: a, BetaChanges: b}, nil
}

// First returns the first non-empty verdict, prefixed with its class.
func First(pairs ...string) string {
	for i := 0; i+1 < len(pairs); i += 2 {
		if pairs[i+1] != "" {
			return "class=" + pairs[i] + " " + pairs[i+1]
		}
	}
	return ""
}
