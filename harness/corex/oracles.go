package corex

// Oracles for the reconciliation properties C01–C06, written directly from
// the property statements on plain core.Entry trees. None of them looks at the
// Lean model or re-implements the reconciler's case analysis: they only use
// "the entry at a path", "shallowly equal", "contains unsynchronizable
// content" and "first path at which the two endpoints disagree".

import (
	"fmt"
	"sort"
	"strings"

	"github.com/mutagen-io/mutagen/pkg/synchronization/core"

	"verif/harness/hx"
)

func isKind(e *core.Entry, k core.EntryKind) bool { return e != nil && e.Kind == k }

func nilOrUntracked(e *core.Entry) bool { return e == nil || e.Kind == core.EntryKind_Untracked }

// Disagreements lists the paths "where a disagreement occurs": the minimal
// paths at which alpha and beta are not shallowly equal, reached through
// shallowly equal parents, ignoring paths that are problematic on a side or
// absent/untracked on both.
func Disagreements(alpha, beta *core.Entry) []string {
	var out []string
	var rec func(p string, a, b *core.Entry)
	rec = func(p string, a, b *core.Entry) {
		if isKind(a, core.EntryKind_Problematic) || isKind(b, core.EntryKind_Problematic) {
			return
		}
		if nilOrUntracked(a) && nilOrUntracked(b) {
			return
		}
		if !ShallowSame(a, b) {
			out = append(out, p)
			return
		}
		names := map[string]bool{}
		for n := range a.Contents {
			names[n] = true
		}
		for n := range b.Contents {
			names[n] = true
		}
		for n := range names {
			rec(Join(p, n), a.Contents[n], b.Contents[n])
		}
	}
	rec("", alpha, beta)
	sort.Strings(out)
	return out
}

// NoLoss is the per-path no-loss statement for one endpoint: every existing
// entry of the endpoint tree S that a planned change deletes or shallowly
// changes (kind, digest, executable bit, link target) is shallowly identical
// to what the last-synchronized tree A records at that path — i.e. nothing
// created or modified since the last synchronization is deleted/overwritten.
func NoLoss(side string, S, A *core.Entry, changes []*core.Change) string {
	for _, c := range changes {
		at := hx.Lookup(S, c.Path)
		for _, rel := range hx.Paths(at) {
			q := Under(c.Path, rel)
			cur := hx.Lookup(at, rel)
			planned := hx.Lookup(c.New, rel)
			if planned != nil && ShallowSame(planned, cur) {
				continue // kept as is
			}
			if !ShallowSame(cur, hx.Lookup(A, q)) {
				return fmt.Sprintf("change on %s at %q destroys %q = %s which is not what was last synchronized (%s)",
					side, c.Path, q, hx.EncEntry(shallow(cur)), hx.EncEntry(shallow(hx.Lookup(A, q))))
			}
		}
	}
	return ""
}

func shallow(e *core.Entry) *core.Entry {
	if e == nil {
		return nil
	}
	return e.Copy(core.EntryCopyBehaviorSlim)
}

// OldDescribes checks that every change's Old value is exactly the current
// content of the endpoint at the change's path (transitions verify the disk
// against Old before touching it).
func OldDescribes(side string, S *core.Entry, changes []*core.Change) string {
	for _, c := range changes {
		if !Same(c.Old, hx.Lookup(S, c.Path)) {
			return fmt.Sprintf("change on %s at %q expects %s but the endpoint holds %s", side, c.Path, hx.EncEntry(c.Old), hx.EncEntry(hx.Lookup(S, c.Path)))
		}
	}
	return ""
}

// createdOrModified reports whether the synchronizable part of S at p
// contains an entry that A does not record identically.
func createdOrModified(S, A *core.Entry, p string) bool {
	sub := Filter(hx.Lookup(S, p))
	for _, rel := range hx.Paths(sub) {
		if !ShallowSame(hx.Lookup(sub, rel), hx.Lookup(A, Under(p, rel))) {
			return true
		}
	}
	return false
}

func conflictAt(p *Plan, root string) *core.Conflict {
	for _, c := range p.Conflicts {
		if c.Root == root {
			return c
		}
	}
	return nil
}

func touches(changes []*core.Change, p string) bool {
	for _, c := range changes {
		if Comparable(c.Path, p) {
			return true
		}
	}
	return false
}

// BothModifiedConflict: in two-way-safe mode, where both endpoints created or
// modified content at a disagreeing path, a conflict rooted there is reported
// and no change touches that path (or anything above/below it) on either side.
func BothModifiedConflict(t *Triple, p *Plan) string {
	for _, d := range Disagreements(t.Alpha, t.Beta) {
		if createdOrModified(t.Alpha, t.Anc, d) && createdOrModified(t.Beta, t.Anc, d) {
			if conflictAt(p, d) == nil {
				return fmt.Sprintf("both endpoints created/modified content at %q but no conflict is rooted there", d)
			}
			if touches(p.Alpha, d) || touches(p.Beta, d) {
				return fmt.Sprintf("conflict at %q but a change touches that path", d)
			}
		}
	}
	return ""
}

// unsyncAtOrAbove reports whether e holds an unsynchronizable entry at p or at
// one of p's ancestors.
func unsyncAtOrAbove(e *core.Entry, p string) bool {
	if e != nil && !SyncKind(e.Kind) {
		return true
	}
	if p == "" {
		return false
	}
	cur := e
	for _, c := range strings.Split(p, "/") {
		if cur == nil {
			return false
		}
		cur = cur.Contents[c]
		if cur != nil && !SyncKind(cur.Kind) {
			return true
		}
	}
	return false
}

// CleanTargets: content that is not tracked is never removed or replaced —
// for every planned change on endpoint S at p, S@p holds no untracked /
// problematic / phantom entry at any depth, p is not at or below such an
// entry of S, and the content to be created is synchronizable. (Content that
// is untracked on the *other* endpoint counts as absent there, so a deletion may
// legitimately be propagated to tracked, unmodified content of S.)
func CleanTargets(t *Triple, p *Plan) string {
	check := func(side string, S *core.Entry, changes []*core.Change) string {
		for _, c := range changes {
			if HasUnsync(hx.Lookup(S, c.Path)) {
				return fmt.Sprintf("change on %s at %q would remove unsynchronizable content %s", side, c.Path, hx.EncEntry(hx.Lookup(S, c.Path)))
			}
			if unsyncAtOrAbove(S, c.Path) {
				return fmt.Sprintf("change on %s at %q is at or below an unsynchronizable entry of %s", side, c.Path, side)
			}
			if HasUnsync(c.New) || HasUnsync(c.Old) {
				return fmt.Sprintf("change on %s at %q carries unsynchronizable content", side, c.Path)
			}
		}
		return ""
	}
	if s := check("alpha", t.Alpha, p.Alpha); s != "" {
		return s
	}
	if s := check("beta", t.Beta, p.Beta); s != "" {
		return s
	}
	for _, c := range p.Anc {
		if HasUnsync(c.New) {
			return fmt.Sprintf("ancestor change at %q records unsynchronizable content", c.Path)
		}
	}
	return ""
}

func changeAt(changes []*core.Change, p string) bool {
	for _, c := range changes {
		if c.Path == p {
			return true
		}
	}
	return false
}

// UnsyncBlocks: where the endpoints disagree and one endpoint holds
// unsynchronizable residue at that path, the residue stays (no change on that
// endpoint there) and, unless the *other* endpoint is the one being changed
// or the mode leaves the content alone without an action, a conflict rooted
// at the path is reported.
func UnsyncBlocks(t *Triple, p *Plan) string {
	oneWaySafe := t.Mode == core.SynchronizationMode_SynchronizationModeOneWaySafe
	for _, d := range Disagreements(t.Alpha, t.Beta) {
		for _, side := range []string{"alpha", "beta"} {
			S, mine, theirs := t.Alpha, p.Alpha, p.Beta
			if side == "beta" {
				S, mine, theirs = t.Beta, p.Beta, p.Alpha
			}
			if !HasUnsync(hx.Lookup(S, d)) {
				continue
			}
			if touches(mine, d) {
				return fmt.Sprintf("%s holds unsynchronizable content at %q but a change touches it", side, d)
			}
			if conflictAt(p, d) != nil || changeAt(theirs, d) {
				continue
			}
			if side == "alpha" {
				// One-way modes never act on alpha; alpha's residue is simply not propagated.
				if t.Mode != core.SynchronizationMode_SynchronizationModeTwoWaySafe && t.Mode != core.SynchronizationMode_SynchronizationModeTwoWayResolved {
					continue
				}
			}
			if oneWaySafe && nilOrUntracked(hx.Lookup(t.Alpha, d)) {
				continue // beta content is left in place, untracked
			}
			return fmt.Sprintf("%s holds unsynchronizable content at disagreeing path %q: no conflict and no action elsewhere", side, d)
		}
	}
	return ""
}

// Incomparable: alpha change paths, beta change paths and conflict roots are
// pairwise non-prefix (in particular distinct), across all three lists.
func Incomparable(p *Plan) string {
	type item struct{ what, path string }
	var items []item
	for _, c := range p.Alpha {
		items = append(items, item{"alpha change", c.Path})
	}
	for _, c := range p.Beta {
		items = append(items, item{"beta change", c.Path})
	}
	for _, c := range p.Conflicts {
		items = append(items, item{"conflict", c.Root})
	}
	for i := range items {
		for j := 0; j < i; j++ {
			if Comparable(items[i].path, items[j].path) {
				return fmt.Sprintf("%s at %q and %s at %q", items[j].what, items[j].path, items[i].what, items[i].path)
			}
		}
	}
	return ""
}

// ConflictsWellFormed: every conflict names at least one change per endpoint,
// all of them at or below its root, passes Conflict.EnsureValid, and is rooted
// at a path where the endpoints disagree.
func ConflictsWellFormed(t *Triple, p *Plan) string {
	dis := map[string]bool{}
	for _, d := range Disagreements(t.Alpha, t.Beta) {
		dis[d] = true
	}
	for _, c := range p.Conflicts {
		if len(c.AlphaChanges) == 0 || len(c.BetaChanges) == 0 {
			return fmt.Sprintf("conflict at %q lacks changes on one endpoint", c.Root)
		}
		for _, ch := range append(append([]*core.Change{}, c.AlphaChanges...), c.BetaChanges...) {
			if !hx.PathIsPrefix(c.Root, ch.Path) {
				return fmt.Sprintf("conflict at %q names a change at %q outside its root", c.Root, ch.Path)
			}
		}
		if err := c.EnsureValid(); err != nil {
			return fmt.Sprintf("conflict at %q invalid: %v", c.Root, err)
		}
		if err := c.Slim().EnsureValid(); err != nil {
			return fmt.Sprintf("slim conflict at %q invalid: %v", c.Root, err)
		}
		if !dis[c.Root] {
			return fmt.Sprintf("conflict rooted at %q, which is not a path where the endpoints disagree", c.Root)
		}
	}
	return ""
}

// Classify returns a coarse non-triviality key for a plan.
func Classify(p *Plan) string {
	if len(p.Anc)+len(p.Alpha)+len(p.Beta)+len(p.Conflicts) == 0 {
		return ""
	}
	return fmt.Sprintf("a%d/α%d/β%d/c%d", len(p.Anc), len(p.Alpha), len(p.Beta), len(p.Conflicts))
}
