module verif/harness

go 1.25.0

require github.com/mutagen-io/mutagen v0.0.0

replace github.com/mutagen-io/mutagen => /repo
