module verif/harness

go 1.25.0

require (
	github.com/mutagen-io/mutagen v0.0.0
	golang.org/x/text v0.36.0
	google.golang.org/protobuf v1.36.11
)

require (
	github.com/bmatcuk/doublestar/v4 v4.10.0 // indirect
	golang.org/x/sys v0.43.0 // indirect
)

replace github.com/mutagen-io/mutagen => /repo
