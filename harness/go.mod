module verif/harness

go 1.25.0

require (
	github.com/bmatcuk/doublestar/v4 v4.10.0
	github.com/mutagen-io/mutagen v0.0.0
	google.golang.org/protobuf v1.36.11
)

require (
	github.com/eknkc/basex v1.0.1 // indirect
	github.com/google/go-cmp v0.7.0 // indirect
	github.com/google/uuid v1.6.0 // indirect
	github.com/klauspost/compress v1.18.5 // indirect
	github.com/mutagen-io/gopass v0.0.0-20230214181532-d4b7cdfe054c // indirect
	go.yaml.in/yaml/v4 v4.0.0-rc.4 // indirect
	golang.org/x/sys v0.43.0
	golang.org/x/term v0.42.0 // indirect
	golang.org/x/text v0.36.0
)

require (
	github.com/klauspost/cpuid/v2 v2.2.10 // indirect
	github.com/mutagen-io/extstat v0.0.0-20210224131814-32fa3f057fa8 // indirect
	github.com/zeebo/xxh3 v1.1.0 // indirect
	golang.org/x/net v0.53.0 // indirect
	google.golang.org/genproto/googleapis/rpc v0.0.0-20260120221211-b8f7ae30c516 // indirect
	google.golang.org/grpc v1.80.0 // indirect
)

replace github.com/mutagen-io/mutagen => /repo
