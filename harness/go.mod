module verif/harness

go 1.25.0

require (
	github.com/mutagen-io/mutagen v0.0.0
	google.golang.org/protobuf v1.36.11
)

require golang.org/x/sys v0.43.0 // indirect

replace github.com/mutagen-io/mutagen => /repo
