// Package sessx drives real two-endpoint synchronization sessions (real
// synchronization.Manager, real controller, two real local endpoints on real
// directories) for the shared session-history stream `sessx` / `modeld SESS`
// that serves properties C01–C05.
//
// This file: the on-disk side. Trees of the line protocol (harness/hx/tree.go)
// are materialised on disk and read back by a walker that is independent of
// the code under test (Lstat / Readlink / ReadFile + SHA-1 only).
//
// Conventions of the stream (kept deliberately small):
//   - a file of content id N holds the bytes "c<N>\n"; its digest is written in
//     the line protocol as the two bytes of N (the walker computes the SHA-1 of
//     what is on disk and translates it back through the table of the first
//     MaxContent ids; an unknown digest is written in full);
//   - executable = any execute bit (0755 vs 0644 when the harness writes);
//   - a symbolic link with a relative target is `L@target`; a link with an
//     absolute target is what the scanner calls problematic in the (default)
//     portable link mode and is written `X!p`;
//   - names starting with "ign" are ignored by the sessions' configuration
//     (`ign*`) and are written `U`; on disk "ignd…" is a directory with a file
//     inside, every other "ign…" is a file; names starting with "ff" are FIFOs
//     (unsupported type, also `U`);
//   - every file written by the harness gets a synthetic, strictly increasing
//     modification time, so that the endpoint's (mtime, size, mode, inode)
//     digest cache can never mistake a rewritten file for the old one however
//     fast the harness runs (no dependence on timestamp granularity).
package sessx

import (
	"crypto/sha1"
	"encoding/hex"
	"fmt"
	"os"
	"path/filepath"
	"sort"
	"strings"
	"sync/atomic"
	"syscall"
	"time"

	"github.com/mutagen-io/mutagen/pkg/synchronization/core"
)

// MaxContent bounds the content ids with a short digest name.
const MaxContent = 4096

var digestTable = func() map[[sha1.Size]byte]int {
	t := make(map[[sha1.Size]byte]int, MaxContent)
	for i := 0; i < MaxContent; i++ {
		t[sha1.Sum(Content(i))] = i
	}
	return t
}()

// Content returns the bytes of content id n.
func Content(n int) []byte { return []byte(fmt.Sprintf("c%d\n", n)) }

// ShortDigest is the line-protocol digest of content id n.
func ShortDigest(n int) []byte { return []byte{byte(n >> 8), byte(n)} }

// NameDigest translates a real digest into its line-protocol form.
func NameDigest(d []byte) []byte {
	if len(d) == sha1.Size {
		var k [sha1.Size]byte
		copy(k[:], d)
		if n, ok := digestTable[k]; ok {
			return ShortDigest(n)
		}
	}
	return d
}

// contentID is the inverse of ShortDigest (-1 when the digest is not short).
func contentID(d []byte) int {
	if len(d) != 2 {
		return -1
	}
	return int(d[0])<<8 | int(d[1])
}

// IsIgnoredName mirrors the one ignore pattern of the sessions (`ign*`).
func IsIgnoredName(n string) bool { return strings.HasPrefix(n, "ign") }

// IsFifoName reports whether the harness realises the name as a FIFO.
func IsFifoName(n string) bool { return strings.HasPrefix(n, "ff") }

var clock atomic.Int64

func stamp(path string) error {
	t := time.Unix(978307200+clock.Add(1), 0) // 2001-01-01 + n seconds
	return os.Chtimes(path, t, t)
}

// AbsTarget is the (absolute, hence non-portable) target of problematic links.
const AbsTarget = "/verif-nonexistent-absolute-target"

// Materialise creates entry e at path p (which must not exist; its parent must).
func Materialise(p string, e *core.Entry) error {
	if e == nil {
		return nil
	}
	name := filepath.Base(p)
	switch e.Kind {
	case core.EntryKind_Directory:
		if err := os.Mkdir(p, 0o755); err != nil {
			return err
		}
		names := make([]string, 0, len(e.Contents))
		for n := range e.Contents {
			names = append(names, n)
		}
		sort.Strings(names)
		for _, n := range names {
			if err := Materialise(filepath.Join(p, n), e.Contents[n]); err != nil {
				return err
			}
		}
		return nil
	case core.EntryKind_File:
		id := contentID(e.Digest)
		if id < 0 {
			return fmt.Errorf("file %q without a content id", p)
		}
		mode := os.FileMode(0o644)
		if e.Executable {
			mode = 0o755
		}
		if err := os.WriteFile(p, Content(id), mode); err != nil {
			return err
		}
		if err := os.Chmod(p, mode); err != nil {
			return err
		}
		return stamp(p)
	case core.EntryKind_SymbolicLink:
		return os.Symlink(e.Target, p)
	case core.EntryKind_Problematic:
		return os.Symlink(AbsTarget, p)
	case core.EntryKind_Untracked:
		switch {
		case IsFifoName(name):
			return syscall.Mkfifo(p, 0o644)
		case strings.HasPrefix(name, "ignd"):
			if err := os.Mkdir(p, 0o755); err != nil {
				return err
			}
			in := filepath.Join(p, "inner")
			if err := os.WriteFile(in, []byte("ignored "+name+"\n"), 0o644); err != nil {
				return err
			}
			return stamp(in)
		case IsIgnoredName(name):
			if err := os.WriteFile(p, []byte("ignored "+name+"\n"), 0o644); err != nil {
				return err
			}
			return stamp(p)
		}
		return fmt.Errorf("untracked entry with unsuitable name %q", name)
	}
	return fmt.Errorf("cannot materialise kind %v at %q", e.Kind, p)
}

// SetPath makes the content at rel below root equal to e (nil removes it). A
// file that stays a file is rewritten / re-moded in place (same inode), every
// other replacement removes what is there first.
func SetPath(root, rel string, e *core.Entry) error {
	p := root
	if rel != "" {
		p = filepath.Join(root, filepath.FromSlash(rel))
	}
	info, err := os.Lstat(p)
	if err == nil && e != nil && e.Kind == core.EntryKind_File && info.Mode().IsRegular() {
		id := contentID(e.Digest)
		if id < 0 {
			return fmt.Errorf("file %q without a content id", p)
		}
		mode := os.FileMode(0o644)
		if e.Executable {
			mode = 0o755
		}
		old, rerr := os.ReadFile(p)
		if rerr != nil || string(old) != string(Content(id)) {
			if err := os.WriteFile(p, Content(id), mode); err != nil {
				return err
			}
			if err := stamp(p); err != nil {
				return err
			}
		}
		return os.Chmod(p, mode)
	}
	if err == nil {
		if err := os.RemoveAll(p); err != nil {
			return err
		}
	} else if !os.IsNotExist(err) {
		return err
	}
	return Materialise(p, e)
}

// Raw is the complete on-disk content of a root: relative path ("" = the
// root itself) -> fingerprint, for every object including those inside ignored
// directories.
type Raw map[string]string

// Walk reads a root back: the tree as a scan is specified to report it, and
// the raw fingerprints.
func Walk(root string) (*core.Entry, Raw, error) {
	raw := Raw{}
	e, err := walk(root, "", filepath.Base(root), true, false, raw)
	return e, raw, err
}

func walk(p, rel, name string, isRoot, underIgnored bool, raw Raw) (*core.Entry, error) {
	info, err := os.Lstat(p)
	if err != nil {
		if os.IsNotExist(err) && isRoot {
			return nil, nil
		}
		return nil, err
	}
	ignored := underIgnored || (!isRoot && IsIgnoredName(name))
	var out *core.Entry
	mode := info.Mode()
	switch {
	case mode.IsDir():
		raw[rel] = fmt.Sprintf("d:%o", mode.Perm())
		out = &core.Entry{Kind: core.EntryKind_Directory}
		items, err := os.ReadDir(p)
		if err != nil {
			return nil, err
		}
		for _, it := range items {
			crel := it.Name()
			if rel != "" {
				crel = rel + "/" + it.Name()
			}
			c, err := walk(filepath.Join(p, it.Name()), crel, it.Name(), false, ignored, raw)
			if err != nil {
				return nil, err
			}
			if out.Contents == nil {
				out.Contents = make(map[string]*core.Entry)
			}
			out.Contents[it.Name()] = c
		}
	case mode.IsRegular():
		data, err := os.ReadFile(p)
		if err != nil {
			return nil, err
		}
		sum := sha1.Sum(data)
		raw[rel] = fmt.Sprintf("f:%o:%s", mode.Perm(), hex.EncodeToString(sum[:]))
		out = &core.Entry{Kind: core.EntryKind_File, Digest: NameDigest(sum[:]), Executable: mode.Perm()&0o111 != 0}
	case mode&os.ModeSymlink != 0:
		target, err := os.Readlink(p)
		if err != nil {
			return nil, err
		}
		raw[rel] = "l:" + target
		if filepath.IsAbs(target) {
			out = &core.Entry{Kind: core.EntryKind_Problematic, Problem: "p"}
		} else {
			out = &core.Entry{Kind: core.EntryKind_SymbolicLink, Target: target}
		}
	default:
		raw[rel] = fmt.Sprintf("o:%v", mode.Type())
		out = &core.Entry{Kind: core.EntryKind_Untracked}
	}
	if ignored {
		return &core.Entry{Kind: core.EntryKind_Untracked}, nil
	}
	return out, nil
}

// CanonArchive renders the entries of an archive tree with line-protocol
// digests (a copy; the argument is not modified).
func CanonArchive(e *core.Entry) *core.Entry {
	if e == nil {
		return nil
	}
	out := &core.Entry{Kind: e.Kind, Executable: e.Executable, Target: e.Target, Problem: e.Problem}
	if len(e.Digest) > 0 {
		out.Digest = NameDigest(e.Digest)
	}
	for n, c := range e.Contents {
		if out.Contents == nil {
			out.Contents = make(map[string]*core.Entry, len(e.Contents))
		}
		out.Contents[n] = CanonArchive(c)
	}
	return out
}
