package sessx

// The session side: one real synchronization.Manager per driver process, real
// sessions between two local directory URLs, synchronous flush cycles, the
// saved archive read straight from the data directory, and the global
// filesystem fault hook (build tag verif) dispatched by leaf name.

import (
	"context"
	"errors"
	"fmt"
	"io"
	"os"
	"path/filepath"
	"strings"
	"sync"
	"time"

	"google.golang.org/protobuf/proto"

	"github.com/mutagen-io/mutagen/pkg/filesystem"
	"github.com/mutagen-io/mutagen/pkg/logging"
	"github.com/mutagen-io/mutagen/pkg/selection"
	"github.com/mutagen-io/mutagen/pkg/synchronization"
	"github.com/mutagen-io/mutagen/pkg/synchronization/core"
	_ "github.com/mutagen-io/mutagen/pkg/synchronization/protocols/local"
	"github.com/mutagen-io/mutagen/pkg/url"
)

// Env is the process-wide environment: scratch directory, data directory, manager.
type Env struct {
	Base    string
	DataDir string
	Mgr     *synchronization.Manager
	Logger  *logging.Logger
}

// scratchBase picks a fresh scratch directory: tmpfs when available (a flush
// cycle is dominated by filesystem calls), else the framework's out directory.
func scratchBase(fallback string) (string, error) {
	tag := fmt.Sprintf("verif-sessx-%d", os.Getpid())
	if st, err := os.Stat("/dev/shm"); err == nil && st.IsDir() {
		removeStale("/dev/shm")
		if d, err := os.MkdirTemp("/dev/shm", tag+"-"); err == nil {
			return d, nil
		}
	}
	if err := os.MkdirAll(fallback, 0o755); err != nil {
		return "", err
	}
	removeStale(fallback)
	return os.MkdirTemp(fallback, tag+"-")
}

// removeStale deletes scratch areas left behind by driver processes that no
// longer exist (a crash inside a controller goroutine cannot be recovered).
func removeStale(dir string) {
	items, _ := filepath.Glob(filepath.Join(dir, "verif-sessx-*"))
	for _, it := range items {
		var pid int
		if _, err := fmt.Sscanf(filepath.Base(it), "verif-sessx-%d-", &pid); err != nil || pid <= 0 {
			continue
		}
		if _, err := os.Stat(fmt.Sprintf("/proc/%d", pid)); os.IsNotExist(err) {
			os.RemoveAll(it)
		}
	}
}

// NewEnv creates the scratch area (data directory and roots live on the same
// filesystem, so staged files are renamed, never copied, into place), points
// MUTAGEN_DATA_DIRECTORY at it and starts a manager.
func NewEnv(fallback string) (*Env, error) {
	base, err := scratchBase(fallback)
	if err != nil {
		return nil, err
	}
	data := filepath.Join(base, "data")
	if err := os.MkdirAll(data, 0o700); err != nil {
		return nil, err
	}
	os.Setenv("MUTAGEN_DATA_DIRECTORY", data)
	logger := logging.NewLogger(logging.LevelDisabled, io.Discard)
	mgr, err := synchronization.NewManager(logger)
	if err != nil {
		return nil, err
	}
	filesystem.VerifSetFaultHook(dispatchFault)
	return &Env{Base: base, DataDir: data, Mgr: mgr, Logger: logger}, nil
}

// Close shuts the manager down and removes the scratch area.
func (e *Env) Close() {
	filesystem.VerifSetFaultHook(nil)
	e.Mgr.Shutdown()
	os.RemoveAll(e.Base)
}

// Session is one real session.
type Session struct {
	env         *Env
	ID          string
	AlphaRoot   string
	BetaRoot    string
	sel         *selection.Selection
	archivePath string
}

// IgnorePattern is the one ignore of every session.
const IgnorePattern = "ign*"

// Configuration returns the session configuration for a mode.
func Configuration(mode core.SynchronizationMode) *synchronization.Configuration {
	return &synchronization.Configuration{
		SynchronizationMode: mode,
		WatchMode:           synchronization.WatchMode_WatchModeNoWatch,
		Ignores:             []string{IgnorePattern},
	}
}

// Create creates a running session between two local roots.
func (e *Env) Create(mode core.SynchronizationMode, alphaRoot, betaRoot string) (*Session, error) {
	a := &url.URL{Kind: url.Kind_Synchronization, Protocol: url.Protocol_Local, Path: alphaRoot}
	b := &url.URL{Kind: url.Kind_Synchronization, Protocol: url.Protocol_Local, Path: betaRoot}
	id, err := e.Mgr.Create(context.Background(), a, b, Configuration(mode),
		&synchronization.Configuration{}, &synchronization.Configuration{}, "", nil, false, "")
	if err != nil {
		return nil, err
	}
	return &Session{env: e, ID: id, AlphaRoot: alphaRoot, BetaRoot: betaRoot,
		sel:         &selection.Selection{Specifications: []string{id}},
		archivePath: filepath.Join(e.DataDir, filesystem.MutagenSynchronizationArchivesDirectoryName, id)}, nil
}

// notReady is the documented transient answer of flush between the start of a
// run loop and its first entry into the synchronization loop.
const notReady = "not currently able to synchronize"

// Flush forces one synchronization cycle and waits for it. The transient
// "not currently able to synchronize" right after Create/Resume is retried.
func (s *Session) Flush() error {
	var err error
	for i := 0; i < 200000; i++ {
		err = s.env.Mgr.Flush(context.Background(), s.sel, "", false)
		if err == nil || !strings.Contains(err.Error(), notReady) {
			return err
		}
		time.Sleep(50 * time.Microsecond)
	}
	return err
}

// State returns the session state as Manager.List reports it.
func (s *Session) State() (*synchronization.State, error) {
	_, states, err := s.env.Mgr.List(context.Background(), s.sel, 0)
	if err != nil {
		return nil, err
	}
	if len(states) != 1 {
		return nil, fmt.Errorf("%d states", len(states))
	}
	return states[0], nil
}

// Archive reads and decodes the archive file saved by the controller.
func (s *Session) Archive() (*core.Archive, error) {
	data, err := os.ReadFile(s.archivePath)
	if err != nil {
		return nil, err
	}
	a := &core.Archive{}
	if err := proto.Unmarshal(data, a); err != nil {
		return nil, err
	}
	return a, nil
}

func (s *Session) Pause() error  { return s.env.Mgr.Pause(context.Background(), s.sel, "") }
func (s *Session) Resume() error { return s.env.Mgr.Resume(context.Background(), s.sel, "") }

// Cancel cancels the running synchronization loop without waiting (verif hook).
func (s *Session) Cancel() bool { return s.env.Mgr.VerifSESSCancel(s.ID) }

// Terminate ends the session and removes its files.
func (s *Session) Terminate() error {
	return s.env.Mgr.Terminate(context.Background(), s.sel, "")
}

// ---- fault hook ----

// FaultOps are the filesystem operations that only transitions perform (scans
// and staging never do), so a fault on them cannot disturb a scan.
var FaultOps = []string{"mkdir", "symlink", "chmod", "rmdir", "unlink", "rename"}

// Fault is an armed fault: while armed, operation Op on leaf name Name fails
// (Cancel == nil) or triggers Cancel once and proceeds (Cancel != nil).
type Fault struct {
	Op, Name string
	Cancel   func()
	mu       sync.Mutex
	fired    int
}

// Fired reports how often the fault was hit.
func (f *Fault) Fired() int {
	f.mu.Lock()
	defer f.mu.Unlock()
	return f.fired
}

var errInjected = errors.New("verif: injected fault")

var armed sync.Map // name -> *Fault

// Arm installs a fault (leaf names are unique across concurrently running histories).
func Arm(f *Fault) { armed.Store(f.Name, f) }

// Disarm removes it.
func Disarm(f *Fault) { armed.Delete(f.Name) }

func dispatchFault(op, name string) error {
	v, ok := armed.Load(name)
	if !ok {
		return nil
	}
	f := v.(*Fault)
	if f.Op != op {
		return nil
	}
	f.mu.Lock()
	f.fired++
	first := f.fired == 1
	f.mu.Unlock()
	if f.Cancel != nil {
		if first {
			f.Cancel()
		}
		return nil
	}
	return errInjected
}
