package sessx

// One session history = one case line of the stream:
//
//	H <mode> <alpha0> <beta0> <step> <step> …
//	step  := <kind>^<alpha edits>^<beta edits>^<obs alpha>^<obs beta>
//	kind  := n                      fault-free cycle
//	       | h                      edits and one flush request on a session that halted
//	                                and was not paused/resumed since (must be refused;
//	                                every other step on a halted session is preceded by
//	                                the user's pause + resume)
//	       | f,<op>,<leaf name>     <op> on <leaf name> fails during the cycle
//	       | c,<op>,<leaf name>     the session is cancelled when <op> on <leaf
//	                                name> is first reached (then paused, resumed)
//	edits := '-' | path=~>entry;…   applied in order before the flush (entry ~ = remove)
//	obs   := '-' | entry            the root as observed after the cycle; present
//	                                exactly for f and c steps (the model does not
//	                                predict what a faulted transition leaves on disk)
//
// A fault or cancellation that was armed but never reached is written as kind n
// (the cycle was fault-free), so a line always describes what happened.
//
// Answer: the cycles joined by " | ", each
//
//	<alpha tree> <beta tree> <archive tree> <conflict roots> <status> <problems>
//
// trees in the canonical encoding of hx/tree.go (scan-level: ignored names and
// FIFOs are U, links with absolute targets X!p, file digests by content id);
// conflict roots sorted, comma separated, '-' if none (and '-' when the cycle
// halted or was cancelled); status run | halt-emptied | halt-rootdel |
// halt-roottype | halted (an `h` step was refused) | cancelled | error; problems = two flags (alpha, beta
// transition problems reported) after a fault-free cycle, "--" otherwise.

import (
	"context"
	"fmt"
	"os"
	"path/filepath"
	"sort"
	"strings"

	"github.com/mutagen-io/mutagen/pkg/synchronization"
	"github.com/mutagen-io/mutagen/pkg/synchronization/core"

	"verif/harness/hx"
)

// Step is one edit-then-flush step.
type Step struct {
	Kind       byte // 'n' | 'f' | 'c'
	Op, Name   string
	Edits      []Edit
	ObsA, ObsB *core.Entry
}

// History is a parsed case line.
type History struct {
	ModeName       string
	Mode           core.SynchronizationMode
	Alpha0, Beta0  *core.Entry
	Steps          []Step
}

func encEdits(edits []Edit, side byte) string {
	var cs []*core.Change
	for _, e := range edits {
		if e.Side == side {
			cs = append(cs, &core.Change{Path: e.Path, New: e.New})
		}
	}
	return hx.EncChangesOrdered(cs)
}

func (s *Step) enc() string {
	kind := string(s.Kind)
	obsA, obsB := "-", "-"
	if s.Kind == 'f' || s.Kind == 'c' {
		kind = string(s.Kind) + "," + s.Op + "," + s.Name
		obsA, obsB = hx.EncEntry(s.ObsA), hx.EncEntry(s.ObsB)
	}
	return kind + "^" + encEdits(s.Edits, 'a') + "^" + encEdits(s.Edits, 'b') + "^" + obsA + "^" + obsB
}

// Enc renders the case line.
func (h *History) Enc() string {
	parts := []string{"H", h.ModeName, hx.EncEntry(h.Alpha0), hx.EncEntry(h.Beta0)}
	for i := range h.Steps {
		parts = append(parts, h.Steps[i].enc())
	}
	return strings.Join(parts, " ")
}

// ParseHistory parses a case line (observed trees are ignored: a replay
// observes them again).
func ParseHistory(line string) (*History, error) {
	f := strings.Fields(line)
	if len(f) < 4 || f[0] != "H" {
		return nil, fmt.Errorf("not a history line")
	}
	m, ok := hx.ModeByName(f[1])
	if !ok {
		return nil, fmt.Errorf("bad mode %q", f[1])
	}
	h := &History{ModeName: f[1], Mode: m}
	var err error
	if h.Alpha0, err = hx.DecEntry(f[2]); err != nil {
		return nil, err
	}
	if h.Beta0, err = hx.DecEntry(f[3]); err != nil {
		return nil, err
	}
	for _, sf := range f[4:] {
		p := strings.Split(sf, "^")
		if len(p) != 5 {
			return nil, fmt.Errorf("bad step %q", sf)
		}
		st := Step{Kind: 'n'}
		k := strings.Split(p[0], ",")
		switch {
		case p[0] == "n":
		case p[0] == "h":
			st.Kind = 'h'
		case len(k) == 3 && (k[0] == "f" || k[0] == "c"):
			st.Kind, st.Op, st.Name = k[0][0], k[1], k[2]
		default:
			return nil, fmt.Errorf("bad step kind %q", p[0])
		}
		for i, side := range []byte{'a', 'b'} {
			cs, err := hx.DecChanges(p[1+i])
			if err != nil {
				return nil, err
			}
			for _, c := range cs {
				st.Edits = append(st.Edits, Edit{side, c.Path, c.New})
			}
		}
		h.Steps = append(h.Steps, st)
	}
	return h, nil
}

// Result is what one executed history contributes to the stream.
type Result struct {
	Line     string
	Impl     string
	Verdicts []string // oracle failures, each "class=Cxx-… details"
	Key      string
	Counts   map[string]int
	Err      error // harness-level failure (not a property violation)
}

func (r *Result) count(label string) { r.Counts[label]++ }

// Runner executes histories against one Env.
type Runner struct {
	Env *Env
}

func conflictRoots(cs []*core.Conflict) []string {
	var out []string
	for _, c := range cs {
		out = append(out, c.Root)
	}
	sort.Strings(out)
	return out
}

func encRoots(roots []string) string {
	if len(roots) == 0 {
		return "-"
	}
	enc := make([]string, len(roots))
	for i, r := range roots {
		enc[i] = hx.EncPath(r)
	}
	sort.Strings(enc)
	return strings.Join(enc, ",")
}

func statusClass(flushErr error, st *synchronization.State) string {
	if flushErr == nil {
		return "run"
	}
	if st != nil {
		switch st.Status {
		case synchronization.Status_HaltedOnRootEmptied:
			return "halt-emptied"
		case synchronization.Status_HaltedOnRootDeletion:
			return "halt-rootdel"
		case synchronization.Status_HaltedOnRootTypeChange:
			return "halt-roottype"
		}
	}
	return "error"
}

// side is a root as read back from disk.
type side struct {
	tree *core.Entry
	raw  Raw
}

func readSide(root string) (side, error) {
	t, raw, err := Walk(root)
	return side{t, raw}, err
}

func flag(b bool) string {
	if b {
		return "1"
	}
	return "0"
}

// Run executes one history. When h is nil the history is generated (online:
// each step's edits are drawn against the trees the previous cycle left).
func (r *Runner) Run(idx int, g *Gen, h *History) (res Result) {
	res.Counts = map[string]int{}
	fail := func(err error) Result {
		res.Err = err
		return res
	}
	dir := filepath.Join(r.Env.Base, fmt.Sprintf("h%d", idx))
	if err := os.MkdirAll(dir, 0o755); err != nil {
		return fail(err)
	}
	defer os.RemoveAll(dir)
	rootA, rootB := filepath.Join(dir, "a"), filepath.Join(dir, "b")

	generating := h == nil
	if generating {
		h = &History{ModeName: g.P.Modes[g.R.Intn(len(g.P.Modes))]}
		h.Mode, _ = hx.ModeByName(h.ModeName)
		h.Alpha0, h.Beta0 = g.initialRoots()
	}
	res.count("mode:" + h.ModeName)
	if err := Materialise(rootA, h.Alpha0); err != nil {
		return fail(err)
	}
	if err := Materialise(rootB, h.Beta0); err != nil {
		return fail(err)
	}
	s, err := r.Env.Create(h.Mode, rootA, rootB)
	if err != nil {
		return fail(err)
	}
	defer s.Terminate()

	or := newOracle(h.Mode)
	curA, err := readSide(rootA)
	if err != nil {
		return fail(err)
	}
	curB, err := readSide(rootB)
	if err != nil {
		return fail(err)
	}
	var answers []string
	var keyParts []string
	var executed []Step
	nSteps := len(h.Steps)
	if generating {
		nSteps = g.P.MinSteps + g.R.Intn(g.P.MaxSteps-g.P.MinSteps+1)
	}
	quiesce := false
	haltPending := false // the session halted and the user has not paused/resumed it yet
	for i := 0; i < nSteps; i++ {
		var st Step
		beforeA, beforeB := curA, curB
		if generating {
			st.Kind = 'n'
			afterA, afterB := curA.tree, curB.tree
			if i > 0 && !quiesce {
				st.Edits, afterA, afterB = g.Edits(curA.tree, curB.tree, 3)
			}
			if haltPending && g.R.Intn(100) < g.P.HaltedFlushPct {
				// The user keeps editing and asks for a flush without pausing/resuming.
				st.Kind = 'h'
			} else if !quiesce {
				x := g.R.Intn(100)
				if x < g.P.FaultPct+g.P.CancelPct {
					if cands := FaultChoices(st.Edits, curA.tree, curB.tree, afterA, afterB, i == 0); len(cands) > 0 {
						c := cands[g.R.Intn(len(cands))]
						st.Kind, st.Op, st.Name = 'f', c.Op, c.Name
						if x >= g.P.FaultPct {
							st.Kind = 'c'
						}
					}
				}
			}
		} else {
			st = h.Steps[i]
		}
		// The edit script.
		for _, e := range st.Edits {
			root := rootA
			if e.Side == 'b' {
				root = rootB
			}
			if err := SetPath(root, e.Path, realDigests(e.New)); err != nil {
				return fail(fmt.Errorf("edit %c:%s: %w", e.Side, e.Path, err))
			}
		}
		if curA, err = readSide(rootA); err != nil {
			return fail(err)
		}
		if curB, err = readSide(rootB); err != nil {
			return fail(err)
		}
		preA, preB := curA, curB
		if haltPending && st.Kind != 'h' {
			// The user intervenes: pause + resume starts a fresh loop.
			if err := s.Pause(); err != nil {
				return fail(err)
			}
			if err := s.Resume(); err != nil {
				return fail(err)
			}
			haltPending = false
		}
		// The cycle.
		var fault *Fault
		if st.Kind == 'f' || st.Kind == 'c' {
			fault = &Fault{Op: st.Op, Name: st.Name}
			if st.Kind == 'c' {
				fault.Cancel = func() { s.Cancel() }
			}
			Arm(fault)
		}
		var flushErr error
		refused := false
		if st.Kind == 'h' && haltPending {
			// One plain flush request (no retry): a halted session must refuse it.
			flushErr = s.env.Mgr.Flush(context.Background(), s.sel, "", false)
			refused = flushErr != nil
		} else {
			flushErr = s.Flush()
		}
		if fault != nil {
			Disarm(fault)
			if fault.Fired() == 0 {
				st.Kind, st.Op, st.Name = 'n', "", ""
				res.count("armed-not-reached")
			}
		}
		var state *synchronization.State
		status := ""
		if st.Kind == 'c' {
			// The cancellation took effect inside the transition; complete the
			// halt through the regular API before looking at anything.
			if err := s.Pause(); err != nil {
				return fail(err)
			}
			status = "cancelled"
		} else if refused {
			status = "halted"
		} else {
			if state, err = s.State(); err != nil {
				return fail(err)
			}
			status = statusClass(flushErr, state)
		}
		if curA, err = readSide(rootA); err != nil {
			return fail(err)
		}
		if curB, err = readSide(rootB); err != nil {
			return fail(err)
		}
		archive, archErr := s.Archive()
		var archTree *core.Entry
		if archErr == nil {
			archTree = CanonArchive(archive.Content)
		}
		if st.Kind == 'f' || st.Kind == 'c' {
			st.ObsA, st.ObsB = curA.tree, curB.tree
		}
		stillHalted := true
		if st.Kind == 'h' && haltPending {
			stillHalted = refused
			haltPending = refused
		}
		if strings.HasPrefix(status, "halt-") {
			// A halted session stays halted: a further flush request (one plain
			// call, no retry) must be refused. The loop is restarted (pause +
			// resume) only when the user's next step is not another `h` step.
			stillHalted = s.env.Mgr.Flush(context.Background(), s.sel, "", false) != nil
			haltPending = true
		} else if status != "run" && status != "halted" {
			// Failed or cancelled loops do not serve flush requests: restart the
			// loop the way a user would.
			if st.Kind != 'c' {
				if err := s.Pause(); err != nil {
					return fail(err)
				}
			}
			if err := s.Resume(); err != nil {
				return fail(err)
			}
		}
		// The answer of the cycle.
		roots, probs := "-", "--"
		var conflicts []string
		if status == "run" {
			conflicts = conflictRoots(state.Conflicts)
			roots = encRoots(conflicts)
			if st.Kind == 'n' || st.Kind == 'h' {
				probs = flag(len(state.AlphaState.TransitionProblems) > 0) + flag(len(state.BetaState.TransitionProblems) > 0)
			}
		}
		arch := "unreadable"
		if archErr == nil {
			arch = hx.EncEntry(archTree)
		}
		answers = append(answers, strings.Join([]string{hx.EncEntry(curA.tree), hx.EncEntry(curB.tree), arch, roots, status, probs}, " "))
		// The oracles.
		or.cycle(&cycleObs{
			step: st, status: status, beforeA: beforeA, beforeB: beforeB, preA: preA, preB: preB, postA: curA, postB: curB,
			archive: archive, archErr: archErr, archTree: archTree, conflicts: conflicts, state: state, stillHalted: stillHalted,
		})
		// Statistics.
		res.count("cycles")
		res.count("cycle:" + string(st.Kind))
		res.count("status:" + status)
		if st.Kind == 'f' || st.Kind == 'c' {
			res.count("fault-op:" + st.Op)
		}
		if len(conflicts) > 0 {
			res.count("cycles-with-conflict")
		}
		if hx.EncEntry(preA.tree) != hx.EncEntry(curA.tree) {
			res.count("cycles-changing-alpha")
		}
		if hx.EncEntry(preB.tree) != hx.EncEntry(curB.tree) {
			res.count("cycles-changing-beta")
		}
		if len(st.Edits) == 0 && i > 0 {
			res.count("quiescent-flushes")
		}
		if corexHasUnsync(curA.tree) || corexHasUnsync(curB.tree) {
			res.count("cycles-with-untracked-content")
		}
		keyParts = append(keyParts, fmt.Sprintf("%c%s%d%d", st.Kind, status, len(conflicts), len(st.Edits)))
		executed = append(executed, st)
		if generating {
			quiesce = st.Kind == 'n' && status == "run" && len(st.Edits)+boolInt(i == 0) > 0 && g.R.Intn(100) < g.P.QuiescePct
		}
		if status == "error" {
			// An unexpected synchronization error: the history ends here.
			res.count("aborted-after-error")
			break
		}
	}
	h.Steps = executed
	res.Line = h.Enc()
	res.Impl = strings.Join(answers, " | ")
	res.Verdicts = or.fails
	res.Key = h.ModeName + " " + strings.Join(keyParts, " ")
	return res
}

func boolInt(b bool) int {
	if b {
		return 1
	}
	return 0
}

func corexHasUnsync(e *core.Entry) bool {
	if e == nil {
		return false
	}
	if e.Kind != core.EntryKind_Directory && e.Kind != core.EntryKind_File && e.Kind != core.EntryKind_SymbolicLink {
		return true
	}
	for _, c := range e.Contents {
		if corexHasUnsync(c) {
			return true
		}
	}
	return false
}

// realDigests is the identity on line-protocol entries (Materialise/SetPath
// take content ids); kept as the single place where that is stated.
func realDigests(e *core.Entry) *core.Entry { return e }

// initialRoots draws the two roots a history starts from.
func (g *Gen) initialRoots() (alpha, beta *core.Entry) {
	base := g.dir(2, 1, 4, false)
	if g.R.Intn(100) < g.P.RootInitPct {
		// A root that does not exist yet or is a file while the other one is a
		// directory: on the very first cycle (no ancestor) the alpha-wins modes
		// plan a root deletion / root type change, which must halt.
		switch g.R.Intn(4) {
		case 0:
			return nil, base
		case 1:
			return base, nil
		case 2:
			return g.file(), base
		}
		return base, g.file()
	}
	switch x := g.R.Intn(100); {
	case x < g.P.SamePct:
		if g.R.Chance(1, 3) {
			// identical tracked content, different untracked content
			a, _ := hx.Set(base, g.unsyncChildPath(), &core.Entry{Kind: core.EntryKind_Untracked})
			return a, base
		}
		return base, base
	case x < g.P.SamePct+8:
		return base, nil // beta root does not exist yet
	case x < g.P.SamePct+11:
		return nil, base
	case x < g.P.SamePct+15:
		return g.dir(2, 1, 3, true), g.dir(2, 0, 3, true) // unrelated
	case x < g.P.SamePct+18:
		return base, &core.Entry{Kind: core.EntryKind_Directory}
	}
	alpha, beta = base, base
	for i, n := 0, g.R.Intn(4); i < n; i++ {
		if p, v, ok := g.editFor(alpha); ok && placeable(p, v) && p != "" {
			if t, ok := hx.Set(alpha, p, v); ok {
				alpha = t
			}
		}
	}
	for i, n := 0, g.R.Intn(4); i < n; i++ {
		if p, v, ok := g.editFor(beta); ok && placeable(p, v) && p != "" {
			if t, ok := hx.Set(beta, p, v); ok {
				beta = t
			}
		}
	}
	return alpha, beta
}

func (g *Gen) unsyncChildPath() string {
	g.names++
	return "ignf" + g.prefix + fmt.Sprint(g.names)
}
