package sessx

// The properties' own predicates on what a real session did, written from the
// property statements and from nothing else: they look at the two roots as
// read back from disk before and after a cycle, at the archive file, and at
// the state Manager.List reports. They do not look at the Lean model, do not
// re-run the reconciler and do not trust the archive as "the last synchronized
// state": that notion is tracked here, independently, as `synced` — for every
// path, the content (kind, digest, executable bit, link target) that was last
// seen identical on both roots after a cycle. Files and links written by the
// edit scripts carry contents / targets that are never reused, so "this
// content differs from synced[path]" means exactly "created or modified since
// the two roots last agreed on this path".
//
// Every failure carries its property in the class (class=C01-…, class=C02-…).

import (
	"fmt"
	"sort"
	"strings"

	"github.com/mutagen-io/mutagen/pkg/synchronization"
	"github.com/mutagen-io/mutagen/pkg/synchronization/core"

	"verif/harness/hx"
)

type cycleObs struct {
	step             Step
	status           string
	beforeA, beforeB side // before the step's edits (= after the previous cycle)
	preA, preB       side // after the edits, before the flush
	postA, postB     side // after the cycle
	archive          *core.Archive
	archErr          error
	archTree         *core.Entry // canonical digests
	conflicts        []string
	state            *synchronization.State // nil after a cancelled cycle
	stillHalted      bool                   // a halted session refused a further flush
}

type oracle struct {
	mode        core.SynchronizationMode
	synced      map[string]string
	prevArch    *core.Entry
	prevArchOK  bool
	prevClean   bool // the previous cycle was fault-free and completed (status run)
	agreedTop   int  // top-level entries the roots agreed on after the last completed cycle
	cycles      int
	fails       []string
}

func newOracle(mode core.SynchronizationMode) *oracle {
	return &oracle{mode: mode, synced: map[string]string{}}
}

func (o *oracle) failf(class, format string, a ...any) {
	o.fails = append(o.fails, fmt.Sprintf("class=%s cycle %d: ", class, o.cycles)+fmt.Sprintf(format, a...))
}

func syncKind(e *core.Entry) bool {
	return e != nil && (e.Kind == core.EntryKind_Directory || e.Kind == core.EntryKind_File || e.Kind == core.EntryKind_SymbolicLink)
}

// fp is the shallow fingerprint of tracked content ("" = nothing tracked there).
func fp(e *core.Entry) string {
	if !syncKind(e) {
		return ""
	}
	return hx.EncEntry(&core.Entry{Kind: e.Kind, Executable: e.Executable, Digest: e.Digest, Target: e.Target})
}

func fpAt(t *core.Entry, p string) string { return fp(hx.Lookup(t, p)) }

// trackedPaths lists the paths of the directories, files and links of a tree
// (nothing exists below an untracked or problematic entry of a scan-level tree).
func trackedPaths(t *core.Entry) []string {
	var out []string
	for _, p := range hx.Paths(t) {
		if syncKind(hx.Lookup(t, p)) {
			out = append(out, p)
		}
	}
	return out
}

func union(lists ...[]string) []string {
	seen := map[string]bool{}
	var out []string
	for _, l := range lists {
		for _, p := range l {
			if !seen[p] {
				seen[p] = true
				out = append(out, p)
			}
		}
	}
	sort.Strings(out)
	return out
}

func isLeafContent(e *core.Entry) bool {
	return e != nil && (e.Kind == core.EntryKind_File || e.Kind == core.EntryKind_SymbolicLink)
}

// blockedAt reports whether t holds an untracked/problematic entry at p or at
// one of p's ancestors.
func blockedAt(t *core.Entry, p string) bool {
	if t != nil && !syncKind(t) {
		return true
	}
	if p == "" {
		return false
	}
	cur := t
	for _, c := range strings.Split(p, "/") {
		if cur == nil {
			return false
		}
		cur = cur.Contents[c]
		if cur != nil && !syncKind(cur) {
			return true
		}
	}
	return false
}

func underAny(roots []string, p string) bool {
	for _, r := range roots {
		if hx.PathIsPrefix(r, p) {
			return true
		}
	}
	return false
}

// untrackedRaw reports whether the raw path is content a session does not
// track: an ignored name or anything beneath one, a FIFO, a link with an
// absolute target.
func untrackedRaw(p, fingerprint string) bool {
	if p != "" {
		for _, c := range strings.Split(p, "/") {
			if IsIgnoredName(c) {
				return true
			}
		}
	}
	return strings.HasPrefix(fingerprint, "o:") || strings.HasPrefix(fingerprint, "l:/")
}

func rawEqual(a, b Raw) (string, bool) {
	for p, v := range a {
		if w, ok := b[p]; !ok || w != v {
			return p, false
		}
	}
	for p := range b {
		if _, ok := a[p]; !ok {
			return p, false
		}
	}
	return "", true
}

// protectedLost checks that every file/link of pre whose content differs from
// what the two roots last agreed on is still there, unchanged, in post.
func (o *oracle) protectedLost(pre, post *core.Entry) (string, bool) {
	for _, p := range trackedPaths(pre) {
		e := hx.Lookup(pre, p)
		if !isLeafContent(e) || fp(e) == o.synced[p] {
			continue
		}
		if fpAt(post, p) != fp(e) {
			return p, true
		}
	}
	return "", false
}

func (o *oracle) cycle(c *cycleObs) {
	o.cycles++
	twoWaySafe := o.mode == core.SynchronizationMode_SynchronizationModeTwoWaySafe
	twoWayResolved := o.mode == core.SynchronizationMode_SynchronizationModeTwoWayResolved
	oneWaySafe := o.mode == core.SynchronizationMode_SynchronizationModeOneWaySafe
	oneWay := oneWaySafe || o.mode == core.SynchronizationMode_SynchronizationModeOneWayReplica
	twoWay := twoWaySafe || twoWayResolved
	clean := c.step.Kind == 'n' && c.status == "run"

	// ---- C01: two-way-safe never loses a modification ----
	if twoWaySafe {
		if p, lost := o.protectedLost(c.preA.tree, c.postA.tree); lost {
			o.failf("C01-lost-modification", "alpha %q held %s, created or modified since the roots last agreed there (%q), and the cycle left %q",
				p, fpAt(c.preA.tree, p), o.synced[p], fpAt(c.postA.tree, p))
		}
		if p, lost := o.protectedLost(c.preB.tree, c.postB.tree); lost {
			o.failf("C01-lost-modification", "beta %q held %s, created or modified since the roots last agreed there (%q), and the cycle left %q",
				p, fpAt(c.preB.tree, p), o.synced[p], fpAt(c.postB.tree, p))
		}
		for _, r := range c.conflicts {
			if hx.EncEntry(hx.Lookup(c.preA.tree, r)) != hx.EncEntry(hx.Lookup(c.postA.tree, r)) ||
				hx.EncEntry(hx.Lookup(c.preB.tree, r)) != hx.EncEntry(hx.Lookup(c.postB.tree, r)) {
				o.failf("C01-conflict-side-changed", "a conflict is reported at %q but a version of it changed on disk", r)
			}
		}
		if c.status == "run" {
			for _, p := range trackedPaths(c.preA.tree) {
				a, b := hx.Lookup(c.preA.tree, p), hx.Lookup(c.preB.tree, p)
				if isLeafContent(a) && isLeafContent(b) && fp(a) != fp(b) && fp(a) != o.synced[p] && fp(b) != o.synced[p] &&
					!underAny(c.conflicts, p) {
					o.failf("C01-missing-conflict", "both roots created or modified %q (%s / %s, last agreed %q) and no conflict covers it", p, fp(a), fp(b), o.synced[p])
				}
			}
		}
	}

	// ---- C02: directional modes ----
	if oneWay {
		if p, same := rawEqual(c.preA.raw, c.postA.raw); !same {
			o.failf("C02-alpha-modified", "the alpha root of a one-way session changed at %q: %q -> %q", p, c.preA.raw[p], c.postA.raw[p])
		}
	}
	if oneWaySafe {
		if p, lost := o.protectedLost(c.preB.tree, c.postB.tree); lost {
			o.failf("C02-beta-modification-lost", "one-way-safe: beta %q held %s, created or modified since the roots last agreed there (%q), and the cycle left %q",
				p, fpAt(c.preB.tree, p), o.synced[p], fpAt(c.postB.tree, p))
		}
	}
	if twoWayResolved {
		if p, lost := o.protectedLost(c.preA.tree, c.postA.tree); lost {
			o.failf("C02-alpha-modification-lost", "two-way-resolved: alpha %q held %s, created or modified since the roots last agreed there (%q), and the cycle left %q",
				p, fpAt(c.preA.tree, p), o.synced[p], fpAt(c.postA.tree, p))
		}
	}

	// ---- C03: untracked content is never touched ----
	for _, s := range []struct {
		name      string
		pre, post Raw
	}{{"alpha", c.preA.raw, c.postA.raw}, {"beta", c.preB.raw, c.postB.raw}} {
		for p, v := range s.pre {
			if untrackedRaw(p, v) && s.post[p] != v {
				o.failf("C03-untracked-content-touched", "%s %q (%s) is not tracked and the cycle left %q", s.name, p, v, s.post[p])
				break
			}
		}
	}

	// ---- C04: fixpoint and convergence ----
	if clean {
		if twoWay {
			for _, p := range union(trackedPaths(c.postA.tree), trackedPaths(c.postB.tree)) {
				if underAny(c.conflicts, p) || blockedAt(c.postA.tree, p) || blockedAt(c.postB.tree, p) {
					continue
				}
				if fpAt(c.postA.tree, p) != fpAt(c.postB.tree, p) {
					o.failf("C04-not-converged", "after a fully applied cycle %q is %q on alpha and %q on beta, outside conflicts %v", p, fpAt(c.postA.tree, p), fpAt(c.postB.tree, p), c.conflicts)
					break
				}
			}
		}
		if o.prevClean && len(c.step.Edits) == 0 {
			if p, same := rawEqual(c.preA.raw, c.postA.raw); !same {
				o.failf("C04-not-a-fixpoint", "a second flush after a fully applied cycle changed alpha at %q", p)
			}
			if p, same := rawEqual(c.preB.raw, c.postB.raw); !same {
				o.failf("C04-not-a-fixpoint", "a second flush after a fully applied cycle changed beta at %q", p)
			}
			if c.archErr == nil && o.prevArchOK && hx.EncEntry(c.archTree) != hx.EncEntry(o.prevArch) {
				o.failf("C04-not-a-fixpoint", "a second flush after a fully applied cycle changed the archive from %s to %s", hx.EncEntry(o.prevArch), hx.EncEntry(c.archTree))
			}
		}
		if o.prevClean {
			// A one-sided deletion of content both roots agreed on propagates.
			for i, e := range c.step.Edits {
				if e.New != nil || e.Path == "" {
					continue
				}
				if !(twoWay || e.Side == 'a') {
					continue
				}
				was := hx.Lookup(c.beforeA.tree, e.Path)
				if was == nil || corexHasUnsync(was) || hx.EncEntry(was) != hx.EncEntry(hx.Lookup(c.beforeB.tree, e.Path)) {
					continue
				}
				alone := true
				for j, f := range c.step.Edits {
					if j != i && (hx.PathIsPrefix(f.Path, e.Path) || hx.PathIsPrefix(e.Path, f.Path)) {
						alone = false
					}
				}
				if !alone {
					continue
				}
				if hx.Lookup(c.postA.tree, e.Path) != nil || hx.Lookup(c.postB.tree, e.Path) != nil {
					o.failf("C04-deletion-not-propagated", "%q, identical on both roots after the previous cycle, was deleted on %c only; after the cycle alpha has %s, beta has %s",
						e.Path, e.Side, hx.EncEntry(hx.Lookup(c.postA.tree, e.Path)), hx.EncEntry(hx.Lookup(c.postB.tree, e.Path)))
				}
			}
		}
	}

	// ---- C05: the saved archive is valid and faithful after any cycle ----
	if c.archErr != nil {
		o.failf("C05-invalid-archive", "the archive cannot be read: %v", c.archErr)
	} else {
		if err := c.archive.EnsureValid(true); err != nil {
			o.failf("C05-invalid-archive", "the saved archive is invalid: %v", err)
		}
		if corexHasUnsync(c.archTree) {
			o.failf("C05-invalid-archive", "the saved archive holds unsynchronizable content: %s", hx.EncEntry(c.archTree))
		}
		// Whatever the cycle changed on a root is what the archive records there.
		for _, s := range []struct {
			name      string
			pre, post *core.Entry
		}{{"alpha", c.preA.tree, c.postA.tree}, {"beta", c.preB.tree, c.postB.tree}} {
			for _, p := range union(trackedPaths(s.pre), trackedPaths(s.post)) {
				if fpAt(s.pre, p) != fpAt(s.post, p) && fpAt(c.archTree, p) != fpAt(s.post, p) {
					o.failf("C05-archive-misses-transition", "the cycle changed %s %q from %q to %q but the archive records %q", s.name, p, fpAt(s.pre, p), fpAt(s.post, p), fpAt(c.archTree, p))
					break
				}
			}
		}
		// Where a transition problem was reported, the archive records what is there.
		if c.state != nil && c.status == "run" {
			for _, s := range []struct {
				name     string
				post     *core.Entry
				problems []*core.Problem
			}{{"alpha", c.postA.tree, c.state.AlphaState.TransitionProblems}, {"beta", c.postB.tree, c.state.BetaState.TransitionProblems}} {
				for _, pr := range s.problems {
					if fpAt(c.archTree, pr.Path) != fpAt(s.post, pr.Path) {
						o.failf("C05-archive-unfaithful", "a transition problem was reported on %s at %q; the root holds %q there, the archive records %q", s.name, pr.Path, fpAt(s.post, pr.Path), fpAt(c.archTree, pr.Path))
						break
					}
				}
			}
		}
		// Every change of the archive records content one of the roots holds.
		if o.prevArchOK || o.cycles == 1 {
			for _, p := range union(hx.Paths(o.prevArch), hx.Paths(c.archTree)) {
				now := fpAt(c.archTree, p)
				if now != fpAt(o.prevArch, p) && now != fpAt(c.postA.tree, p) && now != fpAt(c.postB.tree, p) {
					o.failf("C05-archive-unexplained", "the archive now records %q at %q (was %q); alpha holds %q, beta holds %q", now, p, fpAt(o.prevArch, p), fpAt(c.postA.tree, p), fpAt(c.postB.tree, p))
					break
				}
			}
		}
	}

	// ---- C11: a halted session changes nothing and stays halted ----
	if c.step.Kind == 'h' && c.status != "halted" && !c.stillHalted {
		o.failf("C11-not-halted", "a flush request on a session that halted and was not resumed was served (status %s)", c.status)
	}
	if strings.HasPrefix(c.status, "halt") {
		if p, same := rawEqual(c.preA.raw, c.postA.raw); !same {
			o.failf("C11-halted-cycle-changed-root", "the session halted (%s) but alpha changed at %q", c.status, p)
		}
		if p, same := rawEqual(c.preB.raw, c.postB.raw); !same {
			o.failf("C11-halted-cycle-changed-root", "the session halted (%s) but beta changed at %q", c.status, p)
		}
		if !c.stillHalted {
			o.failf("C11-not-halted", "the session halted (%s) but served a further flush request", c.status)
		}
	}
	// A cycle never deletes an existing root and never changes its type,
	// whatever the history (also on the first cycle, without any ancestor).
	for _, r := range []struct {
		name      string
		pre, post *core.Entry
	}{{"alpha", c.preA.tree, c.postA.tree}, {"beta", c.preB.tree, c.postB.tree}} {
		if r.pre != nil && (r.post == nil || r.post.Kind != r.pre.Kind) {
			o.failf("C11-root-change-propagated", "the cycle replaced the %s root %s by %s", r.name, fp(r.pre), hx.EncEntry(r.post))
		}
	}
	// One root emptied while the two roots agreed on at least two top-level
	// entries after the previous completed cycle (which the archive therefore
	// records): the session halts and the other root keeps its content.
	if o.agreedTop >= 2 && isDir(c.preA.tree) && isDir(c.preB.tree) &&
		(len(c.preA.tree.Contents) == 0) != (len(c.preB.tree.Contents) == 0) {
		intact, pre, post := "alpha", c.preA.raw, c.postA.raw
		if len(c.preA.tree.Contents) == 0 {
			intact, pre, post = "beta", c.preB.raw, c.postB.raw
		}
		if p, same := rawEqual(pre, post); !same {
			o.failf("C11-root-emptying-propagated", "one root was emptied (the roots agreed on %d top-level entries) and the cycle modified %s at %q", o.agreedTop, intact, p)
		} else if !strings.HasPrefix(c.status, "halt") && c.status != "cancelled" {
			o.failf("C11-root-emptying-not-halted", "one root was emptied (the roots agreed on %d top-level entries) and the session did not halt (status %s)", o.agreedTop, c.status)
		}
	}
	// A root that both roots last agreed to be a directory and that is now gone
	// or of another type on one side: that change is never propagated, the
	// intact root stays as it is.
	if o.synced[""] == "D" && (fpAt(c.preA.tree, "") != "D") != (fpAt(c.preB.tree, "") != "D") {
		intact, pre, post := "alpha", c.preA.raw, c.postA.raw
		if fpAt(c.preA.tree, "") != "D" {
			intact, pre, post = "beta", c.preB.raw, c.postB.raw
		}
		if p, same := rawEqual(pre, post); !same {
			o.failf("C11-root-change-propagated", "a synchronized root was deleted or changed type on the other side and the cycle modified %s at %q", intact, p)
		}
	}

	// ---- bookkeeping for the next cycle ----
	for _, p := range trackedPaths(c.postA.tree) {
		if f := fpAt(c.postA.tree, p); f == fpAt(c.postB.tree, p) {
			o.synced[p] = f
		}
	}
	o.prevArch, o.prevArchOK = c.archTree, c.archErr == nil
	o.prevClean = clean
	// Top-level entries both roots agree on after a completed cycle are recorded
	// in the archive; a halted cycle leaves the archive as it was; after a
	// cancelled or failed cycle nothing is claimed.
	switch {
	case c.status == "run":
		o.agreedTop = 0
		if isDir(c.postA.tree) && isDir(c.postB.tree) {
			for n, e := range c.postA.tree.Contents {
				if f := fp(e); f != "" && f == fp(c.postB.tree.Contents[n]) {
					o.agreedTop++
				}
			}
		}
	case strings.HasPrefix(c.status, "halt"):
	default:
		o.agreedTop = 0
	}
}

// Filter keeps the verdicts of one property ("" keeps all).
func Filter(verdicts []string, prop string) []string {
	if prop == "" {
		return verdicts
	}
	var out []string
	for _, v := range verdicts {
		if strings.HasPrefix(v, "class="+prop+"-") {
			out = append(out, v)
		}
	}
	return out
}
