package sessx

// Generators: initial root trees, edit scripts and fault choices of a session
// history. Every random choice comes from the history's own hx.Rand (forked
// from the driver's generator in history order, so a run is reproducible
// whatever the number of workers).

import (
	"strconv"

	"github.com/mutagen-io/mutagen/pkg/synchronization/core"

	"verif/harness/hx"
)

// Profile holds the per-property weights of the history generator.
type Profile struct {
	Modes      []string // drawn uniformly (repeat a name to weight it)
	FaultPct   int      // % of cycles with an injected fault
	CancelPct  int      // % of cycles with a cancellation during the transition
	QuiescePct int      // % chance that a fault-free cycle is followed by an edit-free flush
	UnsyncPct  int      // % of created leaves that are ignored names / FIFOs / problematic links
	BothPct    int      // % of edits applied identically to both roots
	SamePct    int      // % of histories that start from identical roots
	RootPct    int      // % of edits that hit a root itself (deletion, type change, emptying)
	RootInitPct    int  // % of histories starting with a root that is absent or a file
	HaltedFlushPct int  // % of steps on a halted session that are `h` steps (no pause/resume)
	MinSteps   int
	MaxSteps   int
}

// Profiles by property ("" = the mix used when no -prop is given).
var Profiles = map[string]Profile{
	"": {Modes: []string{"two-way-safe", "two-way-resolved", "one-way-safe", "one-way-replica"},
		FaultPct: 20, CancelPct: 10, QuiescePct: 30, UnsyncPct: 15, BothPct: 15, SamePct: 15, RootPct: 3, RootInitPct: 3, HaltedFlushPct: 30, MinSteps: 3, MaxSteps: 7},
	"C01": {Modes: []string{"two-way-safe", "two-way-safe", "two-way-safe", "two-way-safe", "two-way-safe", "two-way-resolved"},
		FaultPct: 22, CancelPct: 6, QuiescePct: 15, UnsyncPct: 10, BothPct: 15, SamePct: 10, RootPct: 2, MinSteps: 3, MaxSteps: 7},
	"C02": {Modes: []string{"one-way-safe", "one-way-safe", "one-way-replica", "one-way-replica", "two-way-resolved"},
		FaultPct: 15, CancelPct: 5, QuiescePct: 15, UnsyncPct: 10, BothPct: 15, SamePct: 10, RootPct: 2, MinSteps: 3, MaxSteps: 7},
	"C03": {Modes: []string{"two-way-safe", "two-way-resolved", "one-way-safe", "one-way-replica"},
		FaultPct: 10, CancelPct: 4, QuiescePct: 10, UnsyncPct: 40, BothPct: 10, SamePct: 10, RootPct: 2, MinSteps: 3, MaxSteps: 7},
	"C04": {Modes: []string{"two-way-safe", "two-way-resolved", "one-way-safe", "one-way-replica"},
		FaultPct: 0, CancelPct: 0, QuiescePct: 60, UnsyncPct: 12, BothPct: 30, SamePct: 30, RootPct: 2, MinSteps: 4, MaxSteps: 8},
	"C11": {Modes: []string{"two-way-safe", "two-way-resolved", "one-way-safe", "one-way-replica"},
		FaultPct: 5, CancelPct: 3, QuiescePct: 10, UnsyncPct: 10, BothPct: 15, SamePct: 15, RootPct: 25, RootInitPct: 20, HaltedFlushPct: 50, MinSteps: 3, MaxSteps: 7},
	"C05": {Modes: []string{"two-way-safe", "two-way-resolved", "one-way-safe", "one-way-replica"},
		FaultPct: 45, CancelPct: 25, QuiescePct: 10, UnsyncPct: 10, BothPct: 12, SamePct: 10, RootPct: 2, MinSteps: 3, MaxSteps: 7},
}

// Gen is the generator state of one history.
type Gen struct {
	R       *hx.Rand
	P       Profile
	prefix  string
	names   int
	content int
	targets int
}

// NewGen creates the generator of history idx; prefix makes every leaf name of
// the history unique across all histories of the run (the fault hook is keyed
// by leaf name).
func NewGen(r *hx.Rand, p Profile, idx int) *Gen {
	return &Gen{R: r, P: p, prefix: strconv.FormatInt(int64(idx), 36) + "_"}
}

func (g *Gen) name() string {
	g.names++
	return "n" + g.prefix + strconv.Itoa(g.names)
}

func (g *Gen) file() *core.Entry {
	g.content++
	return &core.Entry{Kind: core.EntryKind_File, Digest: ShortDigest(g.content % MaxContent), Executable: g.R.Chance(1, 5)}
}

func (g *Gen) link() *core.Entry {
	g.targets++
	return &core.Entry{Kind: core.EntryKind_SymbolicLink, Target: "t" + strconv.Itoa(g.targets)}
}

// unsync draws a name and an entry that the scanner does not track.
func (g *Gen) unsync() (string, *core.Entry) {
	g.names++
	k := g.prefix + strconv.Itoa(g.names)
	switch g.R.Intn(4) {
	case 0:
		return "ignf" + k, &core.Entry{Kind: core.EntryKind_Untracked}
	case 1:
		return "ignd" + k, &core.Entry{Kind: core.EntryKind_Untracked}
	case 2:
		return "ff" + k, &core.Entry{Kind: core.EntryKind_Untracked}
	}
	return "n" + k, &core.Entry{Kind: core.EntryKind_Problematic, Problem: "p"}
}

// child draws a (name, subtree) pair.
func (g *Gen) child(depth int, allowUnsync bool) (string, *core.Entry) {
	if allowUnsync && g.R.Intn(100) < g.P.UnsyncPct {
		return g.unsync()
	}
	switch x := g.R.Intn(10); {
	case x < 5:
		return g.name(), g.file()
	case x < 6:
		return g.name(), g.link()
	case depth <= 0:
		return g.name(), &core.Entry{Kind: core.EntryKind_Directory}
	}
	return g.name(), g.dir(depth-1, 0, 3, allowUnsync)
}

func (g *Gen) dir(depth, minKids, maxKids int, allowUnsync bool) *core.Entry {
	d := &core.Entry{Kind: core.EntryKind_Directory}
	k := minKids + g.R.Intn(maxKids-minKids+1)
	for i := 0; i < k; i++ {
		n, c := g.child(depth, allowUnsync)
		if d.Contents == nil {
			d.Contents = make(map[string]*core.Entry)
		}
		d.Contents[n] = c
	}
	return d
}

// Edit is one change of a root: the content at Path becomes New (nil = removed).
type Edit struct {
	Side byte // 'a' | 'b'
	Path string
	New  *core.Entry
}

func isDir(e *core.Entry) bool { return e != nil && e.Kind == core.EntryKind_Directory }

func join(p, n string) string {
	if p == "" {
		return n
	}
	return p + "/" + n
}

// editFor draws one edit of tree cur (the current content of a root).
func (g *Gen) editFor(cur *core.Entry) (path string, v *core.Entry, ok bool) {
	if cur == nil {
		if g.R.Chance(1, 2) {
			return "", g.dir(1, 1, 3, false), true // the root comes back
		}
		return "", nil, false
	}
	if !isDir(cur) {
		return "", g.dir(1, 1, 3, false), true // a root that became a file turns into a directory again
	}
	if g.R.Intn(100) < g.P.RootPct {
		switch g.R.Intn(3) {
		case 0:
			return "", nil, true
		case 1:
			return "", g.file(), true
		}
		return "", &core.Entry{Kind: core.EntryKind_Directory}, true
	}
	paths := hx.Paths(cur)
	var dirs, others []string
	for _, p := range paths {
		if isDir(hx.Lookup(cur, p)) {
			dirs = append(dirs, p)
		}
		if p != "" {
			others = append(others, p)
		}
	}
	x := g.R.Intn(10)
	if len(others) == 0 || x < 4 { // create below a directory
		n, c := g.child(2, true)
		return join(dirs[g.R.Intn(len(dirs))], n), c, true
	}
	p := others[g.R.Intn(len(others))]
	e := hx.Lookup(cur, p)
	switch {
	case x < 6: // delete
		return p, nil, true
	case x < 9 && e.Kind == core.EntryKind_File: // modify content or mode
		if g.R.Chance(1, 4) {
			return p, &core.Entry{Kind: core.EntryKind_File, Digest: e.Digest, Executable: !e.Executable}, true
		}
		f := g.file()
		f.Executable = e.Executable
		return p, f, true
	case x < 9 && e.Kind == core.EntryKind_SymbolicLink:
		return p, g.link(), true
	}
	// replace by something else (usually of another kind)
	switch e.Kind {
	case core.EntryKind_Directory:
		if g.R.Chance(1, 2) {
			return p, g.file(), true
		}
		return p, g.link(), true
	case core.EntryKind_Untracked, core.EntryKind_Problematic:
		return p, nil, true
	}
	if g.R.Chance(1, 2) {
		return p, g.dir(1, 0, 2, false), true
	}
	if e.Kind == core.EntryKind_File {
		return p, g.link(), true
	}
	return p, g.file(), true
}

// untrackedFits reports whether an untracked/problematic entry may be
// materialised under this leaf name (the realisation is chosen by name).
func placeable(path string, v *core.Entry) bool {
	if v == nil || v.Kind != core.EntryKind_Untracked {
		return true
	}
	n := path
	for i := len(path) - 1; i >= 0; i-- {
		if path[i] == '/' {
			n = path[i+1:]
			break
		}
	}
	return IsIgnoredName(n) || IsFifoName(n)
}

// Edits draws the edit script of one step against the current trees and
// returns it together with the trees it produces.
func (g *Gen) Edits(alpha, beta *core.Entry, max int) ([]Edit, *core.Entry, *core.Entry) {
	var out []Edit
	n := g.R.Intn(max + 1)
	if n == 0 && g.R.Chance(2, 3) {
		n = 1
	}
	for i := 0; i < n; i++ {
		both := g.R.Intn(100) < g.P.BothPct
		onAlpha := g.R.Chance(1, 2)
		cur := beta
		if onAlpha || both {
			cur = alpha
		}
		p, v, ok := g.editFor(cur)
		if !ok || !placeable(p, v) {
			continue
		}
		if both {
			na, oka := hx.Set(alpha, p, v)
			nb, okb := hx.Set(beta, p, v)
			if oka && okb && (p != "" || (alpha != nil && beta != nil)) {
				alpha, beta = na, nb
				out = append(out, Edit{'a', p, v}, Edit{'b', p, v})
				continue
			}
		}
		if onAlpha || both {
			if na, ok := hx.Set(alpha, p, v); ok {
				alpha = na
				out = append(out, Edit{'a', p, v})
			}
		} else if nb, ok := hx.Set(beta, p, v); ok {
			beta = nb
			out = append(out, Edit{'b', p, v})
		}
	}
	return out, alpha, beta
}

// FaultChoice is an (operation, leaf name) pair a transition of the coming
// cycle is likely to perform.
type FaultChoice struct{ Op, Name string }

func leafOf(p string) string {
	for i := len(p) - 1; i >= 0; i-- {
		if p[i] == '/' {
			return p[i+1:]
		}
	}
	return p
}

func creationOps(name string, e *core.Entry, out *[]FaultChoice) {
	if e == nil || name == "" {
		return
	}
	switch e.Kind {
	case core.EntryKind_File:
		*out = append(*out, FaultChoice{"rename", name})
	case core.EntryKind_SymbolicLink:
		*out = append(*out, FaultChoice{"symlink", name})
	case core.EntryKind_Directory:
		*out = append(*out, FaultChoice{"mkdir", name}, FaultChoice{"chmod", name})
		for _, n := range hx.SortedNames(e) {
			creationOps(n, e.Contents[n], out)
		}
	}
}

func removalOps(name string, e *core.Entry, out *[]FaultChoice) {
	if e == nil || name == "" {
		return
	}
	switch e.Kind {
	case core.EntryKind_File, core.EntryKind_SymbolicLink:
		*out = append(*out, FaultChoice{"unlink", name})
	case core.EntryKind_Directory:
		*out = append(*out, FaultChoice{"rmdir", name})
		for _, n := range hx.SortedNames(e) {
			removalOps(n, e.Contents[n], out)
		}
	}
}

// FaultChoices lists the candidate faults of a step: the operations that
// propagating the step's edits (or, on the first cycle, the initial
// differences) to the other root would perform.
func FaultChoices(edits []Edit, beforeA, beforeB, afterA, afterB *core.Entry, first bool) []FaultChoice {
	var out []FaultChoice
	if first {
		for _, t := range []*core.Entry{afterA, afterB} {
			for _, n := range hx.SortedNames(t) {
				creationOps(n, t.Contents[n], &out)
			}
		}
	}
	for _, e := range edits {
		before := beforeA
		if e.Side == 'b' {
			before = beforeB
		}
		old := hx.Lookup(before, e.Path)
		name := leafOf(e.Path)
		if old != nil && e.New != nil && old.Kind == core.EntryKind_File && e.New.Kind == core.EntryKind_File {
			if string(old.Digest) == string(e.New.Digest) {
				out = append(out, FaultChoice{"chmod", name})
			} else {
				out = append(out, FaultChoice{"rename", name})
			}
			continue
		}
		removalOps(name, old, &out)
		creationOps(name, e.New, &out)
	}
	// A failed permission change on a freshly created symbolic link leaves the
	// link on disk while the transition reports it as not created
	// (transition.go createSymbolicLink; a transition-level matter outside this
	// stream), so "chmod" faults are never placed on a name that is a link on
	// either root.
	links := map[string]bool{}
	for _, t := range []*core.Entry{afterA, afterB, beforeA, beforeB} {
		for _, p := range hx.Paths(t) {
			if e := hx.Lookup(t, p); e != nil && (e.Kind == core.EntryKind_SymbolicLink || e.Kind == core.EntryKind_Problematic) {
				links[leafOf(p)] = true
			}
		}
	}
	kept := out[:0]
	for _, f := range out {
		if f.Op == "chmod" && links[f.Name] {
			continue
		}
		kept = append(kept, f)
	}
	return kept
}
