package sessx

// Direct-endpoint sub-stream (property C02): requests sent straight to a local
// endpoint, bypassing the controller.
//
//	EP <mode> <a|b> <tree> <stage|trans> <arg>
//	   stage: <arg> = content id of a file the root does not hold (staged at path "zz")
//	   trans: <arg> = one change `path=old>new` that needs no staged file
//
// Answer: `refused <tree after>` | `ok <tree after>`. An alpha endpoint of a
// one-way session is read-only: it must refuse both requests and leave the
// root alone; every other endpoint accepts, and a transition then produces
// exactly the requested tree.

import (
	"context"
	"crypto/sha1"
	"fmt"
	"os"
	"path/filepath"
	"strings"

	"github.com/mutagen-io/mutagen/pkg/synchronization"
	"github.com/mutagen-io/mutagen/pkg/synchronization/core"
	"github.com/mutagen-io/mutagen/pkg/synchronization/endpoint/local"

	"verif/harness/hx"
)

// fullDigests replaces content ids by the real SHA-1 digests (what a scan reports).
func fullDigests(e *core.Entry) *core.Entry {
	if e == nil {
		return nil
	}
	out := &core.Entry{Kind: e.Kind, Executable: e.Executable, Target: e.Target, Problem: e.Problem}
	if id := contentID(e.Digest); id >= 0 {
		sum := sha1.Sum(Content(id))
		out.Digest = sum[:]
	} else {
		out.Digest = e.Digest
	}
	for n, c := range e.Contents {
		if out.Contents == nil {
			out.Contents = make(map[string]*core.Entry)
		}
		out.Contents[n] = fullDigests(c)
	}
	return out
}

// GenEndpointCase draws a direct-endpoint case line.
func GenEndpointCase(g *Gen) string {
	mode := g.R.Pick("two-way-safe", "two-way-resolved", "one-way-safe", "one-way-replica", "one-way-safe", "one-way-replica")
	which := g.R.Pick("a", "a", "b")
	tree := g.dir(2, 2, 4, false)
	if g.R.Chance(1, 3) {
		return fmt.Sprintf("EP %s %s %s stage %d", mode, which, hx.EncEntry(tree), 3000+g.R.Intn(1000))
	}
	var ch *core.Change
	paths := hx.Paths(tree)
	p := paths[1+g.R.Intn(len(paths)-1)]
	old := hx.Lookup(tree, p)
	switch x := g.R.Intn(6); {
	case x < 2: // remove something
		ch = &core.Change{Path: p, Old: old}
	case x < 3 && old.Kind == core.EntryKind_File: // mode-only swap
		ch = &core.Change{Path: p, Old: old, New: &core.Entry{Kind: core.EntryKind_File, Digest: old.Digest, Executable: !old.Executable}}
	case x < 5: // create a directory of links and directories
		d := &core.Entry{Kind: core.EntryKind_Directory, Contents: map[string]*core.Entry{g.name(): g.link(), g.name(): {Kind: core.EntryKind_Directory}}}
		ch = &core.Change{Path: g.name(), New: d}
	default: // replace by a link
		ch = &core.Change{Path: p, Old: old, New: g.link()}
	}
	return fmt.Sprintf("EP %s %s %s trans %s", mode, which, hx.EncEntry(tree), hx.EncChange(ch))
}

// RunEndpointCase executes a direct-endpoint case.
func (r *Runner) RunEndpointCase(idx int, line string) (res Result) {
	res.Counts = map[string]int{}
	res.Line = line
	f := strings.Fields(line)
	if len(f) != 6 || f[0] != "EP" {
		res.Impl = "bad-op"
		return
	}
	mode, ok := hx.ModeByName(f[1])
	tree, err := hx.DecEntry(f[3])
	if !ok || err != nil || (f[2] != "a" && f[2] != "b") {
		res.Impl = "bad-op"
		return
	}
	alpha := f[2] == "a"
	dir := filepath.Join(r.Env.Base, fmt.Sprintf("e%d", idx))
	if err := os.MkdirAll(dir, 0o755); err != nil {
		res.Err = err
		return
	}
	defer os.RemoveAll(dir)
	root := filepath.Join(dir, "r")
	if err := Materialise(root, tree); err != nil {
		res.Err = err
		return
	}
	ep, err := local.NewEndpoint(r.Env.Logger, root, fmt.Sprintf("sync_verifsessx%d", idx), synchronization.Version_Version1, Configuration(mode), alpha)
	if err != nil {
		res.Err = err
		return
	}
	defer ep.Shutdown()
	if _, err, _ := ep.Scan(context.Background(), nil, true); err != nil {
		res.Err = fmt.Errorf("scan: %w", err)
		return
	}
	_, before, _ := Walk(root)
	var opErr error
	switch f[4] {
	case "stage":
		var id int
		if _, err := fmt.Sscanf(f[5], "%d", &id); err != nil {
			res.Impl = "bad-op"
			return
		}
		sum := sha1.Sum(Content(id))
		_, _, _, opErr = ep.Stage([]string{"zz"}, [][]byte{sum[:]})
	case "trans":
		ch, err := hx.DecChange(f[5])
		if err != nil {
			res.Impl = "bad-op"
			return
		}
		_, _, _, opErr = ep.Transition(context.Background(), []*core.Change{{Path: ch.Path, Old: fullDigests(ch.Old), New: fullDigests(ch.New)}})
	default:
		res.Impl = "bad-op"
		return
	}
	after, afterRaw, err := Walk(root)
	if err != nil {
		res.Err = err
		return
	}
	verdict := "ok"
	if opErr != nil {
		verdict = "refused"
	}
	res.Impl = verdict + " " + hx.EncEntry(after)
	res.Key = strings.Join(f[1:3], " ") + " " + f[4] + " " + verdict
	res.count("endpoint:" + f[4] + ":" + verdict)
	oneWay := mode == core.SynchronizationMode_SynchronizationModeOneWaySafe || mode == core.SynchronizationMode_SynchronizationModeOneWayReplica
	if alpha && oneWay {
		if opErr == nil {
			res.Verdicts = append(res.Verdicts, fmt.Sprintf("class=C02-readonly-endpoint-accepted the alpha endpoint of a %s session accepted a %s request", f[1], f[4]))
		} else if p, same := rawEqual(before, afterRaw); !same {
			res.Verdicts = append(res.Verdicts, fmt.Sprintf("class=C02-readonly-endpoint-accepted the alpha endpoint of a %s session refused a %s request but its root changed at %q", f[1], f[4], p))
		}
	}
	return
}
