// Package urlx holds what the C36 and C38 drivers share: running url.Parse /
// EnsureValid / Format on one case and rendering the canonical answer of the
// C38 line protocol, the error-message -> error-class tables, and the
// Normalize table passed to the model.
package urlx

import (
	"fmt"
	"os"
	"path/filepath"
	"sort"
	"strings"

	"github.com/mutagen-io/mutagen/pkg/filesystem"
	"github.com/mutagen-io/mutagen/pkg/url"

	"verif/harness/hx"
)

func Hexs(s string) string { return hx.Hex([]byte(s)) }

// ParseErrClass maps Parse errors to the model's error enum.
func ParseErrClass(err error) string {
	m := err.Error()
	switch {
	case m == "empty URL":
		return "empty-url"
	case m == "empty username specified":
		return "empty-username"
	case m == "empty hostname":
		return "empty-hostname"
	case m == "no hostname present":
		return "no-hostname"
	case strings.Contains(m, "command line option"):
		return "option-like"
	case m == "invalid port value specified":
		return "invalid-port"
	case m == "empty path":
		return "empty-path"
	case strings.HasPrefix(m, "invalid forwarding endpoint URL: "):
		return "invalid-endpoint"
	case m == "empty container name":
		return "empty-container"
	case m == "missing path":
		return "missing-path"
	case m == "missing forwarding endpoint":
		return "missing-endpoint"
	case strings.HasPrefix(m, "unable to normalize path: "):
		return "normalize"
	case strings.HasPrefix(m, "unable to normalize socket path: "):
		return "normalize-socket"
	}
	return "unknown:" + m
}

// ValidErrClass maps EnsureValid errors to the model's enum.
func ValidErrClass(err error) string {
	m := err.Error()
	switch {
	case m == "unsupported URL kind":
		return "kind"
	case m == "local URL with non-empty username":
		return "local-user"
	case m == "local URL with non-empty hostname":
		return "local-host"
	case m == "local URL with non-zero port":
		return "local-port"
	case m == "local URL with environment variables":
		return "local-environment"
	case m == "local URL with parameters":
		return "local-parameters"
	case m == "SSH URL with empty hostname":
		return "ssh-host"
	case m == "SSH URL with invalid port":
		return "ssh-port"
	case m == "SSH URL with environment variables":
		return "ssh-environment"
	case strings.HasPrefix(m, "SSH URL") && strings.Contains(m, "command line option"):
		return "ssh-option"
	case m == "Docker URL with empty container identifier":
		return "docker-host"
	case m == "Docker URL with non-zero port":
		return "docker-port"
	case strings.HasPrefix(m, "Docker URL") && strings.Contains(m, "command line option"):
		return "docker-option"
	case m == "unknown or unsupported protocol":
		return "protocol"
	case m == "empty path":
		return "empty-path"
	case m == "local URL with relative path":
		return "relative-path"
	case m == "incorrect first path character":
		return "docker-first-character"
	case strings.HasPrefix(m, "invalid forwarding endpoint URL: "):
		return "endpoint"
	case m == "local Unix domain socket URL with relative path":
		return "relative-socket"
	}
	return "unknown:" + m
}

func ProtoName(p url.Protocol) string {
	switch p {
	case url.Protocol_Local:
		return "local"
	case url.Protocol_SSH:
		return "ssh"
	case url.Protocol_Docker:
		return "docker"
	}
	return "unknown"
}

func ShowURL(u *url.URL) string {
	env := "-"
	if len(u.Environment) > 0 {
		var parts []string
		// table order; names outside the table (none today) sorted behind
		seen := map[string]bool{}
		for _, k := range url.DockerEnvironmentVariables {
			if v, ok := u.Environment[k]; ok {
				parts = append(parts, k+"="+Hexs(v))
				seen[k] = true
			}
		}
		var rest []string
		for k := range u.Environment {
			if !seen[k] {
				rest = append(rest, k)
			}
		}
		sort.Strings(rest)
		for _, k := range rest {
			parts = append(parts, k+"="+Hexs(u.Environment[k]))
		}
		env = strings.Join(parts, ";")
	}
	return fmt.Sprintf("%s/%s/%s/%d/%s/%s", ProtoName(u.Protocol), Hexs(u.User), Hexs(u.Host), u.Port, Hexs(u.Path), env)
}

func MapsEqual(a, b map[string]string) bool {
	if len(a) != len(b) {
		return false
	}
	for k, v := range a {
		if w, ok := b[k]; !ok || w != v {
			return false
		}
	}
	return true
}

// SameURL is the oracle's own notion of "the same URL" (all fields).
func SameURL(a, b *url.URL) bool {
	return a.Kind == b.Kind && a.Protocol == b.Protocol && a.User == b.User && a.Host == b.Host &&
		a.Port == b.Port && a.Path == b.Path && MapsEqual(a.Environment, b.Environment) && MapsEqual(a.Parameters, b.Parameters)
}

var EnvNames []string

func init() {
	for _, p := range []string{"", "MUTAGEN_ALPHA_", "MUTAGEN_BETA_", "MUTAGEN_SOURCE_", "MUTAGEN_DESTINATION_"} {
		for _, v := range url.DockerEnvironmentVariables {
			EnvNames = append(EnvNames, p+v)
		}
	}
}

type Case struct {
	Kind  string // s | f | x
	First bool
	Raw   string
	Env   [][2]string
}

func afterColon(s string) (string, bool) {
	i := strings.IndexByte(s, ':')
	if i < 0 {
		return "", false
	}
	return s[i+1:], true
}

// NormTable computes the Normalize answers the parsers can ask for.
func NormTable(raw string) (table string, spec string) {
	seen := map[string]bool{}
	var items []string
	var add func(s string, depth int)
	add = func(s string, depth int) {
		if seen[s] {
			return
		}
		seen[s] = true
		n, err := filesystem.Normalize(s)
		if err != nil {
			items = append(items, Hexs(s)+">!")
			return
		}
		items = append(items, Hexs(s)+">"+Hexs(n))
		if !filepath.IsAbs(n) {
			spec = fmt.Sprintf("class=normalize-spec Normalize(%q)=%q is not absolute", s, n)
		}
		if m, err := filesystem.Normalize(n); err != nil || m != n {
			spec = fmt.Sprintf("class=normalize-spec Normalize(%q)=%q but Normalize of that is %q, %v", s, n, m, err)
		}
		if depth > 0 {
			add(n, depth-1)
		}
	}
	add(raw, 1)
	if a, ok := afterColon(raw); ok {
		add(a, 1)
	}
	if len(items) == 0 {
		return "-", spec
	}
	return strings.Join(items, ","), spec
}

// Line renders the case as a line of the C38 protocol (and reports a violated Normalize specification).
func (t Case) Line() (string, string) {
	first := "0"
	if t.First {
		first = "1"
	}
	env := "-"
	if len(t.Env) > 0 {
		var parts []string
		for _, kv := range t.Env {
			parts = append(parts, kv[0]+"="+Hexs(kv[1]))
		}
		env = strings.Join(parts, ",")
	}
	table, spec := NormTable(t.Raw)
	return fmt.Sprintf("%s %s %s %s %s", t.Kind, first, Hexs(t.Raw), env, table), spec
}

var currentEnv []string

func SetEnv(env [][2]string) {
	for _, k := range currentEnv {
		os.Unsetenv(k)
	}
	currentEnv = currentEnv[:0]
	for _, kv := range env {
		os.Setenv(kv[0], kv[1])
		currentEnv = append(currentEnv, kv[0])
	}
}

func KindOf(k string) url.Kind {
	switch k {
	case "s":
		return url.Kind_Synchronization
	case "f":
		return url.Kind_Forwarding
	}
	return url.Kind(99)
}

// Run executes one case on the real code.
func Run(t Case) (impl string, oracle string) {
	SetEnv(t.Env)
	kind := KindOf(t.Kind)
	u, err := url.Parse(t.Raw, kind, t.First)
	if err != nil {
		return "err:" + ParseErrClass(err), ""
	}
	valid := "valid"
	if verr := u.EnsureValid(); verr != nil {
		valid = "invalid:" + ValidErrClass(verr)
		oracle = fmt.Sprintf("class=invalid-parse-result Parse(%q) succeeded but EnsureValid says: %v", t.Raw, verr)
	}
	f0 := u.Format("")
	f1 := u.Format(";")
	re := ""
	u2, err2 := url.Parse(f0, kind, t.First)
	switch {
	case err2 != nil:
		re = "err:" + ParseErrClass(err2)
		if oracle == "" {
			oracle = fmt.Sprintf("class=round-trip Parse(%q) ok, Format gives %q which does not parse: %v", t.Raw, f0, err2)
		}
	case SameURL(u, u2):
		re = "same"
	default:
		re = "diff:" + ShowURL(u2)
		if oracle == "" {
			oracle = fmt.Sprintf("class=round-trip Parse(%q)=%s, Format gives %q which parses to %s", t.Raw, ShowURL(u), f0, ShowURL(u2))
		}
	}
	return fmt.Sprintf("ok %s %s %s %s %s", ShowURL(u), valid, Hexs(f0), Hexs(f1), re), oracle
}

// --- generators ---

// ParseLine decodes a case line (replay).
func ParseLine(l string) (Case, bool) {
	f := strings.Fields(l)
	if len(f) != 5 {
		return Case{}, false
	}
	t := Case{Kind: f[0], First: f[1] == "1"}
	raw, ok := Unhex(f[2])
	if !ok {
		return t, false
	}
	t.Raw = raw
	if f[3] != "-" {
		for _, item := range strings.Split(f[3], ",") {
			kv := strings.SplitN(item, "=", 2)
			if len(kv) != 2 {
				return t, false
			}
			v, ok := Unhex(kv[1])
			if !ok {
				return t, false
			}
			t.Env = append(t.Env, [2]string{kv[0], v})
		}
	}
	return t, true
}

func Unhex(s string) (string, bool) {
	if s == "-" {
		return "", true
	}
	if len(s)%2 != 0 {
		return "", false
	}
	b := make([]byte, len(s)/2)
	for i := range b {
		var v byte
		for _, ch := range []byte(s[2*i : 2*i+2]) {
			switch {
			case ch >= '0' && ch <= '9':
				v = v<<4 | (ch - '0')
			case ch >= 'a' && ch <= 'f':
				v = v<<4 | (ch - 'a' + 10)
			default:
				return "", false
			}
		}
		b[i] = v
	}
	return string(b), true
}
