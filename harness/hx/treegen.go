package hx

// Generators of core.Entry trees: exhaustive small shapes, random deep trees
// (optionally with unsynchronizable kinds), related (ancestor, alpha, beta)
// triples produced by random edits, and malformed entries for EnsureValid.

import (
	"sort"
	"strings"

	"github.com/mutagen-io/mutagen/pkg/synchronization/core"
)

// TreeOpts controls the random tree generators.
type TreeOpts struct {
	Unsync   bool     // allow untracked and problematic entries
	Phantom  bool     // allow phantom directories
	MaxDepth int      // maximum nesting below the generated entry
	MaxKids  int      // maximum number of children of a directory
	Names    []string // name pool
}

// DefaultNames is a small pool with a few awkward (but valid) names.
var DefaultNames = []string{"a", "b", "c", "d", "e", "a.b", "-x", "é", "a b", "…"}

func (o TreeOpts) names() []string {
	if len(o.Names) > 0 {
		return o.Names
	}
	return DefaultNames
}

func file(d byte, x bool) *core.Entry {
	return &core.Entry{Kind: core.EntryKind_File, Digest: []byte{d}, Executable: x}
}

// GenLeaf draws a non-directory entry.
func GenLeaf(r *Rand, o TreeOpts) *core.Entry {
	n := 8
	if o.Unsync {
		n = 11
	}
	switch r.Intn(n) {
	case 0, 1, 2:
		return file(byte(1+r.Intn(3)), false)
	case 3:
		return file(byte(1+r.Intn(3)), true)
	case 4:
		return &core.Entry{Kind: core.EntryKind_File, Digest: r.Bytes(1+r.Intn(3), 4)}
	case 5, 6:
		return &core.Entry{Kind: core.EntryKind_SymbolicLink, Target: r.Pick("t", "u", "../x", "a/b")}
	case 7:
		return &core.Entry{Kind: core.EntryKind_Directory}
	case 8, 9:
		return &core.Entry{Kind: core.EntryKind_Untracked}
	default:
		return &core.Entry{Kind: core.EntryKind_Problematic, Problem: r.Pick("p", "q", "io error")}
	}
}

// GenEntry draws a valid non-nil entry of nesting depth at most depth.
func GenEntry(r *Rand, o TreeOpts, depth int) *core.Entry {
	if depth <= 0 || r.Chance(2, 5) {
		return GenLeaf(r, o)
	}
	kind := core.EntryKind_Directory
	if o.Phantom && r.Chance(1, 6) {
		kind = core.EntryKind_PhantomDirectory
	}
	e := &core.Entry{Kind: kind}
	maxKids := o.MaxKids
	if maxKids <= 0 {
		maxKids = 3
	}
	k := r.Intn(maxKids + 1)
	names := o.names()
	for i := 0; i < k; i++ {
		if e.Contents == nil {
			e.Contents = make(map[string]*core.Entry)
		}
		e.Contents[names[r.Intn(len(names))]] = GenEntry(r, o, depth-1)
	}
	return e
}

// GenRoot draws a valid, possibly nil, root entry.
func GenRoot(r *Rand, o TreeOpts) *core.Entry {
	switch r.Intn(12) {
	case 0:
		return nil
	case 1:
		return GenLeaf(r, o)
	}
	e := GenEntry(r, o, o.MaxDepth)
	if !r.Chance(1, 8) && e.Kind != core.EntryKind_Directory && e.Kind != core.EntryKind_PhantomDirectory {
		// Prefer directory roots.
		d := &core.Entry{Kind: core.EntryKind_Directory, Contents: map[string]*core.Entry{}}
		k := 1 + r.Intn(3)
		names := o.names()
		for i := 0; i < k; i++ {
			d.Contents[names[r.Intn(len(names))]] = GenEntry(r, o, o.MaxDepth-1)
		}
		return d
	}
	return e
}

// SortedNames returns the content names of e in byte order.
func SortedNames(e *core.Entry) []string {
	if e == nil {
		return nil
	}
	names := make([]string, 0, len(e.Contents))
	for n := range e.Contents {
		names = append(names, n)
	}
	sort.Strings(names)
	return names
}

// Paths lists the paths of all nodes of e (root first, deterministic order).
func Paths(e *core.Entry) []string {
	var out []string
	var rec func(p string, e *core.Entry)
	rec = func(p string, e *core.Entry) {
		out = append(out, p)
		for _, n := range SortedNames(e) {
			q := n
			if p != "" {
				q = p + "/" + n
			}
			rec(q, e.Contents[n])
		}
	}
	if e != nil {
		rec("", e)
	}
	return out
}

// Set returns a copy of root in which the entry at path is replaced by v (nil
// deletes); ok is false when the parent of path does not exist or is not a
// directory kind (then root is returned unchanged).
func Set(root *core.Entry, path string, v *core.Entry) (*core.Entry, bool) {
	if path == "" {
		return v, true
	}
	if root == nil || (root.Kind != core.EntryKind_Directory && root.Kind != core.EntryKind_PhantomDirectory) {
		return root, false
	}
	head, rest, nested := strings.Cut(path, "/")
	cp := &core.Entry{Kind: root.Kind, Contents: make(map[string]*core.Entry, len(root.Contents)+1)}
	for n, c := range root.Contents {
		cp.Contents[n] = c
	}
	if !nested {
		if v == nil {
			delete(cp.Contents, head)
		} else {
			cp.Contents[head] = v
		}
	} else {
		child, ok := root.Contents[head]
		if !ok {
			return root, false
		}
		nc, ok := Set(child, rest, v)
		if !ok {
			return root, false
		}
		cp.Contents[head] = nc
	}
	if len(cp.Contents) == 0 {
		cp.Contents = nil
	}
	return cp, true
}

// An edit is a function from the current entry at a path to its replacement.
type edit struct {
	path string
	f    func(cur *core.Entry) *core.Entry
}

func genEdit(r *Rand, o TreeOpts, base *core.Entry) edit {
	paths := Paths(base)
	p := ""
	if len(paths) > 0 {
		p = paths[r.Intn(len(paths))]
	}
	names := o.names()
	join := func(p, n string) string {
		if p == "" {
			return n
		}
		return p + "/" + n
	}
	sub := o
	sub.MaxDepth = 2
	switch r.Intn(9) {
	case 0, 1: // delete
		return edit{p, func(*core.Entry) *core.Entry { return nil }}
	case 2: // replace by fresh content
		v := GenEntry(r, sub, 2)
		return edit{p, func(*core.Entry) *core.Entry { return v }}
	case 3, 4: // tweak a file or link in place, or replace
		d := byte(4 + r.Intn(3))
		x := r.Chance(1, 3)
		return edit{p, func(cur *core.Entry) *core.Entry {
			if cur != nil && cur.Kind == core.EntryKind_File {
				if x {
					return &core.Entry{Kind: core.EntryKind_File, Digest: cur.Digest, Executable: !cur.Executable}
				}
				return &core.Entry{Kind: core.EntryKind_File, Digest: []byte{d}, Executable: cur.Executable}
			}
			if cur != nil && cur.Kind == core.EntryKind_SymbolicLink {
				return &core.Entry{Kind: core.EntryKind_SymbolicLink, Target: cur.Target + "x"}
			}
			return file(d, x)
		}}
	case 5, 6: // create a child
		v := GenEntry(r, sub, 1+r.Intn(2))
		return edit{join(p, names[r.Intn(len(names))]), func(*core.Entry) *core.Entry { return v }}
	case 7: // unsynchronizable child / replacement
		var v *core.Entry
		if !o.Unsync {
			v = GenLeaf(r, o)
		} else if r.Chance(1, 2) {
			v = &core.Entry{Kind: core.EntryKind_Untracked}
		} else {
			v = &core.Entry{Kind: core.EntryKind_Problematic, Problem: "p"}
		}
		if r.Chance(1, 2) {
			return edit{p, func(*core.Entry) *core.Entry { return v }}
		}
		return edit{join(p, names[r.Intn(len(names))]), func(*core.Entry) *core.Entry { return v }}
	default: // empty a directory / turn into directory
		return edit{p, func(cur *core.Entry) *core.Entry { return &core.Entry{Kind: core.EntryKind_Directory} }}
	}
}

func applyEdit(root *core.Entry, e edit) *core.Entry {
	out, _ := Set(root, e.path, e.f(Lookup(root, e.path)))
	return out
}

// SyncOpts strips the unsynchronizable options (for ancestors).
func SyncOpts(o TreeOpts) TreeOpts {
	o.Unsync, o.Phantom = false, false
	return o
}

// GenTriple draws an (ancestor, alpha, beta) triple. The ancestor is fully
// synchronizable. Most triples are related: alpha and beta are derived from
// the ancestor by a few random edits, some of them performed on both sides.
func GenTriple(r *Rand, o TreeOpts) (anc, alpha, beta *core.Entry) {
	so := SyncOpts(o)
	switch r.Intn(10) {
	case 0: // unrelated
		return GenRoot(r, so), GenRoot(r, o), GenRoot(r, o)
	case 1: // initial synchronization
		anc = nil
		alpha = GenRoot(r, o)
		beta = alpha
	default:
		anc = GenRoot(r, so)
		alpha, beta = anc, anc
	}
	if r.Chance(1, 5) {
		// Both sides replace the same (preferably deep) directory of the
		// ancestor by the same new content ("both modified same").
		var dirs []string
		for _, p := range Paths(anc) {
			if e := Lookup(anc, p); e.Kind == core.EntryKind_Directory && len(e.Contents) > 0 {
				dirs = append(dirs, p)
			}
		}
		if len(dirs) > 0 {
			p := dirs[r.Intn(len(dirs))]
			v := GenLeaf(r, so)
			if r.Chance(1, 3) {
				v = nil
			}
			alpha, _ = Set(alpha, p, v)
			beta, _ = Set(beta, p, v)
		}
	}
	n := r.Intn(5)
	for i := 0; i < n; i++ {
		base := anc
		switch r.Intn(3) {
		case 1:
			base = alpha
		case 2:
			base = beta
		}
		e := genEdit(r, o, base)
		switch r.Intn(5) {
		case 0, 1:
			alpha = applyEdit(alpha, e)
		case 2, 3:
			beta = applyEdit(beta, e)
		default:
			alpha = applyEdit(alpha, e)
			beta = applyEdit(beta, e)
		}
	}
	return
}

// SmallLeaves is the leaf alphabet of the exhaustive shapes.
func SmallLeaves(unsync bool) []*core.Entry {
	out := []*core.Entry{
		file(1, false), file(2, false),
		{Kind: core.EntryKind_SymbolicLink, Target: "t"},
		{Kind: core.EntryKind_Directory},
	}
	if unsync {
		out = append(out, &core.Entry{Kind: core.EntryKind_Untracked}, &core.Entry{Kind: core.EntryKind_Problematic, Problem: "p"})
	}
	return out
}

// SmallShapes enumerates nil, every leaf, and every directory whose children
// (one optional child per name) are leaves: the exhaustive depth-1 space.
func SmallShapes(names []string, unsync bool) []*core.Entry {
	leaves := SmallLeaves(unsync)
	out := []*core.Entry{nil}
	for _, l := range leaves {
		if l.Kind != core.EntryKind_Directory {
			out = append(out, l)
		}
	}
	choice := make([]int, len(names))
	for {
		d := &core.Entry{Kind: core.EntryKind_Directory}
		for i, c := range choice {
			if c > 0 {
				if d.Contents == nil {
					d.Contents = make(map[string]*core.Entry)
				}
				d.Contents[names[i]] = leaves[c-1]
			}
		}
		out = append(out, d)
		i := 0
		for ; i < len(choice); i++ {
			choice[i]++
			if choice[i] <= len(leaves) {
				break
			}
			choice[i] = 0
		}
		if i == len(choice) {
			break
		}
	}
	return out
}

// GenMalformed draws an entry that violates (or, sometimes, happens to
// respect) the Entry invariants: wrong fields for the kind, bad names,
// unknown kinds, at a random position of an otherwise valid tree.
func GenMalformed(r *Rand, o TreeOpts) *core.Entry {
	root := GenEntry(r, o, o.MaxDepth)
	if root.Kind != core.EntryKind_Directory && root.Kind != core.EntryKind_PhantomDirectory && r.Chance(2, 3) {
		root = &core.Entry{Kind: core.EntryKind_Directory, Contents: map[string]*core.Entry{"k": root}}
	}
	paths := Paths(root)
	p := paths[r.Intn(len(paths))]
	cur := Lookup(root, p)
	bad := &core.Entry{Kind: cur.Kind, Executable: cur.Executable, Digest: cur.Digest, Target: cur.Target, Problem: cur.Problem, Contents: cur.Contents}
	switch r.Intn(10) {
	case 0:
		bad.Digest = []byte{9}
	case 1:
		bad.Executable = !bad.Executable
	case 2:
		bad.Target = "t"
	case 3:
		bad.Problem = "p"
	case 4:
		bad.Contents = map[string]*core.Entry{"k": file(1, false)}
	case 5:
		bad.Digest, bad.Target, bad.Problem = nil, "", ""
	case 6:
		bad.Kind = UnknownKind
	case 7:
		bad.Kind = []core.EntryKind{core.EntryKind_Directory, core.EntryKind_File, core.EntryKind_SymbolicLink,
			core.EntryKind_Untracked, core.EntryKind_Problematic, core.EntryKind_PhantomDirectory}[r.Intn(6)]
	default:
		// A badly named child.
		name := r.Pick("", ".", "..", "a/b", "/", "x/", "ok")
		if bad.Kind != core.EntryKind_Directory && bad.Kind != core.EntryKind_PhantomDirectory {
			bad = &core.Entry{Kind: core.EntryKind_Directory}
		}
		kids := map[string]*core.Entry{name: GenLeaf(r, o)}
		for n, c := range bad.Contents {
			kids[n] = c
		}
		bad.Contents = kids
	}
	out, _ := Set(root, p, bad)
	return out
}
