// Package hx is the shared scaffolding of the correspondence harness: one
// seeded PRNG, the line-protocol files, per-case panic isolation, and the
// measured statistics that end up in the evidence file.
//
// A property driver (cmd/cNN) calls hx.Main("CNN", func(c *hx.Ctx){...}) and,
// for every case, c.Case(op, impl, oracle, key):
//
//	op     – the case as one line of the line protocol (what modeld reads)
//	impl   – the canonical answer of the real code (what modeld must print)
//	oracle – "" if the property's own predicate holds on the real code's
//	         answer, else "class=<class> <free text>"
//	key    – non-triviality key: "" for a trivial case, otherwise a string
//	         that is equal for cases that exercise the same behaviour
//
// Files written into -dir: ops.txt, impl.txt, oracle.txt (only failing
// cases: "<line number>\t<text>"), stats.json.
package hx

import (
	"bufio"
	"encoding/hex"
	"encoding/json"
	"flag"
	"fmt"
	"hash/fnv"
	"os"
	"path/filepath"
	"sort"
	"strings"
)

// Rand is a splitmix64 generator; every random choice of a run derives from it.
type Rand struct{ s uint64 }

func NewRand(seed uint64) *Rand {
	// Hash the seed (splitmix64 finalizer of seed+constant) so that consecutive
	// seeds give unrelated streams rather than the same stream shifted by one draw.
	z := seed + 0x632BE59BD9B4E019
	z = (z ^ (z >> 30)) * 0xBF58476D1CE4E5B9
	z = (z ^ (z >> 27)) * 0x94D049BB133111EB
	return &Rand{s: z ^ (z >> 31)}
}

func (r *Rand) U64() uint64 {
	r.s += 0x9E3779B97F4A7C15
	z := r.s
	z = (z ^ (z >> 30)) * 0xBF58476D1CE4E5B9
	z = (z ^ (z >> 27)) * 0x94D049BB133111EB
	return z ^ (z >> 31)
}

// Intn returns a value in [0,n); n<=0 gives 0.
func (r *Rand) Intn(n int) int {
	if n <= 0 {
		return 0
	}
	return int(r.U64() % uint64(n))
}

// Chance is true with probability num/den.
func (r *Rand) Chance(num, den int) bool { return r.Intn(den) < num }

// Bytes returns n bytes drawn from the first `alphabet` byte values (alphabet
// <= 0 means 256).
func (r *Rand) Bytes(n, alphabet int) []byte {
	if alphabet <= 0 {
		alphabet = 256
	}
	b := make([]byte, n)
	for i := range b {
		b[i] = byte(r.Intn(alphabet))
	}
	return b
}

// Pick returns one of the strings.
func (r *Rand) Pick(xs ...string) string { return xs[r.Intn(len(xs))] }

// Fork derives an independent generator (for shards).
func (r *Rand) Fork() *Rand { return NewRand(r.U64()) }

// Hex encodes bytes in the line protocol ("-" for empty).
func Hex(b []byte) string {
	if len(b) == 0 {
		return "-"
	}
	return hex.EncodeToString(b)
}

// Ctx is handed to the property driver.
type Ctx struct {
	Prop     string
	Seed     uint64
	Tier     string // "quick" | "thorough"
	Dir      string
	Replay   string // when non-empty: file with op lines to re-execute instead of generating
	R        *Rand
	ops      *bufio.Writer
	impl     *bufio.Writer
	oracle   *bufio.Writer
	files    []*os.File
	n        int
	keys     map[uint64]struct{}
	hist     map[string]int
	samples  []map[string]string
	failures int
	notes    []string
}

// Thorough reports whether the thorough tier was requested.
func (c *Ctx) Thorough() bool { return c.Tier == "thorough" }

// Size picks a per-tier size.
func (c *Ctx) Size(quick, thorough int) int {
	if c.Thorough() {
		return thorough
	}
	return quick
}

// Count adds to the branch/distribution histogram reported in the evidence.
func (c *Ctx) Count(label string) { c.hist[label]++ }

// Note records a free-text remark for the evidence file.
func (c *Ctx) Note(s string) { c.notes = append(c.notes, s) }

func clean(s string) string {
	s = strings.ReplaceAll(s, "\n", "\\n")
	return strings.ReplaceAll(s, "\r", "\\r")
}

// Case records one case.
func (c *Ctx) Case(op, impl, oracle, key string) {
	c.n++
	op, impl = clean(op), clean(impl)
	fmt.Fprintln(c.ops, op)
	fmt.Fprintln(c.impl, impl)
	if oracle != "" {
		c.failures++
		fmt.Fprintf(c.oracle, "%d\t%s\n", c.n, clean(oracle))
	}
	if key != "" {
		h := fnv.New64a()
		h.Write([]byte(key))
		c.keys[h.Sum64()] = struct{}{}
	}
	if len(c.samples) < 5 || (c.n%997 == 0 && len(c.samples) < 12) {
		s := op
		if len(s) > 400 {
			s = s[:400] + "…"
		}
		i := impl
		if len(i) > 400 {
			i = i[:400] + "…"
		}
		c.samples = append(c.samples, map[string]string{"op": s, "impl": i})
	}
}

// Try runs f, converting a panic into the canonical answer "panic:<msg>".
func Try(f func() string) (out string) {
	defer func() {
		if r := recover(); r != nil {
			out = "panic:" + clean(fmt.Sprint(r))
		}
	}()
	return f()
}

// ReplayLines returns the op lines of the replay file, or nil when generating.
func (c *Ctx) ReplayLines() []string {
	if c.Replay == "" {
		return nil
	}
	data, err := os.ReadFile(c.Replay)
	if err != nil {
		fmt.Fprintln(os.Stderr, "replay:", err)
		os.Exit(2)
	}
	var out []string
	for _, l := range strings.Split(string(data), "\n") {
		if strings.TrimSpace(l) != "" {
			out = append(out, l)
		}
	}
	return out
}

// Main parses the flags, runs the driver and writes stats.json.
func Main(prop string, run func(c *Ctx)) {
	seed := flag.Uint64("seed", 1, "PRNG seed")
	tier := flag.String("tier", "quick", "quick|thorough")
	dir := flag.String("dir", "", "output directory")
	replay := flag.String("replay", "", "file of op lines to re-execute")
	flag.Parse()
	if *dir == "" {
		fmt.Fprintln(os.Stderr, "-dir required")
		os.Exit(2)
	}
	if err := os.MkdirAll(*dir, 0o755); err != nil {
		panic(err)
	}
	c := &Ctx{Prop: prop, Seed: *seed, Tier: *tier, Dir: *dir, Replay: *replay, R: NewRand(*seed),
		keys: map[uint64]struct{}{}, hist: map[string]int{}}
	open := func(name string) *bufio.Writer {
		f, err := os.Create(filepath.Join(*dir, name))
		if err != nil {
			panic(err)
		}
		c.files = append(c.files, f)
		return bufio.NewWriterSize(f, 1<<20)
	}
	c.ops, c.impl, c.oracle = open("ops.txt"), open("impl.txt"), open("oracle.txt")
	run(c)
	c.ops.Flush()
	c.impl.Flush()
	c.oracle.Flush()
	for _, f := range c.files {
		f.Close()
	}
	labels := make([]string, 0, len(c.hist))
	for k := range c.hist {
		labels = append(labels, k)
	}
	sort.Strings(labels)
	hist := map[string]int{}
	for _, k := range labels {
		hist[k] = c.hist[k]
	}
	stats := map[string]any{
		"property": prop, "seed": *seed, "tier": *tier,
		"evaluations": c.n, "distinct_nontrivial": len(c.keys),
		"oracle_failures": c.failures, "histogram": hist, "samples": c.samples, "notes": c.notes,
	}
	data, _ := json.MarshalIndent(stats, "", " ")
	if err := os.WriteFile(filepath.Join(*dir, "stats.json"), data, 0o644); err != nil {
		panic(err)
	}
}
