package hx

// Compact textual encoding of core.Entry trees, changes, conflicts and
// reconciliation plans, shared with the Lean model driver
// (lean/Mutagen/Driver/Tree.lean — same grammar, same canonical form).
//
//	entry  := '~'                                   (nil)
//	        | kind ['x'] ['#' hex+] ['@' text] ['!' text] ['(' [pair {',' pair}] ')']
//	kind   := 'D' directory | 'F' file | 'L' symlink | 'U' untracked
//	        | 'X' problematic | 'P' phantom directory | '?' unknown kind
//	          'x' executable, '#' digest, '@' link target, '!' problem, '(…)' contents
//	pair   := text ':' entry                        (entry != '~')
//	text   := safe+ | '%' hex*                      safe = [A-Za-z0-9._-]; %hex = raw bytes
//	path   := '/' [text {'/' text}]                 ('/' alone = root)
//	change := path '=' entry '>' entry              (old, new)
//	list   := '-' | item {';' item}
//	conflict := path '[' changes '|' changes ']'    conflicts are joined with '&'
//
// Canonical form: contents sorted by name (byte order), empty fields omitted,
// a text is written raw iff it is non-empty and all-safe; change and conflict
// lists are sorted as rendered strings (Go map iteration order is unspecified).

import (
	"encoding/hex"
	"fmt"
	"sort"
	"strings"

	"github.com/mutagen-io/mutagen/pkg/synchronization/core"
)

// UnknownKind is the numeric entry kind written as '?'.
const UnknownKind = core.EntryKind(7)

func isSafe(c byte) bool {
	return c >= 'a' && c <= 'z' || c >= 'A' && c <= 'Z' || c >= '0' && c <= '9' || c == '.' || c == '_' || c == '-'
}

// EncText encodes a name, link target or problem text.
func EncText(s string) string {
	safe := s != ""
	for i := 0; i < len(s) && safe; i++ {
		safe = isSafe(s[i])
	}
	if safe {
		return s
	}
	return "%" + hex.EncodeToString([]byte(s))
}

// DecText decodes a text token.
func DecText(s string) (string, error) {
	if strings.HasPrefix(s, "%") {
		b, err := hex.DecodeString(s[1:])
		return string(b), err
	}
	if s == "" {
		return "", fmt.Errorf("empty text token")
	}
	for i := 0; i < len(s); i++ {
		if !isSafe(s[i]) {
			return "", fmt.Errorf("unsafe character in %q", s)
		}
	}
	return s, nil
}

func kindChar(k core.EntryKind) byte {
	switch k {
	case core.EntryKind_Directory:
		return 'D'
	case core.EntryKind_File:
		return 'F'
	case core.EntryKind_SymbolicLink:
		return 'L'
	case core.EntryKind_Untracked:
		return 'U'
	case core.EntryKind_Problematic:
		return 'X'
	case core.EntryKind_PhantomDirectory:
		return 'P'
	}
	return '?'
}

func charKind(c byte) (core.EntryKind, bool) {
	switch c {
	case 'D':
		return core.EntryKind_Directory, true
	case 'F':
		return core.EntryKind_File, true
	case 'L':
		return core.EntryKind_SymbolicLink, true
	case 'U':
		return core.EntryKind_Untracked, true
	case 'X':
		return core.EntryKind_Problematic, true
	case 'P':
		return core.EntryKind_PhantomDirectory, true
	case '?':
		return UnknownKind, true
	}
	return 0, false
}

// EncEntry renders an entry in canonical form.
func EncEntry(e *core.Entry) string {
	var b strings.Builder
	encEntry(&b, e)
	return b.String()
}

func encEntry(b *strings.Builder, e *core.Entry) {
	if e == nil {
		b.WriteByte('~')
		return
	}
	b.WriteByte(kindChar(e.Kind))
	if e.Executable {
		b.WriteByte('x')
	}
	if len(e.Digest) > 0 {
		b.WriteByte('#')
		b.WriteString(hex.EncodeToString(e.Digest))
	}
	if e.Target != "" {
		b.WriteByte('@')
		b.WriteString(EncText(e.Target))
	}
	if e.Problem != "" {
		b.WriteByte('!')
		b.WriteString(EncText(e.Problem))
	}
	if len(e.Contents) > 0 {
		names := make([]string, 0, len(e.Contents))
		for n := range e.Contents {
			names = append(names, n)
		}
		sort.Strings(names)
		b.WriteByte('(')
		for i, n := range names {
			if i > 0 {
				b.WriteByte(',')
			}
			b.WriteString(EncText(n))
			b.WriteByte(':')
			encEntry(b, e.Contents[n])
		}
		b.WriteByte(')')
	}
}

type treeParser struct {
	s   string
	pos int
}

func (p *treeParser) peek() byte {
	if p.pos < len(p.s) {
		return p.s[p.pos]
	}
	return 0
}

func (p *treeParser) text() (string, error) {
	start := p.pos
	for p.pos < len(p.s) && (isSafe(p.s[p.pos]) || p.s[p.pos] == '%') {
		p.pos++
	}
	return DecText(p.s[start:p.pos])
}

func (p *treeParser) entry() (*core.Entry, error) {
	if p.peek() == '~' {
		p.pos++
		return nil, nil
	}
	return p.node()
}

func (p *treeParser) node() (*core.Entry, error) {
	kind, ok := charKind(p.peek())
	if !ok {
		return nil, fmt.Errorf("bad kind at %d in %q", p.pos, p.s)
	}
	p.pos++
	e := &core.Entry{Kind: kind}
	if p.peek() == 'x' {
		e.Executable = true
		p.pos++
	}
	if p.peek() == '#' {
		p.pos++
		start := p.pos
		for p.pos < len(p.s) && (p.s[p.pos] >= '0' && p.s[p.pos] <= '9' || p.s[p.pos] >= 'a' && p.s[p.pos] <= 'f') {
			p.pos++
		}
		d, err := hex.DecodeString(p.s[start:p.pos])
		if err != nil || len(d) == 0 {
			return nil, fmt.Errorf("bad digest in %q", p.s)
		}
		e.Digest = d
	}
	var err error
	if p.peek() == '@' {
		p.pos++
		if e.Target, err = p.text(); err != nil {
			return nil, err
		}
	}
	if p.peek() == '!' {
		p.pos++
		if e.Problem, err = p.text(); err != nil {
			return nil, err
		}
	}
	if p.peek() == '(' {
		p.pos++
		if p.peek() == ')' {
			// "()" is accepted and means no contents (nil map).
			p.pos++
			return e, nil
		}
		e.Contents = make(map[string]*core.Entry)
		for {
			name, err := p.text()
			if err != nil {
				return nil, err
			}
			if p.peek() != ':' {
				return nil, fmt.Errorf("expected ':' at %d in %q", p.pos, p.s)
			}
			p.pos++
			child, err := p.node()
			if err != nil {
				return nil, err
			}
			if _, dup := e.Contents[name]; dup {
				return nil, fmt.Errorf("duplicate name %q", name)
			}
			e.Contents[name] = child
			if p.peek() == ',' {
				p.pos++
				continue
			}
			if p.peek() == ')' {
				p.pos++
				break
			}
			return nil, fmt.Errorf("expected ',' or ')' at %d in %q", p.pos, p.s)
		}
	}
	return e, nil
}

// DecEntry parses a complete entry token.
func DecEntry(s string) (*core.Entry, error) {
	p := &treeParser{s: s}
	e, err := p.entry()
	if err != nil {
		return nil, err
	}
	if p.pos != len(s) {
		return nil, fmt.Errorf("trailing input at %d in %q", p.pos, s)
	}
	return e, nil
}

// MustEntry parses an entry token and panics on malformed input.
func MustEntry(s string) *core.Entry {
	e, err := DecEntry(s)
	if err != nil {
		panic(err)
	}
	return e
}

// EncPath renders a Go synchronization path ("" = root, components joined by
// '/') in the line protocol.
func EncPath(path string) string {
	if path == "" {
		return "/"
	}
	parts := strings.Split(path, "/")
	for i, c := range parts {
		parts[i] = EncText(c)
	}
	return "/" + strings.Join(parts, "/")
}

// DecPath is the inverse of EncPath.
func DecPath(s string) (string, error) {
	if !strings.HasPrefix(s, "/") {
		return "", fmt.Errorf("bad path %q", s)
	}
	if s == "/" {
		return "", nil
	}
	parts := strings.Split(s[1:], "/")
	for i, c := range parts {
		d, err := DecText(c)
		if err != nil {
			return "", err
		}
		parts[i] = d
	}
	return strings.Join(parts, "/"), nil
}

// EncChange renders one change.
func EncChange(c *core.Change) string {
	return EncPath(c.Path) + "=" + EncEntry(c.Old) + ">" + EncEntry(c.New)
}

// DecChange parses one change.
func DecChange(s string) (*core.Change, error) {
	i := strings.IndexByte(s, '=')
	if i < 0 {
		return nil, fmt.Errorf("bad change %q", s)
	}
	j := strings.IndexByte(s[i:], '>')
	if j < 0 {
		return nil, fmt.Errorf("bad change %q", s)
	}
	j += i
	path, err := DecPath(s[:i])
	if err != nil {
		return nil, err
	}
	old, err := DecEntry(s[i+1 : j])
	if err != nil {
		return nil, err
	}
	new, err := DecEntry(s[j+1:])
	if err != nil {
		return nil, err
	}
	return &core.Change{Path: path, Old: old, New: new}, nil
}

func encList(items []string) string {
	if len(items) == 0 {
		return "-"
	}
	return strings.Join(items, ";")
}

// EncChangesOrdered renders changes in the given order.
func EncChangesOrdered(cs []*core.Change) string {
	items := make([]string, len(cs))
	for i, c := range cs {
		items[i] = EncChange(c)
	}
	return encList(items)
}

// EncChanges renders changes in canonical (sorted) order.
func EncChanges(cs []*core.Change) string {
	items := make([]string, len(cs))
	for i, c := range cs {
		items[i] = EncChange(c)
	}
	sort.Strings(items)
	return encList(items)
}

// DecChanges parses a change list.
func DecChanges(s string) ([]*core.Change, error) {
	if s == "-" {
		return nil, nil
	}
	var out []*core.Change
	for _, item := range strings.Split(s, ";") {
		c, err := DecChange(item)
		if err != nil {
			return nil, err
		}
		out = append(out, c)
	}
	return out, nil
}

// EncConflict renders one conflict.
func EncConflict(c *core.Conflict) string {
	return EncPath(c.Root) + "[" + EncChanges(c.AlphaChanges) + "|" + EncChanges(c.BetaChanges) + "]"
}

// EncConflicts renders conflicts in canonical order.
func EncConflicts(cs []*core.Conflict) string {
	if len(cs) == 0 {
		return "-"
	}
	items := make([]string, len(cs))
	for i, c := range cs {
		items[i] = EncConflict(c)
	}
	sort.Strings(items)
	return strings.Join(items, "&")
}

// EncPlan renders the four outputs of core.Reconcile.
func EncPlan(anc, alpha, beta []*core.Change, conflicts []*core.Conflict) string {
	return "anc=" + EncChanges(anc) + " alpha=" + EncChanges(alpha) + " beta=" + EncChanges(beta) + " conf=" + EncConflicts(conflicts)
}

// Modes lists the four supported synchronization modes with their protocol names.
var Modes = []struct {
	Name string
	Mode core.SynchronizationMode
}{
	{"two-way-safe", core.SynchronizationMode_SynchronizationModeTwoWaySafe},
	{"two-way-resolved", core.SynchronizationMode_SynchronizationModeTwoWayResolved},
	{"one-way-safe", core.SynchronizationMode_SynchronizationModeOneWaySafe},
	{"one-way-replica", core.SynchronizationMode_SynchronizationModeOneWayReplica},
}

// ModeByName returns the mode with the given protocol name.
func ModeByName(name string) (core.SynchronizationMode, bool) {
	for _, m := range Modes {
		if m.Name == name {
			return m.Mode, true
		}
	}
	return 0, false
}

// Lookup returns the entry at a path ("" = root; nil if any component is missing).
func Lookup(e *core.Entry, path string) *core.Entry {
	if path == "" {
		return e
	}
	for _, c := range strings.Split(path, "/") {
		if e == nil {
			return nil
		}
		e = e.Contents[c]
	}
	return e
}

// PathIsPrefix reports whether a is b or an ancestor path of b.
func PathIsPrefix(a, b string) bool {
	return a == "" || a == b || strings.HasPrefix(b, a+"/")
}
