// C32: prompting is serialized, ends at unregistration, and hides secrets.
//
// (i) determineResponseMode on random prompts (exact suffixes, near misses,
// arbitrary bytes) against the model and against the statement's allow-list.
//
// (ii) trace validation of the registry: goroutines call
// RegisterPrompterWithIdentifier / Message / Prompt / UnregisterPrompter
// concurrently on the real global registry with logging prompters. Every
// goroutine logs when it invokes its registry function and when that returns
// (with the result); the prompters log the start and end of every invocation.
// The log (one global order) is the case: the Lean model must be able to
// produce it by some interleaving of its atomic steps (`accept`). The
// property's own oracle reads the same log: a prompter object is never inside
// two invocations at once, and no invocation of it starts or ends after an
// UnregisterPrompter for it has returned.
package main

import (
	"errors"
	"fmt"
	"runtime"
	"sort"
	"strconv"
	"strings"
	"sync"
	"time"

	"github.com/mutagen-io/mutagen/pkg/prompting"

	"verif/harness/hx"
)

// ---- (i) response mode ----

// The statement: responses are echoed only for the known yes/no host-key confirmations.
var knownConfirmations = []string{
	"(yes/no)? ",
	"(yes/no): ",
	"(yes/no/[fingerprint])? ",
	"Please type 'yes', 'no' or the fingerprint: ",
}

func modeName(m prompting.ResponseMode) string {
	switch m {
	case prompting.ResponseModeSecret:
		return "secret"
	case prompting.ResponseModeMasked:
		return "masked"
	case prompting.ResponseModeEcho:
		return "echo"
	}
	return "unknown"
}

func runMode(prompt string) (impl, oracle string) {
	got := modeName(prompting.VerifC32DetermineResponseMode(prompt))
	want := "secret"
	for _, s := range knownConfirmations {
		if len(prompt) >= len(s) && prompt[len(prompt)-len(s):] == s {
			want = "echo"
		}
	}
	if got != want {
		oracle = fmt.Sprintf("class=response-mode %q gives %s, want %s", prompt, got, want)
	}
	return got, oracle
}

func randPrompt(r *hx.Rand) string {
	prefixes := []string{"", "Are you sure you want to continue connecting ", "The authenticity of host 'h (1.2.3.4)' can't be established.\n", "Password: ", "user@host's password: ", "Enter passphrase for key '/k': ", "(yes/no)? ", "é", "\x00"}
	s := knownConfirmations[r.Intn(len(knownConfirmations))]
	switch r.Intn(10) {
	case 0, 1, 2:
		return prefixes[r.Intn(len(prefixes))] + s
	case 3:
		// damage one byte of the suffix
		b := []byte(s)
		i := r.Intn(len(b))
		switch r.Intn(4) {
		case 0:
			b = append(b[:i], b[i+1:]...)
		case 1:
			b[i] ^= 0x20
		case 2:
			b = append(b[:i], append([]byte{b[i]}, b[i:]...)...)
		default:
			b[i] = byte(r.Intn(256))
		}
		return prefixes[r.Intn(len(prefixes))] + string(b)
	case 4:
		return prefixes[r.Intn(len(prefixes))] + s + r.Pick(" ", "\n", "x", "?", "\x00")
	case 5:
		return prefixes[r.Intn(len(prefixes))] + strings.TrimRight(s, " ")
	case 6:
		return prefixes[r.Intn(len(prefixes))] + s[r.Intn(len(s)):]
	case 7:
		return s[:r.Intn(len(s))]
	case 8:
		return string(r.Bytes(r.Intn(12), 256))
	}
	return prefixes[r.Intn(len(prefixes))]
}

// ---- (ii) registry traces ----

type eventLog struct {
	mu     sync.Mutex
	events []string // model events
	objs   []string // for s/e events: the prompter object invoked ("id#serial")
}

func (l *eventLog) add(ev, obj string) {
	l.mu.Lock()
	l.events = append(l.events, ev)
	l.objs = append(l.objs, obj)
	l.mu.Unlock()
}

type logPrompter struct {
	obj string
	log *eventLog
}

var errPrompter = errors.New("prompter failure")

// invoke: the message text is "<thread>:<fail>:<work>".
func (p *logPrompter) invoke(text string) error {
	f := strings.Split(text, ":")
	p.log.add("s"+f[0], p.obj)
	work, _ := strconv.Atoi(f[2])
	pause(work)
	p.log.add("e"+f[0], p.obj)
	if f[1] == "1" {
		return errPrompter
	}
	return nil
}

func (p *logPrompter) Message(m string) error { return p.invoke(m) }
func (p *logPrompter) Prompt(m string) (string, error) {
	return "response", p.invoke(m)
}

func pause(units int) {
	switch {
	case units == 0:
	case units < 4:
		for i := 0; i < units; i++ {
			runtime.Gosched()
		}
	default:
		time.Sleep(time.Duration(units) * 10 * time.Microsecond)
	}
}

type threadSpec struct {
	op    string // reg unreg msg prompt
	id    string
	fail  bool
	delay int
	work  int
}

func (t threadSpec) String() string {
	switch t.op {
	case "reg", "unreg":
		return t.op + ":" + t.id
	}
	f := "0"
	if t.fail {
		f = "1"
	}
	return t.op + ":" + t.id + ":" + f
}

func classify(err error) string {
	if err == nil {
		return "ok"
	}
	m := err.Error()
	switch {
	case m == "prompter not found":
		return "nf"
	case m == "unable to acquire prompter":
		return "af"
	case strings.HasPrefix(m, "unable to message: ") || strings.HasPrefix(m, "unable to prompt: "):
		return "ce"
	case m == "identifier collision":
		return "col"
	case m == "empty identifier":
		return "empty"
	}
	return "other"
}

var serial int

// runScenario executes the threads on the real registry and returns the log.
func runScenario(threads []threadSpec) (log *eventLog, hung bool) {
	log = &eventLog{}
	var wg sync.WaitGroup
	start := make(chan struct{})
	// UnregisterPrompter may only be called for a registered prompter (it
	// panics otherwise, with the registry lock held): an unregistering thread
	// waits until a registration of its identifier has returned successfully.
	registered := map[string]chan struct{}{}
	var once sync.Map
	for _, t := range threads {
		if registered[t.id] == nil {
			registered[t.id] = make(chan struct{})
		}
	}
	for k, t := range threads {
		wg.Add(1)
		serial++
		obj := fmt.Sprintf("%s#%d", t.id, serial)
		go func(k int, t threadSpec) {
			defer wg.Done()
			<-start
			if t.op == "unreg" {
				<-registered[t.id]
			}
			pause(t.delay)
			ks := strconv.Itoa(k)
			fail := "0"
			if t.fail {
				fail = "1"
			}
			text := ks + ":" + fail + ":" + strconv.Itoa(t.work)
			log.add("i"+ks, "")
			var res string
			switch t.op {
			case "reg":
				res = classify(prompting.RegisterPrompterWithIdentifier(t.id, &logPrompter{obj, log}))
				if res == "ok" {
					if _, loaded := once.LoadOrStore(t.id, true); !loaded {
						defer close(registered[t.id])
					}
				}
			case "unreg":
				func() {
					defer func() {
						if recover() != nil {
							res = "pn"
						}
					}()
					prompting.UnregisterPrompter(t.id)
					res = "ok"
				}()
			case "msg", "prompt":
				// A run-time panic (send on a closed holder) must not take the
				// harness down: it is reported as the result "pn".
				func() {
					defer func() {
						if recover() != nil {
							res = "pn"
						}
					}()
					if t.op == "msg" {
						res = classify(prompting.Message(t.id, text))
						return
					}
					resp, err := prompting.Prompt(t.id, text)
					res = classify(err)
					if err == nil && resp != "response" {
						res = "other"
					}
				}()
			}
			log.add("r"+ks+":"+res, "")
		}(k, t)
	}
	close(start)
	done := make(chan struct{})
	go func() { wg.Wait(); close(done) }()
	select {
	case <-done:
		return log, false
	case <-time.After(90 * time.Second):
		return log, true
	}
}

// checkTrace is the property's oracle on a log. objs may be nil (replay): the
// prompter object is then taken to be the identifier of the thread's program.
func checkTrace(threads []threadSpec, events, objs []string) string {
	regs := map[string]int{}
	for _, t := range threads {
		if t.op == "reg" {
			regs[t.id]++
		}
	}
	active := map[string]int{}
	unregistered := map[string]bool{}
	for i, ev := range events {
		k, _ := strconv.Atoi(strings.SplitN(ev[1:], ":", 2)[0])
		if k < 0 || k >= len(threads) {
			return "class=malformed-trace thread index out of range"
		}
		t := threads[k]
		obj := t.id
		if objs != nil && objs[i] != "" {
			obj = objs[i]
			if !strings.HasPrefix(obj, t.id+"#") {
				return fmt.Sprintf("class=wrong-prompter event %d (%s): thread addressed %q, prompter %s was invoked", i, ev, t.id, obj)
			}
		}
		switch ev[0] {
		case 's':
			if active[obj] > 0 {
				return fmt.Sprintf("class=concurrent-invocation event %d (%s): prompter %s invoked while already inside an invocation", i, ev, obj)
			}
			active[obj]++
			if unregistered[t.id] && regs[t.id] == 1 {
				return fmt.Sprintf("class=call-after-unregister event %d (%s): prompter %s invoked after its unregistration returned", i, ev, obj)
			}
		case 'e':
			active[obj]--
			if unregistered[t.id] && regs[t.id] == 1 {
				return fmt.Sprintf("class=call-after-unregister event %d (%s): prompter %s still running after its unregistration returned", i, ev, obj)
			}
		case 'r':
			if t.op == "unreg" && strings.HasSuffix(ev, ":ok") {
				unregistered[t.id] = true
			}
			if strings.HasSuffix(ev, ":other") {
				return fmt.Sprintf("class=unexpected-result event %d (%s)", i, ev)
			}
		}
	}
	return ""
}

func parseThreads(s string) ([]threadSpec, bool) {
	var out []threadSpec
	if s == "-" {
		return nil, true
	}
	for _, p := range strings.Split(s, ",") {
		f := strings.Split(p, ":")
		switch {
		case len(f) == 2 && (f[0] == "reg" || f[0] == "unreg"):
			out = append(out, threadSpec{op: f[0], id: f[1]})
		case len(f) == 3 && (f[0] == "msg" || f[0] == "prompt"):
			out = append(out, threadSpec{op: f[0], id: f[1], fail: f[2] == "1"})
		default:
			return nil, false
		}
	}
	return out, true
}

func cleanup() []string {
	ids := prompting.VerifC32RegisteredIdentifiers()
	for _, id := range ids {
		prompting.UnregisterPrompter(id)
	}
	return ids
}

func showIDs(ids []string) string {
	if len(ids) == 0 {
		return "-"
	}
	return strings.Join(ids, ",")
}

func randScenario(r *hx.Rand) []threadSpec {
	delays := []int{0, 0, 0, 1, 2, 3, 5, 10, 30}
	works := []int{0, 0, 1, 2, 3, 5, 10, 30}
	d := func() int { return delays[r.Intn(len(delays))] }
	w := func() int { return works[r.Intn(len(works))] }
	var ts []threadSpec
	hasP1 := false
	call := func(id string) threadSpec {
		op := "msg"
		if r.Chance(1, 2) {
			op = "prompt"
		}
		return threadSpec{op: op, id: id, fail: r.Chance(1, 5), delay: d(), work: w()}
	}
	ts = append(ts, threadSpec{op: "reg", id: "p0"})
	if r.Chance(1, 6) {
		ts[0].delay = d()
	}
	for i, n := 0, 1+r.Intn(3); i < n; i++ {
		ts = append(ts, call("p0"))
	}
	if r.Chance(3, 4) {
		ts = append(ts, threadSpec{op: "unreg", id: "p0", delay: d()})
	}
	for len(ts) < 6 && r.Chance(1, 3) {
		switch r.Intn(6) {
		case 0:
			ts = append(ts, threadSpec{op: "reg", id: "p0", delay: d()})
		case 1:
			if !hasP1 {
				hasP1 = true
				ts = append(ts, threadSpec{op: "reg", id: "p1", delay: d()})
				if len(ts) < 6 {
					ts = append(ts, call("p1"))
				}
				if len(ts) < 6 && r.Chance(1, 2) {
					ts = append(ts, threadSpec{op: "unreg", id: "p1", delay: d()})
				}
			}
		case 2:
			ts = append(ts, call("zz"))
		case 3:
			ts = append(ts, call(""))
		case 4:
			ts = append(ts, threadSpec{op: "reg", id: "", delay: d()})
		default:
			ts = append(ts, call("p0"))
		}
	}
	// shuffle all but thread 0 so that thread indices carry no meaning
	for i := len(ts) - 1; i > 1; i-- {
		j := 1 + r.Intn(i)
		ts[i], ts[j] = ts[j], ts[i]
	}
	return ts
}

func main() {
	hx.Main("C32", func(c *hx.Ctx) {
		emitMode := func(prompt string) {
			impl, oracle := runMode(prompt)
			key := ""
			if impl == "echo" || strings.Contains(prompt, "yes") {
				key = prompt
			}
			c.Count("mode-" + impl)
			c.Case("m "+hx.Hex([]byte(prompt)), impl, oracle, key)
		}
		emitTrace := func(threads []threadSpec, events, objs []string, leftover []string, hung bool) {
			specs := make([]string, len(threads))
			for i, t := range threads {
				specs[i] = t.String()
			}
			oracle := checkTrace(threads, events, objs)
			impl := "accept " + showIDs(leftover)
			if hung {
				impl = "hang"
				if oracle == "" {
					oracle = "class=deadlock scenario did not finish within 10 s"
				}
			}
			evs := "-"
			if len(events) > 0 {
				evs = strings.Join(events, ",")
			}
			c.Case("t "+strings.Join(specs, ",")+" "+evs, impl, oracle, evs)
		}
		if lines := c.ReplayLines(); lines != nil {
			for _, l := range lines {
				f := strings.Fields(l)
				switch {
				case len(f) == 2 && f[0] == "m":
					b := []byte{}
					if f[1] != "-" {
						b = make([]byte, len(f[1])/2)
						for i := range b {
							v, _ := strconv.ParseUint(f[1][2*i:2*i+2], 16, 8)
							b[i] = byte(v)
						}
					}
					emitMode(string(b))
				case len(f) == 3 && f[0] == "t":
					threads, ok := parseThreads(f[1])
					if !ok {
						c.Case(l, "bad-op", "", "")
						continue
					}
					var events []string
					if f[2] != "-" {
						events = strings.Split(f[2], ",")
					}
					// Recorded trace: the registry content follows from the results.
					count := map[string]int{}
					for _, ev := range events {
						if ev[0] == 'r' && strings.HasSuffix(ev, ":ok") {
							k, _ := strconv.Atoi(strings.SplitN(ev[1:], ":", 2)[0])
							if k < len(threads) && threads[k].op == "reg" {
								count[threads[k].id]++
							} else if k < len(threads) && threads[k].op == "unreg" {
								count[threads[k].id]--
							}
						}
					}
					var left []string
					for id, n := range count {
						if n > 0 {
							left = append(left, id)
						}
					}
					sort.Strings(left)
					emitTrace(threads, events, nil, left, false)
				default:
					c.Case(l, "bad-op", "", "")
				}
			}
			return
		}
		// (i) response modes: the table itself, then random prompts.
		for _, s := range knownConfirmations {
			emitMode(s)
			emitMode("Question? " + s)
			emitMode(s[:len(s)-1])
			emitMode(s[1:])
			c.Count("exhaustive")
		}
		emitMode("")
		for i := 0; i < c.Size(6000, 200000); i++ {
			emitMode(randPrompt(c.R))
		}
		// (ii) registry traces.
		cleanup()
		for i := 0; i < c.Size(5000, 100000); i++ {
			threads := randScenario(c.R)
			log, hung := runScenario(threads)
			var left []string
			if !hung {
				left = cleanup()
			}
			emitTrace(threads, log.events, log.objs, left, hung)
			c.Count(fmt.Sprintf("threads-%d", len(threads)))
			for _, ev := range log.events {
				if ev[0] == 'r' {
					c.Count("result-" + ev[strings.Index(ev, ":")+1:])
				}
			}
			if hung {
				c.Note("a scenario hung; stopping trace generation")
				break
			}
		}
	})
}
