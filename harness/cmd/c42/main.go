// C42: poll-based watching never serves a stale snapshot and always notices
// changes.
//
// Runs the real local endpoint with poll-based watching (one-second interval,
// the minimum) and accelerated scanning on scratch roots, and interleaves
// external modifications (including exact reversals of what a transition just
// did), Transition, Scan (accelerated and full), checks of the poll signal and
// waits of several polling intervals. Many cases run concurrently (they mostly
// sleep). The journal of API-visible events of each case is validated by the
// Lean step model (polling scans are invisible steps that may happen at any
// time; after a wait at least one has happened), and the property's own
// predicates are evaluated on the journal with independent cold walks.
package main

import (
	"bytes"
	"context"
	"fmt"
	"os"
	"path/filepath"
	"sort"
	"strconv"
	"strings"
	"sync"
	"time"

	"github.com/mutagen-io/mutagen/pkg/synchronization"
	"github.com/mutagen-io/mutagen/pkg/synchronization/core"
	"github.com/mutagen-io/mutagen/pkg/synchronization/endpoint/local"

	"verif/harness/hx"
)

const waitDuration = 3 * time.Second // three polling intervals

var hasherFactory = synchronization.Version_Version1.DefaultHashingAlgorithm().Factory()

func variant(v int) []byte { return []byte("variant-" + strings.Repeat("y", 2*v+1)) }

var variantDigest = func() [][]byte {
	out := make([][]byte, 3)
	for v := range out {
		h := hasherFactory()
		h.Write(variant(v))
		out[v] = h.Sum(nil)
	}
	return out
}()

// disk content as a canonical string: sorted "name=d" / "name=f<v>".
type content map[string]string

func (c content) String() string {
	var items []string
	for n, k := range c {
		items = append(items, n+"="+k)
	}
	sort.Strings(items)
	return strings.Join(items, ",")
}

func (c content) clone() content {
	out := content{}
	for k, v := range c {
		out[k] = v
	}
	return out
}

// coldWalk describes the real root independently of the endpoint.
func coldWalk(root string) content {
	out := content{}
	entries, _ := os.ReadDir(root)
	for _, e := range entries {
		if e.IsDir() {
			out[e.Name()] = "d"
			continue
		}
		data, _ := os.ReadFile(filepath.Join(root, e.Name()))
		k := "f?"
		for v := 0; v < 3; v++ {
			if bytes.Equal(data, variant(v)) {
				k = "f" + strconv.Itoa(v)
			}
		}
		out[e.Name()] = k
	}
	return out
}

// ofSnapshot describes a snapshot's content the same way.
func ofSnapshot(s *core.Snapshot) content {
	out := content{}
	if s == nil || s.Content == nil {
		return out
	}
	for n, e := range s.Content.Contents {
		switch e.Kind {
		case core.EntryKind_Directory:
			out[n] = "d"
		case core.EntryKind_File:
			k := "f?"
			for v := 0; v < 3; v++ {
				if bytes.Equal(e.Digest, variantDigest[v]) {
					k = "f" + strconv.Itoa(v)
				}
			}
			out[n] = k
		default:
			out[n] = "?"
		}
	}
	return out
}

type caseRun struct {
	r        *hx.Rand
	root     string
	ep       synchronization.Endpoint
	ids      map[string]int
	events   []string
	oracle   string
	counts   map[string]int
	lastSnap *core.Snapshot
	// oracle bookkeeping
	view           string   // content the last Scan returned
	haveView       bool
	signalSince    bool     // a signal was observed since the last Scan
	sinceTransEnd  []string // disk contents that existed since the last changing transition ended (or the start)
	scannedSinceT  bool
	lastTransition *core.Change
	lastTransPrev  content
	waits          int
}

func (c *caseRun) bad(class, format string, a ...any) {
	if c.oracle == "" {
		c.oracle = "class=" + class + " " + fmt.Sprintf(format, a...)
	}
}

// id maps a content to its identifier in the journal (0 is reserved for "no
// content at all").
func (c *caseRun) id(ct content) int {
	s := ct.String()
	if v, ok := c.ids[s]; ok {
		return v
	}
	c.ids[s] = len(c.ids) + 1
	return c.ids[s]
}

func (c *caseRun) log(tok string) { c.events = append(c.events, tok) }

func must(err error) {
	if err != nil {
		panic(err)
	}
}

func (c *caseRun) apply(ct content) {
	now := coldWalk(c.root)
	for n := range now {
		if ct[n] == "" { // (a changed file is replaced by the rename below, atomically)
			must(os.RemoveAll(filepath.Join(c.root, n)))
		}
	}
	for n, k := range ct {
		if now[n] == k {
			continue
		}
		if k == "d" {
			must(os.Mkdir(filepath.Join(c.root, n), 0o755))
		} else {
			// written next to the root and renamed into place: a polling scan
			// running at this moment sees the old state or the complete file
			v, _ := strconv.Atoi(k[1:])
			tmp := c.root + ".tmp-" + n
			must(os.WriteFile(tmp, variant(v), 0o644))
			must(os.Rename(tmp, filepath.Join(c.root, n)))
		}
	}
}

var fileNames = []string{"f0", "f1"}
var dirNames = []string{"d0", "d1"}

func (c *caseRun) randomEdit(ct content) content {
	out := ct.clone()
	for tries := 0; tries < 10; tries++ {
		if c.r.Chance(1, 2) {
			n := fileNames[c.r.Intn(len(fileNames))]
			switch {
			case out[n] == "":
				out[n] = "f" + strconv.Itoa(c.r.Intn(3))
			case c.r.Chance(1, 2):
				delete(out, n)
			default:
				out[n] = "f" + strconv.Itoa(c.r.Intn(3))
			}
		} else {
			n := dirNames[c.r.Intn(len(dirNames))]
			if out[n] == "" {
				out[n] = "d"
			} else {
				delete(out, n)
			}
		}
		if out.String() != ct.String() {
			return out
		}
	}
	out["f0"] = "f0"
	if out.String() == ct.String() {
		out["f0"] = "f1"
	}
	return out
}

// doEdit brings the root to the target content, one name at a time: every
// intermediate state is a journalled edit of its own (each is atomic on disk).
func (c *caseRun) doEdit(target content) {
	for guard := 0; guard < 8; guard++ {
		cur := coldWalk(c.root)
		if cur.String() == target.String() {
			return
		}
		var names []string
		for n := range cur {
			names = append(names, n)
		}
		for n := range target {
			names = append(names, n)
		}
		sort.Strings(names)
		step := cur.clone()
		for _, n := range names {
			if cur[n] != target[n] {
				if target[n] == "" {
					delete(step, n)
				} else {
					step[n] = target[n]
				}
				break
			}
		}
		c.apply(step)
		c.log(fmt.Sprintf("E%d", c.id(step)))
		c.sinceTransEnd = append(c.sinceTransEnd, step.String())
		c.counts["op:E"]++
	}
}

func (c *caseRun) doScan(full bool) {
	snap, err, _ := c.ep.Scan(context.Background(), nil, full)
	if err != nil {
		c.bad("scan-error", "%v", err)
		return
	}
	c.lastSnap = snap
	got := ofSnapshot(snap)
	disk := coldWalk(c.root)
	f := "0"
	if full {
		f = "1"
	}
	c.log(fmt.Sprintf("S%s:%d", f, c.id(got)))
	c.counts["op:S"+f]++
	if got.String() != disk.String() {
		c.counts["scan:served-older-snapshot"]++
	}
	// a full scan is a cold walk; any scan shows content that existed no
	// earlier than the end of the last transition that changed the disk
	if full && got.String() != disk.String() {
		c.bad("full-scan-differs", "full scan %q, cold walk %q", got, disk)
	}
	ok := false
	for _, s := range c.sinceTransEnd {
		ok = ok || s == got.String()
	}
	if !ok {
		c.bad("stale-snapshot", "scan returned %q; contents since the last changing transition ended: %q", got, c.sinceTransEnd)
	}
	c.view, c.haveView, c.signalSince, c.scannedSinceT = got.String(), true, false, true
}

// doTransition asks for one change relative to the last snapshot.
func (c *caseRun) doTransition() {
	if !c.scannedSinceT {
		c.doScan(false)
	}
	if c.oracle != "" || c.lastSnap == nil || c.lastSnap.Content == nil {
		return
	}
	snapC := ofSnapshot(c.lastSnap)
	var change *core.Change
	// prefer creating / deleting a directory; sometimes delete a file
	var fileCands []string
	for _, n := range fileNames {
		if snapC[n] != "" {
			fileCands = append(fileCands, n)
		}
	}
	if len(fileCands) > 0 && c.r.Chance(1, 3) {
		n := fileCands[c.r.Intn(len(fileCands))]
		change = &core.Change{Path: n, Old: c.lastSnap.Content.Contents[n]}
	} else {
		n := dirNames[c.r.Intn(len(dirNames))]
		if snapC[n] == "" {
			change = &core.Change{Path: n, New: &core.Entry{Kind: core.EntryKind_Directory}}
		} else {
			change = &core.Change{Path: n, Old: c.lastSnap.Content.Contents[n]}
		}
	}
	before := coldWalk(c.root)
	target := before.clone()
	if change.New == nil {
		delete(target, change.Path)
	} else {
		target[change.Path] = "d"
	}
	c.log(fmt.Sprintf("Tb%d", c.id(target)))
	results, _, _, err := c.ep.Transition(context.Background(), []*core.Change{change})
	c.scannedSinceT = false
	if err != nil {
		c.bad("transition-error", "%v", err)
		return
	}
	made := !results[0].Equal(change.Old, true)
	after := coldWalk(c.root)
	m := "0"
	if made {
		m = "1"
		c.counts["transition:changed"]++
	} else {
		c.counts["transition:refused"]++
	}
	c.log("Te" + m)
	c.counts["op:T"]++
	want := before
	if made {
		want = target
	}
	if after.String() != want.String() {
		c.bad("transition-outcome", "disk %q after a transition with made=%v, expected %q", after, made, want)
	}
	if made {
		c.sinceTransEnd = []string{after.String()}
		c.lastTransPrev = before
		if c.waits < 2 && c.r.Chance(1, 3) {
			// somebody undoes the change at once: the polling scans see the same
			// content before and after, so only the transition's own strobe can
			// announce that something happened
			c.doEdit(before)
			c.counts["scenario:immediate-reversal"]++
			c.waits++
			time.Sleep(waitDuration)
			c.log("W")
			if !c.doCheck() {
				c.bad("transition-without-signal", "no poll signal %v after a transition that changed the disk (and was undone at once)", waitDuration)
			}
			return
		}
		// a transition that changed the disk strobes the poll signal
		ctx, cancel := context.WithTimeout(context.Background(), 5*time.Second)
		c.ep.Poll(ctx)
		got := ctx.Err() == nil
		cancel()
		if got {
			c.log("Q1")
			c.signalSince = true
		} else {
			c.log("Q0")
			c.bad("transition-without-signal", "no poll signal within 5 s of a transition that changed the disk")
		}
	}
}

// doCheck looks at the poll signal without waiting for it.
func (c *caseRun) doCheck() bool {
	time.Sleep(60 * time.Millisecond) // the coalescing window is 20 ms
	if local.VerifC42PollSignalPending(c.ep) {
		c.ep.Poll(context.Background()) // returns at once, consuming the signal
		c.log("Q1")
		c.signalSince = true
		c.counts["signal:seen"]++
		return true
	}
	c.log("Q0")
	c.counts["signal:none"]++
	return false
}

// doWait sleeps several polling intervals, then checks the signal: a
// modification the controller has not seen must have been announced.
func (c *caseRun) doWait() {
	c.waits++
	time.Sleep(waitDuration)
	c.log("W")
	c.counts["op:W"]++
	c.doCheck()
	disk := coldWalk(c.root).String()
	if c.haveView && disk != c.view && !c.signalSince {
		c.counts["finding:missed-modification"]++
		c.bad("missed-modification", "the root is %q, the last scan showed %q, and %v after the modification no poll signal has been raised", disk, c.view, waitDuration)
	}
}

func runCase(seed uint64, id int, base string) (line, impl, oracle string, counts map[string]int) {
	r := hx.NewRand(seed)
	c := &caseRun{r: r, root: filepath.Join(base, "root"+strconv.Itoa(id)), ids: map[string]int{}, counts: map[string]int{}}
	os.RemoveAll(c.root)
	must(os.MkdirAll(c.root, 0o755))
	defer os.RemoveAll(c.root)
	start := content{}
	for i := r.Intn(3); i > 0; i-- {
		start = c.randomEdit(start)
	}
	c.apply(start)
	accel := !r.Chance(1, 6)
	cfg := &synchronization.Configuration{
		WatchMode:            synchronization.WatchMode_WatchModeForcePoll,
		WatchPollingInterval: 1,
		ScanMode:             synchronization.ScanMode_ScanModeAccelerated,
	}
	if !accel {
		cfg.ScanMode = synchronization.ScanMode_ScanModeFull
	}
	ep, err := local.NewEndpoint(nil, c.root, "sync_verifc42x"+strconv.Itoa(id), synchronization.Version_Version1, cfg, false)
	must(err)
	c.ep = ep
	defer ep.Shutdown()
	c.sinceTransEnd = []string{start.String()}
	a := "a=0"
	if accel {
		a = "a=1"
	}
	head := fmt.Sprintf("%s d=%d", a, c.id(start))
	// let the baseline polling scan happen (it is immediate)
	time.Sleep(time.Duration(20+r.Intn(60)) * time.Millisecond)

	if r.Chance(1, 3) {
		// the reversal schedule: scan, transition, rescan, somebody undoes the
		// transition, several polling intervals pass
		c.doScan(false)
		c.doTransition()
		if c.lastTransPrev != nil && c.oracle == "" {
			c.doScan(r.Chance(1, 2))
			c.doEdit(c.lastTransPrev)
			c.doWait()
			c.counts["scenario:reversal"]++
		}
	}
	n := 3 + r.Intn(7)
	for i := 0; i < n && c.oracle == ""; i++ {
		switch x := r.Intn(20); {
		case x < 5:
			if c.lastTransPrev != nil && r.Chance(1, 2) {
				c.doEdit(c.lastTransPrev) // undo what the last transition did
				c.counts["edit:reversal"]++
			} else {
				c.doEdit(c.randomEdit(coldWalk(c.root)))
			}
		case x < 9:
			c.doScan(false)
		case x < 11:
			c.doScan(true)
		case x < 15:
			c.doTransition()
		case x < 18:
			c.doCheck()
		default:
			if c.waits < 2 {
				c.doWait()
			}
		}
		if r.Chance(1, 3) {
			time.Sleep(time.Duration(r.Intn(30)) * time.Millisecond)
		}
	}
	return head + " " + strings.Join(c.events, " "), "accept", c.oracle, c.counts
}

// journalOracle evaluates the journal-only part of the predicates on a
// recorded journal (replay).
func journalOracle(line string) string {
	f := strings.Fields(line)
	if len(f) < 2 {
		return ""
	}
	disk := strings.TrimPrefix(f[1], "d=")
	view, haveView, signal, target := "", false, false, ""
	since := []string{disk}
	for i, tok := range f[2:] {
		switch {
		case strings.HasPrefix(tok, "E"):
			disk = tok[1:]
			since = append(since, disk)
		case strings.HasPrefix(tok, "S"):
			got := tok[3:]
			ok := false
			for _, s := range since {
				ok = ok || s == got
			}
			if !ok {
				return fmt.Sprintf("class=stale-snapshot event #%d %s", i, tok)
			}
			view, haveView, signal = got, true, false
		case strings.HasPrefix(tok, "Tb"):
			target = tok[2:]
		case tok == "Te1":
			disk = target
			since = []string{disk}
			// the next look at the signal must find it
			for _, later := range f[i+3:] {
				if later == "Q1" {
					break
				}
				if later == "Q0" {
					return "class=transition-without-signal"
				}
			}
		case tok == "Q1":
			signal = true
		case tok == "W":
			if i+3 < len(f) && f[i+3] == "Q1" {
				signal = true
			}
			if haveView && disk != view && !signal {
				return fmt.Sprintf("class=missed-modification the root has content %s, the last scan showed %s, no signal after the wait (event #%d)", disk, view, i)
			}
		}
	}
	return ""
}

func main() {
	hx.Main("C42", func(c *hx.Ctx) {
		out := os.Getenv("VERIF_OUT")
		if out == "" {
			out = c.Dir
		}
		out, _ = filepath.Abs(out)
		work := filepath.Join(out, "work")
		os.RemoveAll(work)
		must(os.MkdirAll(work, 0o755))
		defer os.RemoveAll(work)
		must(os.Setenv("MUTAGEN_DATA_DIRECTORY", filepath.Join(work, "data")))
		if lines := c.ReplayLines(); lines != nil {
			for _, l := range lines {
				c.Case(l, "accept", journalOracle(l), l)
			}
			c.Note("replay re-validates the recorded journal against the model; timing is not reproducible")
			return
		}
		n := c.Size(360, 4800)
		const batch = 120
		type res struct {
			line, impl, oracle string
			counts             map[string]int
		}
		results := make([]res, n)
		seeds := make([]uint64, n)
		for i := range seeds {
			seeds[i] = c.R.U64()
		}
		for lo := 0; lo < n; lo += batch {
			hi := min(lo+batch, n)
			var wg sync.WaitGroup
			for i := lo; i < hi; i++ {
				wg.Add(1)
				go func() {
					defer wg.Done()
					defer func() {
						if r := recover(); r != nil {
							msg := strings.ReplaceAll(fmt.Sprint(r), "\n", " ")
							results[i] = res{"a=1 d=1 panic", "panic:" + msg, "class=panic " + msg, nil}
						}
					}()
					l, im, o, cs := runCase(seeds[i], i, work)
					results[i] = res{l, im, o, cs}
				}()
			}
			wg.Wait()
		}
		for _, r := range results {
			for k, v := range r.counts {
				for i := 0; i < v; i++ {
					c.Count(k)
				}
			}
			key := ""
			if strings.Contains(r.line, "Te1") || strings.Contains(r.line, "W") {
				key = r.line
			}
			c.Case(r.line, r.impl, r.oracle, key)
		}
	})
}
