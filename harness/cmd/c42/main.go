// C42: poll-based watching never serves a stale snapshot and always notices
// changes.
//
// Runs the real local endpoint with poll-based watching (one-second interval,
// the minimum) and accelerated scanning on scratch roots, and interleaves
// external modifications (including exact reversals of what a transition just
// did), Transition, Scan (accelerated and full), checks of the poll signal and
// waits of several polling intervals. Many cases run concurrently (they mostly
// sleep). The journal of API-visible events of each case is validated by the
// Lean step model (polling scans are invisible steps that may happen at any
// time; after a wait at least one has happened), and the property's own
// predicates are evaluated on the journal with independent cold walks.
package main

import (
	"bytes"
	"context"
	"fmt"
	"os"
	"path/filepath"
	"sort"
	"strconv"
	"strings"
	"sync"
	"sync/atomic"
	"time"

	"github.com/mutagen-io/mutagen/pkg/filesystem"
	"github.com/mutagen-io/mutagen/pkg/synchronization"
	"github.com/mutagen-io/mutagen/pkg/synchronization/core"
	"github.com/mutagen-io/mutagen/pkg/synchronization/endpoint/local"

	"verif/harness/hx"
)

// No verdict depends on a fixed sleep. Waiting is event-based: polling scans
// are counted through the filesystem fault hook (every scan opens the case's
// sentinel directory), and the only timeout that can decide a verdict is
// verdictTimeout, far beyond anything a healthy run needs even on a loaded host.
const (
	verdictTimeout = 90 * time.Second
	peekInterval   = 20 * time.Millisecond
	iterationsK    = 3 // polling scans that must start after a modification: then 2 complete iterations lie behind
)

var hasherFactory = synchronization.Version_Version1.DefaultHashingAlgorithm().Factory()

func variant(v int) []byte { return []byte("variant-" + strings.Repeat("y", 2*v+1)) }

var variantDigest = func() [][]byte {
	out := make([][]byte, 3)
	for v := range out {
		h := hasherFactory()
		h.Write(variant(v))
		out[v] = h.Sum(nil)
	}
	return out
}()

// disk content as a canonical string: sorted "name=d" / "name=f<v>".
type content map[string]string

func (c content) String() string {
	var items []string
	for n, k := range c {
		items = append(items, n+"="+k)
	}
	sort.Strings(items)
	return strings.Join(items, ",")
}

func (c content) clone() content {
	out := content{}
	for k, v := range c {
		out[k] = v
	}
	return out
}

// coldWalk describes the real root independently of the endpoint (paths
// relative to the root, "/"-separated).
func coldWalk(root string) content {
	out := content{}
	filepath.Walk(root, func(p string, info os.FileInfo, err error) error {
		if err != nil || p == root {
			return nil
		}
		rel := filepath.ToSlash(strings.TrimPrefix(p, root+string(filepath.Separator)))
		if info.IsDir() {
			out[rel] = "d"
			return nil
		}
		data, _ := os.ReadFile(p)
		k := "f?"
		for v := 0; v < 3; v++ {
			if bytes.Equal(data, variant(v)) {
				k = "f" + strconv.Itoa(v)
			}
		}
		out[rel] = k
		return nil
	})
	return out
}

// ofEntry describes what is below an entry the same way.
func ofEntry(e *core.Entry, prefix string, out content) {
	if e == nil {
		return
	}
	for n, c := range e.Contents {
		p := prefix + n
		switch c.Kind {
		case core.EntryKind_Directory:
			out[p] = "d"
			ofEntry(c, p+"/", out)
		case core.EntryKind_File:
			k := "f?"
			for v := 0; v < 3; v++ {
				if bytes.Equal(c.Digest, variantDigest[v]) {
					k = "f" + strconv.Itoa(v)
				}
			}
			out[p] = k
		default:
			out[p] = "?"
		}
	}
}

// absent describes "no root at all" (journal content 0).
var absent = content{"<absent>": "!"}

func ofSnapshot(s *core.Snapshot) content {
	if s == nil || s.Content == nil {
		return absent
	}
	out := content{}
	ofEntry(s.Content, "", out)
	return out
}

// entryListing is the harness's own deep description of an entry (nil: "-").
func entryListing(e *core.Entry) string {
	if e == nil {
		return "-"
	}
	out := content{}
	ofEntry(e, "", out)
	return fmt.Sprintf("kind%d{%s}", e.Kind, out.String())
}

// fault injection: leaf names (unique per case) whose unlink / rmdir fails.
var (
	faultMu    sync.Mutex
	faultNames = map[string]bool{}
)

// scan counting: sentinel directory name -> the case's counters.
type scanCounter struct {
	polls atomic.Int64 // scans of the sentinel not made by the harness's own Scan call
	own   atomic.Bool  // the harness is inside its own Scan call
}

var scanCounters sync.Map

func faultHook(operation, name string) error {
	if operation == "opendir" {
		if v, ok := scanCounters.Load(name); ok {
			if sc := v.(*scanCounter); !sc.own.Load() {
				sc.polls.Add(1)
			}
		}
		return nil
	}
	if operation != "unlink" && operation != "rmdir" {
		return nil
	}
	faultMu.Lock()
	defer faultMu.Unlock()
	if faultNames[name] {
		return fmt.Errorf("injected %s failure", operation)
	}
	return nil
}

func setFault(name string, on bool) {
	faultMu.Lock()
	defer faultMu.Unlock()
	if on {
		faultNames[name] = true
	} else {
		delete(faultNames, name)
	}
}

type caseRun struct {
	r        *hx.Rand
	root     string
	ep       synchronization.Endpoint
	ids      map[string]int
	events   []string
	oracle   string
	counts   map[string]int
	lastSnap *core.Snapshot
	// oracle bookkeeping
	view           string   // content the last Scan returned
	haveView       bool
	signalSince    bool     // a signal was observed since the last Scan
	sinceTransEnd  []string // disk contents that existed since the last changing transition ended (or the start)
	scannedSinceT  bool
	lastTransition *core.Change
	lastTransPrev  content
	waits          int
	fileNames      []string
	dirNames       []string
	childNames     []string
	sentinel       string
	scans          *scanCounter
}

// pendingSignal peeks at the poll signal.
func (c *caseRun) pendingSignal() bool { return local.VerifC42PollSignalPending(c.ep) }

// awaitSignal waits (event-based) until the poll signal is pending and consumes
// it; false only after verdictTimeout.
func (c *caseRun) awaitSignal() bool {
	deadline := time.Now().Add(verdictTimeout)
	for !c.pendingSignal() {
		if time.Now().After(deadline) {
			return false
		}
		time.Sleep(peekInterval)
	}
	c.ep.Poll(context.Background()) // returns at once, consuming the signal
	c.log("Q1")
	c.signalSince = true
	c.counts["signal:seen"]++
	return true
}

func (c *caseRun) bad(class, format string, a ...any) {
	if c.oracle == "" {
		c.oracle = "class=" + class + " " + fmt.Sprintf(format, a...)
	}
}

// id maps a content to its identifier in the journal (0 is reserved for "no
// content at all").
func (c *caseRun) id(ct content) int {
	s := ct.String()
	if s == absent.String() {
		return 0
	}
	if v, ok := c.ids[s]; ok {
		return v
	}
	c.ids[s] = len(c.ids) + 1
	return c.ids[s]
}

func (c *caseRun) log(tok string) { c.events = append(c.events, tok) }

func must(err error) {
	if err != nil {
		panic(err)
	}
}

// apply makes the one change that turns the disk into ct (one name differs).
func (c *caseRun) apply(ct content) {
	now := coldWalk(c.root)
	for n := range now {
		if ct[n] == "" { // (a changed file is replaced by the rename below, atomically)
			must(os.Remove(filepath.Join(c.root, filepath.FromSlash(n))))
		}
	}
	for n, k := range ct {
		if now[n] == k {
			continue
		}
		full := filepath.Join(c.root, filepath.FromSlash(n))
		if k == "d" {
			must(os.Mkdir(full, 0o755))
		} else {
			// written next to the root and renamed into place: a polling scan
			// running at this moment sees the old state or the complete file
			v, _ := strconv.Atoi(k[1:])
			tmp := c.root + ".tmp-" + strings.ReplaceAll(n, "/", "_")
			must(os.WriteFile(tmp, variant(v), 0o644))
			must(os.Rename(tmp, full))
		}
	}
}

func (c *caseRun) randomEdit(ct content) content {
	out := ct.clone()
	for tries := 0; tries < 10; tries++ {
		switch c.r.Intn(3) {
		case 0:
			n := c.fileNames[c.r.Intn(len(c.fileNames))]
			switch {
			case out[n] == "":
				out[n] = "f" + strconv.Itoa(c.r.Intn(3))
			case c.r.Chance(1, 2):
				delete(out, n)
			default:
				out[n] = "f" + strconv.Itoa(c.r.Intn(3))
			}
		case 1:
			n := c.dirNames[c.r.Intn(len(c.dirNames))]
			if out[n] == "" {
				out[n] = "d"
			} else {
				for k := range out {
					if strings.HasPrefix(k, n+"/") {
						delete(out, k)
					}
				}
				delete(out, n)
			}
		default: // a file inside a directory
			n := c.dirNames[c.r.Intn(len(c.dirNames))]
			out[n] = "d"
			ch := n + "/" + c.childNames[c.r.Intn(len(c.childNames))]
			if out[ch] == "" || c.r.Chance(1, 2) {
				out[ch] = "f" + strconv.Itoa(c.r.Intn(3))
			} else {
				delete(out, ch)
			}
		}
		if out.String() != ct.String() {
			return out
		}
	}
	n := c.fileNames[0]
	out[n] = "f0"
	if out.String() == ct.String() {
		out[n] = "f1"
	}
	return out
}

// doEdit brings the root to the target content, one name at a time: every
// intermediate state is a journalled edit of its own (each is atomic on disk).
func (c *caseRun) doEdit(target content) {
	for guard := 0; guard < 24; guard++ {
		cur := coldWalk(c.root)
		if cur.String() == target.String() {
			return
		}
		var names []string
		for n := range cur {
			names = append(names, n)
		}
		for n := range target {
			names = append(names, n)
		}
		sort.Strings(names)
		step := cur.clone()
		changed := false
		for i := len(names) - 1; i >= 0 && !changed; i-- { // removals, deepest first
			if n := names[i]; cur[n] != "" && target[n] == "" {
				delete(step, n)
				changed = true
			}
		}
		for _, n := range names { // creations and replacements, parents first
			if changed {
				break
			}
			if cur[n] != target[n] && target[n] != "" {
				step[n] = target[n]
				changed = true
			}
		}
		c.apply(step)
		c.log(fmt.Sprintf("E%d", c.id(step)))
		c.sinceTransEnd = append(c.sinceTransEnd, step.String())
		c.counts["op:E"]++
	}
}

func (c *caseRun) doScan(full bool) {
	c.scans.own.Store(true)
	snap, err, _ := c.ep.Scan(context.Background(), nil, full)
	c.scans.own.Store(false)
	if err != nil {
		c.bad("scan-error", "%v", err)
		return
	}
	c.lastSnap = snap
	got := ofSnapshot(snap)
	disk := coldWalk(c.root)
	f := "0"
	if full {
		f = "1"
	}
	c.log(fmt.Sprintf("S%s:%d", f, c.id(got)))
	c.counts["op:S"+f]++
	if got.String() != disk.String() {
		c.counts["scan:served-older-snapshot"]++
	}
	// a full scan is a cold walk; any scan shows content that existed no
	// earlier than the end of the last transition that changed the disk
	if full && got.String() != disk.String() {
		c.bad("full-scan-differs", "full scan %q, cold walk %q", got, disk)
	}
	ok := false
	for _, s := range c.sinceTransEnd {
		ok = ok || s == got.String()
	}
	if !ok {
		c.bad("stale-snapshot", "scan returned %q; contents since the last changing transition ended: %q", got, c.sinceTransEnd)
	}
	c.view, c.haveView, c.signalSince, c.scannedSinceT = got.String(), true, false, true
}

// entryAt finds the entry of the last snapshot at a top-level name.
func (c *caseRun) entryAt(n string) *core.Entry {
	if c.lastSnap == nil || c.lastSnap.Content == nil {
		return nil
	}
	return c.lastSnap.Content.Contents[n]
}

// doTransition asks for one change relative to the last snapshot: create a
// directory, delete a file, or delete a directory with what the snapshot says is
// below it — plainly, after another program added a file the snapshot does not
// know, or with an injected failure of one child's unlink or of the rmdir.
func (c *caseRun) doTransition() {
	if !c.scannedSinceT {
		c.doScan(false)
	}
	if c.oracle != "" || c.lastSnap == nil || c.lastSnap.Content == nil {
		return
	}
	snapC := ofSnapshot(c.lastSnap)
	var change *core.Change
	var fileCands, dirCands, fullDirCands []string
	for _, n := range c.fileNames {
		if snapC[n] != "" {
			fileCands = append(fileCands, n)
		}
	}
	for _, n := range c.dirNames {
		if snapC[n] != "" {
			dirCands = append(dirCands, n)
			for k := range snapC {
				if strings.HasPrefix(k, n+"/") {
					fullDirCands = append(fullDirCands, n)
					break
				}
			}
		}
	}
	sort.Strings(fullDirCands)
	fault := ""
	switch x := c.r.Intn(10); {
	case x < 5 && len(fullDirCands) > 0: // a directory with content, possibly removed only partly
		n := fullDirCands[c.r.Intn(len(fullDirCands))]
		change = &core.Change{Path: n, Old: c.entryAt(n)}
		var kids []string
		for k := range snapC {
			if strings.HasPrefix(k, n+"/") {
				kids = append(kids, k[len(n)+1:])
			}
		}
		sort.Strings(kids)
		switch c.r.Intn(4) {
		case 0: // another program adds a file the snapshot does not know
			for _, ch := range c.childNames {
				if snapC[n+"/"+ch] == "" && coldWalk(c.root)[n] == "d" {
					disk := coldWalk(c.root)
					disk[n+"/"+ch] = "f" + strconv.Itoa(c.r.Intn(3))
					c.doEdit(disk)
					c.counts["transition:unknown-child"]++
					break
				}
			}
		case 1: // one child cannot be unlinked
			fault = kids[c.r.Intn(len(kids))]
			c.counts["transition:unlink-fault"]++
		case 2: // the emptied directory cannot be removed
			fault = n
			c.counts["transition:rmdir-fault"]++
		}
	case x < 7 && len(fileCands) > 0:
		n := fileCands[c.r.Intn(len(fileCands))]
		change = &core.Change{Path: n, Old: c.entryAt(n)}
	default:
		n := c.dirNames[c.r.Intn(len(c.dirNames))]
		if snapC[n] == "" {
			change = &core.Change{Path: n, New: &core.Entry{Kind: core.EntryKind_Directory}}
		} else {
			change = &core.Change{Path: n, Old: c.entryAt(n)}
		}
	}
	before := coldWalk(c.root)
	if fault != "" {
		setFault(fault, true)
	}
	results, _, _, err := c.ep.Transition(context.Background(), []*core.Change{change})
	if fault != "" {
		setFault(fault, false)
	}
	c.scannedSinceT = false
	if err != nil && strings.Contains(err.Error(), "removing more entries than exist") {
		// a polling scan has meanwhile counted fewer entries than the snapshot
		// the change is based on: refused before anything is touched
		c.counts["transition:refused-stale-count"]++
		return
	}
	if err != nil {
		c.bad("transition-error", "%v", err)
		return
	}
	after := coldWalk(c.root)
	// "made changes": the result differs from the old entry at any depth — the
	// harness's own comparison of its own descriptions of the two entries
	made := entryListing(results[0]) != entryListing(change.Old)
	c.log(fmt.Sprintf("Tb%d", c.id(after)))
	m := "0"
	if made {
		m = "1"
		c.counts["transition:changed"]++
		if results[0] != nil && change.Old != nil && change.New == nil {
			c.counts["transition:partial-removal"]++
		}
	} else {
		c.counts["transition:refused"]++
	}
	c.log("Te" + m)
	c.counts["op:T"]++
	// the results describe what happened on disk: if the disk changed, they differ
	// from the old entry (they may also differ because expected content had
	// already been removed by another program)
	if !made && after.String() != before.String() {
		c.bad("transition-outcome", "disk %q -> %q after a transition whose results equal the old entry", before, after)
	}
	if made {
		c.sinceTransEnd = []string{after.String()}
		c.lastTransPrev = before
		if c.r.Chance(2, 5) {
			// the controller rescans at once, before the next polling scan: it
			// must be shown the disk as it is now
			c.doScan(false)
			c.counts["scenario:scan-right-after-transition"]++
			if c.oracle != "" {
				return
			}
		}
		if c.waits < 2 && c.r.Chance(1, 3) {
			// somebody undoes the change at once: the polling scans see the same
			// content before and after, so only the transition's own strobe can
			// announce that something happened
			c.doEdit(before)
			c.counts["scenario:immediate-reversal"]++
			if !c.awaitSignal() {
				c.log("Z")
				c.bad("transition-without-signal", "no poll signal %v after a transition that changed the disk (and was undone at once)", verdictTimeout)
			}
			return
		}
		// a transition that changed the disk strobes the poll signal
		if !c.awaitSignal() {
			c.log("Z")
			c.bad("transition-without-signal", "no poll signal within %v of a transition that changed the disk", verdictTimeout)
		}
	}
}

// doCheck looks at the poll signal without waiting for it.
func (c *caseRun) doCheck() bool {
	time.Sleep(60 * time.Millisecond) // the coalescing window is 20 ms
	if local.VerifC42PollSignalPending(c.ep) {
		c.ep.Poll(context.Background()) // returns at once, consuming the signal
		c.log("Q1")
		c.signalSince = true
		c.counts["signal:seen"]++
		return true
	}
	c.log("Q0")
	c.counts["signal:none"]++
	return false
}

// doWait waits until the poll signal is pending or at least iterationsK polling
// scans have started since now (so that complete polling iterations have
// demonstrably happened after the last modification). Only if the controller
// has not been shown the current content and no signal has been raised does it
// go on waiting for the signal — up to verdictTimeout — before it concludes
// that the modification was missed (journal `Z`).
func (c *caseRun) doWait() {
	c.waits++
	c.counts["op:W"]++
	start := c.scans.polls.Load()
	deadline := time.Now().Add(verdictTimeout)
	for !c.pendingSignal() && c.scans.polls.Load() < start+iterationsK && time.Now().Before(deadline) {
		time.Sleep(peekInterval)
	}
	if c.scans.polls.Load() > start {
		c.log("W") // at least one polling scan happened
	}
	disk := coldWalk(c.root).String()
	expected := c.haveView && disk != c.view && !c.signalSince
	if c.pendingSignal() {
		c.awaitSignal()
		return
	}
	if !expected {
		return
	}
	if c.awaitSignal() {
		return
	}
	c.log("Z")
	c.counts["finding:missed-modification"]++
	c.bad("missed-modification", "the root is %q, the last scan showed %q; %d polling scans have started since the wait began and %v later no poll signal has been raised",
		disk, c.view, c.scans.polls.Load()-start, verdictTimeout)
}

// doBreak replaces the root by a symbolic link (polling scans fail), waits until
// failing scans have demonstrably happened (each one strobes), then puts the
// root back: polling must go on afterwards.
func (c *caseRun) doBreak() {
	away := c.root + ".away"
	cur := coldWalk(c.root)
	must(os.Rename(c.root, away))
	c.log("E0") // no root at all
	c.sinceTransEnd = append(c.sinceTransEnd, absent.String())
	must(os.Symlink(away, c.root))
	c.log("B1")
	c.waits++
	// three signals: whatever was owed before, the later ones come from failed scans
	for i := 0; i < 3; i++ {
		if !c.awaitSignal() {
			c.log("Z")
			c.bad("polling-stopped", "no further poll signal within %v while the root cannot be opened (signal %d of 3)", verdictTimeout, i+1)
			break
		}
	}
	must(os.Remove(c.root))
	c.log("B0")
	must(os.Rename(away, c.root))
	c.log(fmt.Sprintf("E%d", c.id(cur)))
	c.sinceTransEnd = append(c.sinceTransEnd, cur.String())
	c.counts["scenario:root-unreadable"]++
	if c.oracle != "" {
		return
	}
	// the controller rescans; what happens next must still be noticed
	c.doScan(false)
	if c.oracle != "" {
		return
	}
	c.doEdit(c.randomEdit(cur))
	c.doWait()
}

func runCase(seed uint64, id int, base string) (line, impl, oracle string, counts map[string]int) {
	r := hx.NewRand(seed)
	c := &caseRun{r: r, root: filepath.Join(base, "root"+strconv.Itoa(id)), ids: map[string]int{}, counts: map[string]int{}}
	sid := strconv.Itoa(id)
	c.fileNames = []string{"f" + sid + "a", "f" + sid + "b"}
	c.dirNames = []string{"d" + sid + "a", "d" + sid + "b"}
	c.childNames = []string{"c" + sid + "x", "c" + sid + "y", "c" + sid + "z"}
	c.sentinel = "z" + sid + "s"
	c.scans = &scanCounter{}
	scanCounters.Store(c.sentinel, c.scans)
	defer scanCounters.Delete(c.sentinel)
	os.RemoveAll(c.root)
	must(os.MkdirAll(c.root, 0o755))
	defer os.RemoveAll(c.root)
	start := content{c.sentinel: "d"}
	for i := r.Intn(5); i > 0; i-- {
		start = c.randomEdit(start)
	}
	c.doEdit(start)
	c.events, c.sinceTransEnd = nil, nil
	accel := !r.Chance(1, 6)
	cfg := &synchronization.Configuration{
		WatchMode:            synchronization.WatchMode_WatchModeForcePoll,
		WatchPollingInterval: 1,
		ScanMode:             synchronization.ScanMode_ScanModeAccelerated,
	}
	if !accel {
		cfg.ScanMode = synchronization.ScanMode_ScanModeFull
	}
	ep, err := local.NewEndpoint(nil, c.root, "sync_verifc42x"+strconv.Itoa(id), synchronization.Version_Version1, cfg, false)
	must(err)
	c.ep = ep
	defer ep.Shutdown()
	c.sinceTransEnd = []string{start.String()}
	a := "a=0"
	if accel {
		a = "a=1"
	}
	head := fmt.Sprintf("%s d=%d", a, c.id(start))
	// let the baseline polling scan happen (it is immediate)
	time.Sleep(time.Duration(20+r.Intn(60)) * time.Millisecond)

	if r.Chance(1, 8) {
		c.doScan(false)
		c.doBreak()
	}
	if r.Chance(1, 3) {
		// the reversal schedule: scan, transition, rescan, somebody undoes the
		// transition, several polling intervals pass
		c.doScan(false)
		c.doTransition()
		if c.lastTransPrev != nil && c.oracle == "" {
			c.doScan(r.Chance(1, 2))
			c.doEdit(c.lastTransPrev)
			c.doWait()
			c.counts["scenario:reversal"]++
		}
	}
	n := 3 + r.Intn(7)
	for i := 0; i < n && c.oracle == ""; i++ {
		switch x := r.Intn(20); {
		case x < 5:
			if c.lastTransPrev != nil && r.Chance(1, 2) {
				c.doEdit(c.lastTransPrev) // undo what the last transition did
				c.counts["edit:reversal"]++
			} else {
				c.doEdit(c.randomEdit(coldWalk(c.root)))
			}
		case x < 9:
			c.doScan(false)
		case x < 11:
			c.doScan(true)
		case x < 15:
			c.doTransition()
		case x < 18:
			c.doCheck()
		default:
			if c.waits < 2 {
				c.doWait()
			}
		}
		if r.Chance(1, 3) {
			time.Sleep(time.Duration(r.Intn(30)) * time.Millisecond)
		}
	}
	return head + " " + strings.Join(c.events, " "), "accept", c.oracle, c.counts
}

// journalOracle evaluates the journal-only part of the predicates on a
// recorded journal (replay).
func journalOracle(line string) string {
	f := strings.Fields(line)
	if len(f) < 2 {
		return ""
	}
	disk := strings.TrimPrefix(f[1], "d=")
	view, haveView, signal, target := "", false, false, ""
	since := []string{disk}
	for i, tok := range f[2:] {
		switch {
		case strings.HasPrefix(tok, "E"):
			disk = tok[1:]
			since = append(since, disk)
		case strings.HasPrefix(tok, "S"):
			got := tok[3:]
			ok := false
			for _, s := range since {
				ok = ok || s == got
			}
			if !ok {
				return fmt.Sprintf("class=stale-snapshot event #%d %s", i, tok)
			}
			view, haveView, signal = got, true, false
		case strings.HasPrefix(tok, "Tb"):
			target = tok[2:]
		case tok == "Te1":
			disk = target
			since = []string{disk}
			// the next look at the signal must find it
			for _, later := range f[i+3:] {
				if later == "Q1" {
					break
				}
				if later == "Q0" {
					return "class=transition-without-signal"
				}
			}
		case tok == "Q1":
			signal = true
		case tok == "Z":
			if haveView && disk != view && !signal {
				return fmt.Sprintf("class=missed-modification the root has content %s, the last scan showed %s, no signal after polling iterations and the grace period (event #%d)", disk, view, i)
			}
		}
	}
	return ""
}

func main() {
	filesystem.VerifSetFaultHook(faultHook)
	hx.Main("C42", func(c *hx.Ctx) {
		out := os.Getenv("VERIF_OUT")
		if out == "" {
			out = c.Dir
		}
		out, _ = filepath.Abs(out)
		work := filepath.Join(out, "work")
		os.RemoveAll(work)
		must(os.MkdirAll(work, 0o755))
		defer os.RemoveAll(work)
		must(os.Setenv("MUTAGEN_DATA_DIRECTORY", filepath.Join(work, "data")))
		if lines := c.ReplayLines(); lines != nil {
			for _, l := range lines {
				c.Case(l, "accept", journalOracle(l), l)
			}
			c.Note("replay re-validates the recorded journal against the model; timing is not reproducible")
			return
		}
		n := c.Size(360, 4800)
		const batch = 120
		type res struct {
			line, impl, oracle string
			counts             map[string]int
		}
		results := make([]res, n)
		seeds := make([]uint64, n)
		for i := range seeds {
			seeds[i] = c.R.U64()
		}
		for lo := 0; lo < n; lo += batch {
			hi := min(lo+batch, n)
			var wg sync.WaitGroup
			for i := lo; i < hi; i++ {
				wg.Add(1)
				go func() {
					defer wg.Done()
					defer func() {
						if r := recover(); r != nil {
							msg := strings.ReplaceAll(fmt.Sprint(r), "\n", " ")
							results[i] = res{"a=1 d=1 panic", "panic:" + msg, "class=panic " + msg, nil}
						}
					}()
					l, im, o, cs := runCase(seeds[i], i, work)
					results[i] = res{l, im, o, cs}
				}()
			}
			wg.Wait()
		}
		for _, r := range results {
			for k, v := range r.counts {
				for i := 0; i < v; i++ {
					c.Count(k)
				}
			}
			key := ""
			if strings.Contains(r.line, "Te1") || strings.Contains(r.line, "W") {
				key = r.line
			}
			c.Case(r.line, r.impl, r.oracle, key)
		}
	})
}
