// C15: Docker-style ignores match Docker's build-context semantics.
//
// One stream, `w` lines: random .dockerignore pattern lists × random real
// directory trees (× an optional ancestor). On the real code:
//
//	S  core.Scan with docker.NewIgnorer(patterns), then
//	   core.ReifyPhantomDirectories(ancestor, snapshot, nil): the reified snapshot
//	N  the directory count reification reports
//	M  the file/link leaves of S
//	D  the reference walk: a transcription of Docker's build-context walk (moby
//	   archive.go) driven by the vendored upstream MatchesOrParentMatches,
//	   Patterns() and Exclusions() (verif export of the internal package)
//	C  the file/link leaves of D
//	H  whether NoDepthOrderInversion holds, computed here from the match table
//
// The per-pattern match (a compiled regexp) is abstract in the Lean model: the
// line carries, for every node of the tree, one bit per pattern computed by the
// real Pattern.match.
//
// Oracle: the statement itself — leaves(S) = leaves(D). A mismatch is
// classified class=depth-order-inversion when the decidable hypothesis of the
// conditional equality theorem fails for the case (the by-design deviation
// described in DESIGN.md §8 C15) and class=docker-mismatch otherwise. Further:
// an independent Go implementation of the "deepest matched prefix wins + prefix
// pruning" characterisation must select exactly leaves(S); no phantom directory
// survives reification; an excluded (phantom) directory is kept iff it holds
// synchronized content or the ancestor had a directory there; the directory
// count is the number of directories in S.
package main

import (
	"context"
	"crypto/sha1"
	"encoding/hex"
	"fmt"
	"os"
	"path/filepath"
	"sort"
	"strings"

	"github.com/mutagen-io/mutagen/pkg/filesystem/behavior"
	"github.com/mutagen-io/mutagen/pkg/synchronization/core"
	"github.com/mutagen-io/mutagen/pkg/synchronization/core/ignore"
	"github.com/mutagen-io/mutagen/pkg/synchronization/core/ignore/docker"

	"verif/harness/hx"
)

type tnode struct {
	name     string
	kind     byte // f l d
	children []*tnode
	path     string
	chain    []string // strict ancestors, outermost first
	bits     []bool
}

func hexs(s string) string { return hx.Hex([]byte(s)) }

func unhex(s string) string {
	if s == "-" {
		return ""
	}
	b, _ := hex.DecodeString(s)
	return string(b)
}

var names = []string{"a", "b", "c", "ab", "d.x"}

func genTree(r *hx.Rand, depth int, budget *int) []*tnode {
	n := 1 + r.Intn(3)
	seen := map[string]bool{}
	var out []*tnode
	for i := 0; i < n && *budget > 0; i++ {
		name := names[r.Intn(len(names))]
		if seen[name] {
			continue
		}
		seen[name] = true
		*budget--
		t := &tnode{name: name}
		switch x := r.Intn(10); {
		case x < 5 && depth < 3:
			t.kind = 'd'
			t.children = genTree(r, depth+1, budget)
		case x < 9:
			t.kind = 'f'
		default:
			t.kind = 'l'
		}
		out = append(out, t)
	}
	sort.Slice(out, func(i, j int) bool { return out[i].name < out[j].name })
	return out
}

// annotate fills path and chain; returns all nodes in walk order.
func annotate(ts []*tnode, prefix string, chain []string, out *[]*tnode) {
	for _, t := range ts {
		t.path = t.name
		if prefix != "" {
			t.path = prefix + "/" + t.name
		}
		t.chain = chain
		*out = append(*out, t)
		if t.kind == 'd' {
			annotate(t.children, t.path, append(chain[:len(chain):len(chain)], t.path), out)
		}
	}
}

func genPattern(r *hx.Rand, nodes []*tnode) string {
	var p string
	switch x := r.Intn(10); {
	case x < 5 && len(nodes) > 0:
		// a literal path of the tree, or a prefix of one
		p = nodes[r.Intn(len(nodes))].path
	case x < 7 && len(nodes) > 0:
		// a path of the tree with one component replaced by a wildcard
		parts := strings.Split(nodes[r.Intn(len(nodes))].path, "/")
		parts[r.Intn(len(parts))] = r.Pick("*", "?", "a*", "*b", "**", "?b")
		p = strings.Join(parts, "/")
	case x < 8:
		p = r.Pick("**/", "", "*/") + names[r.Intn(len(names))]
	case x < 9:
		p = names[r.Intn(len(names))] + r.Pick("/**", "/*", "/*/*", "")
	default:
		p = r.Pick("*", "**", "*/*", "**/*", "?", "a", "a/b", "a/b/c", "*.x", "**/*.x")
	}
	if r.Chance(1, 8) {
		p = "/" + p
	}
	if r.Chance(1, 10) {
		p += "/"
	}
	if r.Chance(1, 12) {
		p = " " + p + " "
	}
	if r.Chance(2, 5) {
		p = "!" + p
	}
	return p
}

func materialize(dir string, ts []*tnode) {
	for _, t := range ts {
		p := filepath.Join(dir, t.name)
		switch t.kind {
		case 'd':
			if err := os.Mkdir(p, 0o755); err != nil {
				panic(err)
			}
			materialize(p, t.children)
		case 'f':
			if err := os.WriteFile(p, []byte("x"), 0o644); err != nil {
				panic(err)
			}
		case 'l':
			if err := os.Symlink("x", p); err != nil {
				panic(err)
			}
		}
	}
}

func kindLetter(e *core.Entry) string {
	switch e.Kind {
	case core.EntryKind_Directory:
		return "d"
	case core.EntryKind_PhantomDirectory:
		return "p"
	case core.EntryKind_File:
		return "f"
	case core.EntryKind_SymbolicLink:
		return "l"
	case core.EntryKind_Untracked:
		return "u"
	}
	return "x"
}

// listing returns "path:kind" entries in preorder, names sorted.
func listing(e *core.Entry) []string {
	var out []string
	var rec func(prefix string, e *core.Entry)
	rec = func(prefix string, e *core.Entry) {
		ns := make([]string, 0, len(e.Contents))
		for n := range e.Contents {
			ns = append(ns, n)
		}
		sort.Strings(ns)
		for _, n := range ns {
			c := e.Contents[n]
			p := n
			if prefix != "" {
				p = prefix + "/" + n
			}
			out = append(out, hexs(p)+":"+kindLetter(c))
			if c.Kind == core.EntryKind_Directory || c.Kind == core.EntryKind_PhantomDirectory {
				rec(p, c)
			}
		}
	}
	if e != nil {
		rec("", e)
	}
	return out
}

func leaves(l []string) []string {
	var out []string
	for _, s := range l {
		if strings.HasSuffix(s, ":f") || strings.HasSuffix(s, ":l") {
			out = append(out, s)
		}
	}
	return out
}

func show(l []string) string {
	if len(l) == 0 {
		return "-"
	}
	return strings.Join(l, ",")
}

type anode struct {
	name     string
	dir      bool
	children []*anode
}

func ancField(root *anode) string {
	if root == nil {
		return "-"
	}
	var toks []string
	var rec func(ns []*anode)
	rec = func(ns []*anode) {
		for _, n := range ns {
			if n.dir {
				toks = append(toks, "d:"+hexs(n.name), "[")
				rec(n.children)
				toks = append(toks, "]")
			} else {
				toks = append(toks, "f:"+hexs(n.name))
			}
		}
	}
	rec(root.children)
	if len(toks) == 0 {
		return "@"
	}
	return strings.Join(toks, ",")
}

func parseAnc(f string) *anode {
	if f == "-" {
		return nil
	}
	root := &anode{dir: true}
	if f == "@" {
		return root
	}
	toks := strings.Split(f, ",")
	pos := 0
	var rec func() []*anode
	rec = func() []*anode {
		var out []*anode
		for pos < len(toks) && toks[pos] != "]" {
			kv := strings.SplitN(toks[pos], ":", 2)
			pos++
			n := &anode{name: unhex(kv[1]), dir: kv[0] == "d"}
			if n.dir {
				pos++
				n.children = rec()
				pos++
			}
			out = append(out, n)
		}
		return out
	}
	root.children = rec()
	return root
}

func ancEntry(n *anode) *core.Entry {
	if n == nil {
		return nil
	}
	if !n.dir {
		return &core.Entry{Kind: core.EntryKind_File, Digest: []byte{1}}
	}
	e := &core.Entry{Kind: core.EntryKind_Directory}
	if len(n.children) > 0 {
		e.Contents = map[string]*core.Entry{}
		for _, c := range n.children {
			e.Contents[c.name] = ancEntry(c)
		}
	}
	return e
}

func ancLookup(root *anode, path string) *anode {
	cur := root
	for _, part := range strings.Split(path, "/") {
		if cur == nil {
			return nil
		}
		var next *anode
		for _, c := range cur.children {
			if c.name == part {
				next = c
			}
		}
		cur = next
	}
	return cur
}

// genAnc builds an ancestor that knows some of the tree's directories (and a
// few entries that no longer exist or changed kind).
func genAnc(r *hx.Rand, ts []*tnode) *anode {
	var rec func(ts []*tnode) []*anode
	rec = func(ts []*tnode) []*anode {
		var out []*anode
		for _, t := range ts {
			if !r.Chance(1, 2) {
				continue
			}
			a := &anode{name: t.name, dir: t.kind == 'd'}
			if r.Chance(1, 8) {
				a.dir = !a.dir
			}
			if a.dir && t.kind == 'd' {
				a.children = rec(t.children)
			}
			out = append(out, a)
		}
		if r.Chance(1, 6) {
			out = append(out, &anode{name: "gone", dir: r.Chance(1, 2)})
		}
		return out
	}
	return &anode{dir: true, children: rec(ts)}
}

func treeField(ts []*tnode) string {
	var toks []string
	var rec func(ts []*tnode)
	rec = func(ts []*tnode) {
		for _, t := range ts {
			bits := "-"
			if len(t.bits) > 0 {
				b := make([]byte, len(t.bits))
				for i, v := range t.bits {
					b[i] = '0'
					if v {
						b[i] = '1'
					}
				}
				bits = string(b)
			}
			toks = append(toks, string(t.kind)+":"+hexs(t.name)+":"+bits)
			if t.kind == 'd' {
				toks = append(toks, "[")
				rec(t.children)
				toks = append(toks, "]")
			}
		}
	}
	rec(ts)
	if len(toks) == 0 {
		return "-"
	}
	return strings.Join(toks, ",")
}

func main() {
	hx.Main("C15", func(c *hx.Ctx) {
		seq := 0
		run := func(patterns []string, tree []*tnode, anc *anode) {
			mt, err := docker.VerifC15New(patterns)
			if err != nil {
				c.Count("w:invalid-patterns")
				return
			}
			var nodes []*tnode
			annotate(tree, "", nil, &nodes)
			np := mt.Count()
			for _, n := range nodes {
				n.bits = make([]bool, np)
				for i := 0; i < np; i++ {
					n.bits[i], _ = mt.Match(i, n.path)
				}
			}
			pf := "-"
			if np > 0 {
				ps := make([]string, np)
				for i := range ps {
					k := "i:"
					if mt.Exclusion(i) {
						k = "x:"
					}
					ps[i] = k + hexs(mt.Cleaned(i))
				}
				pf = strings.Join(ps, ",")
			}
			line := "w " + pf + " " + ancField(anc) + " " + treeField(tree)

			// --- the real code
			seq++
			root := filepath.Join(c.Dir, fmt.Sprintf("tree%d", seq))
			if err := os.MkdirAll(root, 0o755); err != nil {
				panic(err)
			}
			defer os.RemoveAll(root)
			materialize(root, tree)
			ig, err := docker.NewIgnorer(patterns)
			if err != nil {
				panic(err)
			}
			snap, _, _, err := core.Scan(context.Background(), root, nil, nil, sha1.New(), nil, ig, nil,
				behavior.ProbeMode_ProbeModeAssume, core.SymbolicLinkMode_SymbolicLinkModePortable, core.PermissionsMode_PermissionsModePortable)
			if err != nil {
				panic(err)
			}
			raw := listing(snap.Content)
			reified, _, count, _ := core.ReifyPhantomDirectories(ancEntry(anc), snap.Content, nil)
			S := listing(reified)
			M := leaves(S)

			// --- Docker's walk (moby pkg/archive TarWithOptions), on the tree
			exclusionPrefix := func(p string) bool {
				if !mt.Exclusions() {
					return false
				}
				for i := 0; i < np; i++ {
					if mt.Exclusion(i) && strings.HasPrefix(mt.Cleaned(i)+"/", p+"/") {
						return true
					}
				}
				return false
			}
			var D []string
			var walk func(ts []*tnode)
			walk = func(ts []*tnode) {
				for _, t := range ts {
					skip, err := mt.MatchesOrParentMatches(t.path)
					if err != nil {
						panic(err)
					}
					if skip {
						if t.kind != 'd' {
							continue
						}
						if !exclusionPrefix(t.path) {
							continue // filepath.SkipDir
						}
						walk(t.children)
						continue
					}
					D = append(D, hexs(t.path)+":"+string(t.kind))
					if t.kind == 'd' {
						walk(t.children)
					}
				}
			}
			walk(tree)
			C := leaves(D)

			// --- the hypothesis, from the table
			H := true
			byPath := map[string]*tnode{}
			for _, n := range nodes {
				byPath[n.path] = n
			}
			for _, n := range nodes {
				for _, z := range n.chain {
					zb := byPath[z].bits
					for j1 := 0; j1 < np; j1++ {
						for j2 := j1 + 1; j2 < np; j2++ {
							if n.bits[j1] && zb[j2] && mt.Exclusion(j1) != mt.Exclusion(j2) {
								H = false
							}
						}
					}
				}
			}

			// --- the ignorer itself, node by node
			var I []string
			contractBroken := ""
			for _, n := range nodes {
				st, cont := ig.Ignore(n.path, n.kind == 'd')
				s := "n"
				switch st {
				case ignore.IgnoreStatusIgnored:
					s = "i"
				case ignore.IgnoreStatusUnignored:
					s = "u"
				}
				if cont {
					s += "1"
					if n.kind != 'd' || st == ignore.IgnoreStatusUnignored {
						// the Ignorer contract: continue only for directories that are
						// nominal or ignored
						contractBroken = n.path
					}
				} else {
					s += "0"
				}
				I = append(I, s)
			}

			impl := fmt.Sprintf("I=%s;S=%s;N=%d;M=%s;C=%s;D=%s;H=%s", show(I), show(S), count, show(M), show(C), show(D), map[bool]string{true: "1", false: "0"}[H])

			// --- oracle
			oracle := ""
			fail := func(format string, a ...any) {
				if oracle == "" {
					oracle = fmt.Sprintf(format, a...)
				}
			}
			if contractBroken != "" {
				fail("class=continue-contract traversal continuation requested for %q (not a nominal/ignored directory)", contractBroken)
			}
			if show(M) != show(C) {
				if !H {
					fail("class=depth-order-inversion synchronized leaves %s, Docker's build context %s", show(M), show(C))
					c.Count("mismatch:depth-order-inversion")
				} else {
					fail("class=docker-mismatch synchronized leaves %s, Docker's build context %s, and no depth-order inversion", show(M), show(C))
				}
			} else if !H {
				c.Count("inversion-without-mismatch")
			}
			// characterisation: deepest matched prefix wins + prefix pruning
			status := func(n *tnode) int { // 0 nominal 1 ignored 2 unignored
				st := 0
				for i := 0; i < np; i++ {
					if n.bits[i] {
						if mt.Exclusion(i) {
							st = 2
						} else {
							st = 1
						}
					}
				}
				return st
			}
			var want []string
			for _, n := range nodes {
				if n.kind == 'd' {
					continue
				}
				mask, ok := false, true
				for _, a := range n.chain {
					switch status(byPath[a]) {
					case 1:
						mask = true
					case 2:
						mask = false
					}
					if mask && !exclusionPrefix(a) {
						ok = false
					}
				}
				switch status(n) {
				case 1:
					mask = true
				case 2:
					mask = false
				}
				if ok && !mask {
					want = append(want, hexs(n.path)+":"+string(n.kind))
				}
			}
			if show(want) != show(M) {
				fail("class=characterisation synchronized leaves %s, 'deepest matched prefix wins' selects %s", show(M), show(want))
			}
			inS := map[string]string{}
			for _, s := range S {
				i := strings.LastIndexByte(s, ':')
				inS[unhex(s[:i])] = s[i+1:]
				if s[i+1:] == "p" {
					fail("class=phantom-after-reify %s", s)
				}
			}
			dirs := 1
			for _, k := range inS {
				if k == "d" {
					dirs++
				}
			}
			if uint64(dirs) != count {
				fail("class=reify-count reported %d directories, snapshot has %d", count, dirs)
			}
			// excluded directories: kept iff synchronized content below or the ancestor had a directory there
			// "synchronized" is defined on the raw scan, bottom-up: files, links and
			// ordinary directories are; an excluded (phantom) directory is iff one of
			// its children is or the ancestor had a directory at that path.
			phantoms := 0
			rawKind := map[string]string{}
			rawChildren := map[string][]string{}
			for _, s := range raw {
				i := strings.LastIndexByte(s, ':')
				p := unhex(s[:i])
				rawKind[p] = s[i+1:]
				parent := ""
				if j := strings.LastIndexByte(p, '/'); j >= 0 {
					parent = p[:j]
				}
				rawChildren[parent] = append(rawChildren[parent], p)
			}
			var synchronized func(p string) bool
			synchronized = func(p string) bool {
				switch rawKind[p] {
				case "f", "l", "d":
					return true
				case "p":
					if a := ancLookup(anc, p); anc != nil && a != nil && a.dir {
						return true
					}
					for _, ch := range rawChildren[p] {
						if synchronized(ch) {
							return true
						}
					}
				}
				return false
			}
			for p, k := range rawKind {
				if k != "p" {
					continue
				}
				phantoms++
				kept, present := inS[p]
				if !present {
					// only legitimate below an excluded directory that was itself dropped
					if synchronized(p) {
						fail("class=excluded-dir-kept %q is synchronized content but vanished", p)
					}
					continue
				}
				if (kept == "d") != synchronized(p) || (kept != "d" && kept != "u") {
					fail("class=excluded-dir-kept %q became %s, synchronized=%v", p, kept, synchronized(p))
				}
			}
			if phantoms > 0 {
				c.Count("w:with-phantom-directories")
			}
			c.Count("w:cases")
			key := ""
			if phantoms > 0 || !H {
				key = line
			}
			c.Case(line, impl, oracle, key)
		}

		// doC: one pattern through the cleaning of docker/ignore.go and
		// patternmatcher.New. want != nil carries the generator's expectation
		// (exclusion flag, cleaned text) for structurally built patterns.
		doC := func(p string, want *[2]string) {
			line := "c " + hexs(p)
			if strings.ContainsAny(p, "[]") {
				c.Case(line, "unsupported", "", "")
				return
			}
			oracle := ""
			impl := hx.Try(func() string {
				mt, err := docker.VerifC15New([]string{p})
				if err != nil {
					k := "bad"
					switch msg := err.Error(); {
					case strings.Contains(msg, "escape sequences"):
						k = "backslash"
					case strings.Contains(msg, "whitespace-only negated pattern"):
						k = "negated-empty"
					case strings.Contains(msg, "whitespace-only pattern"):
						k = "empty"
					case strings.Contains(msg, "root pattern"):
						k = "root"
					case strings.Contains(msg, "illegal exclusion pattern"):
						k = "illegal-exclusion"
					}
					c.Count("c:err:" + k)
					if want != nil {
						oracle = fmt.Sprintf("class=clean-rejects-wellformed %q: %v", p, err)
					}
					return "err " + k
				}
				if mt.Count() != 1 {
					return "err dropped"
				}
				k := "i"
				if mt.Exclusion(0) {
					k = "x"
				}
				c.Count("c:ok")
				if want != nil && (k != want[0] || mt.Cleaned(0) != want[1]) {
					oracle = fmt.Sprintf("class=clean-fields %q cleaned to %s %q, expected %s %q", p, k, mt.Cleaned(0), want[0], want[1])
				}
				return "ok " + k + " " + hexs(mt.Cleaned(0))
			})
			if strings.HasPrefix(impl, "panic:") {
				oracle = "class=panic " + impl
			}
			c.Case(line, impl, oracle, "c"+impl)
		}

		if lines := c.ReplayLines(); lines != nil {
			c.Note("replay rebuilds the pattern list from the cleaned patterns of the line (cleaning is idempotent) and recomputes the match table with the real Pattern.match")
			for _, l := range lines {
				f := strings.Fields(l)
				if len(f) == 2 && f[0] == "c" {
					doC(unhex(f[1]), nil)
					continue
				}
				if len(f) != 4 || f[0] != "w" {
					c.Case(l, "bad-op", "", "")
					continue
				}
				var pats []string
				if f[1] != "-" {
					for _, t := range strings.Split(f[1], ",") {
						kv := strings.SplitN(t, ":", 2)
						p := unhex(kv[1])
						if kv[0] == "x" {
							p = "!" + p
						}
						pats = append(pats, p)
					}
				}
				// rebuild the tree from the tokens (bits are recomputed)
				toks := strings.Split(f[3], ",")
				pos := 0
				var rec func() []*tnode
				rec = func() []*tnode {
					var out []*tnode
					for pos < len(toks) && toks[pos] != "]" && toks[pos] != "-" {
						kv := strings.SplitN(toks[pos], ":", 3)
						pos++
						t := &tnode{name: unhex(kv[1]), kind: kv[0][0]}
						if t.kind == 'd' {
							pos++
							t.children = rec()
							pos++
						}
						out = append(out, t)
					}
					return out
				}
				run(pats, rec(), parseAnc(f[2]))
			}
			return
		}

		r := c.R
		// Pattern cleaning: structurally built patterns (expectation known) and free text.
		segs := []string{"a", "b", "ab", "*", "**", "?", "a*", "*.x", "d.x", "é"}
		for i := 0; i < c.Size(4000, 60000); i++ {
			if r.Chance(1, 3) {
				chunks := []string{"a", "b", "/", "//", ".", "..", "./", "../", "!", " ", "\t", "*", "**", "\\", "é", "!!", "/.", "a/.."}
				var b strings.Builder
				for n := 1 + r.Intn(5); n > 0; n-- {
					b.WriteString(chunks[r.Intn(len(chunks))])
				}
				doC(b.String(), nil)
				continue
			}
			n := 1 + r.Intn(3)
			parts := make([]string, n)
			for j := range parts {
				parts[j] = segs[r.Intn(len(segs))]
			}
			body := strings.Join(parts, "/")
			p := body
			if r.Chance(1, 3) {
				p = "/" + p
			}
			if r.Chance(1, 4) {
				p += "/"
			}
			neg := r.Chance(1, 3)
			if neg {
				p = "!" + r.Pick("", "", " ") + p
			}
			p = r.Pick("", "", " ", "\t") + p + r.Pick("", "", " ")
			k := "i"
			if neg {
				k = "x"
			}
			doC(p, &[2]string{k, body})
		}
		for _, p := range []string{"", " ", "!", "! ", "/", "!/", "//", "a\\b", "!../../a", "..", "!..", ".", "!.", "a/..", "!a/..", "/..", "./a", " !a", "! a ", "!!a"} {
			doC(p, nil)
		}
		// The witness of DESIGN.md §8 C15 first, then its neighbourhood.
		witness := []*tnode{{name: "a", kind: 'd', children: []*tnode{{name: "b", kind: 'f'}}}}
		run([]string{"!a/b", "a"}, witness, nil)
		run([]string{"a", "!a/b"}, witness, nil)
		run([]string{"*/b", "!a"}, witness, nil)
		run([]string{"a"}, witness, nil)
		run(nil, witness, nil)
		c.Count("fixed-witnesses")
		for i := 0; i < c.Size(2500, 60000); i++ {
			budget := 3 + r.Intn(10)
			tree := genTree(r, 0, &budget)
			var nodes []*tnode
			annotate(tree, "", nil, &nodes)
			n := r.Intn(6)
			pats := make([]string, n)
			for j := range pats {
				pats[j] = genPattern(r, nodes)
			}
			if r.Chance(1, 2) {
				// re-inclusion beneath an excluded directory: exclude an ancestor (or
				// everything), re-include a descendant — in either order, among the noise.
				var deep []*tnode
				for _, nd := range nodes {
					if len(nd.chain) > 0 {
						deep = append(deep, nd)
					}
				}
				if len(deep) > 0 {
					x := deep[r.Intn(len(deep))]
					anc := x.chain[r.Intn(len(x.chain))]
					pair := []string{r.Pick(anc, anc, "*", anc+"/*", "**"), "!" + x.path}
					if r.Chance(1, 4) {
						pair[0], pair[1] = pair[1], pair[0]
					}
					at := r.Intn(len(pats) + 1)
					pats = append(pats[:at:at], append(pair, pats[at:]...)...)
					c.Count("gen:reinclusion-scenario")
				}
			}
			var anc *anode
			if r.Chance(2, 5) {
				anc = genAnc(r, tree)
			}
			run(pats, tree, anc)
		}
	})
}
