// C35: closing an agent connection always terminates the agent.
//
// Fake agent processes (this binary re-executed with the role argument
// "c35agent") with every termination behaviour — exits on its own after d,
// exits d after its standard input closes, exits d after SIGTERM, ignores
// everything, and combinations — are wrapped in a real transport.Stream and
// closed with the real (*Stream).Close. The agent journals, with wall-clock
// stamps, when it was told to start, saw end-of-file, received SIGTERM and
// decided to exit; the parent stamps the call and the return of Close. The
// stage in which Close returned is inferred from side effects only (killed by
// SIGKILL / SIGTERM seen / end-of-file seen / neither), never from latency.
//
// Two further dimensions: the stream is created with or without a standard
// error receiver, and the agent may start a detached descendant (setsid) that
// inherits its standard error and/or output and/or input and keeps them open
// until the harness releases it — after Close has returned, or after the
// watchdog has expired (then Close hangs: it waited for a holder other than the
// agent). Timing-free: Close returns, and the agent itself has been waited for.
//
// A third dimension: a goroutine of the caller is blocked in Stream.Write (4 MiB
// to an agent that has stopped reading) when Close is called. Timing-free:
// Close returns, the agent has been waited for, and the Write comes back with an
// error once Close has returned.
//
// The op line is the behaviour (termination delay, the two grace periods as
// extracted from the source, reaction delays) plus the observed stage; the
// Lean ladder model must return in the same stage. Reaction times are chosen
// well away from every escalation boundary, and a case is only
// evaluated when the host was demonstrably responsive while it ran (agent-side
// timer overshoot, pipe latency and a parent-side sleep probe all below their
// thresholds); otherwise it is counted as inconclusive and skipped.
//
// Oracle (independent arithmetic, no step model): Close returned and the
// process is gone (its termination has been reported by wait); no stage is entered before
// its nominal start (timers never fire early: hard bound); the stage equals
// the one computed from the delays; Close returns soon after the process'
// exit (generous bound).
package main

import (
	"bufio"
	"fmt"
	"go/ast"
	"go/parser"
	"go/token"
	"io"
	"os"
	"os/exec"
	"os/signal"
	"path/filepath"
	"strconv"
	"strings"
	"sync"
	"syscall"
	"time"

	"github.com/mutagen-io/mutagen/pkg/agent/transport"

	"verif/harness/hx"
)

func nowMs() int64 { return time.Now().UnixNano() / 1e6 }

// ------------------------------------------------------------------- agent

// helperMain is the detached descendant of an agent: it holds whatever standard
// streams it inherited until the parent of the whole experiment releases it
// (a file appears) or its maximum lifetime is over, whichever comes first.
func helperMain(args []string) {
	release := args[1]
	maxLife, _ := strconv.Atoi(args[2])
	t0 := time.Now()
	for time.Since(t0) < time.Duration(maxLife)*time.Millisecond {
		if _, err := os.Stat(release); err == nil {
			break
		}
		time.Sleep(25 * time.Millisecond)
	}
	if jf, err := os.OpenFile(args[0], os.O_WRONLY|os.O_APPEND, 0o644); err == nil {
		fmt.Fprintf(jf, "helper-exit %d\n", nowMs())
	}
}

func agentMain(args []string) {
	self, _ := strconv.Atoi(args[0])
	onStdin, _ := strconv.Atoi(args[1])
	onTerm, _ := strconv.Atoi(args[2])
	jf, err := os.OpenFile(args[3], os.O_WRONLY|os.O_APPEND|os.O_CREATE, 0o644)
	if err != nil {
		os.Exit(3)
	}
	noRead := len(args) > 7 && args[7] == "noread"
	// A descendant that keeps some of this process' standard streams open and
	// outlives it (an SSH ControlMaster, a credential helper, …).
	if holders := args[4]; holders != "-" {
		me, _ := os.Executable()
		h := exec.Command(me, "c35helper", args[3], args[5], args[6])
		h.SysProcAttr = &syscall.SysProcAttr{Setsid: true}
		if strings.Contains(holders, "i") {
			h.Stdin = os.Stdin
		}
		if strings.Contains(holders, "o") {
			h.Stdout = os.Stdout
		}
		if strings.Contains(holders, "e") {
			h.Stderr = os.Stderr
		}
		if err := h.Start(); err != nil {
			os.Exit(4)
		}
		fmt.Fprintf(jf, "helper-start %d\n", nowMs())
	}
	fmt.Fprintln(os.Stderr, "agent: started")
	var mu sync.Mutex
	log := func(tag string) {
		mu.Lock()
		fmt.Fprintf(jf, "%s %d\n", tag, nowMs())
		mu.Unlock()
	}
	exit := func(code int, tag string) {
		mu.Lock()
		fmt.Fprintf(jf, "%s %d\n", tag, nowMs())
		os.Exit(code)
	}
	sig := make(chan os.Signal, 8)
	signal.Notify(sig, syscall.SIGTERM)
	goCh := make(chan struct{})
	go func() {
		r := bufio.NewReader(os.Stdin)
		started := false
		for {
			line, err := r.ReadString('\n')
			if strings.TrimSpace(line) == "go" && !started {
				started = true
				log("go")
				close(goCh)
				if noRead {
					// from now on this agent does not drain its input: a large
					// Write by the parent blocks on the full pipe
					return
				}
			}
			if err != nil {
				log("eof")
				if onStdin >= 0 {
					time.Sleep(time.Duration(onStdin) * time.Millisecond)
					exit(11, "exit-eof")
				}
				return
			}
		}
	}()
	go func() {
		<-sig
		log("term")
		if onTerm >= 0 {
			time.Sleep(time.Duration(onTerm) * time.Millisecond)
			exit(12, "exit-term")
		}
		for range sig {
		}
	}()
	// Heartbeats let the parent see whether this process was running on time.
	go func() {
		for {
			time.Sleep(heartbeat * time.Millisecond)
			log("hb")
		}
	}()
	fmt.Println("ready")
	<-goCh
	if self >= 0 {
		time.Sleep(time.Duration(self) * time.Millisecond)
		exit(10, "exit-self")
	}
	select {}
}

// ------------------------------------------------------------------ parent

type spec struct {
	delay, g1, g2        int // ms
	self, onStdin, onTerm int // ms, -1: none
	pre                  bool // let the agent exit before Close is called (self == 0)
	holders              string // standard streams inherited by a detached descendant that outlives the agent: subset of "eoi", "" none
	recv                 bool   // NewStream gets a standard error receiver
	writer               bool   // a goroutine is blocked in Stream.Write (agent not reading) when Close is called
}

func (s spec) holderField() string {
	if s.holders == "" {
		return "-"
	}
	return s.holders
}

func optField(v int) string {
	if v < 0 {
		return "-"
	}
	return strconv.Itoa(v)
}

func (s spec) line(obs string) string {
	r := "N"
	if s.recv {
		r = "R"
	}
	w := "-"
	if s.writer {
		w = "W"
	}
	return fmt.Sprintf("%d %d %d %s %s %s 0 %s %s %s = %s", s.delay, s.g1, s.g2, optField(s.self), optField(s.onStdin), optField(s.onTerm), s.holderField(), r, w, obs)
}

// predict is the oracle's arithmetic: exit time and stage, assuming prompt reactions.
func predict(s spec) (stage string, exitAt int) {
	const inf = 1 << 40
	e := inf
	if s.self >= 0 {
		e = s.self
	}
	if e < s.delay {
		return "wait", e
	}
	if s.onStdin >= 0 {
		e = min(e, s.delay+s.onStdin)
	}
	if e < s.delay+s.g1 {
		return "stdin", e
	}
	if s.onTerm >= 0 {
		e = min(e, s.delay+s.g1+s.onTerm)
	}
	if e < s.delay+s.g1+s.g2 {
		return "term", e
	}
	return "kill", s.delay + s.g1 + s.g2
}

type outcome struct {
	stage        string
	hang         bool
	aliveAfter   string // "" if the process is gone
	closeMs      int64  // duration of Close
	journal      map[string]int64
	goSent       int64
	close0       int64
	close1       int64
	writeN       int
	writeErr     error
	writeAt      int64 // when the pending Write returned
	writeHang    bool  // the pending Write did not return after Close
	zombie       bool // at the watchdog's expiry the agent was an unreaped zombie
	stuck        bool // Close did not even return after the descendant was released
	inconclusive string
	notifyLag    int64   // ms between the agent's exit record and Close's return; -1 unknown
	beats        []int64 // times of the agent's heartbeats
	agentGap     bool    // the agent's heartbeats show that it was not scheduled on time
}

const (
	marginLow     = 450  // ms between the beginning of a stage and an untriggered exit in it
	marginHigh    = 650  // ms between an exit and the next escalation
	slowAgent     = 200  // ms of lateness tolerated in the agent and in the escalation timers
	slowHost      = 150  // ms of parent-side sleep overshoot tolerated
	heartbeat     = 50   // ms between agent heartbeats
	writerHeadStart = 100 // ms given to the pending Write to fill the pipe before Close is called
	slowNotify    = 250  // ms from the agent's exit record to Close's return tolerated when stages differ
	lateReturn    = 3000 // ms between the moment the exit was due and Close's return tolerated
	hangAllowance = 30000 // ms beyond the ladder's maximum before Close is declared hung
)

var (
	self    string
	probeMu sync.Mutex
	stalls  [][2]int64 // intervals (ms) during which the host probe was not scheduled on time
)

// hostProbe records the intervals in which this process was not scheduled on
// time: a 10 ms sleep that overshoots by more than slowHost.
// lockedBuffer is the standard error receiver handed to NewStream.
type lockedBuffer struct {
	mu sync.Mutex
	b  []byte
}

func (l *lockedBuffer) Write(p []byte) (int, error) {
	l.mu.Lock()
	if len(l.b) < 4096 {
		l.b = append(l.b, p...)
	}
	l.mu.Unlock()
	return len(p), nil
}

func hostProbe(stop <-chan struct{}) {
	for {
		select {
		case <-stop:
			return
		default:
		}
		t0 := nowMs()
		time.Sleep(10 * time.Millisecond)
		if t1 := nowMs(); t1-t0-10 > slowHost {
			probeMu.Lock()
			stalls = append(stalls, [2]int64{t0, t1})
			probeMu.Unlock()
		}
	}
}

// hostWasSlow reports whether a recorded stall overlaps [from, to]. It must be
// called after the probe has had time to finish a stall that was in progress
// at `to` (the driver judges all cases at the end).
func hostWasSlow(from, to int64) bool {
	probeMu.Lock()
	defer probeMu.Unlock()
	for _, iv := range stalls {
		if iv[1] >= from-slowHost && iv[0] <= to+slowHost {
			return true
		}
	}
	return false
}

// runCase starts the agent, waits at the barrier until every agent of the batch
// is up (`ready` is called once this one is, `start` is closed when all are),
// then closes the stream. No process is created while any Close of the batch
// is running: a fork in this process would briefly duplicate the write ends of
// the other agents' input pipes (until its exec), which delays their
// end-of-file by however long the host takes to schedule that exec.
func runCase(s spec, dir string, id int, ready func(), start <-chan struct{}) (o outcome) {
	jpath := filepath.Join(dir, fmt.Sprintf("agent-%d.journal", id))
	os.Remove(jpath)
	defer os.Remove(jpath)
	release := filepath.Join(dir, fmt.Sprintf("agent-%d.release", id))
	os.Remove(release)
	defer os.Remove(release)
	helperLife := s.delay + s.g1 + s.g2 + 2*hangAllowance + 20000
	cmd := exec.Command(self, "c35agent", strconv.Itoa(s.self), strconv.Itoa(s.onStdin), strconv.Itoa(s.onTerm), jpath,
		s.holderField(), release, strconv.Itoa(helperLife), map[bool]string{true: "noread", false: "read"}[s.writer])
	cmd.Env = append(os.Environ(), "GOMAXPROCS=2", "GOGC=off")
	var receiver io.Writer
	if s.recv {
		receiver = &lockedBuffer{}
	}
	stream, err := transport.NewStream(cmd, receiver)
	if err != nil {
		panic(err)
	}
	if err := cmd.Start(); err != nil {
		panic(err)
	}
	stream.SetTerminationDelay(time.Duration(s.delay) * time.Millisecond)
	// Wait until the agent has installed its handlers.
	buf := make([]byte, 0, 16)
	one := make([]byte, 1)
	for !strings.HasSuffix(string(buf), "\n") {
		if n, err := stream.Read(one); n == 1 {
			buf = append(buf, one[0])
		} else if err != nil {
			break
		}
	}
	ready()
	<-start
	o.goSent = nowMs()
	stream.Write([]byte("go\n"))
	if s.pre {
		time.Sleep(300 * time.Millisecond)
	}
	// A pending Write: far more than any pipe buffer, and the agent is not reading.
	writeDone := make(chan struct{})
	if s.writer {
		go func() {
			defer close(writeDone)
			payload := make([]byte, 4<<20)
			o.writeN, o.writeErr = stream.Write(payload)
			o.writeAt = nowMs()
		}()
		time.Sleep(writerHeadStart * time.Millisecond)
	} else {
		close(writeDone)
	}
	done := make(chan struct{})
	go func() {
		o.close0 = nowMs()
		stream.Close()
		o.close1 = nowMs()
		close(done)
	}()
	limit := time.Duration(s.delay+s.g1+s.g2+hangAllowance) * time.Millisecond
	releaseHelper := func() {
		if f, err := os.Create(release); err == nil {
			f.Close()
		}
	}
	select {
	case <-done:
		// Close returned while the descendant (if any) still holds its streams.
		releaseHelper()
	case <-time.After(limit):
		o.hang = true
		if data, err := os.ReadFile(fmt.Sprintf("/proc/%d/stat", cmd.Process.Pid)); err == nil {
			if i := strings.LastIndexByte(string(data), ')'); i >= 0 && i+2 < len(data) && data[i+2] == 'Z' {
				o.zombie = true
			}
		}
		releaseHelper()
		cmd.Process.Kill()
		select {
		case <-done:
		case <-time.After(time.Duration(hangAllowance) * time.Millisecond):
			o.stuck = true // even without the descendant Close does not come back; its goroutine is abandoned
			o.close1 = nowMs()
		}
	}
	// the pending Write must come back once Close has returned
	select {
	case <-writeDone:
	case <-time.After(time.Duration(hangAllowance) * time.Millisecond):
		o.writeHang = true
	}
	// the descendant must be gone before the journal is read and removed
	if s.holders != "" {
		for t0 := time.Now(); time.Since(t0) < 10*time.Second; time.Sleep(20 * time.Millisecond) {
			if data, err := os.ReadFile(jpath); err == nil && strings.Contains(string(data), "helper-exit") {
				break
			}
		}
	}
	o.closeMs = o.close1 - o.close0
	// exec.Cmd.Wait sets ProcessState only after the kernel has reported the
	// process' termination (and reaped it). Probing the pid with signal 0
	// afterwards would race with pid reuse, so it is not done.
	if o.stuck {
		o.aliveAfter = "Close never returned"
	} else if cmd.ProcessState == nil {
		o.aliveAfter = "the process has not been waited for"
	} else if ws, ok := cmd.ProcessState.Sys().(syscall.WaitStatus); ok && !ws.Exited() && !ws.Signaled() {
		o.aliveAfter = "the wait status says the process is neither exited nor killed"
	}
	o.journal = map[string]int64{}
	if data, err := os.ReadFile(jpath); err == nil {
		for _, l := range strings.Split(string(data), "\n") {
			f := strings.Fields(l)
			if len(f) == 2 && f[0] == "hb" {
				t, _ := strconv.ParseInt(f[1], 10, 64)
				o.beats = append(o.beats, t)
				continue
			}
			if len(f) == 2 {
				if _, dup := o.journal[f[0]]; !dup {
					o.journal[f[0]], _ = strconv.ParseInt(f[1], 10, 64)
				}
			}
		}
	}
	killed := false
	if cmd.ProcessState != nil {
		if ws, ok := cmd.ProcessState.Sys().(syscall.WaitStatus); ok && ws.Signaled() && ws.Signal() == syscall.SIGKILL {
			killed = true
		}
	}
	_, sawTerm := o.journal["term"]
	_, sawEOF := o.journal["eof"]
	switch {
	case killed:
		o.stage = "kill"
	case sawTerm:
		o.stage = "term"
	case sawEOF:
		o.stage = "stdin"
	default:
		o.stage = "wait"
	}
	// Was the host responsive enough for the timing-dependent comparisons?
	j := o.journal
	late := func(what string, actual, nominal int64) {
		if o.inconclusive == "" && actual-nominal > slowAgent {
			o.inconclusive = fmt.Sprintf("%s %d ms late", what, actual-nominal)
		}
	}
	if g, ok := j["go"]; ok {
		late("start signal", g, o.goSent)
		if x, ok := j["exit-self"]; ok {
			late("agent's own timer", x, g+int64(s.self))
		}
	} else {
		o.inconclusive = "agent never saw the start signal"
	}
	if e, ok := j["eof"]; ok {
		if x, ok := j["exit-eof"]; ok {
			late("agent's end-of-file reaction", x, e+int64(s.onStdin))
		}
	}
	if t, ok := j["term"]; ok {
		if x, ok := j["exit-term"]; ok {
			late("agent's SIGTERM reaction", x, t+int64(s.onTerm))
		}
	}
	// the agent's heartbeats: was it scheduled on time between the start signal
	// and the end of the case?
	if g, ok := j["go"]; ok {
		last := g
		end := o.close1
		for _, k := range []string{"exit-self", "exit-eof", "exit-term"} {
			if x, ok := j[k]; ok && x < end {
				end = x
			}
		}
		for _, t := range append(append([]int64(nil), o.beats...), end) {
			if t < g {
				continue
			}
			if t > end {
				t = end
			}
			if t-last > heartbeat+slowAgent {
				o.agentGap = true
				if o.inconclusive == "" {
					o.inconclusive = fmt.Sprintf("agent heartbeat gap of %d ms", t-last)
				}
				break
			}
			last = t
		}
	} else {
		o.agentGap = true
	}
	// the escalation timers themselves: how late did the stages begin?
	if e, ok := j["eof"]; ok {
		late("closing of standard input", e, o.close0+int64(s.delay))
		if t, ok := j["term"]; ok {
			late("SIGTERM", t, e+int64(s.g1))
		}
	}
	// the parent itself: time between the start signal and the call of Close
	wantGap := int64(0)
	if s.pre {
		wantGap = 300
	}
	if s.writer {
		wantGap += writerHeadStart
	}
	if o.inconclusive == "" && o.close0-o.goSent-wantGap > slowHost {
		o.inconclusive = fmt.Sprintf("parent needed %d ms to get from the start signal to Close", o.close0-o.goSent)
	}
	// how long after the agent's decision to exit did Close return?
	o.notifyLag = -1
	for _, k := range []string{"exit-self", "exit-eof", "exit-term"} {
		if x, ok := j[k]; ok {
			o.notifyLag = o.close1 - x
		}
	}
	return
}

// judge is the oracle.
func judge(s spec, o outcome) string {
	if o.hang {
		extra := ""
		if s.writer {
			extra = " while a Write was pending on the agent's full input pipe"
		}
		if s.holders != "" {
			extra = fmt.Sprintf(" while a descendant of the agent still held its standard streams (%s)", s.holders)
		}
		if o.zombie {
			extra += "; the agent was an unreaped zombie"
		}
		return fmt.Sprintf("class=close-hangs Close had not returned %d ms after the last escalation%s", hangAllowance, extra)
	}
	if o.aliveAfter != "" {
		return "class=alive-after-close Close returned but " + o.aliveAfter
	}
	if s.writer && o.writeHang {
		return fmt.Sprintf("class=write-hangs the Write that was pending when Close was called had not returned %d ms after Close", hangAllowance)
	}
	if s.writer && o.writeErr == nil && !o.writeHang {
		return fmt.Sprintf("class=write-succeeded a %d-byte Write to an agent that does not read returned without error (%d bytes)", 4<<20, o.writeN)
	}
	// Hard bound: a stage is never entered before its nominal start.
	start := map[string]int{"wait": 0, "stdin": s.delay, "term": s.delay + s.g1, "kill": s.delay + s.g1 + s.g2}[o.stage]
	if o.closeMs+1 < int64(start) {
		return fmt.Sprintf("class=stage-early Close returned in stage %s after %d ms, before that stage can begin (%d ms)", o.stage, o.closeMs, start)
	}
	// Escalation consistency (no timing involved beyond "the agent was alive and
	// beating"): a stage can only be reached through the previous ones.
	beatAfter := func(t int64) bool {
		for _, b := range o.beats {
			if b >= t {
				return true
			}
		}
		return false
	}
	eofAt, sawEOF := o.journal["eof"]
	termAt, sawTerm := o.journal["term"]
	if o.agentGap {
		// the agent itself was starved: its records say nothing about Close
	} else if sawTerm && !sawEOF && !s.writer && beatAfter(termAt) {
		return "class=escalation-skipped the agent received SIGTERM although its standard input was never closed"
	}
	if o.agentGap {
	} else if o.stage == "kill" && !sawTerm && sawEOF && beatAfter(eofAt+int64(s.g1)+2*slowAgent) {
		return "class=escalation-skipped the agent was killed without having received SIGTERM"
	}
	if o.agentGap {
	} else if o.stage == "kill" && !sawTerm && !sawEOF && beatAfter(o.close0+int64(s.delay+s.g1)+2*slowAgent) {
		return "class=escalation-skipped the agent was killed without its standard input having been closed"
	}
	want, exitAt := predict(s)
	stalled := hostWasSlow(o.goSent, o.close1)
	// Generous latency bound, checked whenever the host did not visibly stall:
	// Close returns within lateReturn of the moment the agent's exit was due.
	base := o.close0
	if s.pre {
		base = o.goSent
	}
	if lag := o.close1 - (base + int64(exitAt)); !stalled && o.inconclusive == "" && lag > lateReturn {
		rel := ""
		for _, k := range []string{"go", "eof", "term", "exit-self", "exit-eof", "exit-term"} {
			if t, ok := o.journal[k]; ok {
				rel += fmt.Sprintf(" %s@%d", k, t-o.close0)
			}
		}
		return fmt.Sprintf("class=late-return Close returned %d ms after the agent's exit was due (Close took %d ms; agent journal relative to the call:%s)", lag, o.closeMs, rel)
	}
	if o.inconclusive != "" || stalled {
		return ""
	}
	if want != o.stage {
		// Only meaningful when the agent demonstrably exited on time and Close
		// returned right after: otherwise the host, not Close, decided the stage.
		if o.notifyLag < 0 || o.notifyLag > slowNotify {
			return ""
		}
		return fmt.Sprintf("class=stage-mismatch Close returned in stage %s, the earliest stage this agent reacts to is %s", o.stage, want)
	}
	return ""
}

// graces extracts the arguments of waitTimer.Reset(...) in (*Stream).Close.
func graces(repo string) (g []int, note string) {
	path := filepath.Join(repo, "pkg", "agent", "transport", "stream.go")
	fset := token.NewFileSet()
	f, err := parser.ParseFile(fset, path, nil, 0)
	if err != nil {
		return []int{1000, 1000}, "graces: cannot parse stream.go, assuming 1 s"
	}
	units := map[string]int{"Second": 1000, "Millisecond": 1}
	var eval func(e ast.Expr) (int, bool)
	eval = func(e ast.Expr) (int, bool) {
		switch x := e.(type) {
		case *ast.SelectorExpr:
			if id, ok := x.X.(*ast.Ident); ok && id.Name == "time" {
				u, ok := units[x.Sel.Name]
				return u, ok
			}
		case *ast.BasicLit:
			v, err := strconv.Atoi(x.Value)
			return v, err == nil
		case *ast.BinaryExpr:
			a, ok1 := eval(x.X)
			b, ok2 := eval(x.Y)
			if ok1 && ok2 && x.Op == token.MUL {
				return a * b, true
			}
		case *ast.ParenExpr:
			return eval(x.X)
		}
		return 0, false
	}
	for _, d := range f.Decls {
		fd, ok := d.(*ast.FuncDecl)
		if !ok || fd.Name.Name != "Close" || fd.Recv == nil {
			continue
		}
		ast.Inspect(fd, func(n ast.Node) bool {
			call, ok := n.(*ast.CallExpr)
			if !ok {
				return true
			}
			if sel, ok := call.Fun.(*ast.SelectorExpr); ok && sel.Sel.Name == "Reset" && len(call.Args) == 1 {
				if v, ok := eval(call.Args[0]); ok {
					g = append(g, v)
				}
			}
			return true
		})
	}
	if len(g) != 2 {
		return []int{1000, 1000}, fmt.Sprintf("graces: found %d Reset calls in Close, assuming 1 s", len(g))
	}
	return g, fmt.Sprintf("graces extracted from (*Stream).Close: %d ms, %d ms", g[0], g[1])
}

// gen draws a behaviour whose exit keeps its distance from the escalation
// boundaries: reactions are fast (well inside the grace period) or slow
// (well inside a later stage, or after the kill).
func gen(r *hx.Rand, g1, g2 int) spec {
	for {
		s := spec{g1: g1, g2: g2, self: -1, onStdin: -1, onTerm: -1}
		s.delay = []int{0, 0, 600, 1200, 1500}[r.Intn(5)]
		b1, b2, b3 := s.delay, s.delay+g1, s.delay+g1+g2
		switch r.Intn(10) {
		case 0, 1:
			if s.delay >= 1200 {
				s.self = r.Intn(s.delay - 1000 + 1)
			}
		case 2:
			s.self = []int{b1, b2}[r.Intn(2)] + marginLow + r.Intn(50) // in the middle of a stage
		case 3:
			s.self = b3 + marginHigh + r.Intn(300) // only after the kill
		}
		switch r.Intn(6) {
		case 0, 1:
			s.onStdin = r.Intn(300)
		case 2:
			s.onStdin = g1 + marginLow + r.Intn(50)
		case 3:
			s.onStdin = g1 + g2 + marginHigh + r.Intn(300)
		}
		switch r.Intn(5) {
		case 0, 1:
			s.onTerm = r.Intn(300)
		case 2:
			s.onTerm = g2 + marginHigh + r.Intn(300)
		}
		switch r.Intn(14) {
		case 0: // the agent is gone before Close is called
			s.self, s.pre = 0, true
			if s.delay == 0 {
				s.delay = 600
			}
		case 1: // a long termination delay: Close must not sit it out
			s.delay = 5000 + r.Intn(1000)
			s.self = r.Intn(300)
		}
		b1, b2, b3 = s.delay, s.delay+g1, s.delay+g1+g2
		st, e := predict(s)
		ok := true
		switch st {
		case "wait":
			ok = b1-e >= 1000
		case "stdin":
			ok = b2-e >= marginHigh && (e-b1 >= marginLow || (s.onStdin >= 0 && e == b1+s.onStdin))
		case "term":
			ok = b3-e >= marginHigh && (e-b2 >= marginLow || (s.onTerm >= 0 && e == b2+s.onTerm))
		case "kill":
			for _, t := range []int{s.self, b1 + s.onStdin, b2 + s.onTerm} {
				if t >= b1 && t < b3+marginHigh {
					ok = false
				}
			}
			if s.self >= 0 && s.self < b3+marginHigh {
				ok = false
			}
		}
		if ok {
			return s
		}
	}
}

func parseLine(l string) (spec, bool) {
	f := strings.Fields(l)
	if len(f) < 7 {
		return spec{}, false
	}
	num := func(x string) (int, bool) {
		if x == "-" {
			return -1, true
		}
		v, err := strconv.Atoi(x)
		return v, err == nil && v >= 0
	}
	var v [7]int
	for i := 0; i < 7; i++ {
		var ok bool
		if v[i], ok = num(f[i]); !ok {
			return spec{}, false
		}
	}
	if v[0] < 0 || v[1] < 0 || v[2] < 0 {
		return spec{}, false
	}
	sp := spec{delay: v[0], g1: v[1], g2: v[2], self: v[3], onStdin: v[4], onTerm: v[5]}
	if len(f) >= 9 && f[7] != "=" && f[8] != "=" {
		if f[7] != "-" {
			for _, ch := range f[7] {
				if !strings.ContainsRune("eoi", ch) {
					return spec{}, false
				}
			}
			sp.holders = f[7]
		}
		switch f[8] {
		case "R":
			sp.recv = true
		case "N":
		default:
			return spec{}, false
		}
		if len(f) >= 10 && f[9] == "W" {
			sp.writer = true
		}
	}
	return sp, true
}

func main() {
	if len(os.Args) >= 9 && os.Args[1] == "c35agent" {
		agentMain(os.Args[2:])
		return
	}
	if len(os.Args) >= 5 && os.Args[1] == "c35helper" {
		helperMain(os.Args[2:])
		return
	}
	// The comparisons below need a responsive host; ask for scheduling priority
	// (inherited by the agents). Failure (not root) is harmless: more cases will
	// be classified inconclusive.
	syscall.Setpriority(syscall.PRIO_PROCESS, 0, -10)
	var err error
	if self, err = os.Executable(); err != nil {
		panic(err)
	}
	hx.Main("C35", func(c *hx.Ctx) {
		repo := os.Getenv("VERIF_REPO")
		if repo == "" {
			repo = "/repo"
		}
		g, note := graces(repo)
		c.Note(note)
		dir, _ := filepath.Abs(filepath.Join(c.Dir, "agents"))
		os.MkdirAll(dir, 0o755)
		defer os.RemoveAll(dir)
		stop := make(chan struct{})
		go hostProbe(stop)
		defer close(stop)

		var specs []spec
		if lines := c.ReplayLines(); lines != nil {
			for _, l := range lines {
				if s, ok := parseLine(l); ok {
					specs = append(specs, s)
				} else {
					c.Case(l, "bad-line", "", "")
				}
			}
		} else {
			// One agent of every pure class first, then random combinations.
			G1, G2 := g[0], g[1]
			specs = append(specs,
				spec{delay: 1200, g1: G1, g2: G2, self: 300, onStdin: -1, onTerm: -1},
				spec{delay: 0, g1: G1, g2: G2, self: -1, onStdin: 100, onTerm: -1},
				spec{delay: 0, g1: G1, g2: G2, self: -1, onStdin: -1, onTerm: 100},
				spec{delay: 0, g1: G1, g2: G2, self: -1, onStdin: -1, onTerm: -1},
				spec{delay: 600, g1: G1, g2: G2, self: 0, onStdin: -1, onTerm: -1, pre: true},
				// every termination class with a descendant that keeps standard error
				// (and separately: output, input, everything) open and outlives the agent
				spec{delay: 1200, g1: G1, g2: G2, self: 300, onStdin: -1, onTerm: -1, holders: "e", recv: true},
				spec{delay: 0, g1: G1, g2: G2, self: -1, onStdin: 100, onTerm: -1, holders: "e", recv: true},
				spec{delay: 0, g1: G1, g2: G2, self: -1, onStdin: -1, onTerm: 100, holders: "e", recv: true},
				spec{delay: 0, g1: G1, g2: G2, self: -1, onStdin: -1, onTerm: -1, holders: "e", recv: true},
				spec{delay: 0, g1: G1, g2: G2, self: -1, onStdin: 100, onTerm: -1, holders: "o", recv: true},
				spec{delay: 0, g1: G1, g2: G2, self: -1, onStdin: 100, onTerm: -1, holders: "i", recv: true},
				spec{delay: 0, g1: G1, g2: G2, self: -1, onStdin: -1, onTerm: 100, holders: "eoi", recv: true},
				spec{delay: 0, g1: G1, g2: G2, self: -1, onStdin: -1, onTerm: -1, holders: "eo", recv: false},
				// a Write is blocked on the full input pipe of an agent that has stopped
				// reading, for each way the agent can still be terminated
				spec{delay: 1200, g1: G1, g2: G2, self: 300, onStdin: -1, onTerm: -1, writer: true},
				spec{delay: 0, g1: G1, g2: G2, self: -1, onStdin: -1, onTerm: 100, writer: true},
				spec{delay: 0, g1: G1, g2: G2, self: -1, onStdin: -1, onTerm: -1, writer: true},
				spec{delay: 600, g1: G1, g2: G2, self: -1, onStdin: -1, onTerm: 100, writer: true, recv: true, holders: "e"},
			)
			for i := 0; i < c.Size(175, 3183); i++ {
				sp := gen(c.R, G1, G2)
				if c.R.Chance(1, 4) {
					// the agent stops reading: it cannot react to end-of-file, and its own
					// exit must not fall into the stage that only end-of-file would reveal
					for {
						sp = gen(c.R, G1, G2)
						if st, _ := predict(sp); sp.onStdin < 0 && !sp.pre && st != "stdin" {
							break
						}
					}
					sp.writer = true
				}
				sp.recv = c.R.Chance(2, 3)
				if c.R.Chance(2, 5) {
					sp.holders = c.R.Pick("e", "e", "e", "o", "i", "eo", "ei", "oi", "eoi")
				}
				specs = append(specs, sp)
			}
		}
		// Agents mostly sleep: run many cases at once.
		par := c.Size(24, 48)
		outs := make([]outcome, len(specs))
		for lo := 0; lo < len(specs); lo += par {
			hi := min(lo+par, len(specs))
			var up, wg sync.WaitGroup
			start := make(chan struct{})
			for i := lo; i < hi; i++ {
				up.Add(1)
				wg.Add(1)
				go func() {
					defer wg.Done()
					outs[i] = runCase(specs[i], dir, i, up.Done, start)
				}()
			}
			up.Wait()
			close(start)
			wg.Wait()
		}
		time.Sleep(2 * slowHost * time.Millisecond) // let the probe close a stall in progress
		for i, s := range specs {
			o := outs[i]
			verdict := judge(s, o)
			if o.inconclusive == "" && hostWasSlow(o.goSent, o.close1) {
				o.inconclusive = "parent-side sleep probe stalled"
			}
			want, _ := predict(s)
			if o.inconclusive != "" && verdict == "" {
				c.Count("inconclusive (host not responsive enough)")
				continue
			}
			if want != o.stage && verdict == "" {
				// the oracle attributed the different stage to the host (the agent was
				// killed before it could react, or its exit reached Close late)
				c.Count("inconclusive (stage decided by host latency)")
				continue
			}
			c.Count("stage:" + o.stage)
			if s.pre {
				c.Count("already-exited-before-close")
			}
			if s.holders != "" {
				c.Count("descendant-holds:" + s.holders)
			}
			if s.recv {
				c.Count("stderr-receiver")
			}
			if s.writer {
				c.Count("pending-write")
				if o.writeAt != 0 && o.writeAt < o.close0 {
					c.Count("pending-write:returned-before-close")
				}
			}
			c.Case(s.line(o.stage), o.stage, verdict, fmt.Sprintf("%s/%d/%v/%v/%v/%s/%v", want, s.delay, s.self >= 0, s.onStdin >= 0, s.onTerm >= 0, s.holders, s.recv) + fmt.Sprint(s.writer))
		}
	})
}
