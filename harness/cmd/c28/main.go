// C28: at most one daemon holds the daemon lock.
//
// Real processes (this binary re-executed with the role argument "c28child")
// operate on one daemon lock file per case through the real
// daemon.AcquireLock / (*daemon.Lock).Release and the real locking.Locker.
// The parent sends them commands over pipes — one at a time, or several at
// once so that they race — and kills them (SIGKILL) or makes them exit at
// random moments, including in the middle of an operation. Every process
// appends "about to run X" / "X returned R" records to one shared O_APPEND
// journal; the parent appends "about to kill p" / "reaped p". The order of the
// records in the file is the global sequence. The journal is the op line; the
// Lean model must accept it as one of its runs (system calls and deaths are
// internal steps placed by the validator) and reproduce every result.
//
// Oracle (independent of the model): intervals on the journal. A process
// definitely holds the lock from the record of a successful acquisition to
// its next record announcing a release/close or its kill record; it possibly
// holds it from the announcement of an acquisition to the return of the
// release or its reaping. No successful acquisition may fall into another
// process' definite interval (two holders); a refused acquisition (EAGAIN)
// must overlap some other process' possible interval (lock not available
// although released or holder dead); Held() must reflect the process' own
// lock/unlock history.
package main

import (
	"bufio"
	"errors"
	"fmt"
	"io"
	"os"
	"os/exec"
	"path/filepath"
	"runtime"
	"strconv"
	"strings"
	"syscall"
	"time"

	"github.com/mutagen-io/mutagen/pkg/daemon"
	"github.com/mutagen-io/mutagen/pkg/filesystem/locking"

	"verif/harness/hx"
)

// ------------------------------------------------------------------- child

func classify(err error) string {
	switch {
	case err == nil:
		return "ok"
	case errors.Is(err, syscall.EAGAIN), errors.Is(err, syscall.EACCES):
		return "busy"
	}
	return "err"
}

func childMain(id string) {
	in := bufio.NewScanner(os.Stdin)
	var dl *daemon.Lock
	var lk *locking.Locker
	lkOpen := false
	var jf *os.File
	lockPath := ""
	journal := func(s string) {
		if _, err := jf.WriteString(s + "\n"); err != nil {
			fmt.Println("journal-error", err)
			os.Exit(3)
		}
	}
	for in.Scan() {
		f := strings.Fields(in.Text())
		if len(f) == 0 {
			continue
		}
		switch f[0] {
		case "reset":
			if dl != nil {
				dl.Release()
				dl = nil
			}
			if lk != nil && lkOpen {
				lk.Close()
			}
			lk, lkOpen = nil, false
			if jf != nil {
				jf.Close()
			}
			os.Setenv("MUTAGEN_DATA_DIRECTORY", f[1])
			lockPath = filepath.Join(f[1], "daemon", "daemon.lock")
			os.MkdirAll(filepath.Dir(lockPath), 0o700)
			var err error
			jf, err = os.OpenFile(f[2], os.O_WRONLY|os.O_APPEND|os.O_CREATE, 0o644)
			if err != nil {
				fmt.Println("journal-error", err)
				os.Exit(3)
			}
			fmt.Println("ready")
		case "exit":
			os.Exit(0)
		case "do":
			cmd := f[1]
			journal("c" + id + ":" + cmd)
			res := "refused"
			open := dl != nil || (lk != nil && lkOpen)
			switch cmd {
			case "a":
				if !open {
					lk, lkOpen = nil, false
					l, err := daemon.AcquireLock()
					if err == nil {
						dl = l
					}
					res = classify(err)
				}
			case "r":
				if dl != nil {
					res = classify(dl.Release())
					dl = nil
				}
			case "n":
				if !open {
					l, err := locking.NewLocker(lockPath, 0o600)
					if err == nil {
						lk, lkOpen = l, true
					}
					res = classify(err)
				}
			case "l":
				if lk != nil {
					res = classify(lk.Lock(false))
				}
			case "u":
				if lk != nil {
					res = classify(lk.Unlock())
				}
			case "c":
				if lk != nil {
					err := lk.Close()
					if err == nil {
						lkOpen = false
					}
					res = classify(err)
				}
			case "h":
				if lk != nil {
					res = "no"
					if lk.Held() {
						res = "yes"
					}
				}
			}
			journal("r" + id + "=" + res)
			fmt.Println(res)
		}
	}
}

// ------------------------------------------------------------------ parent

type child struct {
	slot  int
	cmd   *exec.Cmd
	in    io.WriteCloser
	out   *bufio.Reader
	alive bool
	// the parent's view, used only to generate mostly applicable commands
	hasDaemon, hasLocker, lockerOpen bool
}

var self string

func spawn(slot int) *child {
	cmd := exec.Command(self, "c28child", strconv.Itoa(slot))
	in, err := cmd.StdinPipe()
	if err != nil {
		panic(err)
	}
	out, err := cmd.StdoutPipe()
	if err != nil {
		panic(err)
	}
	cmd.Stderr = os.Stderr
	// One scheduler thread per child: they only ever do one thing at a time.
	cmd.Env = append(os.Environ(), "GOMAXPROCS=1", "GOGC=off")
	if err := cmd.Start(); err != nil {
		panic(err)
	}
	return &child{slot: slot, cmd: cmd, in: in, out: bufio.NewReader(out), alive: true}
}

func (ch *child) send(s string) { io.WriteString(ch.in, s+"\n") }

func (ch *child) reply() string {
	l, err := ch.out.ReadString('\n')
	if err != nil {
		return "eof"
	}
	return strings.TrimSpace(l)
}

func (ch *child) reap() {
	ch.in.Close()
	ch.cmd.Wait()
	ch.alive = false
}

type pool struct {
	kids []*child // by slot, index 0 unused
}

func (p *pool) get(slot int) *child {
	for len(p.kids) <= slot {
		p.kids = append(p.kids, nil)
	}
	if p.kids[slot] == nil || !p.kids[slot].alive {
		p.kids[slot] = spawn(slot)
	}
	return p.kids[slot]
}

func (p *pool) shutdown() {
	for _, ch := range p.kids {
		if ch != nil && ch.alive {
			ch.cmd.Process.Kill()
			ch.reap()
		}
	}
}

func pickCmd(r *hx.Rand, ch *child) string {
	if r.Chance(1, 8) {
		return r.Pick("a", "r", "n", "l", "u", "c", "h")
	}
	switch {
	case ch.hasDaemon:
		if r.Chance(1, 6) {
			return "a"
		}
		return "r"
	case ch.hasLocker && ch.lockerOpen:
		return r.Pick("l", "l", "u", "u", "c", "h", "h")
	case ch.hasLocker:
		return r.Pick("n", "a", "l", "h", "c")
	default:
		if r.Chance(1, 4) {
			return "n"
		}
		return "a"
	}
}

func (ch *child) note(cmd, res string) {
	switch cmd {
	case "a":
		if res != "refused" {
			ch.hasLocker, ch.lockerOpen = false, false
			ch.hasDaemon = res == "ok"
		}
	case "r":
		if res != "refused" {
			ch.hasDaemon = false
		}
	case "n":
		if res == "ok" {
			ch.hasLocker, ch.lockerOpen = true, true
		}
	case "c":
		if res == "ok" {
			ch.lockerOpen = false
		}
	}
}

// runCase executes one random scenario and returns its journal.
func runCase(c *hx.Ctx, p *pool, r *hx.Rand, dir string) (n int, events []string) {
	os.RemoveAll(dir)
	os.MkdirAll(dir, 0o755)
	jpath := filepath.Join(dir, "journal")
	jf, err := os.OpenFile(jpath, os.O_WRONLY|os.O_APPEND|os.O_CREATE, 0o644)
	if err != nil {
		panic(err)
	}
	defer jf.Close()
	n = 2 + r.Intn(4)
	kids := make([]*child, n+1)
	for s := 1; s <= n; s++ {
		ch := p.get(s)
		ch.hasDaemon, ch.hasLocker, ch.lockerOpen = false, false, false
		ch.send("reset " + dir + " " + jpath)
		if ch.reply() != "ready" {
			panic("child did not reset")
		}
		kids[s] = ch
	}
	alive := func() []*child {
		var out []*child
		for _, ch := range kids[1:] {
			if ch.alive {
				out = append(out, ch)
			}
		}
		return out
	}
	kill := func(ch *child, how string) {
		jf.WriteString(fmt.Sprintf("k%d\n", ch.slot))
		if how == "exit" {
			ch.send("exit")
		} else {
			ch.cmd.Process.Kill()
		}
		ch.reap()
		jf.WriteString(fmt.Sprintf("z%d\n", ch.slot))
	}
	steps := 4 + r.Intn(24)
	// Process creation dominates the cost of a case (and is very expensive on a
	// loaded host): most cases have no death, some one, few two.
	deaths := []int{0, 0, 0, 0, 1, 1, 2}[r.Intn(7)]
	if os.Getenv("VERIF_C28_NODEATH") != "" {
		deaths = 0
	}
	for i := 0; i < steps; i++ {
		live := alive()
		if len(live) == 0 {
			break
		}
		x := r.Intn(20)
		if x >= 16 && deaths == 0 {
			x = r.Intn(16)
		}
		if x >= 16 {
			deaths--
		}
		switch {
		case x < 10: // one command, wait for it
			ch := live[r.Intn(len(live))]
			cmd := pickCmd(r, ch)
			ch.send("do " + cmd)
			ch.note(cmd, ch.reply())
			c.Count("step:single")
		case x < 16: // several commands racing
			k := 2 + r.Intn(len(live))
			if k > len(live) {
				k = len(live)
			}
			perm := append([]*child(nil), live...)
			for j := range perm {
				o := j + r.Intn(len(perm)-j)
				perm[j], perm[o] = perm[o], perm[j]
			}
			cmds := make([]string, k)
			for j := 0; j < k; j++ {
				cmds[j] = pickCmd(r, perm[j])
				perm[j].send("do " + cmds[j])
			}
			victim := -1
			if deaths > 0 && r.Chance(1, 4) {
				deaths--
				victim = r.Intn(k)
				kill(perm[victim], "kill")
				c.Count("step:kill-in-race")
			}
			for j := 0; j < k; j++ {
				if j != victim {
					perm[j].note(cmds[j], perm[j].reply())
				}
			}
			c.Count("step:race")
		case x < 18: // kill an idle process (possibly the holder)
			ch := live[r.Intn(len(live))]
			for _, o := range live {
				if o.hasDaemon && r.Chance(2, 3) {
					ch = o // prefer the holder
				}
			}
			kill(ch, "kill")
			c.Count("step:kill")
		case x < 19: // voluntary exit
			ch := live[r.Intn(len(live))]
			kill(ch, "exit")
			c.Count("step:exit")
		default: // kill in the middle of an operation
			ch := live[r.Intn(len(live))]
			cmd := pickCmd(r, ch)
			ch.send("do " + cmd)
			for spin := r.Intn(20000); spin > 0; spin-- {
				sink++
			}
			kill(ch, "kill")
			c.Count("step:kill-in-flight")
		}
	}
	data, err := os.ReadFile(jpath)
	if err != nil {
		panic(err)
	}
	events = strings.Fields(string(data))
	os.RemoveAll(dir)
	return
}

var sink int

// ------------------------------------------------------------------ oracle

func oracle(n int, evs []string) string {
	type proc struct {
		callAt    int    // position of the pending call, -1 if none
		cmd       string // pending command
		definite  bool   // definitely holds the lock
		possible  bool   // possibly holds the lock
		prevPoss  bool   // value of possible before the pending acquisition was announced
		held      bool   // expected Locker.Held()
		dead      bool
		reaped    bool
		busyProof bool // for a pending acquisition: somebody else possibly held the lock since the call
	}
	ps := make([]*proc, n+1)
	for i := range ps {
		ps[i] = &proc{callAt: -1}
	}
	othersPossible := func(p int) bool {
		for q := 1; q <= n; q++ {
			if q != p && ps[q].possible {
				return true
			}
		}
		return false
	}
	// whenever somebody becomes a possible holder, pending acquisitions of others get their justification
	mark := func(q int) {
		for p := 1; p <= n; p++ {
			if p != q && ps[p].callAt >= 0 && (ps[p].cmd == "a" || ps[p].cmd == "l") {
				ps[p].busyProof = true
			}
		}
	}
	for i, e := range evs {
		if len(e) < 2 {
			return fmt.Sprintf("class=journal malformed record %q", e)
		}
		body, res, _ := strings.Cut(e[1:], "=")
		switch e[0] {
		case 'c':
			ps1, cmd, _ := strings.Cut(body, ":")
			p, _ := strconv.Atoi(ps1)
			if p < 1 || p > n {
				return fmt.Sprintf("class=journal bad process in %q", e)
			}
			x := ps[p]
			x.callAt, x.cmd = i, cmd
			switch cmd {
			case "a", "l":
				x.busyProof = othersPossible(p)
				x.prevPoss = x.possible
				if !x.possible {
					x.possible = true
					mark(p)
				}
			case "r", "u", "c":
				x.definite = false // it may let go from now on
			}
		case 'r':
			p, _ := strconv.Atoi(body)
			if p < 1 || p > n || ps[p].callAt < 0 {
				return fmt.Sprintf("class=journal return without call in %q", e)
			}
			x := ps[p]
			cmd := x.cmd
			x.callAt = -1
			switch cmd {
			case "a", "l":
				switch res {
				case "ok":
					for q := 1; q <= n; q++ {
						if q != p && ps[q].definite {
							return fmt.Sprintf("class=two-holders event %d: process %d acquired the lock while process %d holds it", i, p, q)
						}
					}
					// a process that has already been signalled may be gone at any moment
					x.definite, x.possible = !x.dead, true
					if cmd == "l" {
						x.held = true
					}
				case "busy":
					if !x.busyProof {
						return fmt.Sprintf("class=spurious-busy event %d: process %d was refused the lock although no other process could hold it", i, p)
					}
				case "err":
					if cmd == "a" {
						return fmt.Sprintf("class=unexpected-error event %d: AcquireLock by process %d failed with an error other than EAGAIN", i, p)
					}
				case "refused":
				}
				if res != "ok" {
					// a failed acquisition leaves the process as it was
					x.possible = x.prevPoss
				}
				if cmd == "a" && res != "refused" {
					x.held = false
				}
			case "r":
				if res == "err" {
					return fmt.Sprintf("class=release-error event %d: Release by process %d failed", i, p)
				}
				if res == "ok" {
					x.definite, x.possible, x.held = false, false, false
				}
			case "u":
				if res == "ok" {
					if !x.held {
						return fmt.Sprintf("class=held-flag event %d: Unlock by process %d succeeded although it did not hold the lock", i, p)
					}
					x.definite, x.possible, x.held = false, false, false
				}
			case "c":
				if res == "ok" {
					x.definite, x.possible = false, false
				}
			case "n":
				if res == "ok" {
					x.held = false
				}
			case "h":
				want := "no"
				if x.held {
					want = "yes"
				}
				if res != "refused" && res != want {
					return fmt.Sprintf("class=held-flag event %d: Held() of process %d is %s, expected %s", i, p, res, want)
				}
			}
		case 'k':
			p, _ := strconv.Atoi(body)
			ps[p].definite = false
			ps[p].dead = true
		case 'z':
			p, _ := strconv.Atoi(body)
			ps[p].possible, ps[p].reaped, ps[p].callAt = false, true, -1
		default:
			return fmt.Sprintf("class=journal unknown record %q", e)
		}
	}
	return ""
}

func implOf(evs []string) string {
	var outs []string
	for _, e := range evs {
		if e[0] == 'r' {
			if _, res, ok := strings.Cut(e, "="); ok {
				outs = append(outs, res)
			}
		}
	}
	if len(outs) == 0 {
		return "-"
	}
	return strings.Join(outs, " ")
}

func main() {
	if len(os.Args) >= 3 && os.Args[1] == "c28child" {
		childMain(os.Args[2])
		return
	}
	// The parent only shuttles lines over pipes; a small scheduler keeps it cheap
	// on a loaded machine.
	runtime.GOMAXPROCS(2)
	// Scheduling priority (inherited by the children) makes the pipe ping-pong
	// cheaper on a loaded host; failure (not root) is harmless.
	syscall.Setpriority(syscall.PRIO_PROCESS, 0, -10)
	var err error
	if self, err = os.Executable(); err != nil {
		panic(err)
	}
	hx.Main("C28", func(c *hx.Ctx) {
		emit := func(n int, evs []string) {
			impl := implOf(evs)
			key := ""
			if strings.Contains(impl, "busy") {
				key = impl
			}
			c.Case(strconv.Itoa(n)+" "+strings.Join(evs, " "), impl, oracle(n, evs), key)
		}
		if lines := c.ReplayLines(); lines != nil {
			// Process schedules cannot be re-executed; the journal is re-validated.
			for _, l := range lines {
				f := strings.Fields(l)
				n, err := strconv.Atoi(f[0])
				if err != nil || n < 1 || n > 64 {
					c.Case(l, "bad-line", "", "")
					continue
				}
				emit(n, f[1:])
			}
			return
		}
		p := &pool{}
		defer p.shutdown()
		base, _ := filepath.Abs(filepath.Join(c.Dir, "locks"))
		// Cases cost process creations and context switches, whose price depends
		// on the load of the machine: run up to `cases`, but stop after `budget`
		// once a minimum has been reached.
		cases, minCases, budget := c.Size(1500, 30000), c.Size(60, 2000), time.Duration(c.Size(35, 600))*time.Second
		if v, err := strconv.Atoi(os.Getenv("VERIF_C28_CASES")); err == nil {
			cases, minCases = v, v
		}
		start := time.Now()
		for i := 0; i < cases; i++ {
			if i >= minCases && time.Since(start) > budget {
				c.Note(fmt.Sprintf("stopped after %d cases: time budget %v exhausted", i, budget))
				break
			}
			n, evs := runCase(c, p, c.R.Fork(), filepath.Join(base, fmt.Sprintf("d%d", i%4)))
			emit(n, evs)
		}
		os.RemoveAll(base)
	})
}
