// C37: accepted session configurations are valid for every endpoint.
//
// Drives the real Configuration.EnsureValid, MergeConfigurations,
// Session.EnsureValid, CreationSpecification.ensureValid (session creation),
// InitializeSynchronizationRequest.ensureValid (remote endpoint) and
// local.NewEndpoint on products of small value domains for every configuration
// field (session-wide and both endpoint-specific configurations), prints the
// canonical verdicts / merged configurations / effective modes for comparison
// with the Lean model (Model/Config.lean), and evaluates the property's own
// oracle:
//   - whatever session validation accepts, the remote endpoint's validation
//     accepts for both merged configurations, and the local endpoint
//     initializes with no executable bits in the effective default file mode
//     when the effective permissions mode is portable;
//   - MergeConfigurations = field-wise "higher unless zero", lists concatenated
//     (computed independently by reflection over the message fields);
//   - every supported mode value survives MarshalText/UnmarshalText.
package main

import (
	"fmt"
	"os"
	"path/filepath"
	"reflect"
	"strconv"
	"strings"

	"google.golang.org/protobuf/types/known/timestamppb"

	"github.com/mutagen-io/mutagen/pkg/filesystem"
	"github.com/mutagen-io/mutagen/pkg/filesystem/behavior"
	"github.com/mutagen-io/mutagen/pkg/identifier"
	servicesync "github.com/mutagen-io/mutagen/pkg/service/synchronization"
	"github.com/mutagen-io/mutagen/pkg/synchronization"
	"github.com/mutagen-io/mutagen/pkg/synchronization/compression"
	"github.com/mutagen-io/mutagen/pkg/synchronization/core"
	"github.com/mutagen-io/mutagen/pkg/synchronization/core/ignore"
	"github.com/mutagen-io/mutagen/pkg/synchronization/endpoint/local"
	"github.com/mutagen-io/mutagen/pkg/synchronization/endpoint/remote"
	"github.com/mutagen-io/mutagen/pkg/synchronization/hashing"
	"github.com/mutagen-io/mutagen/pkg/url"

	"verif/harness/hx"
)

type cfg = synchronization.Configuration

func hexs(s string) string { return hx.Hex([]byte(s)) }

func showList(l []string) string {
	if len(l) == 0 {
		return "-"
	}
	parts := make([]string, len(l))
	for i, s := range l {
		parts[i] = hexs(s)
	}
	return strings.Join(parts, ",")
}

func showConfig(c *cfg) string {
	return strings.Join([]string{
		strconv.Itoa(int(c.SynchronizationMode)), strconv.Itoa(int(c.HashingAlgorithm)),
		strconv.FormatUint(c.MaximumEntryCount, 10), strconv.FormatUint(c.MaximumStagingFileSize, 10),
		strconv.Itoa(int(c.ProbeMode)), strconv.Itoa(int(c.ScanMode)), strconv.Itoa(int(c.StageMode)),
		strconv.Itoa(int(c.SymbolicLinkMode)), strconv.Itoa(int(c.WatchMode)), strconv.Itoa(int(c.WatchPollingInterval)),
		strconv.Itoa(int(c.IgnoreSyntax)), showList(c.DefaultIgnores), showList(c.Ignores),
		strconv.Itoa(int(c.IgnoreVCSMode)), strconv.Itoa(int(c.PermissionsMode)),
		strconv.Itoa(int(c.DefaultFileMode)), strconv.Itoa(int(c.DefaultDirectoryMode)),
		hexs(c.DefaultOwner), hexs(c.DefaultGroup), strconv.Itoa(int(c.CompressionAlgorithm)),
	}, "/")
}

func unhex(s string) string {
	if s == "-" {
		return ""
	}
	b := make([]byte, len(s)/2)
	for i := range b {
		v, _ := strconv.ParseUint(s[2*i:2*i+2], 16, 8)
		b[i] = byte(v)
	}
	return string(b)
}

func parseList(s string) []string {
	if s == "-" {
		return nil
	}
	var out []string
	for _, p := range strings.Split(s, ",") {
		out = append(out, unhex(p))
	}
	return out
}

func parseConfig(s string) *cfg {
	f := strings.Split(s, "/")
	n := func(i int) uint64 { v, _ := strconv.ParseUint(f[i], 10, 64); return v }
	return &cfg{
		SynchronizationMode: core.SynchronizationMode(n(0)), HashingAlgorithm: hashing.Algorithm(n(1)),
		MaximumEntryCount: n(2), MaximumStagingFileSize: n(3),
		ProbeMode: behavior.ProbeMode(n(4)), ScanMode: synchronization.ScanMode(n(5)), StageMode: synchronization.StageMode(n(6)),
		SymbolicLinkMode: core.SymbolicLinkMode(n(7)), WatchMode: synchronization.WatchMode(n(8)), WatchPollingInterval: uint32(n(9)),
		IgnoreSyntax: ignore.Syntax(n(10)), DefaultIgnores: parseList(f[11]), Ignores: parseList(f[12]),
		IgnoreVCSMode: ignore.IgnoreVCSMode(n(13)), PermissionsMode: core.PermissionsMode(n(14)),
		DefaultFileMode: uint32(n(15)), DefaultDirectoryMode: uint32(n(16)),
		DefaultOwner: unhex(f[17]), DefaultGroup: unhex(f[18]), CompressionAlgorithm: compression.Algorithm(n(19)),
	}
}

var configMessages = []struct{ suffix, class string }{
	{"synchronization mode cannot be specified on an endpoint-specific basis", "sync-endpoint-specific"},
	{"unknown or unsupported synchronization mode", "sync-unsupported"},
	{"hashing algorithm cannot be specified on an endpoint-specific basis", "hash-endpoint-specific"},
	{"unknown or unsupported hashing algorithm", "hash-unsupported"},
	{"hashing algorithm requires Mutagen Pro license", "hash-license"},
	{"unknown or unsupported probe mode", "probe"},
	{"unknown or unsupported scan mode", "scan"},
	{"unknown or unsupported staging mode", "stage"},
	{"symbolic link mode cannot be specified on an endpoint-specific basis", "symlink-endpoint-specific"},
	{"unknown or unsupported symbolic link mode", "symlink-unsupported"},
	{"unknown or unsupported watch mode", "watch"},
	{"ignore syntax cannot be specified on an endpoint-specific basis", "syntax-endpoint-specific"},
	{"unknown or unsupported ignore syntax", "syntax-unsupported"},
	{"default ignores cannot be specified on an endpoint-specific basis (and are deprecated)", "default-ignores-endpoint-specific"},
	{"ignores cannot be specified on an endpoint-specific basis", "ignores-endpoint-specific"},
	{"VCS ignore mode cannot be specified on an endpoint-specific basis", "vcs-endpoint-specific"},
	{"unknown or unsupported VCS ignore mode", "vcs-unsupported"},
	{"permissions mode cannot be specified on an endpoint-specific basis", "perm-endpoint-specific"},
	{"unknown or unsupported permissions mode", "perm-unsupported"},
	{"invalid default file permission mode specified: non-permission bits detected in file mode", "file-mode-bits"},
	{"invalid default file permission mode specified: executability bits detected in file mode in portable permissions propagation mode", "file-mode-exec"},
	{"invalid default directory permission mode specified: non-permission bits detected in directory mode", "directory-mode-bits"},
	{"invalid default owner specification", "owner"},
	{"invalid default group specification", "group"},
	{"unknown or unsupported compression algorithm", "compress-unsupported"},
	{"compression algorithm requires Mutagen Pro license", "compress-license"},
}

// configClass maps a Configuration.EnsureValid error (possibly wrapped with a
// prefix) to the model's enum.
func configClass(m string) string {
	for _, cm := range configMessages {
		if m == cm.suffix {
			return cm.class
		}
	}
	return "unknown:" + m
}

func verdict(err error) string {
	if err == nil {
		return "ok"
	}
	return configClass(err.Error())
}

var stagePrefixes = []struct{ prefix, stage string }{
	{"invalid configuration: ", "session"},
	{"invalid session configuration: ", "session"},
	{"invalid alpha-specific configuration: ", "alpha"},
	{"invalid beta-specific configuration: ", "beta"},
	{"invalid merged alpha configuration: ", "merged-alpha"},
	{"invalid merged beta configuration: ", "merged-beta"},
}

func stagedVerdict(err error) string {
	if err == nil {
		return "ok"
	}
	m := err.Error()
	for _, sp := range stagePrefixes {
		if strings.HasPrefix(m, sp.prefix) {
			return sp.stage + ":" + configClass(m[len(sp.prefix):])
		}
	}
	return "unknown:" + m
}

// referenceMerge is the oracle's own merge: every message field of the higher
// configuration wins unless it is the zero value; lists are concatenated.
func referenceMerge(lower, higher *cfg) map[string]any {
	out := map[string]any{}
	lv, hv := reflect.ValueOf(lower).Elem(), reflect.ValueOf(higher).Elem()
	t := lv.Type()
	for i := 0; i < t.NumField(); i++ {
		f := t.Field(i)
		if !f.IsExported() || f.Tag.Get("protobuf") == "" {
			continue
		}
		l, h := lv.Field(i), hv.Field(i)
		switch f.Type.Kind() {
		case reflect.Slice:
			var all []string
			for j := 0; j < l.Len(); j++ {
				all = append(all, l.Index(j).String())
			}
			for j := 0; j < h.Len(); j++ {
				all = append(all, h.Index(j).String())
			}
			out[f.Name] = strings.Join(all, "\x00") + fmt.Sprint(len(all))
		default:
			if !h.IsZero() {
				out[f.Name] = h.Interface()
			} else {
				out[f.Name] = l.Interface()
			}
		}
	}
	return out
}

func checkMerge(lower, higher, got *cfg) string {
	want := referenceMerge(lower, higher)
	gv := reflect.ValueOf(got).Elem()
	for name, w := range want {
		g := gv.FieldByName(name)
		if g.Kind() == reflect.Slice {
			var all []string
			for j := 0; j < g.Len(); j++ {
				all = append(all, g.Index(j).String())
			}
			if strings.Join(all, "\x00")+fmt.Sprint(len(all)) != w {
				return fmt.Sprintf("class=merge-precedence field %s: lists not concatenated in order", name)
			}
		} else if !reflect.DeepEqual(g.Interface(), w) {
			return fmt.Sprintf("class=merge-precedence field %s: got %v want %v", name, g.Interface(), w)
		}
	}
	return ""
}

var (
	sessionID string
	dataDir   string
	alphaURL  = &url.URL{Kind: url.Kind_Synchronization, Protocol: url.Protocol_Local, Path: "/verif-c37/alpha"}
	betaURL   = &url.URL{Kind: url.Kind_Synchronization, Protocol: url.Protocol_Local, Path: "/verif-c37/beta"}
)

func anyExec(m filesystem.Mode) bool {
	return m&(filesystem.ModePermissionUserExecute|filesystem.ModePermissionGroupExecute|filesystem.ModePermissionOthersExecute) != 0
}

// runCfg executes one cfg/cfgl case.
func runCfg(withLocal bool, c, ca, cb *cfg) (impl, oracle string) {
	fail := func(format string, a ...any) {
		if oracle == "" {
			oracle = fmt.Sprintf(format, a...)
		}
	}
	ma := synchronization.MergeConfigurations(c, ca)
	mb := synchronization.MergeConfigurations(c, cb)
	if o := checkMerge(c, ca, ma); o != "" {
		fail("%s", o)
	}
	if o := checkMerge(c, cb, mb); o != "" {
		fail("%s", o)
	}
	request := func(m *cfg, alpha bool) error {
		return remote.VerifC37EnsureValid(&remote.InitializeSynchronizationRequest{
			Session: sessionID, Version: synchronization.Version_Version1, Configuration: m, Root: "/verif-c37/root", Alpha: alpha,
		})
	}
	ra, rb := request(ma, true), request(mb, false)
	remoteVerdict := func(err error) string {
		if err == nil {
			return "ok"
		}
		return configClass(strings.TrimPrefix(err.Error(), "invalid configuration: "))
	}
	session := &synchronization.Session{
		Identifier: sessionID, Version: synchronization.Version_Version1, CreationTime: timestamppb.Now(),
		Alpha: alphaURL, Beta: betaURL, Configuration: c, ConfigurationAlpha: ca, ConfigurationBeta: cb,
	}
	sess := session.EnsureValid()
	spec := servicesync.VerifC37EnsureValid(&servicesync.CreationSpecification{
		Alpha: alphaURL, Beta: betaURL, Configuration: c, ConfigurationAlpha: ca, ConfigurationBeta: cb,
	})
	for _, v := range []struct {
		name string
		err  error
	}{{"Session.EnsureValid", sess}, {"CreationSpecification.ensureValid", spec}} {
		if v.err == nil {
			if ra != nil {
				fail("class=endpoint-rejects %s accepts but the alpha endpoint's initialize request is invalid: %v", v.name, ra)
			}
			if rb != nil {
				fail("class=endpoint-rejects %s accepts but the beta endpoint's initialize request is invalid: %v", v.name, rb)
			}
		}
	}
	impl = fmt.Sprintf("c=%s a=%s b=%s ma=%s mb=%s sess=%s spec=%s | %s | %s",
		verdict(c.EnsureValid(false)), verdict(ca.EnsureValid(true)), verdict(cb.EnsureValid(true)),
		remoteVerdict(ra), remoteVerdict(rb), stagedVerdict(sess), stagedVerdict(spec), showConfig(ma), showConfig(mb))
	if withLocal {
		eff := "-"
		if sess == nil && spec == nil {
			var parts []string
			for i, m := range []*cfg{ma, mb} {
				root := filepath.Join(dataDir, "root")
				e, err := local.NewEndpoint(nil, root, sessionID, synchronization.Version_Version1, m, i == 0)
				if err != nil {
					fail("class=endpoint-rejects session validation accepts but local.NewEndpoint fails: %v", err)
					parts = append(parts, "error")
					continue
				}
				perm, fm, dm, ok := local.VerifC37EffectiveModes(e)
				e.Shutdown()
				if !ok {
					parts = append(parts, "not-local")
					continue
				}
				if perm == core.PermissionsMode_PermissionsModePortable && anyExec(fm) {
					fail("class=portable-exec-bits effective default file mode %o has executable bits under portable permissions", fm)
				}
				parts = append(parts, fmt.Sprintf("%d,%d,%d", perm, fm, dm))
			}
			eff = strings.Join(parts, " ")
		}
		impl += " | " + eff
	}
	return impl, oracle
}

// --- aliasing stress ---

func cloneConfig(c *cfg) *cfg {
	d := *parseConfig(showConfig(c))
	return &d
}

func sameLists(a, b []string) bool {
	if len(a) != len(b) {
		return false
	}
	for i := range a {
		if a[i] != b[i] {
			return false
		}
	}
	return true
}

func concat(a, b []string) []string {
	out := make([]string, 0, len(a)+len(b))
	out = append(out, a...)
	return append(out, b...)
}

func withSpare(l []string, k int) []string {
	if k == 0 {
		return l
	}
	out := make([]string, len(l), len(l)+k)
	copy(out, l)
	return out
}

// runAlias merges two higher configurations on top of the same lower one (itself
// the output of a merge, with spare slice capacity) and checks, without the
// model, that the results are independent values: the first result still is the
// in-order concatenation after the second merge, no input changed, and writing
// into either result's lists changes neither the inputs nor the other result.
func runAlias(k int, base, mid, h1, h2 *cfg) (impl, oracle string) {
	fail := func(format string, a ...any) {
		if oracle == "" {
			oracle = "class=merge-aliasing " + fmt.Sprintf(format, a...)
		}
	}
	lower := synchronization.MergeConfigurations(base, mid)
	lower.DefaultIgnores = withSpare(lower.DefaultIgnores, k)
	lower.Ignores = withSpare(lower.Ignores, k)
	lowerCopy, h1Copy, h2Copy := cloneConfig(lower), cloneConfig(h1), cloneConfig(h2)
	r1 := synchronization.MergeConfigurations(lower, h1)
	r1Copy := cloneConfig(r1)
	r2 := synchronization.MergeConfigurations(lower, h2)
	impl = showConfig(lower) + " | " + showConfig(r1) + " | " + showConfig(r2)
	check := func(stage string) {
		if !sameLists(r1.Ignores, concat(lowerCopy.Ignores, h1Copy.Ignores)) || !sameLists(r1.DefaultIgnores, concat(lowerCopy.DefaultIgnores, h1Copy.DefaultIgnores)) {
			fail("%s: first result's ignore lists are %q / %q, not lower ++ higher (%q ++ %q / %q ++ %q)", stage, r1.DefaultIgnores, r1.Ignores,
				lowerCopy.DefaultIgnores, h1Copy.DefaultIgnores, lowerCopy.Ignores, h1Copy.Ignores)
		}
		if !sameLists(r2.Ignores, concat(lowerCopy.Ignores, h2Copy.Ignores)) || !sameLists(r2.DefaultIgnores, concat(lowerCopy.DefaultIgnores, h2Copy.DefaultIgnores)) {
			fail("%s: second result's ignore lists are %q / %q, not lower ++ higher", stage, r2.DefaultIgnores, r2.Ignores)
		}
		if showConfig(lower) != showConfig(lowerCopy) || showConfig(h1) != showConfig(h1Copy) || showConfig(h2) != showConfig(h2Copy) {
			fail("%s: an input configuration changed", stage)
		}
	}
	check("after both merges")
	if showConfig(r1) != showConfig(r1Copy) {
		fail("the first result changed when the second merge ran")
	}
	// Writing into (and appending to) the results must stay local to them.
	scribble := func(l []string, tag string) []string {
		for i := range l {
			l[i] = tag
		}
		return append(l, tag)
	}
	want2 := cloneConfig(r2)
	r1.Ignores = scribble(r1.Ignores, "#1")
	r1.DefaultIgnores = scribble(r1.DefaultIgnores, "#1")
	if showConfig(lower) != showConfig(lowerCopy) || showConfig(h1) != showConfig(h1Copy) || showConfig(r2) != showConfig(want2) {
		fail("writing into the first result's lists changed an input or the second result")
	}
	r2.Ignores = scribble(r2.Ignores, "#2")
	r2.DefaultIgnores = scribble(r2.DefaultIgnores, "#2")
	if showConfig(lower) != showConfig(lowerCopy) || showConfig(h2) != showConfig(h2Copy) || showConfig(h1) != showConfig(h1Copy) {
		fail("writing into the second result's lists changed an input")
	}
	for _, l := range [][]string{r1.Ignores, r1.DefaultIgnores} {
		for _, s := range l {
			if s != "#1" {
				fail("writing into the second result's lists changed the first result")
			}
		}
	}
	return impl, oracle
}

// --- mode text forms ---

type modeOps struct {
	name      string
	count     int // number of supported values
	marshal   func(v int32) (string, bool)
	unmarshal func(s string) (int32, bool)
	supported func(v int32) bool
}

func mt(b []byte, err error) (string, bool) { return string(b), err == nil }

var modes = []modeOps{
	{"sync", 4, func(v int32) (string, bool) { return mt(core.SynchronizationMode(v).MarshalText()) },
		func(s string) (int32, bool) {
			var m core.SynchronizationMode
			err := m.UnmarshalText([]byte(s))
			return int32(m), err == nil
		},
		func(v int32) bool { return core.SynchronizationMode(v).Supported() }},
	{"hash", 3, func(v int32) (string, bool) { return mt(hashing.Algorithm(v).MarshalText()) },
		func(s string) (int32, bool) {
			var m hashing.Algorithm
			err := m.UnmarshalText([]byte(s))
			return int32(m), err == nil
		},
		func(v int32) bool {
			t, _ := hashing.Algorithm(v).MarshalText()
			return len(t) > 0 && string(t) != "unknown"
		}},
	{"probe", 2, func(v int32) (string, bool) { return mt(behavior.ProbeMode(v).MarshalText()) },
		func(s string) (int32, bool) {
			var m behavior.ProbeMode
			err := m.UnmarshalText([]byte(s))
			return int32(m), err == nil
		},
		func(v int32) bool { return behavior.ProbeMode(v).Supported() }},
	{"scan", 2, func(v int32) (string, bool) { return mt(synchronization.ScanMode(v).MarshalText()) },
		func(s string) (int32, bool) {
			var m synchronization.ScanMode
			err := m.UnmarshalText([]byte(s))
			return int32(m), err == nil
		},
		func(v int32) bool { return synchronization.ScanMode(v).Supported() }},
	{"stage", 3, func(v int32) (string, bool) { return mt(synchronization.StageMode(v).MarshalText()) },
		func(s string) (int32, bool) {
			var m synchronization.StageMode
			err := m.UnmarshalText([]byte(s))
			return int32(m), err == nil
		},
		func(v int32) bool { return synchronization.StageMode(v).Supported() }},
	{"symlink", 3, func(v int32) (string, bool) { return mt(core.SymbolicLinkMode(v).MarshalText()) },
		func(s string) (int32, bool) {
			var m core.SymbolicLinkMode
			err := m.UnmarshalText([]byte(s))
			return int32(m), err == nil
		},
		func(v int32) bool { return core.SymbolicLinkMode(v).Supported() }},
	{"watch", 3, func(v int32) (string, bool) { return mt(synchronization.WatchMode(v).MarshalText()) },
		func(s string) (int32, bool) {
			var m synchronization.WatchMode
			err := m.UnmarshalText([]byte(s))
			return int32(m), err == nil
		},
		func(v int32) bool { return synchronization.WatchMode(v).Supported() }},
	{"syntax", 2, func(v int32) (string, bool) { return mt(ignore.Syntax(v).MarshalText()) },
		func(s string) (int32, bool) {
			var m ignore.Syntax
			err := m.UnmarshalText([]byte(s))
			return int32(m), err == nil
		},
		func(v int32) bool { return ignore.Syntax(v).Supported() }},
	{"vcs", 2, func(v int32) (string, bool) { return mt(ignore.IgnoreVCSMode(v).MarshalJSON()) },
		func(s string) (int32, bool) {
			var m ignore.IgnoreVCSMode
			err := m.UnmarshalText([]byte(s))
			return int32(m), err == nil
		},
		func(v int32) bool { return ignore.IgnoreVCSMode(v).Supported() }},
	{"perm", 2, func(v int32) (string, bool) { return mt(core.PermissionsMode(v).MarshalText()) },
		func(s string) (int32, bool) {
			var m core.PermissionsMode
			err := m.UnmarshalText([]byte(s))
			return int32(m), err == nil
		},
		func(v int32) bool { return core.PermissionsMode(v).Supported() }},
	{"compress", 3, func(v int32) (string, bool) { return mt(compression.Algorithm(v).MarshalText()) },
		func(s string) (int32, bool) {
			var m compression.Algorithm
			err := m.UnmarshalText([]byte(s))
			return int32(m), err == nil
		},
		func(v int32) bool {
			t, _ := compression.Algorithm(v).MarshalText()
			return len(t) > 0 && string(t) != "unknown"
		}},
}

func modeByName(n string) *modeOps {
	for i := range modes {
		if modes[i].name == n {
			return &modes[i]
		}
	}
	return nil
}

func showBack(v int32, ok bool) string {
	if !ok {
		return "err"
	}
	return strconv.Itoa(int(v))
}

func runText(m *modeOps, v int32) (impl, oracle string) {
	txt, ok := m.marshal(v)
	sup := 0
	if m.supported(v) {
		sup = 1
	}
	if !ok {
		return fmt.Sprintf("%s err %d", hexs("!"), sup), ""
	}
	back, bok := m.unmarshal(txt)
	if sup == 1 && !(bok && back == v) {
		oracle = fmt.Sprintf("class=text-round-trip %s value %d is written %q which reads back as %v/%v", m.name, v, txt, back, bok)
	}
	return fmt.Sprintf("%s %s %d", hexs(txt), showBack(back, bok), sup), oracle
}

// --- domains ---

var (
	fileModes  = []uint32{0, 0600, 0644, 0755, 0700, 0111, 01644, 0777, 0640, 0641, 0610}
	dirModes   = []uint32{0, 0700, 0755, 01755}
	owners     = []string{"", "root", "id:0", "id:1000", "id:01", "id:", "id:x", "sid:S-1-5", "sid:", "nosuchuser9", "id:10a", "i", "sid"}
	safeOwners = []string{"", "root", "id:0"}
	ignoreSets = [][]string{nil, {"*.o"}, {"a", "!b"}, {"x/y/", "z"}}
	texts      = []string{"", "unknown", "two-way-safe", "two-way-resolved", "one-way-safe", "one-way-replica", "sha1", "sha256", "xxh128",
		"probe", "assume", "full", "accelerated", "mutagen", "neighboring", "internal", "ignore", "portable", "posix-raw", "force-poll",
		"no-watch", "docker", "true", "false", "manual", "none", "deflate", "zstandard", "Portable", "portable ", "default", "0", "1"}
)

// field setters: name, domain size, apply.
type field struct {
	name  string
	size  int
	apply func(c *cfg, i int)
}

var fields = []field{
	{"sync", 6, func(c *cfg, i int) { c.SynchronizationMode = core.SynchronizationMode(i) }},
	{"hash", 5, func(c *cfg, i int) { c.HashingAlgorithm = hashing.Algorithm(i) }},
	{"mec", 3, func(c *cfg, i int) { c.MaximumEntryCount = []uint64{0, 1, 1000}[i] }},
	{"msfs", 3, func(c *cfg, i int) { c.MaximumStagingFileSize = []uint64{0, 1, 4096}[i] }},
	{"probe", 4, func(c *cfg, i int) { c.ProbeMode = behavior.ProbeMode(i) }},
	{"scan", 4, func(c *cfg, i int) { c.ScanMode = synchronization.ScanMode(i) }},
	{"stage", 5, func(c *cfg, i int) { c.StageMode = synchronization.StageMode(i) }},
	{"symlink", 5, func(c *cfg, i int) { c.SymbolicLinkMode = core.SymbolicLinkMode(i) }},
	{"watch", 5, func(c *cfg, i int) { c.WatchMode = synchronization.WatchMode(i) }},
	{"wpi", 3, func(c *cfg, i int) { c.WatchPollingInterval = []uint32{0, 5, 60}[i] }},
	{"syntax", 4, func(c *cfg, i int) { c.IgnoreSyntax = ignore.Syntax(i) }},
	{"di", 3, func(c *cfg, i int) { c.DefaultIgnores = ignoreSets[i] }},
	{"ig", 4, func(c *cfg, i int) { c.Ignores = ignoreSets[i] }},
	{"vcs", 4, func(c *cfg, i int) { c.IgnoreVCSMode = ignore.IgnoreVCSMode(i) }},
	{"perm", 4, func(c *cfg, i int) { c.PermissionsMode = core.PermissionsMode(i) }},
	{"fm", len(fileModes), func(c *cfg, i int) { c.DefaultFileMode = fileModes[i] }},
	{"dm", len(dirModes), func(c *cfg, i int) { c.DefaultDirectoryMode = dirModes[i] }},
	{"owner", len(owners), func(c *cfg, i int) { c.DefaultOwner = owners[i] }},
	{"group", len(owners), func(c *cfg, i int) { c.DefaultGroup = owners[i] }},
	{"compress", 5, func(c *cfg, i int) { c.CompressionAlgorithm = compression.Algorithm(i) }},
}

func main() {
	hx.Main("C37", func(c *hx.Ctx) {
		abs, _ := filepath.Abs(c.Dir)
		dataDir = filepath.Join(abs, "data")
		os.RemoveAll(dataDir)
		os.MkdirAll(filepath.Join(dataDir, "root"), 0o755)
		os.Setenv("MUTAGEN_DATA_DIRECTORY", dataDir)
		defer os.RemoveAll(dataDir)
		id, err := identifier.New(identifier.PrefixSynchronization)
		if err != nil {
			panic(err)
		}
		sessionID = id

		emitLine := func(line string) {
			f := strings.Fields(line)
			var impl, oracle string
			switch {
			case len(f) == 4 && (f[0] == "cfg" || f[0] == "cfgl"):
				impl = hx.Try(func() string {
					i, o := runCfg(f[0] == "cfgl", parseConfig(f[1]), parseConfig(f[2]), parseConfig(f[3]))
					oracle = o
					return i
				})
			case len(f) == 6 && f[0] == "alias":
				k, _ := strconv.Atoi(f[1])
				impl = hx.Try(func() string {
					i, o := runAlias(k, parseConfig(f[2]), parseConfig(f[3]), parseConfig(f[4]), parseConfig(f[5]))
					oracle = o
					return i
				})
			case len(f) == 3 && f[0] == "text" && modeByName(f[1]) != nil:
				v, _ := strconv.Atoi(f[2])
				impl, oracle = runText(modeByName(f[1]), int32(v))
			case len(f) == 3 && f[0] == "parse" && modeByName(f[1]) != nil:
				impl = showBack(modeByName(f[1]).unmarshal(unhex(f[2])))
			default:
				impl = "bad-line"
			}
			if strings.HasPrefix(impl, "panic:") {
				oracle = "class=panic " + impl
			}
			key := ""
			if f[0] == "cfg" || f[0] == "cfgl" {
				// non-trivial: the session is accepted, or rejected only at the merged stage
				if i := strings.Index(impl, " | "); i > 0 {
					key = impl[:i]
					c.Count(strings.Fields(impl)[5])
				}
			} else {
				key = line + impl
			}
			c.Case(line, impl, oracle, key)
		}
		if lines := c.ReplayLines(); lines != nil {
			for _, l := range lines {
				emitLine(l)
			}
			return
		}
		emit := func(kind string, a, b, d *cfg, label string) {
			c.Count("gen:" + label)
			emitLine(fmt.Sprintf("%s %s %s %s", kind, showConfig(a), showConfig(b), showConfig(d)))
		}

		// 1. Text forms: every value of every enumeration (and two beyond), every text.
		for i := range modes {
			m := &modes[i]
			for v := 0; v <= m.count+2; v++ {
				emitLine(fmt.Sprintf("text %s %d", m.name, v))
				c.Count("exhaustive")
			}
			for _, t := range texts {
				emitLine(fmt.Sprintf("parse %s %s", m.name, hexs(t)))
				c.Count("exhaustive")
			}
		}
		// 2. Per field: the full product of its domain over (session, alpha, beta), others default.
		for _, f := range fields {
			for i := 0; i < f.size; i++ {
				for j := 0; j < f.size; j++ {
					for k := 0; k < f.size; k++ {
						a, b, d := &cfg{}, &cfg{}, &cfg{}
						f.apply(a, i)
						f.apply(b, j)
						f.apply(d, k)
						emit("cfg", a, b, d, "field-product")
						c.Count("exhaustive")
					}
				}
			}
		}
		// 3. The interacting fields: permissions mode x file mode x directory mode, full product.
		for pc := 0; pc < 4; pc++ {
			for pa := 0; pa < 2; pa++ {
				for _, fc := range fileModes {
					for _, fa := range fileModes {
						for _, fb := range fileModes {
							a := &cfg{PermissionsMode: core.PermissionsMode(pc), DefaultFileMode: fc}
							b := &cfg{PermissionsMode: core.PermissionsMode(pa), DefaultFileMode: fa}
							d := &cfg{DefaultFileMode: fb, DefaultDirectoryMode: dirModes[(int(fa)+int(fb))%len(dirModes)]}
							emit("cfg", a, b, d, "permissions-product")
							c.Count("exhaustive")
						}
					}
				}
			}
		}
		// 4. The same product on real local endpoints (accepted ones are initialized).
		for pc := 0; pc < 3; pc++ {
			for _, fc := range fileModes {
				for _, fa := range fileModes {
					a := &cfg{PermissionsMode: core.PermissionsMode(pc), DefaultFileMode: fc, WatchMode: synchronization.WatchMode_WatchModeNoWatch}
					b := &cfg{DefaultFileMode: fa}
					d := &cfg{DefaultFileMode: fileModes[(int(fc)+int(fa))%len(fileModes)], DefaultDirectoryMode: dirModes[int(fa)%len(dirModes)]}
					emit("cfgl", a, b, d, "local-endpoint")
				}
			}
		}
		// 4b. Aliasing stress: layered merges on a shared lower configuration whose
		// ignore slices have spare capacity (all list combinations, then random).
		for k := 0; k <= 3; k++ {
			for bi := range ignoreSets {
				for mi := range ignoreSets {
					for hi := range ignoreSets {
						base, mid, h1, h2 := &cfg{}, &cfg{}, &cfg{}, &cfg{}
						base.Ignores, base.DefaultIgnores = ignoreSets[bi], ignoreSets[(bi+1)%len(ignoreSets)]
						mid.Ignores, mid.DefaultIgnores = ignoreSets[mi], ignoreSets[(mi+2)%len(ignoreSets)]
						h1.Ignores, h1.DefaultIgnores = ignoreSets[hi], ignoreSets[(hi+1)%len(ignoreSets)]
						h2.Ignores, h2.DefaultIgnores = ignoreSets[(hi+mi+1)%len(ignoreSets)], ignoreSets[(hi+3)%len(ignoreSets)]
						c.Count("gen:alias")
						c.Count("exhaustive")
						emitLine(fmt.Sprintf("alias %d %s %s %s %s", k, showConfig(base), showConfig(mid), showConfig(h1), showConfig(h2)))
					}
				}
			}
		}
		// 5. Random whole configurations; mostly valid values so that many get past
		// the per-configuration checks.
		r := c.R
		randomCfg := func(endpoint bool, safe bool) *cfg {
			x := &cfg{}
			for _, f := range fields {
				if r.Chance(1, 2) {
					continue
				}
				restricted := endpoint && (f.name == "sync" || f.name == "hash" || f.name == "symlink" || f.name == "syntax" ||
					f.name == "di" || f.name == "ig" || f.name == "vcs" || f.name == "perm")
				if restricted && !r.Chance(1, 12) {
					continue
				}
				i := r.Intn(f.size)
				if !r.Chance(1, 10) {
					// prefer valid values
					switch f.name {
					case "sync", "probe", "scan", "stage", "symlink", "watch", "syntax", "vcs", "perm":
						i = r.Intn(f.size - 1)
					case "hash", "compress":
						i = r.Intn(3)
					case "owner", "group":
						i = r.Intn(4)
					case "fm":
						i = []int{0, 1, 2, 3, 4, 7, 8}[r.Intn(7)]
					case "dm":
						i = r.Intn(3)
					}
				}
				if safe {
					switch f.name {
					case "owner", "group":
						i = r.Intn(len(safeOwners))
					case "watch":
						i = int(synchronization.WatchMode_WatchModeNoWatch)
					case "stage":
						i = r.Intn(2)
					}
				}
				f.apply(x, i)
			}
			return x
		}
		for i := 0; i < c.Size(15000, 600000); i++ {
			emit("cfg", randomCfg(false, false), randomCfg(true, false), randomCfg(true, false), "random")
		}
		for i := 0; i < c.Size(2000, 60000); i++ {
			c.Count("gen:alias-random")
			emitLine(fmt.Sprintf("alias %d %s %s %s %s", r.Intn(4), showConfig(randomCfg(false, false)), showConfig(randomCfg(false, false)),
				showConfig(randomCfg(false, false)), showConfig(randomCfg(false, false))))
		}
		for i := 0; i < c.Size(400, 4000); i++ {
			emit("cfgl", randomCfg(false, true), randomCfg(true, true), randomCfg(true, true), "random-local")
		}
	})
}
