// C04: a fully applied cycle is a fixpoint and two-way endpoints converge.
//
// Cases are (ancestor, alpha, beta) triples under every mode. The driver runs
// the real core.Reconcile, applies the plan exactly (core.Apply on both
// endpoint trees; the controller's ancestor update with ideal transition
// results), reconciles again, and prints both plans and the three new trees
// for comparison with the Lean model. Oracle:
//   - every Apply succeeds;
//   - the second plan contains no ancestor, alpha or beta change and its
//     conflicts are rooted at the same paths as the first plan's;
//   - in two-way modes, at every path that is not at/below a conflict root and
//     not at/below an entry that is untracked or problematic on a side, both
//     endpoints and the new ancestor record shallowly identical content.
package main

import (
	"fmt"
	"sort"
	"strings"

	"github.com/mutagen-io/mutagen/pkg/synchronization/core"

	"verif/harness/corex"
	"verif/harness/hx"
)

func roots(cs []*core.Conflict) string {
	var r []string
	for _, c := range cs {
		r = append(r, hx.EncPath(c.Root))
	}
	sort.Strings(r)
	return strings.Join(r, " ")
}

func underAny(roots []string, q string) bool {
	for _, r := range roots {
		if hx.PathIsPrefix(r, q) {
			return true
		}
	}
	return false
}

// unsyncRoots lists the paths of untracked/problematic/phantom entries.
func unsyncRoots(trees ...*core.Entry) []string {
	var out []string
	for _, t := range trees {
		for _, q := range hx.Paths(t) {
			if !corex.SyncKind(hx.Lookup(t, q).Kind) {
				out = append(out, q)
			}
		}
	}
	return out
}

func runCase(c *hx.Ctx, line string) (impl, verdict, key string) {
	t, ok := corex.ParseTriple(strings.Fields(line))
	if !ok {
		return "bad-op", "", ""
	}
	fail := func(class, format string, a ...any) {
		if verdict == "" && corex.NoPhantom(t) {
			verdict = "class=" + class + " " + fmt.Sprintf(format, a...)
		}
	}
	p1 := corex.Reconcile(t.Anc, t.Alpha, t.Beta, t.Mode)
	c.Count("mode:" + t.ModeName)
	// controller.go:1345-1380: fold ideal transition results into the ancestor changes.
	ancChanges := append([]*core.Change{}, p1.Anc...)
	for _, ch := range p1.Alpha {
		ancChanges = append(ancChanges, &core.Change{Path: ch.Path, New: ch.New})
	}
	for _, ch := range p1.Beta {
		ancChanges = append(ancChanges, &core.Change{Path: ch.Path, New: ch.New})
	}
	a2, errA := core.Apply(t.Anc, ancChanges)
	al2, errAl := core.Apply(t.Alpha, p1.Alpha)
	be2, errBe := core.Apply(t.Beta, p1.Beta)
	if errA != nil || errAl != nil || errBe != nil {
		which := "beta"
		if errA != nil {
			which = "ancestor"
		} else if errAl != nil {
			which = "alpha"
		}
		fail("apply-failed", "applying the plan to %s failed", which)
		return p1.Enc() + " | err:" + which, verdict, "err"
	}
	p2 := corex.Reconcile(a2, al2, be2, t.Mode)
	impl = p1.Enc() + " | " + hx.EncEntry(a2) + " " + hx.EncEntry(al2) + " " + hx.EncEntry(be2) + " | " + p2.Enc()
	key = corex.Classify(p1)
	if key != "" {
		key += " " + impl
		c.Count("nonempty-first-plan")
	}
	if len(p1.Conflicts) > 0 {
		c.Count("with-conflict")
	}
	if !corex.NoPhantom(t) {
		c.Count("oracle-skipped-phantom")
		return
	}
	if n := len(p2.Anc) + len(p2.Alpha) + len(p2.Beta); n != 0 {
		fail("not-a-fixpoint", "second cycle plans %d more change(s): %s", n, p2.Enc())
	}
	if roots(p1.Conflicts) != roots(p2.Conflicts) {
		fail("not-a-fixpoint", "conflict roots changed from [%s] to [%s]", roots(p1.Conflicts), roots(p2.Conflicts))
	}
	if err := a2.EnsureValid(true); err != nil {
		fail("invalid-ancestor", "new ancestor invalid: %v", err)
	}
	twoWay := t.Mode == core.SynchronizationMode_SynchronizationModeTwoWaySafe || t.Mode == core.SynchronizationMode_SynchronizationModeTwoWayResolved
	if twoWay {
		var croots []string
		for _, cf := range p1.Conflicts {
			croots = append(croots, cf.Root)
		}
		skip := append(croots, unsyncRoots(al2, be2)...)
		for _, q := range corex.AllPaths(a2, al2, be2) {
			if underAny(skip, q) {
				continue
			}
			x, y, z := hx.Lookup(al2, q), hx.Lookup(be2, q), hx.Lookup(a2, q)
			if !corex.ShallowSame(x, y) || !corex.ShallowSame(x, z) {
				fail("not-converged", "at %q alpha=%s beta=%s ancestor=%s", q, hx.EncEntry(shallowOf(x)), hx.EncEntry(shallowOf(y)), hx.EncEntry(shallowOf(z)))
				break
			}
		}
		c.Count("convergence-checked")
	}
	return
}

func shallowOf(e *core.Entry) *core.Entry {
	if e == nil {
		return nil
	}
	return e.Copy(core.EntryCopyBehaviorSlim)
}

func main() {
	hx.Main("C04", func(c *hx.Ctx) {
		run := func(line string) {
			var verdict, key string
			impl := hx.Try(func() string {
				i, v, k := runCase(c, line)
				verdict, key = v, k
				return i
			})
			if strings.HasPrefix(impl, "panic:") {
				verdict = "class=panic " + impl
			}
			c.Case(line, impl, verdict, key)
		}
		if lines := c.ReplayLines(); lines != nil {
			for _, l := range lines {
				run(l)
			}
			return
		}
		emit := func(mode string, anc, alpha, beta *core.Entry) {
			run(corex.TripleLine(mode, anc, alpha, beta))
		}
		cfg := corex.StreamCfg{
			Modes:  corex.AllModes,
			Stride: c.Size(6, 1),
			Random: c.Size(2500, 250000),
			Opts:   hx.TreeOpts{Unsync: true, Phantom: false, MaxDepth: c.Size(4, 6), MaxKids: 3},
		}
		corex.Triples(c, cfg, emit)
		cfg.Stride, cfg.Random = 1<<30, c.Size(300, 30000)
		cfg.Opts.Phantom = true
		corex.Triples(c, cfg, emit)
	})
}
