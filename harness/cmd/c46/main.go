// C46: agent bundle lookup honours the search order and extracts exactly.
//
// agent.ExecutableForPlatform derives its search path from os.Executable(), so
// the driver copies its own binary into scratch layouts
//
//	<work>/L/bin/c46      (Filesystem Hierarchy Standard layout: libexec applies)
//	<work>/M/other/c46    (no libexec lookup)
//
// under the check's output directory and runs the copies as workers. A worker
// materialises, per case, the requested state of `<exe dir>/mutagen-agents.tar.gz`
// and `<exe dir>/../libexec/mutagen-agents.tar.gz` (absent, dangling link,
// directory, unopenable, regular file, link to a regular file) with freshly
// built gzip/tar archives, calls the real ExecutableForPlatform, and reports
// the canonical result together with the verdict of the property's own oracle:
// the first location (executable directory, then libexec) holding a bundle is
// the one used, and the result is exactly that archive's first entry named
// <goos>_<goarch> — an error if there is none.
package main

import (
	"archive/tar"
	"bufio"
	"bytes"
	"compress/gzip"
	"fmt"
	"io"
	"os"
	"os/exec"
	"path/filepath"
	"strconv"
	"strings"
	"sync"

	"github.com/mutagen-io/mutagen/pkg/agent"

	"verif/harness/hx"
)

const workerEnv = "VERIF_C46_WORKER"

// ---- case parsing ----

type entry struct {
	name string
	data []byte
}

type archive struct {
	gzipOK  bool
	entries []entry
	fin     string // e | j | t
}

type locState struct {
	kind string // A0 A1 S D E L F K
	arch *archive
}

func unhex(s string) []byte {
	if s == "-" || s == "" {
		return nil
	}
	b := make([]byte, len(s)/2)
	for i := range b {
		v, _ := strconv.ParseUint(s[2*i:2*i+2], 16, 8)
		b[i] = byte(v)
	}
	return b
}

func parseState(s string) (locState, bool) {
	p := strings.Split(s, "=")
	switch p[0] {
	case "A0", "A1", "S", "D", "E", "L":
		return locState{kind: p[0]}, len(p) == 1
	case "F", "K":
		if len(p) == 2 && p[1] == "G" {
			return locState{kind: p[0], arch: &archive{}}, true
		}
		if len(p) != 3 {
			return locState{}, false
		}
		a := &archive{gzipOK: true, fin: p[1]}
		if p[2] != "" {
			for _, e := range strings.Split(p[2], ";") {
				q := strings.Split(e, "/")
				if len(q) != 2 {
					return locState{}, false
				}
				a.entries = append(a.entries, entry{string(unhex(q[0])), unhex(q[1])})
			}
		}
		return locState{kind: p[0], arch: a}, true
	}
	return locState{}, false
}

func (a *archive) bytes() ([]byte, error) {
	if !a.gzipOK {
		return []byte("this is not a gzip stream"), nil
	}
	var raw bytes.Buffer
	tw := tar.NewWriter(&raw)
	for _, e := range a.entries {
		if err := tw.WriteHeader(&tar.Header{Name: e.name, Typeflag: tar.TypeReg, Mode: 0o755, Size: int64(len(e.data))}); err != nil {
			return nil, err
		}
		if _, err := tw.Write(e.data); err != nil {
			return nil, err
		}
	}
	if err := tw.Flush(); err != nil {
		return nil, err
	}
	tarBytes := raw.Bytes()
	switch a.fin {
	case "e":
		tw.Close()
		tarBytes = raw.Bytes()
	case "j":
		tarBytes = append(append([]byte(nil), tarBytes...), bytes.Repeat([]byte{0xab}, 512)...)
	case "t":
		// cut inside the data of the last entry
		last := a.entries[len(a.entries)-1]
		padded := (len(last.data) + 511) / 512 * 512
		tarBytes = tarBytes[:len(tarBytes)-padded+len(last.data)/2]
	}
	var gz bytes.Buffer
	sharedGzip.Reset(&gz)
	sharedGzip.Write(tarBytes)
	sharedGzip.Close()
	return gz.Bytes(), nil
}

// sharedGzip is reused: a fresh flate compressor costs more than a whole case.
var sharedGzip = gzip.NewWriter(io.Discard)

// ---- worker: the real code in a layout ----

func materialise(dir string, st locState, isLibexec bool) error {
	bundle := filepath.Join(dir, agent.BundleName)
	if isLibexec {
		os.RemoveAll(dir)
	} else {
		os.RemoveAll(bundle)
		os.Remove(filepath.Join(dir, "real.tgz"))
	}
	if st.kind == "A0" && isLibexec {
		return nil
	}
	if st.kind == "E" && isLibexec {
		return os.WriteFile(dir, []byte("a file where a directory is expected"), 0o644)
	}
	if err := os.MkdirAll(dir, 0o755); err != nil {
		return err
	}
	switch st.kind {
	case "A0", "A1":
		return nil
	case "S":
		return os.Symlink("no-such-target", bundle)
	case "D":
		return os.Mkdir(bundle, 0o755)
	case "E", "L":
		return os.Symlink(agent.BundleName, bundle)
	case "F", "K":
		data, err := st.arch.bytes()
		if err != nil {
			return err
		}
		if st.kind == "F" {
			return os.WriteFile(bundle, data, 0o644)
		}
		if err := os.WriteFile(filepath.Join(dir, "real.tgz"), data, 0o644); err != nil {
			return err
		}
		return os.Symlink("real.tgz", bundle)
	}
	return fmt.Errorf("unknown state %q", st.kind)
}

func errKind(err error) string {
	m := err.Error()
	switch {
	case strings.HasPrefix(m, "unable to locate agent bundle"):
		return "locate"
	case strings.HasPrefix(m, "unable to open agent bundle"):
		return "open"
	case strings.HasPrefix(m, "agent bundle (") && strings.HasSuffix(m, "is not a file"):
		return "notfile"
	case strings.HasPrefix(m, "unable to decompress agent bundle"):
		return "decompress"
	case strings.HasPrefix(m, "unable to read archive header"):
		return "header"
	case m == "unsupported platform":
		return "unsupported"
	case strings.HasPrefix(m, "unable to copy agent data"):
		return "copy"
	}
	return "other:" + strings.ReplaceAll(m, " ", "_")
}

// spec: what one archive alone yields for the platform.
func (a *archive) spec(target string) ([]byte, bool) {
	if !a.gzipOK {
		return nil, false
	}
	for i, e := range a.entries {
		if e.name == target {
			if i == len(a.entries)-1 && a.fin == "t" {
				return nil, false
			}
			return e.data, true
		}
	}
	return nil, false
}

// Executable-directory names: the FHS name, an unrelated one, and near misses
// of "bin" for which ../libexec must NOT be searched. A space is written %20
// in the case line.
var nearMissDirs = []string{"sbin", "cabin", "bin2", "xbin", "Bin", "bin ", "nib", ".bin", "bin.", "robin", "bi"}

func escapeName(n string) string   { return strings.ReplaceAll(n, " ", "%20") }
func unescapeName(n string) string { return strings.ReplaceAll(n, "%20", " ") }

func absentLike(k string) bool { return k == "A0" || k == "A1" || k == "S" }

func runCase(line string) (impl, oracle string) {
	f := strings.Fields(line)
	if len(f) != 6 {
		return "bad-op", ""
	}
	st1, ok1 := parseState(f[1])
	st2, ok2 := parseState(f[2])
	if !ok1 || !ok2 {
		return "bad-op", ""
	}
	goos, goarch := string(unhex(f[3])), string(unhex(f[4]))
	exe, err := os.Executable()
	if err != nil {
		return "setup-failed: " + err.Error(), ""
	}
	exeDir := filepath.Dir(exe)
	dirName := unescapeName(f[0])
	if filepath.Base(exeDir) != dirName {
		return "setup-failed: worker runs in " + exeDir, ""
	}
	root := filepath.Dir(exeDir)
	if err := materialise(exeDir, st1, false); err != nil {
		return "setup-failed: " + err.Error(), ""
	}
	if err := materialise(filepath.Join(root, "libexec"), st2, true); err != nil {
		return "setup-failed: " + err.Error(), ""
	}
	outputPath := ""
	if f[5] == "o" {
		outputPath = filepath.Join(root, "extracted-agent")
		os.Remove(outputPath)
		if len(line)%3 == 0 {
			// a longer stale file must be truncated
			os.WriteFile(outputPath, bytes.Repeat([]byte("stale"), 1000), 0o600)
		}
	}

	agent.ExpectedBundleLocation = agent.BundleLocationDefault
	path, err := agent.ExecutableForPlatform(goos, goarch, outputPath)

	var gotData []byte
	if err != nil {
		impl = "err " + errKind(err)
	} else {
		data, rerr := os.ReadFile(path)
		info, serr := os.Stat(path)
		if rerr != nil || serr != nil {
			return "setup-failed: result unreadable", "class=result-unreadable " + path
		}
		gotData = data
		cls := "tmp"
		base := filepath.Base(path)
		switch {
		case path == outputPath:
			cls = "out"
		case filepath.Dir(path) != filepath.Clean(os.TempDir()) || !strings.HasPrefix(base, "mutagen-agent."):
			cls = "elsewhere:" + path
		case strings.HasSuffix(base, ".exe"):
			cls = "tmp.exe"
		}
		impl = fmt.Sprintf("ok %s %o %s", hx.Hex(data), info.Mode().Perm(), cls)
		os.Remove(path)
		// property: permissions and naming
		wantMode, wantCls := os.FileMode(0o700), "tmp"
		if goos == "windows" {
			wantMode, wantCls = 0o600, "tmp.exe"
		}
		if outputPath != "" {
			wantCls = "out"
		}
		if info.Mode().Perm() != wantMode || cls != wantCls {
			oracle = fmt.Sprintf("class=result-file mode %o name %s, want %o %s", info.Mode().Perm(), cls, wantMode, wantCls)
		}
	}

	// The property's oracle: precedence and exactness.
	// The search path is exactly [executable directory], plus [../libexec] iff
	// the base name of the executable directory is exactly "bin".
	locs := []locState{st1}
	if dirName == "bin" {
		locs = append(locs, st2)
	}
	target := goos + "_" + goarch
	first := -1
	for i, l := range locs {
		if l.arch != nil {
			first = i
			break
		}
		if !absentLike(l.kind) {
			break
		}
	}
	class := "extract-mismatch"
	if first >= 0 && first+1 < len(locs) && !absentLike(locs[first+1].kind) {
		class = "search-order"
	}
	describe := func() string {
		if err != nil {
			return "error " + errKind(err)
		}
		return fmt.Sprintf("%d bytes %x", len(gotData), gotData[:min(len(gotData), 16)])
	}
	if first >= 0 {
		want, ok := locs[first].arch.spec(target)
		switch {
		case ok && (err != nil || !bytes.Equal(gotData, want)):
			oracle = fmt.Sprintf("class=%s location #%d holds the first bundle with entry %s = %d bytes %x, got %s", class, first, target, len(want), want[:min(len(want), 16)], describe())
		case !ok && err == nil:
			if class != "search-order" {
				class = "unknown-platform-accepted"
			}
			oracle = fmt.Sprintf("class=%s first bundle (location #%d) has no usable entry %s, got %s", class, first, target, describe())
		}
	} else if err == nil {
		oracle = "class=no-bundle-accepted no location holds a reachable bundle, got " + describe()
	}
	return impl, oracle
}

func worker() {
	in := bufio.NewReaderSize(os.Stdin, 1<<22)
	out := bufio.NewWriter(os.Stdout)
	for {
		line, err := in.ReadString('\n')
		if line = strings.TrimRight(line, "\n"); line != "" {
			var oracle string
			impl := hx.Try(func() string {
				i, o := runCase(line)
				oracle = o
				return i
			})
			if strings.HasPrefix(impl, "panic:") {
				oracle = "class=panic " + impl
			}
			fmt.Fprintf(out, "%s\t%s\n", impl, oracle)
			out.Flush()
		}
		if err != nil {
			return
		}
	}
}

// ---- parent: workers and generators ----

type proc struct {
	cmd *exec.Cmd
	in  io.WriteCloser
	out *bufio.Reader
}

func copyFile(src, dst string) error {
	data, err := os.ReadFile(src)
	if err != nil {
		return err
	}
	return os.WriteFile(dst, data, 0o755)
}

func startWorker(work, layout, dirName string) (*proc, error) {
	self, err := os.Executable()
	if err != nil {
		return nil, err
	}
	dir := filepath.Join(work, layout, dirName)
	if err := os.MkdirAll(dir, 0o755); err != nil {
		return nil, err
	}
	tmp := filepath.Join(work, "tmp")
	if err := os.MkdirAll(tmp, 0o755); err != nil {
		return nil, err
	}
	bin := filepath.Join(dir, "c46")
	if err := copyFile(self, bin); err != nil {
		return nil, err
	}
	cmd := exec.Command(bin)
	cmd.Env = append(os.Environ(), workerEnv+"=1", "TMPDIR="+tmp, "GOMAXPROCS=1")
	cmd.Stderr = os.Stderr
	in, err := cmd.StdinPipe()
	if err != nil {
		return nil, err
	}
	out, err := cmd.StdoutPipe()
	if err != nil {
		return nil, err
	}
	if err := cmd.Start(); err != nil {
		return nil, err
	}
	return &proc{cmd, in, bufio.NewReaderSize(out, 1<<22)}, nil
}

func (p *proc) ask(line string) (string, string) {
	if _, err := io.WriteString(p.in, line+"\n"); err != nil {
		return "worker-failed: " + err.Error(), ""
	}
	resp, err := p.out.ReadString('\n')
	if err != nil {
		return "worker-failed: " + err.Error(), ""
	}
	parts := strings.SplitN(strings.TrimRight(resp, "\n"), "\t", 2)
	if len(parts) != 2 {
		return "worker-failed: " + resp, ""
	}
	return parts[0], parts[1]
}

var namePool = []string{"linux_amd64", "linux_arm64", "linux_arm", "windows_arm64", "darwin_arm64", "windows_amd64", "windows_386", "freebsd_amd64",
	"a_b_c", "Linux_amd64", "linux-amd64", "linux_amd64 ", "linux_amd6", "linux_amd644", "_", "linux_", "_amd64", "fakeos_fakearch", "dir/linux_amd64"}

var platformPool = [][2]string{{"linux", "amd64"}, {"linux", "arm64"}, {"linux", "arm"}, {"windows", "arm"}, {"darwin", "arm64"}, {"windows", "amd64"}, {"windows", "386"}, {"freebsd", "amd64"},
	{"a", "b_c"}, {"a_b", "c"}, {"fakeos", "amd64"}, {"linux", "fakearch"}, {"fakeos", "fakearch"}, {"", ""}, {"linux", ""}, {"", "amd64"}, {"Linux", "amd64"}, {"linux", "amd6"}}

func hexs(s string) string { return hx.Hex([]byte(s)) }

func showArchive(es []entry, fin string) string {
	parts := make([]string, len(es))
	for i, e := range es {
		parts[i] = hexs(e.name) + "/" + hx.Hex(e.data)
	}
	return fin + "=" + strings.Join(parts, ";")
}

func randArchive(r *hx.Rand, tag byte) string {
	if r.Chance(1, 12) {
		return "G"
	}
	n := r.Intn(5)
	es := make([]entry, n)
	for i := range es {
		size := r.Intn(24)
		if r.Chance(1, 10) {
			size = 500 + r.Intn(1200)
		}
		d := r.Bytes(size, 256)
		if size > 0 {
			d[0] = tag
		}
		es[i] = entry{namePool[r.Intn(len(namePool))], d}
	}
	fin := "e"
	if r.Chance(1, 6) {
		fin = "j"
	} else if n > 0 && len(es[n-1].data) > 0 && r.Chance(1, 5) {
		fin = "t"
	}
	return showArchive(es, fin)
}

func randState(r *hx.Rand, libexec bool, tag byte) string {
	switch r.Intn(10) {
	case 0:
		if libexec {
			return "A0"
		}
		return "A1"
	case 1:
		return "A1"
	case 2:
		return "S"
	case 3:
		return "D"
	case 4:
		if libexec && r.Chance(1, 2) {
			return "E"
		}
		return "L"
	case 5:
		return "K=" + randArchive(r, tag)
	}
	return "F=" + randArchive(r, tag)
}

// scratchDir picks the directory for the per-run scratch layouts: a memory
// file system when one is available and allows executing the worker copy (the
// cases are dominated by create/unlink calls, which are slow on the journalled,
// discard-mounted disk under ./out), else <out>/work. Removed at the end.
func scratchDir(outDir string) string {
	if os.Getenv("VERIF_SCRATCH_ON_DISK") == "" {
		if d, err := os.MkdirTemp("/dev/shm", "verif-"+strings.ToLower(filepath.Base(filepath.Dir(outDir)))+"-"); err == nil {
			probe := filepath.Join(d, "probe")
			if self, err := os.Executable(); err == nil {
				if data, err := os.ReadFile(self); err == nil && os.WriteFile(probe, data, 0o755) == nil {
					cmd := exec.Command(probe)
					cmd.Env = append(os.Environ(), workerEnv+"=probe")
					if cmd.Run() == nil {
						os.Remove(probe)
						return d
					}
				}
			}
			os.RemoveAll(d)
		}
	}
	return filepath.Join(outDir, "work")
}

func main() {
	if os.Getenv(workerEnv) == "probe" {
		return
	}
	if os.Getenv(workerEnv) != "" {
		worker()
		return
	}
	hx.Main("C46", func(c *hx.Ctx) {
		work := scratchDir(c.Dir)
		os.RemoveAll(work)
		defer os.RemoveAll(work)
		// Worker pools: several independent FHS layouts (the work is dominated
		// by file-system calls) and one non-FHS layout.
		pools := map[string][]*proc{}
		type layoutSpec struct{ layout, dirName string }
		layouts := []layoutSpec{{"L0", "bin"}, {"L1", "bin"}, {"L2", "bin"}, {"L3", "bin"}, {"M0", "other"}}
		for i, n := range nearMissDirs {
			layouts = append(layouts, layoutSpec{fmt.Sprintf("N%d", i), n})
		}
		for _, w := range layouts {
			p, err := startWorker(work, w.layout, w.dirName)
			if err != nil {
				fmt.Fprintln(os.Stderr, "cannot start worker:", err)
				os.RemoveAll(work)
				os.Exit(2)
			}
			pools[w.dirName] = append(pools[w.dirName], p)
		}
		defer func() {
			for _, ps := range pools {
				for _, p := range ps {
					p.in.Close()
					p.cmd.Wait()
				}
			}
		}()
		var batch []string
		flush := func() {
			impls, oracles := make([]string, len(batch)), make([]string, len(batch))
			queues := map[*proc][]int{}
			next := map[string]int{}
			for i, line := range batch {
				impls[i] = "bad-op"
				f := strings.Fields(line)
				if len(f) == 0 || len(pools[unescapeName(f[0])]) == 0 {
					continue
				}
				dn := unescapeName(f[0])
				ps := pools[dn]
				p := ps[next[dn]%len(ps)]
				next[dn]++
				queues[p] = append(queues[p], i)
			}
			var wg sync.WaitGroup
			for p, q := range queues {
				wg.Add(1)
				go func(p *proc, q []int) {
					defer wg.Done()
					for _, i := range q {
						impls[i], oracles[i] = p.ask(batch[i])
					}
				}(p, q)
			}
			wg.Wait()
			for i, line := range batch {
				impl, oracle := impls[i], oracles[i]
				f := strings.Fields(line)
				key := ""
				if len(f) > 2 && strings.Contains(f[1], "=") && strings.Contains(f[2], "=") {
					key = "both:" + impl
				} else if strings.HasPrefix(impl, "ok") {
					key = impl
				}
				if fi := strings.Fields(impl); len(fi) >= 2 && fi[0] == "err" {
					c.Count("err-" + fi[1])
				} else if len(fi) >= 1 {
					c.Count(fi[0])
				}
				c.Case(line, impl, oracle, key)
			}
			batch = batch[:0]
		}
		defer flush()
		emit := func(line string) {
			batch = append(batch, line)
			if len(batch) >= 4000 {
				flush()
			}
		}
		if lines := c.ReplayLines(); lines != nil {
			for _, l := range lines {
				emit(l)
			}
			return
		}
		// Exhaustive over location states × platform presence × layout × output mode,
		// with distinct contents per location.
		archFor := func(tag string, has bool) string {
			es := []entry{{"darwin_arm64", []byte(tag + "-darwin")}}
			if has {
				es = append(es, entry{"linux_amd64", []byte(tag + "-linux")}, entry{"linux_amd64", []byte(tag + "-duplicate")})
			}
			es = append(es, entry{"windows_amd64", []byte(tag + "-windows")})
			return showArchive(es, "e")
		}
		for _, dirName := range []string{"bin", "other"} {
			for _, s1 := range []string{"A1", "S", "D", "L", "F", "K"} {
				for _, s2 := range []string{"A0", "A1", "S", "D", "E", "L", "F", "K"} {
					for presence := 0; presence < 4; presence++ {
						for _, out := range []string{"o", "t"} {
							a, b := s1, s2
							if s1 == "F" || s1 == "K" {
								a += "=" + archFor("EXE", presence&1 != 0)
							}
							if s2 == "F" || s2 == "K" {
								b += "=" + archFor("LIBEXEC", presence&2 != 0)
							}
							emit(fmt.Sprintf("%s %s %s %s %s %s", dirName, a, b, hexs("linux"), hexs("amd64"), out))
							c.Count("exhaustive")
						}
					}
				}
			}
		}
		// Near misses of "bin": a bundle only (or also) in the sibling libexec
		// must not be found; the executable directory alone decides.
		for _, dirName := range append([]string{"bin"}, nearMissDirs...) {
			for _, s1 := range []string{"A1", "S", "F"} {
				for _, s2 := range []string{"A0", "A1", "S", "D", "E", "L", "F", "K"} {
					for _, presence := range []int{2, 3} {
						for _, out := range []string{"o", "t"} {
							a, b := s1, s2
							if s1 == "F" {
								a += "=" + archFor("EXE", presence&1 != 0)
							}
							if s2 == "F" || s2 == "K" {
								b += "=" + archFor("LIBEXEC", presence&2 != 0)
							}
							emit(fmt.Sprintf("%s %s %s %s %s %s", escapeName(dirName), a, b, hexs("linux"), hexs("amd64"), out))
							c.Count("exhaustive-near-miss-dir")
						}
					}
				}
			}
		}
		// Entry names that are prefixes / extensions of the requested platform:
		// only the exact name may match, wherever it stands in the archive.
		for _, req := range [][2]string{{"linux", "arm"}, {"linux", "arm64"}, {"windows", "arm"}, {"linux", "amd6"}, {"linu", "x_arm"}} {
			for _, names := range [][]string{
				{"linux_arm64", "linux_arm", "windows_arm64"},
				{"linux_arm64", "windows_arm64"},
				{"linux_arm", "linux_arm64"},
				{"linux_armv7", "linux_arm64be", "linux_arm"},
				{"linux_amd64", "linux_amd6"},
				{"linux_amd64"},
			} {
				es := make([]entry, len(names))
				for i, n := range names {
					es[i] = entry{n, []byte("data-of-" + n)}
				}
				for _, dirName := range []string{"bin", "other"} {
					emit(fmt.Sprintf("%s F=%s A1 %s %s t", dirName, showArchive(es, "e"), hexs(req[0]), hexs(req[1])))
					emit(fmt.Sprintf("%s A1 F=%s %s %s o", dirName, showArchive(es, "e"), hexs(req[0]), hexs(req[1])))
					c.Count("exhaustive-name-prefix")
				}
			}
		}
		// Random layouts, archives and platforms.
		for i := 0; i < c.Size(5000, 120000); i++ {
			dirName := "bin"
			switch c.R.Intn(10) {
			case 0:
				dirName = "other"
			case 1, 2, 3:
				dirName = escapeName(nearMissDirs[c.R.Intn(len(nearMissDirs))])
			}
			p := platformPool[c.R.Intn(len(platformPool))]
			out := "t"
			if c.R.Chance(1, 2) {
				out = "o"
			}
			emit(fmt.Sprintf("%s %s %s %s %s %s", dirName, randState(c.R, false, 'X'), randState(c.R, true, 'Y'), hexs(p[0]), hexs(p[1]), out))
			c.Count("random")
		}
	})
}
