// extract regenerates lean/Mutagen/Generated/Facts.lean from the Go sources of
// the repository under test: evaluated constants and literal string tables
// named in specs/*.txt. The Lean models import these definitions, so that a
// changed threshold or table re-checks (or breaks) the theorems and the
// correspondence that depend on it. Deliberately tiny: go/parser + go/types.
//
// Spec lines (blank lines and # comments ignored):
//
//	const   <package dir relative to repo> <GoConstName> <LeanName>
//	strings <package dir> <GoVarOrConstName> <LeanName>     ([]string / [...]string / map[string]bool composite literal)
//	ints    <package dir> <GoVarName> <LeanName>            ([]T composite literal of integer constants)
package main

import (
	"bufio"
	"flag"
	"fmt"
	"go/ast"
	"go/constant"
	"go/importer"
	"go/parser"
	"go/token"
	"go/types"
	"os"
	"path/filepath"
	"sort"
	"strconv"
	"strings"
)

type pkgInfo struct {
	pkg   *types.Package
	info  *types.Info
	files []*ast.File
}

var (
	fset  = token.NewFileSet()
	cache = map[string]*pkgInfo{}
)

// lightImporter resolves standard-library packages from source and every other
// import as an empty package: constants and literal tables almost never
// depend on non-std imports, and type errors are ignored. load(..., full=true)
// falls back to the real source importer when a fact cannot be evaluated.
type lightImporter struct{ std types.Importer }

func (l lightImporter) Import(path string) (*types.Package, error) {
	first := strings.SplitN(path, "/", 2)[0]
	if !strings.Contains(first, ".") {
		return l.std.Import(path)
	}
	name := path[strings.LastIndex(path, "/")+1:]
	p := types.NewPackage(path, name)
	p.MarkComplete()
	return p, nil
}

var stdImporter = importer.ForCompiler(fset, "source", nil)

func load(repo, dir string, full bool) (*pkgInfo, error) {
	key := dir
	if full {
		key += "#full"
	}
	if p, ok := cache[key]; ok {
		return p, nil
	}
	fullPath := filepath.Join(repo, dir)
	pkgs, err := parser.ParseDir(fset, fullPath, func(fi os.FileInfo) bool {
		n := fi.Name()
		if strings.HasSuffix(n, "_test.go") || strings.HasPrefix(n, "verif_") {
			return false
		}
		// keep files for this platform only (cheap filter on the common suffixes)
		for _, s := range []string{"_windows.go", "_darwin.go", "_plan9.go", "_freebsd.go", "_netbsd.go", "_openbsd.go", "_solaris.go", "_aix.go", "_dragonfly.go", "_illumos.go", "_js.go", "_wasip1.go"} {
			if strings.HasSuffix(n, s) {
				return false
			}
		}
		return true
	}, parser.SkipObjectResolution)
	if err != nil {
		return nil, err
	}
	var files []*ast.File
	for name, p := range pkgs {
		if strings.HasSuffix(name, "_test") || name == "main" && len(pkgs) > 1 {
			continue
		}
		var names []string
		for fn := range p.Files {
			names = append(names, fn)
		}
		sort.Strings(names)
		for _, fn := range names {
			f := p.Files[fn]
			if !buildOK(f) {
				continue
			}
			files = append(files, f)
		}
	}
	info := &types.Info{Types: map[ast.Expr]types.TypeAndValue{}, Defs: map[*ast.Ident]types.Object{}}
	conf := types.Config{
		Importer: lightImporter{stdImporter},
		Error:    func(error) {}, // best effort: constants rarely depend on what fails
	}
	if full {
		conf.Importer = stdImporter
	}
	pkg, _ := conf.Check(dir, fset, files, info)
	if pkg == nil {
		return nil, fmt.Errorf("type-check of %s produced no package", dir)
	}
	pi := &pkgInfo{pkg, info, files}
	cache[key] = pi
	return pi, nil
}

// buildOK evaluates the simple //go:build lines used in this repository for linux/amd64 without extra tags.
func buildOK(f *ast.File) bool {
	for _, cg := range f.Comments {
		if cg.Pos() > f.Package {
			break
		}
		for _, c := range cg.List {
			t := strings.TrimSpace(c.Text)
			if !strings.HasPrefix(t, "//go:build ") {
				continue
			}
			expr := strings.TrimPrefix(t, "//go:build ")
			return evalBuild(expr)
		}
	}
	return true
}

func evalBuild(expr string) bool {
	// tiny evaluator: || of && of (!)?tag, parentheses not supported beyond stripping
	expr = strings.NewReplacer("(", "", ")", "").Replace(expr)
	tags := map[string]bool{"linux": true, "amd64": true, "unix": true, "cgo": false, "go1.25": true}
	for _, or := range strings.Split(expr, "||") {
		ok := true
		for _, and := range strings.Split(or, "&&") {
			a := strings.TrimSpace(and)
			neg := strings.HasPrefix(a, "!")
			a = strings.TrimPrefix(a, "!")
			v := tags[a]
			if neg {
				v = !v
			}
			ok = ok && v
		}
		if ok {
			return true
		}
	}
	return false
}

func leanString(s string) string {
	var b strings.Builder
	b.WriteByte('"')
	for _, r := range s {
		switch {
		case r == '"':
			b.WriteString("\\\"")
		case r == '\\':
			b.WriteString("\\\\")
		case r == '\n':
			b.WriteString("\\n")
		case r == '\t':
			b.WriteString("\\t")
		case r == '\r':
			b.WriteString("\\r")
		case r < 0x20 || r == 0x7f:
			fmt.Fprintf(&b, "\\x%02x", r)
		default:
			b.WriteRune(r)
		}
	}
	b.WriteByte('"')
	return b.String()
}

func constValue(v constant.Value) (string, string, bool) {
	switch v.Kind() {
	case constant.Int:
		if constant.Sign(v) < 0 {
			return "Int", "(" + v.ExactString() + ")", true
		}
		return "Nat", v.ExactString(), true
	case constant.String:
		return "String", leanString(constant.StringVal(v)), true
	case constant.Bool:
		return "Bool", strconv.FormatBool(constant.BoolVal(v)), true
	}
	return "", "", false
}

// findValueSpec finds the initializer expression of a package-level var/const.
func findInit(pi *pkgInfo, name string) ast.Expr {
	for _, f := range pi.files {
		for _, d := range f.Decls {
			gd, ok := d.(*ast.GenDecl)
			if !ok {
				continue
			}
			for _, s := range gd.Specs {
				vs, ok := s.(*ast.ValueSpec)
				if !ok {
					continue
				}
				for i, n := range vs.Names {
					if n.Name == name && i < len(vs.Values) {
						return vs.Values[i]
					}
				}
			}
		}
	}
	return nil
}

func literalElems(pi *pkgInfo, name string) ([]constant.Value, error) {
	e := findInit(pi, name)
	if e == nil {
		return nil, fmt.Errorf("no initializer for %s", name)
	}
	cl, ok := e.(*ast.CompositeLit)
	if !ok {
		return nil, fmt.Errorf("%s is not a composite literal", name)
	}
	var out []constant.Value
	for _, el := range cl.Elts {
		x := el
		if kv, ok := el.(*ast.KeyValueExpr); ok {
			x = kv.Key // map[string]T: take the keys
		}
		tv, ok := pi.info.Types[x]
		if !ok || tv.Value == nil {
			return nil, fmt.Errorf("%s: non-constant element", name)
		}
		out = append(out, tv.Value)
	}
	return out, nil
}

func evalFact(repo, kind, dir, goName, leanName string, full bool) (string, error) {
	pi, err := load(repo, dir, full)
	if err != nil {
		return "", err
	}
	switch kind {
	case "const":
		obj := pi.pkg.Scope().Lookup(goName)
		c, ok := obj.(*types.Const)
		if !ok {
			return "", fmt.Errorf("not a constant")
		}
		ty, val, ok := constValue(c.Val())
		if !ok {
			return "", fmt.Errorf("unsupported constant kind")
		}
		return fmt.Sprintf("def %s : %s := %s\n", leanName, ty, val), nil
	case "strings", "ints":
		vals, err := literalElems(pi, goName)
		if err != nil {
			return "", err
		}
		var items []string
		ty := "String"
		if kind == "ints" {
			ty = "Nat"
		}
		for _, v := range vals {
			t, s, ok := constValue(v)
			if !ok {
				return "", fmt.Errorf("unsupported element")
			}
			if t == "Int" {
				ty = "Int"
			}
			items = append(items, s)
		}
		return fmt.Sprintf("def %s : List %s := [%s]\n", leanName, ty, strings.Join(items, ", ")), nil
	case "orflags":
		// orflags <pkg dir> <Func>.<var> <leanName>: the operand names of the `a | b | c` expression first assigned
		// (`:=`) to local variable <var> in function or method <Func> — a syntactic fact (which open flags a
		// system call is given), written to the second generated module (SourceFacts).
		parts := strings.SplitN(goName, ".", 2)
		if len(parts) != 2 {
			return "", fmt.Errorf("orflags wants Func.var")
		}
		var names []string
		found := false
		for _, f := range pi.files {
			for _, d := range f.Decls {
				fd, ok := d.(*ast.FuncDecl)
				if !ok || fd.Name.Name != parts[0] || fd.Body == nil || found {
					continue
				}
				ast.Inspect(fd.Body, func(n ast.Node) bool {
					as, ok := n.(*ast.AssignStmt)
					if !ok || found || as.Tok.String() != ":=" || len(as.Lhs) != 1 || len(as.Rhs) != 1 {
						return true
					}
					if id, ok := as.Lhs[0].(*ast.Ident); !ok || id.Name != parts[1] {
						return true
					}
					found = true
					var walk func(e ast.Expr) bool
					walk = func(e ast.Expr) bool {
						switch x := e.(type) {
						case *ast.BinaryExpr:
							return x.Op.String() == "|" && walk(x.X) && walk(x.Y)
						case *ast.ParenExpr:
							return walk(x.X)
						case *ast.SelectorExpr:
							names = append(names, x.Sel.Name)
							return true
						case *ast.Ident:
							names = append(names, x.Name)
							return true
						}
						return false
					}
					if !walk(as.Rhs[0]) {
						names = append(names, "<not-an-or-of-names>")
					}
					return false
				})
			}
		}
		if !found {
			return "", fmt.Errorf("no assignment %s := … in %s", parts[1], parts[0])
		}
		var q []string
		for _, n := range names {
			q = append(q, strconv.Quote(n))
		}
		return fmt.Sprintf("def %s : List String := [%s]\n", leanName, strings.Join(q, ", ")), nil
	}
	return "", fmt.Errorf("bad kind %q", kind)
}

func main() {
	repo := flag.String("repo", "/repo", "repository root")
	out := flag.String("o", "", "output file")
	out2 := flag.String("o2", "", "output file for the syntactic facts (kind orflags): module Mutagen.Generated.SourceFacts")
	flag.Parse()
	self, _ := os.Executable()
	specDir := os.Getenv("VERIF_SPECS")
	if specDir == "" {
		specDir = filepath.Join(filepath.Dir(filepath.Dir(self)), "cmd", "extract", "specs")
	}
	specs, _ := filepath.Glob(filepath.Join(specDir, "*.txt"))
	sort.Strings(specs)
	var b2 strings.Builder
	b2.WriteString("/- GENERATED by harness/cmd/extract (syntactic facts about function bodies) from the Go sources of the\n   repository under test on every run of ./check. Do not edit. -/\nnamespace Mutagen.SourceFacts\n\n")
	var b strings.Builder
	b.WriteString("/- GENERATED by harness/cmd/extract from the Go sources of the repository under\n   test on every run of ./check. Do not edit. -/\nnamespace Mutagen.Facts\n\n")
	failed := 0
	for _, sp := range specs {
		f, err := os.Open(sp)
		if err != nil {
			continue
		}
		wrote := false // the header goes into Facts.lean only for spec files that contribute to it
		sc := bufio.NewScanner(f)
		for sc.Scan() {
			line := strings.TrimSpace(sc.Text())
			if line == "" || strings.HasPrefix(line, "#") {
				continue
			}
			fs := strings.Fields(line)
			if len(fs) != 4 {
				fmt.Fprintf(os.Stderr, "bad spec line %q\n", line)
				failed++
				continue
			}
			text, err := evalFact(*repo, fs[0], fs[1], fs[2], fs[3], false)
			if err != nil {
				text, err = evalFact(*repo, fs[0], fs[1], fs[2], fs[3], true)
			}
			if err != nil {
				fmt.Fprintf(os.Stderr, "%s: %v\n", line, err)
				failed++
				continue
			}
			if fs[0] == "orflags" {
				b2.WriteString(text)
			} else {
				if !wrote {
					fmt.Fprintf(&b, "-- %s\n", filepath.Base(sp))
					wrote = true
				}
				b.WriteString(text)
			}
		}
		f.Close()
		if wrote {
			b.WriteString("\n")
		}
	}
	b.WriteString("end Mutagen.Facts\n")
	b2.WriteString("\nend Mutagen.SourceFacts\n")
	if *out2 != "" && failed == 0 {
		if err := os.WriteFile(*out2, []byte(b2.String()), 0o644); err != nil {
			fmt.Fprintln(os.Stderr, err)
			os.Exit(1)
		}
	}
	if failed > 0 {
		fmt.Fprintf(os.Stderr, "%d fact(s) could not be extracted\n", failed)
		os.Exit(1)
	}
	if *out == "" {
		fmt.Print(b.String())
		return
	}
	if err := os.WriteFile(*out, []byte(b.String()), 0o644); err != nil {
		fmt.Fprintln(os.Stderr, err)
		os.Exit(1)
	}
}
