package main

// controller.run across loop generations ("ctl" lines).
//
// The real run loop of the forwarding controller (through the verif wrapper
// VerifC33NewRunController / StartRun) is driven through teardown and restart
// of its forwarding loop — endpoint failure followed by the automatic
// reconnect (boundary `R`), and pause followed by resume (boundary `P`: the
// run context is cancelled and a new run is started, as halt/resume do) —
// while destination writes of the old loop are still in flight: the scripted
// destination accepts the bytes but its Write only returns when the director
// releases it (`rel`, or the end of the script), i.e. after the next loop has
// installed its State. Reconnection goes through a protocol handler registered
// in forwarding.ProtocolHandlers.
//
//	ctl <events>   events: o | snap | <k>.<event> | rel | R[/k.d:hex…] | P[/k.d:hex…]
//
// Answer: for every generation `g<i> c<k>=<d0>/<cw>/<d1>/<cw>/<closed first>/<closed second> … snaps=…`
// and `end=<open>/<total>/<inbound>/<outbound>` read from the controller's
// current State after all writes have returned and been audited.
//
// Oracle: the totals of the current State equal the bytes accepted by the
// destinations of the connections of the current loop, its total equals the
// connections that loop accepted, its open count those still open.

import (
	"context"
	"fmt"
	"net"
	"strconv"
	"strings"
	"sync"
	"time"

	"github.com/mutagen-io/mutagen/pkg/forwarding"
	"github.com/mutagen-io/mutagen/pkg/logging"
	urlpkg "github.com/mutagen-io/mutagen/pkg/url"

	"verif/harness/hx"
)

const ctlProtocol = urlpkg.Protocol(77)

// ctlEndpoint is a scripted forwarding endpoint whose Shutdown unblocks Open.
type ctlEndpoint struct {
	w      *world
	ch     chan openResult
	quit   chan struct{}
	once   sync.Once
	calls  int // Open calls entered
	opened int // Open calls answered from the script
}

func newCtlEndpoint(w *world) *ctlEndpoint {
	return &ctlEndpoint{w: w, ch: make(chan openResult, 1), quit: make(chan struct{})}
}

func (e *ctlEndpoint) TransportErrors() <-chan error { return nil }
func (e *ctlEndpoint) Shutdown() error {
	e.once.Do(func() { close(e.quit) })
	return nil
}
func (e *ctlEndpoint) Open() (net.Conn, error) {
	e.w.mu.Lock()
	e.calls++
	e.w.changed()
	e.w.mu.Unlock()
	select {
	case r := <-e.ch:
		e.w.mu.Lock()
		e.opened++
		e.w.changed()
		e.w.mu.Unlock()
		return r.conn, r.err
	case <-e.quit:
		return nil, errClosed
	}
}

// ctlHandler hands the endpoints prepared by the director to controller.run's reconnect.
type ctlHandler struct {
	mu          sync.Mutex
	source      forwarding.Endpoint
	destination forwarding.Endpoint
}

func (h *ctlHandler) Connect(_ context.Context, _ *logging.Logger, _ *urlpkg.URL, _ string, _ string, _ forwarding.Version, _ *forwarding.Configuration, source bool) (forwarding.Endpoint, error) {
	h.mu.Lock()
	defer h.mu.Unlock()
	if source {
		if h.source == nil {
			return nil, errInjected
		}
		e := h.source
		h.source = nil
		return e, nil
	}
	if h.destination == nil {
		return nil, errInjected
	}
	e := h.destination
	h.destination = nil
	return e, nil
}

var theCtlHandler = &ctlHandler{}

func init() { forwarding.ProtocolHandlers[ctlProtocol] = theCtlHandler }

type inflight struct {
	conn, dir int
	data      []byte
}

type ctlEvent struct {
	kind     string // loop | R | P | rel
	loop     ev     // for kind loop: open, snap, chunk, eof, err
	inflight []inflight
}

func parseCtl(field string) ([]ctlEvent, bool) {
	if field == "-" {
		return nil, true
	}
	var out []ctlEvent
	rSeen := false
	for _, t := range strings.Split(field, ",") {
		switch {
		case t == "rel":
			out = append(out, ctlEvent{kind: "rel"})
		case t == "s" || t == "of":
			return nil, false
		case strings.HasPrefix(t, "R") || strings.HasPrefix(t, "P"):
			parts := strings.Split(t, "/")
			if parts[0] != "R" && parts[0] != "P" {
				return nil, false
			}
			if parts[0] == "R" && rSeen {
				return nil, false
			}
			rSeen = parts[0] == "R"
			e := ctlEvent{kind: parts[0]}
			for _, wr := range parts[1:] {
				colon := strings.IndexByte(wr, ':')
				dot := strings.IndexByte(wr, '.')
				if colon < 0 || dot < 0 || dot > colon || colon-dot != 2 {
					return nil, false
				}
				k, err := strconv.Atoi(wr[:dot])
				if err != nil || (wr[dot+1] != '0' && wr[dot+1] != '1') {
					return nil, false
				}
				e.inflight = append(e.inflight, inflight{conn: k, dir: int(wr[dot+1] - '0'), data: unhex(wr[colon+1:])})
			}
			out = append(out, e)
		default:
			evs, ok := parseEvents(t, true)
			if !ok || len(evs) != 1 {
				return nil, false
			}
			out = append(out, ctlEvent{kind: "loop", loop: evs[0]})
		}
	}
	return out, true
}

func runCtl(field string) (impl, oracle string) {
	script, ok := parseCtl(field)
	if !ok {
		return "bad-op", ""
	}
	w := newWorld(nil)
	ctl := forwarding.VerifC33NewRunController(ctlProtocol)
	defer ctl.Close()
	src, dst := newCtlEndpoint(w), newCtlEndpoint(w)
	cancelRun, doneRun := ctl.StartRun(src, dst)
	w.await("forwarding loop to start", func() bool { return src.calls >= 1 })

	type generation struct {
		first, end int // pairs of the generation: w.pairs[first:end]
		snaps      []string
	}
	var gens []generation
	base := 0
	var snaps []string
	dstOpens := 0
	settle := func(what string, pred func(open, total, in, out uint64) bool) {
		deadline := time.Now().Add(w.timeout)
		for {
			o, t, i, u := ctl.Counters()
			if pred(o, t, i, u) {
				return
			}
			if time.Now().After(deadline) {
				w.mu.Lock()
				w.anomaly("timeout waiting for counters: %s (open=%d total=%d)", what, o, t)
				w.mu.Unlock()
				return
			}
			time.Sleep(20 * time.Microsecond)
		}
	}
	closedInGen := func() int {
		w.mu.Lock()
		defer w.mu.Unlock()
		n := 0
		for _, p := range w.pairs[base:] {
			if p.bothClosed() {
				n++
			}
		}
		return n
	}
	// addEvent appends a connection event to the world's script and returns its index.
	addEvent := func(e ev) int {
		w.mu.Lock()
		defer w.mu.Unlock()
		w.events = append(w.events, e)
		return len(w.events) - 1
	}
	release := func() {
		w.mu.Lock()
		w.releaseSeq++
		w.changed()
		w.mu.Unlock()
		w.await("writes in flight to return and be audited", func() bool { return w.gatedOutstanding == 0 })
	}
	for si := range script {
		e := &script[si]
		switch e.kind {
		case "rel":
			release()
		case "loop":
			switch e.loop.kind {
			case "open":
				p := w.newPair(len(w.pairs))
				w.mu.Lock()
				w.pairs = append(w.pairs, p)
				w.mu.Unlock()
				dst.ch <- openResult{conn: p.second}
				src.ch <- openResult{conn: p.first}
				dstOpens++
				w.await(fmt.Sprintf("event %d: destination Open", si), func() bool { return dst.opened == dstOpens })
				n := uint64(len(w.pairs) - base)
				settle("total == accepted connections", func(_, t, _, _ uint64) bool { return t == n })
				w.await(fmt.Sprintf("event %d: copies started", si), func() bool { return (p.waiting[0] && p.waiting[1]) || p.bothClosed() })
			case "snap":
				o, t, in, out := ctl.Counters()
				snaps = append(snaps, fmt.Sprintf("%d/%d/%d/%d", o, t, in, out))
			default:
				if e.loop.conn >= len(w.pairs)-base {
					continue
				}
				ce := e.loop
				ce.conn += base
				if w.connEvent(addEvent(ce), w.pairs[ce.conn]) {
					want := uint64(len(w.pairs) - base - closedInGen())
					settle("open == accepted - closed", func(o, _, _, _ uint64) bool { return o == want })
				}
			}
		case "R", "P":
			// 1. the writes in flight: read by the copy goroutine, accepted by the destination, not returning
			for _, f := range e.inflight {
				if f.conn >= len(w.pairs)-base {
					continue
				}
				p := w.pairs[base+f.conn]
				w.mu.Lock()
				skip := p.bothClosed() || p.done[f.dir]
				w.mu.Unlock()
				if skip {
					continue
				}
				idx := addEvent(ev{kind: "chunk", conn: base + f.conn, dir: f.dir, data: f.data, accept: len(f.data), gated: true})
				w.enable(idx)
				w.await(fmt.Sprintf("event %d: write in flight", si), func() bool { return w.taken && (p.gated[f.dir] || len(f.data) == 0) })
				w.disable()
			}
			// 2. teardown and restart
			src2, dst2 := newCtlEndpoint(w), newCtlEndpoint(w)
			if e.kind == "R" {
				theCtlHandler.mu.Lock()
				theCtlHandler.source, theCtlHandler.destination = src2, dst2
				theCtlHandler.mu.Unlock()
				src.ch <- openResult{err: errInjected}
			} else {
				cancelRun()
				select {
				case <-doneRun:
				case <-time.After(w.timeout):
					w.mu.Lock()
					w.anomaly("event %d: run loop did not exit on cancellation", si)
					w.mu.Unlock()
				}
				cancelRun, doneRun = ctl.StartRun(src2, dst2)
			}
			w.await(fmt.Sprintf("event %d: connections of the old loop closed", si), func() bool {
				for _, p := range w.pairs[base:] {
					if !p.bothClosed() {
						return false
					}
				}
				return true
			})
			w.await(fmt.Sprintf("event %d: new forwarding loop to start", si), func() bool { return src2.calls >= 1 })
			gens = append(gens, generation{first: base, end: len(w.pairs), snaps: snaps})
			base, snaps, dstOpens = len(w.pairs), nil, 0
			src, dst = src2, dst2
		}
	}
	release()
	o, t, in, out := ctl.Counters()
	gens = append(gens, generation{first: base, end: len(w.pairs), snaps: snaps})

	// Record the observation before the run loop is stopped (stopping it closes
	// whatever is still open and resets the State).
	w.mu.Lock()
	var parts []string
	for g, gen := range gens {
		parts = append(parts, fmt.Sprintf("g%d", g))
		for k, p := range w.pairs[gen.first:gen.end] {
			parts = append(parts, fmt.Sprintf("c%d=%s/%d/%s/%d/%d/%d", k, hx.Hex(p.first.received), p.first.closeWrites, hx.Hex(p.second.received), p.second.closeWrites, p.first.closed, p.second.closed))
		}
		sn := "-"
		if len(gen.snaps) > 0 {
			sn = strings.Join(gen.snaps, ";")
		}
		parts = append(parts, "snaps="+sn)
	}
	parts = append(parts, fmt.Sprintf("end=%d/%d/%d/%d", o, t, in, out))
	impl = strings.Join(parts, " ")
	var sumIn, sumOut, stillOpen int
	for _, p := range w.pairs[base:] {
		sumIn += len(p.first.received)
		sumOut += len(p.second.received)
		if !p.bothClosed() {
			stillOpen++
		}
	}
	accepted := len(w.pairs) - base
	w.mu.Unlock()

	// End of the case: stop the run loop and unblock whatever is left.
	cancelRun()
	select {
	case <-doneRun:
	case <-time.After(w.timeout):
		w.mu.Lock()
		w.anomaly("run loop did not exit at the end")
		w.mu.Unlock()
	}
	w.release()

	w.mu.Lock()
	defer w.mu.Unlock()
	if len(w.anomalies) > 0 {
		return impl + " anomalies=" + strconv.Itoa(len(w.anomalies)), "class=anomaly " + strings.Join(w.anomalies, "; ")
	}
	// The property on the current loop.
	switch {
	case t != uint64(accepted):
		oracle = fmt.Sprintf("class=total-connections current loop reports %d, accepted %d", t, accepted)
	case in != uint64(sumIn) || out != uint64(sumOut):
		oracle = fmt.Sprintf("class=audit-total current loop reports inbound/outbound %d/%d, its own connections' destinations accepted %d/%d", in, out, sumIn, sumOut)
	case o != uint64(stillOpen):
		oracle = fmt.Sprintf("class=open-connections-not-zero current loop reports %d open, %d of its connections are open", o, stillOpen)
	}
	return impl, oracle
}

// genCtl draws a ctl script: traffic, a boundary with writes in flight, more
// traffic in the next generation, possibly further boundaries; the last
// generation's connections are closed by half-closes so that its open count
// ends at zero.
func genCtl(c *hx.Ctx) string {
	r := c.R
	g := &gen{r: r}
	var evs []string
	opened := 0
	rAllowed := true
	type dirKey struct{ conn, dir int }
	busy := map[dirKey]bool{} // directions that have ended (EOF) in this generation
	traffic := func(n int) {
		for j := 0; j < n; j++ {
			k := r.Intn(100)
			switch {
			case k < 25 || opened == 0:
				evs = append(evs, "o")
				opened++
			case k < 35:
				evs = append(evs, "snap")
			default:
				conn := r.Intn(opened)
				e := g.connEvent(false)
				if strings.HasPrefix(e, "e") {
					if r.Chance(2, 3) {
						continue // keep most directions alive for the writes in flight
					}
					busy[dirKey{conn, int(e[1] - '0')}] = true
				}
				evs = append(evs, fmt.Sprintf("%d.%s", conn, e))
			}
		}
	}
	boundaries := 1 + r.Intn(3)
	for b := 0; b < boundaries; b++ {
		traffic(r.Intn(10))
		kind := "P"
		if rAllowed && r.Chance(1, 2) {
			kind = "R"
		}
		rAllowed = kind == "P"
		tok := kind
		n := r.Intn(4)
		if opened == 0 {
			n = 0
		}
		for j := 0; j < n; j++ {
			tok += fmt.Sprintf("/%d.%d:%s", r.Intn(opened), r.Intn(2), hx.Hex(g.payload()))
		}
		evs = append(evs, tok)
		c.Count("ctl-boundary-" + kind)
		if n > 0 {
			c.Count("ctl-boundary-with-writes-in-flight")
		}
		opened = 0
		busy = map[dirKey]bool{}
		if r.Chance(1, 2) {
			evs = append(evs, "rel")
		}
	}
	traffic(r.Intn(12))
	if r.Chance(1, 2) {
		evs = append(evs, "rel")
	}
	for k := 0; k < opened; k++ {
		evs = append(evs, fmt.Sprintf("%d.e%d", k, k%2), fmt.Sprintf("%d.e%d", k, 1-k%2))
	}
	evs = append(evs, "snap")
	return strings.Join(evs, ",")
}
