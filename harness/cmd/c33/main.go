// C33: forwarded connections relay both directions exactly.
//
// The real forwarding.ForwardAndClose (kind "fac") and the real forwarding loop
// controller.forward (kind "fwd", through the verif-tagged wrapper
// VerifC33Controller) run against in-memory connections that implement
// net.Conn and CloseWrite and whose behaviour is scripted: every Read of a
// source returns the next scripted chunk / EOF / error of its direction, every
// Write of a destination accepts the scripted number of bytes and fails when
// scripted. A director enables the events of the script one at a time, in
// script order, and waits until the real code has fully reacted (the copy
// goroutine is back in Read, CloseWrite was called, both connections were
// closed, the open-connection counter has settled) before it enables the next
// one: the goroutines of the real code run concurrently, yet the outcome is a
// function of the script, which is what the Lean model computes. All waits
// have a timeout; a timeout is reported as an anomaly (and fails the case).
//
// Oracle (independent of the model): per direction the destination received a
// prefix of what the source produced, everything up to the half-close when a
// half-close was forwarded, at most one half-close and only if the source
// half-closed; both connections closed exactly once; auditor totals equal the
// bytes accepted; fault-free scripts relay everything; at the end of a loop
// the open-connection count is zero and the totals add up.
package main

import (
	"bytes"
	"context"
	"errors"
	"fmt"
	"io"
	"net"
	"os"
	"path/filepath"
	"strconv"
	"strings"
	"sync"
	"sync/atomic"
	"time"

	"github.com/mutagen-io/mutagen/pkg/forwarding"

	"verif/harness/hx"
)

// ---------------------------------------------------------------- script

type ev struct {
	kind   string // chunk eof err cancel open openfail stop snap
	conn   int
	dir    int
	data   []byte
	accept int
	werr   bool
	gated  bool // the destination Write accepts everything but returns only when released
}

func (e *ev) failing() bool { return e.kind == "chunk" && (e.werr || e.accept < len(e.data)) }

func unhex(s string) []byte {
	if s == "-" {
		return nil
	}
	b := make([]byte, len(s)/2)
	for i := range b {
		v, _ := strconv.ParseUint(s[2*i:2*i+2], 16, 8)
		b[i] = byte(v)
	}
	return b
}

func parseConnEvent(s string) (ev, bool) {
	p := strings.Split(s, ":")
	switch {
	case len(p) == 1 && s == "c":
		return ev{kind: "cancel"}, true
	case len(p) == 1 && len(s) == 2 && (s[0] == 'e' || s[0] == 'x') && (s[1] == '0' || s[1] == '1'):
		k := "eof"
		if s[0] == 'x' {
			k = "err"
		}
		return ev{kind: k, dir: int(s[1] - '0')}, true
	case len(p) == 4 && len(p[0]) == 2 && p[0][0] == 'r' && (p[0][1] == '0' || p[0][1] == '1'):
		a, err := strconv.Atoi(p[2])
		if err != nil {
			return ev{}, false
		}
		return ev{kind: "chunk", dir: int(p[0][1] - '0'), data: unhex(p[1]), accept: a, werr: p[3] == "1"}, true
	}
	return ev{}, false
}

func parseEvents(field string, loop bool) ([]ev, bool) {
	if field == "-" {
		return nil, true
	}
	var out []ev
	for _, s := range strings.Split(field, ",") {
		if loop {
			switch s {
			case "o":
				out = append(out, ev{kind: "open"})
				continue
			case "of":
				out = append(out, ev{kind: "openfail"})
				continue
			case "s":
				out = append(out, ev{kind: "stop"})
				continue
			case "snap":
				out = append(out, ev{kind: "snap"})
				continue
			}
			dot := strings.IndexByte(s, '.')
			if dot < 0 {
				return nil, false
			}
			k, err := strconv.Atoi(s[:dot])
			if err != nil {
				return nil, false
			}
			e, ok := parseConnEvent(s[dot+1:])
			if !ok || e.kind == "cancel" {
				// the loop has no per-connection cancellation
				return nil, false
			}
			e.conn = k
			out = append(out, e)
			continue
		}
		e, ok := parseConnEvent(s)
		if !ok {
			return nil, false
		}
		out = append(out, e)
	}
	return out, true
}

// ---------------------------------------------------------------- scripted connections

var (
	errClosed   = errors.New("scripted connection closed")
	errInjected = errors.New("scripted failure")
)

type world struct {
	mu        sync.Mutex
	cond      *sync.Cond
	notify    chan struct{}
	events    []ev
	cur       int // index of the enabled event, -1 = none
	taken     bool
	pairs     []*pair
	anomalies []string
	timeout   time.Duration
	// writes in flight (ctl lines): a gated Write returns once releaseSeq has
	// moved on; gatedOutstanding counts gated writes whose copy goroutine has not
	// come back to Read yet (i.e. whose auditor may not have run yet).
	releaseSeq       int
	gatedOutstanding int
}

type pair struct {
	first, second *sconn
	done          [2]bool // the copy goroutine of the direction will not read again
	nilDone       [2]bool // ... because it saw EOF
	waiting       [2]bool // the copy goroutine of the direction is blocked in Read
	gated         [2]bool // a destination Write of the direction is (or was) in flight
}

type sconn struct {
	w                *world
	p                *pair
	index            int
	side             int // 0 = first (incoming), 1 = second (outgoing)
	closed           int
	forced           bool
	closeWrites      int
	received         []byte
	pending          *ev
	writesAfterClose int
}

func newWorld(events []ev) *world {
	w := &world{events: events, cur: -1, notify: make(chan struct{}, 1), timeout: 30 * time.Second}
	w.cond = sync.NewCond(&w.mu)
	return w
}

// changed must be called with the lock held.
func (w *world) changed() {
	w.cond.Broadcast()
	select {
	case w.notify <- struct{}{}:
	default:
	}
}

func (w *world) anomaly(format string, a ...any) {
	w.anomalies = append(w.anomalies, fmt.Sprintf(format, a...))
	if len(w.anomalies) > 2 {
		w.timeout = 20 * time.Millisecond
	}
}

func (w *world) newPair(index int) *pair {
	p := &pair{}
	p.first = &sconn{w: w, p: p, index: index, side: 0}
	p.second = &sconn{w: w, p: p, index: index, side: 1}
	return p
}

func (p *pair) bothClosed() bool { return p.first.closed > 0 && p.second.closed > 0 }

// Read: the connection is the source of direction 1-side.
func (c *sconn) Read(b []byte) (int, error) {
	d := 1 - c.side
	w := c.w
	w.mu.Lock()
	defer w.mu.Unlock()
	for {
		if c.closed > 0 || c.forced {
			c.p.waiting[d] = false
			if c.p.gated[d] {
				// the write in flight has returned and its auditor has run
				c.p.gated[d] = false
				w.gatedOutstanding--
				w.changed()
			}
			return 0, errClosed
		}
		if w.cur >= 0 && !w.taken {
			e := &w.events[w.cur]
			if (e.kind == "chunk" || e.kind == "eof" || e.kind == "err") && e.dir == d && w.pairs[e.conn] == c.p {
				w.taken = true
				c.p.waiting[d] = false
				defer w.changed()
				switch e.kind {
				case "chunk":
					n := copy(b, e.data)
					if n < len(e.data) {
						w.anomaly("read buffer of %d bytes too small for chunk", len(b))
					}
					dst := c.p.first
					if d == 1 {
						dst = c.p.second
					}
					dst.pending = e
					return n, nil
				case "eof":
					c.p.done[d], c.p.nilDone[d] = true, true
					return 0, io.EOF
				default:
					c.p.done[d] = true
					return 0, errInjected
				}
			}
		}
		if !c.p.waiting[d] {
			c.p.waiting[d] = true
			w.changed()
		}
		w.cond.Wait()
	}
}

// Write: the connection is the destination of direction side.
func (c *sconn) Write(b []byte) (int, error) {
	w := c.w
	w.mu.Lock()
	defer w.mu.Unlock()
	defer w.changed()
	if c.closed > 0 || c.forced {
		c.writesAfterClose++
		return 0, errClosed
	}
	if c.closeWrites > 0 {
		w.anomaly("write after CloseWrite on connection %d side %d", c.index, c.side)
	}
	e := c.pending
	c.pending = nil
	if e == nil {
		w.anomaly("unscripted write of %d bytes on connection %d side %d", len(b), c.index, c.side)
		c.received = append(c.received, b...)
		return len(b), nil
	}
	if e.gated {
		c.received = append(c.received, b...)
		c.p.gated[c.side] = true
		c.p.done[c.side] = true
		w.gatedOutstanding++
		seq := w.releaseSeq
		w.changed()
		for w.releaseSeq == seq && !c.forced {
			w.cond.Wait()
		}
		return len(b), nil
	}
	n := e.accept
	if n > len(b) {
		n = len(b)
	}
	c.received = append(c.received, b[:n]...)
	if e.werr || n < len(b) {
		c.p.done[c.side] = true
	}
	if e.werr {
		return n, errInjected
	}
	return n, nil
}

func (c *sconn) CloseWrite() error {
	c.w.mu.Lock()
	defer c.w.mu.Unlock()
	if c.closed > 0 {
		c.w.anomaly("CloseWrite after Close on connection %d side %d", c.index, c.side)
	}
	c.closeWrites++
	c.w.changed()
	return nil
}

func (c *sconn) Close() error {
	c.w.mu.Lock()
	defer c.w.mu.Unlock()
	c.closed++
	c.w.changed()
	return nil
}

type addr struct{}

func (addr) Network() string { return "scripted" }
func (addr) String() string  { return "scripted" }

func (c *sconn) LocalAddr() net.Addr                { return addr{} }
func (c *sconn) RemoteAddr() net.Addr               { return addr{} }
func (c *sconn) SetDeadline(t time.Time) error      { return nil }
func (c *sconn) SetReadDeadline(t time.Time) error  { return nil }
func (c *sconn) SetWriteDeadline(t time.Time) error { return nil }

// await blocks until pred (evaluated under the lock) holds or the timeout expires.
func (w *world) await(what string, pred func() bool) bool {
	deadline := time.Now().Add(w.timeout)
	w.mu.Lock()
	for !pred() {
		w.mu.Unlock()
		remaining := time.Until(deadline)
		if remaining <= 0 {
			w.mu.Lock()
			w.anomaly("timeout waiting for %s", what)
			w.mu.Unlock()
			return false
		}
		t := time.NewTimer(remaining)
		select {
		case <-w.notify:
		case <-t.C:
		}
		t.Stop()
		w.mu.Lock()
	}
	w.mu.Unlock()
	return true
}

func (w *world) enable(i int) {
	w.mu.Lock()
	w.cur, w.taken = i, false
	w.changed()
	w.mu.Unlock()
}

func (w *world) disable() {
	w.mu.Lock()
	w.cur = -1
	w.mu.Unlock()
}

// release unblocks everything that might still be waiting (end of a case).
func (w *world) release() {
	w.mu.Lock()
	for _, p := range w.pairs {
		p.first.forced, p.second.forced = true, true
	}
	w.changed()
	w.mu.Unlock()
}

// connEvent drives one chunk/eof/err event of pair p (index i in the script) and
// reports whether the event terminated the connection.
func (w *world) connEvent(i int, p *pair) (terminal bool) {
	e := &w.events[i]
	w.mu.Lock()
	skip := p.bothClosed() || p.done[e.dir]
	other := p.nilDone[1-e.dir]
	dst := p.first
	if e.dir == 1 {
		dst = p.second
	}
	before := dst.closeWrites
	w.mu.Unlock()
	if skip {
		return false
	}
	w.enable(i)
	defer w.disable()
	name := fmt.Sprintf("event %d (%s dir %d)", i, e.kind, e.dir)
	if !w.await(name+" to be read", func() bool { return w.taken }) {
		return false
	}
	switch {
	case e.kind == "chunk" && !e.failing():
		w.await(name+": copy back in Read", func() bool { return p.waiting[e.dir] || p.bothClosed() })
		return false
	case e.kind == "eof":
		w.await(name+": CloseWrite", func() bool { return dst.closeWrites > before })
		if !other {
			return false
		}
	}
	w.await(name+": both connections closed", func() bool { return p.bothClosed() })
	return true
}

// ---------------------------------------------------------------- ForwardAndClose directly

func showPair(p *pair) (d0, d1 string, cf, cs int) {
	return fmt.Sprintf("%s/%d", hx.Hex(p.first.received), p.first.closeWrites),
		fmt.Sprintf("%s/%d", hx.Hex(p.second.received), p.second.closeWrites), p.first.closed, p.second.closed
}

func runFac(withAuditors bool, events []ev) (impl, oracle string) {
	for i := range events {
		events[i].conn = 0
	}
	w := newWorld(events)
	p := w.newPair(0)
	w.pairs = []*pair{p}
	var a0, a1 atomic.Uint64
	var calls0, calls1 atomic.Uint64
	ctx, cancel := context.WithCancel(context.Background())
	defer cancel()
	done := make(chan struct{})
	go func() {
		if withAuditors {
			forwarding.ForwardAndClose(ctx, p.first, p.second,
				func(n uint64) { a0.Add(n); calls0.Add(1) }, func(n uint64) { a1.Add(n); calls1.Add(1) })
		} else {
			forwarding.ForwardAndClose(ctx, p.first, p.second, nil, nil)
		}
		close(done)
	}()
	for i := range events {
		switch events[i].kind {
		case "cancel":
			w.mu.Lock()
			closed := p.bothClosed()
			w.mu.Unlock()
			if !closed {
				cancel()
				w.await(fmt.Sprintf("event %d (cancel): both connections closed", i), func() bool { return p.bothClosed() })
			}
		case "chunk", "eof", "err":
			w.connEvent(i, p)
		}
	}
	cancel()
	w.await("final cancel: both connections closed", func() bool { return p.bothClosed() })
	select {
	case <-done:
	case <-time.After(w.timeout):
		w.mu.Lock()
		w.anomaly("ForwardAndClose did not return")
		w.mu.Unlock()
	}
	w.release()
	w.mu.Lock()
	defer w.mu.Unlock()
	d0, d1, cf, cs := showPair(p)
	aud := "-"
	if withAuditors {
		aud = fmt.Sprintf("%d/%d", a0.Load(), a1.Load())
	}
	impl = fmt.Sprintf("d0=%s d1=%s closed=%d/%d aud=%s", d0, d1, cf, cs, aud)
	if len(w.anomalies) > 0 {
		impl += " anomalies=" + strconv.Itoa(len(w.anomalies))
		return impl, "class=anomaly " + strings.Join(w.anomalies, "; ")
	}
	oracle = checkPair(events, false, 0, p)
	if oracle == "" && withAuditors && (a0.Load() != uint64(len(p.first.received)) || a1.Load() != uint64(len(p.second.received))) {
		oracle = fmt.Sprintf("class=audit-total audited %d/%d, accepted %d/%d", a0.Load(), a1.Load(), len(p.first.received), len(p.second.received))
	}
	return impl, oracle
}

// checkPair: the property's predicates on one connection.
func checkPair(events []ev, loop bool, index int, p *pair) string {
	faultFree := true
	var sent, beforeEOF [2][]byte
	var sawEOF [2]bool
	accepted, stopped := 0, false
	for _, e := range events {
		switch e.kind {
		case "open":
			if !stopped {
				accepted++
			}
			continue
		case "snap":
			continue
		case "openfail", "stop":
			faultFree = false
			stopped = true
			continue
		}
		if e.kind != "cancel" && (stopped || (loop && e.conn >= accepted)) {
			continue // addressed to a connection that does not exist (yet) or after the loop ended
		}
		if e.kind == "cancel" && index == 0 {
			faultFree = false
		}
		if e.conn != index {
			continue
		}
		switch e.kind {
		case "chunk":
			sent[e.dir] = append(sent[e.dir], e.data...)
			if !sawEOF[e.dir] {
				beforeEOF[e.dir] = append(beforeEOF[e.dir], e.data...)
			}
			if e.failing() {
				faultFree = false
			}
		case "eof":
			sawEOF[e.dir] = true
		case "err", "cancel":
			faultFree = false
		}
	}
	conns := [2]*sconn{p.first, p.second}
	for d := 0; d < 2; d++ {
		got := conns[d].received
		if !bytes.HasPrefix(sent[d], got) {
			return fmt.Sprintf("class=relay-not-exact connection %d direction %d delivered %x, source produced %x", index, d, got, sent[d])
		}
		if conns[d].closeWrites > 1 || (conns[d].closeWrites == 1 && !sawEOF[d]) {
			return fmt.Sprintf("class=half-close connection %d direction %d: %d CloseWrite calls, source half-closed: %v", index, d, conns[d].closeWrites, sawEOF[d])
		}
		if conns[d].closeWrites == 1 && !bytes.Equal(got, beforeEOF[d]) {
			return fmt.Sprintf("class=relay-not-exact connection %d direction %d half-closed after %x, source produced %x", index, d, got, beforeEOF[d])
		}
		if faultFree && sawEOF[0] && sawEOF[1] && (conns[d].closeWrites != 1 || !bytes.Equal(got, beforeEOF[d])) {
			return fmt.Sprintf("class=relay-not-exact fault-free connection %d direction %d: delivered %x + %d half-closes, want %x + 1", index, d, got, conns[d].closeWrites, beforeEOF[d])
		}
		if conns[d].writesAfterClose > 0 {
			return fmt.Sprintf("class=write-after-close connection %d direction %d", index, d)
		}
	}
	if p.first.closed != 1 || p.second.closed != 1 {
		return fmt.Sprintf("class=not-closed-once connection %d: Close calls %d/%d", index, p.first.closed, p.second.closed)
	}
	return ""
}

// ---------------------------------------------------------------- the controller's forwarding loop

type openResult struct {
	conn net.Conn
	err  error
}

type endpoint struct {
	w      *world
	ch     chan openResult
	opened int
}

func (e *endpoint) TransportErrors() <-chan error { return nil }
func (e *endpoint) Shutdown() error                { return nil }
func (e *endpoint) Open() (net.Conn, error) {
	r := <-e.ch
	e.w.mu.Lock()
	e.opened++
	e.w.changed()
	e.w.mu.Unlock()
	return r.conn, r.err
}

func runFwd(events []ev) (impl, oracle string) {
	w := newWorld(events)
	ctl := forwarding.VerifC33NewController()
	defer ctl.Close()
	src := &endpoint{w: w, ch: make(chan openResult, 1)}
	dst := &endpoint{w: w, ch: make(chan openResult, 1)}
	fwdDone := make(chan struct{})
	returned := false
	go func() {
		ctl.Forward(src, dst)
		w.mu.Lock()
		returned = true
		w.changed()
		w.mu.Unlock()
		close(fwdDone)
	}()
	settle := func(what string, pred func(open, total, in, out uint64) bool) {
		deadline := time.Now().Add(w.timeout)
		for {
			o, t, i, u := ctl.Counters()
			if pred(o, t, i, u) {
				return
			}
			if time.Now().After(deadline) {
				w.mu.Lock()
				w.anomaly("timeout waiting for counters: %s (open=%d total=%d)", what, o, t)
				w.mu.Unlock()
				return
			}
			time.Sleep(20 * time.Microsecond)
		}
	}
	closedPairs := func() int {
		w.mu.Lock()
		defer w.mu.Unlock()
		n := 0
		for _, p := range w.pairs {
			if p.bothClosed() {
				n++
			}
		}
		return n
	}
	var orphan *sconn
	stopped := false
	srcOpens, dstOpens := 0, 0
	var snaps []string
	stop := func(i int, withOrphan bool) {
		if withOrphan {
			orphan = &sconn{w: w, p: &pair{}, index: -1}
			dst.ch <- openResult{err: errInjected}
			src.ch <- openResult{conn: orphan}
			srcOpens++
			dstOpens++
			w.await(fmt.Sprintf("event %d: destination Open", i), func() bool { return dst.opened == dstOpens })
		} else {
			src.ch <- openResult{err: errInjected}
			srcOpens++
		}
		w.await(fmt.Sprintf("event %d: forward to return", i), func() bool { return returned })
		w.await(fmt.Sprintf("event %d: all connections closed", i), func() bool {
			for _, p := range w.pairs {
				if !p.bothClosed() {
					return false
				}
			}
			return orphan == nil || orphan.closed > 0
		})
		settle("open == 0 after stop", func(o, _, _, _ uint64) bool { return o == 0 })
		stopped = true
	}
	for i := range events {
		e := &events[i]
		switch e.kind {
		case "open":
			if stopped {
				continue
			}
			p := w.newPair(len(w.pairs))
			w.mu.Lock()
			w.pairs = append(w.pairs, p)
			w.mu.Unlock()
			dst.ch <- openResult{conn: p.second}
			src.ch <- openResult{conn: p.first}
			srcOpens++
			dstOpens++
			w.await(fmt.Sprintf("event %d: destination Open", i), func() bool { return dst.opened == dstOpens })
			n := uint64(len(w.pairs))
			settle("total == accepted connections", func(_, t, _, _ uint64) bool { return t == n })
			// Both copy goroutines must have reached Read before the script goes on.
			w.await(fmt.Sprintf("event %d: copies started", i), func() bool { return (p.waiting[0] && p.waiting[1]) || p.bothClosed() })
		case "openfail":
			if !stopped {
				stop(i, true)
			}
		case "stop":
			if !stopped {
				stop(i, false)
			}
		case "snap":
			o, t, in, out := ctl.Counters()
			snaps = append(snaps, fmt.Sprintf("%d/%d/%d/%d", o, t, in, out))
		default:
			if stopped || e.conn >= len(w.pairs) {
				continue
			}
			if w.connEvent(i, w.pairs[e.conn]) {
				want := uint64(len(w.pairs) - closedPairs())
				settle("open == accepted - closed", func(o, _, _, _ uint64) bool { return o == want })
			}
		}
	}
	if !stopped {
		stop(len(events), false)
	}
	select {
	case <-fwdDone:
	case <-time.After(w.timeout):
	}
	w.release()
	o, t, in, out := ctl.Counters()
	w.mu.Lock()
	defer w.mu.Unlock()
	var parts []string
	var sumIn, sumOut int
	for k, p := range w.pairs {
		parts = append(parts, fmt.Sprintf("c%d=%s/%d/%s/%d/%d/%d", k, hx.Hex(p.first.received), p.first.closeWrites, hx.Hex(p.second.received), p.second.closeWrites, p.first.closed, p.second.closed))
		sumIn += len(p.first.received)
		sumOut += len(p.second.received)
	}
	orphanClosed := 0
	if orphan != nil {
		orphanClosed = orphan.closed
	}
	sn := "-"
	if len(snaps) > 0 {
		sn = strings.Join(snaps, ";")
	}
	parts = append(parts, fmt.Sprintf("orphan=%d", orphanClosed), "snaps="+sn, fmt.Sprintf("end=%d/%d/%d/%d", o, t, in, out))
	impl = strings.Join(parts, " ")
	if len(w.anomalies) > 0 {
		return impl + " anomalies=" + strconv.Itoa(len(w.anomalies)), "class=anomaly " + strings.Join(w.anomalies, "; ")
	}
	for k, p := range w.pairs {
		if v := checkPair(events, true, k, p); v != "" {
			return impl, v
		}
	}
	switch {
	case o != 0:
		oracle = fmt.Sprintf("class=open-connections-not-zero %d", o)
	case t != uint64(len(w.pairs)):
		oracle = fmt.Sprintf("class=total-connections %d, accepted %d", t, len(w.pairs))
	case in != uint64(sumIn) || out != uint64(sumOut):
		oracle = fmt.Sprintf("class=audit-total inbound/outbound %d/%d, accepted %d/%d", in, out, sumIn, sumOut)
	case orphan != nil && orphan.closed != 1:
		oracle = fmt.Sprintf("class=not-closed-once orphaned incoming connection closed %d times", orphan.closed)
	}
	return impl, oracle
}

func runCase(line string) (string, string) {
	f := strings.Fields(line)
	switch {
	case len(f) == 3 && f[0] == "fac":
		events, ok := parseEvents(f[2], false)
		if !ok {
			return "bad-op", ""
		}
		return runFac(f[1] == "1", events)
	case len(f) == 2 && f[0] == "fwd":
		events, ok := parseEvents(f[1], true)
		if !ok {
			return "bad-op", ""
		}
		return runFwd(events)
	case len(f) == 2 && f[0] == "ctl":
		return runCtl(f[1])
	case len(f) == 5 && f[0] == "sock" && (f[1] == "unix" || f[1] == "tcp"):
		return runSock(f[1], f[2], unhex(f[3]), unhex(f[4]))
	}
	return "bad-op", ""
}

// ---------------------------------------------------------------- generators

type gen struct {
	r    *hx.Rand
	next byte
}

func (g *gen) payload() []byte {
	n := 1 + g.r.Intn(6)
	if g.r.Chance(1, 20) {
		n = 20 + g.r.Intn(200)
	}
	b := make([]byte, n)
	for i := range b {
		g.next++
		b[i] = g.next
	}
	return b
}

func (g *gen) connEvent(faulty bool) string {
	r := g.r
	d := r.Intn(2)
	k := r.Intn(100)
	switch {
	case k < 62 || (!faulty && k < 80):
		data := g.payload()
		accept, werr := len(data), 0
		if faulty && r.Chance(1, 8) {
			accept = r.Intn(len(data) + 1)
			if accept == len(data) || r.Chance(1, 2) {
				werr = 1
			}
		}
		return fmt.Sprintf("r%d:%s:%d:%d", d, hx.Hex(data), accept, werr)
	case k < 88 || !faulty:
		return fmt.Sprintf("e%d", d)
	case k < 95:
		return fmt.Sprintf("x%d", d)
	default:
		return "c"
	}
}

func main() {
	hx.Main("C33", func(c *hx.Ctx) {
		// Anomalies (time-outs) are expensive: once enough failing inputs have been
		// recorded the remaining cases of the run are skipped.
		anomalies := 0
		emit := func(line string) {
			if anomalies >= 12 {
				c.Count("skipped-after-anomalies")
				return
			}
			var oracle string
			impl := hx.Try(func() string {
				i, o := runCase(line)
				oracle = o
				return i
			})
			if strings.HasPrefix(impl, "panic:") {
				oracle = "class=panic " + impl
			}
			if strings.HasPrefix(oracle, "class=anomaly") {
				anomalies++
			}
			c.Case(line, impl, oracle, impl)
		}
		if lines := c.ReplayLines(); lines != nil {
			for _, l := range lines {
				emit(l)
			}
			return
		}
		sockDir = os.Getenv("VERIF_OUT")
		if sockDir == "" {
			sockDir = c.Dir
		}
		sockDir, _ = filepath.Abs(filepath.Join(sockDir, "c33-sockets"))
		os.RemoveAll(sockDir)
		os.MkdirAll(sockDir, 0o700)
		defer os.RemoveAll(sockDir)
		// 0. Real sockets (unix-domain and TCP loopback): timing-independent scenarios.
		for i := 0; i < c.Size(600, 6000); i++ {
			size := func() int {
				switch c.R.Intn(6) {
				case 0:
					return 0
				case 1:
					return 1 + c.R.Intn(4)
				case 2:
					return 30000 + c.R.Intn(70000) // larger than io.Copy's buffer
				}
				return 1 + c.R.Intn(300)
			}
			kind := c.R.Pick("unix", "tcp")
			mode := c.R.Pick("ab", "ba", "cancel")
			emit(fmt.Sprintf("sock %s %s %s %s", kind, mode, hx.Hex(c.R.Bytes(size(), 0)), hx.Hex(c.R.Bytes(size(), 0))))
			c.Count("sock-" + kind + "-" + mode)
		}
		// 0b. controller.run across loop generations (teardown + restart with writes in flight).
		for i := 0; i < c.Size(1200, 30000); i++ {
			emit("ctl " + genCtl(c))
		}
		// 1. ForwardAndClose, exhaustive: all scripts up to length L over a small alphabet.
		alphabet := []string{"r0:a1a2:2:0", "r1:b1:1:0", "r0:c1c2c3:1:0", "r1:d1d2:2:1", "r1:d3d4:0:1", "e0", "e1", "x0", "x1", "c"}
		L := c.Size(3, 4)
		var rec func(prefix []string, depth int)
		rec = func(prefix []string, depth int) {
			body := "-"
			if len(prefix) > 0 {
				body = strings.Join(prefix, ",")
			}
			emit(fmt.Sprintf("fac %d %s", len(prefix)%2, body))
			c.Count("fac-exhaustive")
			if depth == 0 {
				return
			}
			for _, a := range alphabet {
				rec(append(append([]string(nil), prefix...), a), depth-1)
			}
		}
		rec(nil, L)
		// 2. ForwardAndClose, random.
		for i := 0; i < c.Size(5000, 100000); i++ {
			g := &gen{r: c.R}
			faulty := c.R.Chance(1, 2)
			n := c.R.Intn(14)
			evs := make([]string, n)
			for j := range evs {
				evs[j] = g.connEvent(faulty)
			}
			if !faulty {
				// fault-free scripts end with both half-closes (in either order)
				if c.R.Chance(1, 2) {
					evs = append(evs, "e0", "e1")
				} else {
					evs = append(evs, "e1", "e0")
				}
				c.Count("fac-fault-free")
			} else {
				c.Count("fac-faulty")
			}
			body := "-"
			if len(evs) > 0 {
				body = strings.Join(evs, ",")
			}
			emit(fmt.Sprintf("fac %d %s", c.R.Intn(2), body))
		}
		// 3. The forwarding loop: many concurrent connections.
		for i := 0; i < c.Size(4000, 60000); i++ {
			g := &gen{r: c.R}
			faulty := c.R.Chance(2, 3)
			n := c.R.Intn(40)
			opened := 0
			var evs []string
			for j := 0; j < n; j++ {
				k := c.R.Intn(100)
				switch {
				case k < 15 || opened == 0:
					evs = append(evs, "o")
					opened++
				case k < 20:
					evs = append(evs, "snap")
				case k < 22 && faulty:
					evs = append(evs, c.R.Pick("s", "of"))
				default:
					conn := c.R.Intn(opened)
					if c.R.Chance(1, 30) {
						conn = opened + c.R.Intn(2) // not (yet) accepted
					}
					e := g.connEvent(faulty)
					if e == "c" {
						e = "x" + strconv.Itoa(c.R.Intn(2))
					}
					evs = append(evs, fmt.Sprintf("%d.%s", conn, e))
				}
			}
			if !faulty {
				for k := 0; k < opened; k++ {
					evs = append(evs, fmt.Sprintf("%d.e%d", k, k%2), fmt.Sprintf("%d.e%d", k, 1-k%2))
				}
				evs = append(evs, "snap")
				c.Count("fwd-fault-free")
			} else {
				c.Count("fwd-faulty")
			}
			c.Count(fmt.Sprintf("fwd-connections-%02d", opened))
			body := "-"
			if len(evs) > 0 {
				body = strings.Join(evs, ",")
			}
			emit("fwd " + body)
		}
	})
}
