package main

// Real sockets: ForwardAndClose between two kernel socket pairs (unix-domain
// or TCP loopback), so that half-close, closure and io.Copy's fast paths are
// those of real net.Conn implementations. Only scenarios whose observation
// does not depend on timing are generated: peer A talks to the forwarder's
// `first` connection, peer B to its `second` connection.
//
//	sock <unix|tcp> <ab|ba|cancel> <hex A's payload> <hex B's payload>
//
//	ab / ba : both peers send their payload and half-close, A first / B first
//	          (the second peer half-closes only after it has seen the first
//	          peer's EOF);
//	cancel  : A sends and half-closes, B sends but keeps its side open; once
//	          everything has arrived the context is cancelled.
//
// Answer: `ab=<bytes B received>/<B saw EOF> ba=<bytes A received>/<A saw EOF
// before the end> closed=<A's stream ended>/<B's stream ended> aud=<first>/<second>`.

import (
	"context"
	"fmt"
	"io"
	"net"
	"os"
	"path/filepath"
	"sync"
	"sync/atomic"
	"time"

	"github.com/mutagen-io/mutagen/pkg/forwarding"

	"verif/harness/hx"
)

var (
	sockDir string
	sockSeq atomic.Uint64
)

// connPair returns two connected kernel sockets.
func connPair(kind string) (net.Conn, net.Conn, error) {
	var l net.Listener
	var err error
	if kind == "unix" {
		path := filepath.Join(sockDir, fmt.Sprintf("s%d", sockSeq.Add(1)))
		os.Remove(path)
		l, err = net.Listen("unix", path)
		defer os.Remove(path)
	} else {
		l, err = net.Listen("tcp", "127.0.0.1:0")
	}
	if err != nil {
		return nil, nil, err
	}
	defer l.Close()
	type res struct {
		c   net.Conn
		err error
	}
	ch := make(chan res, 1)
	go func() {
		c, err := l.Accept()
		ch <- res{c, err}
	}()
	c1, err := net.Dial(l.Addr().Network(), l.Addr().String())
	if err != nil {
		return nil, nil, err
	}
	r := <-ch
	if r.err != nil {
		c1.Close()
		return nil, nil, r.err
	}
	return c1, r.c, nil
}

// peerReader collects what a peer receives.
type peerReader struct {
	mu    sync.Mutex
	data  []byte
	eof   bool // the stream ended (EOF or error)
	clean bool // ... with io.EOF
	ch    chan struct{}
}

func readPeer(c net.Conn) *peerReader {
	p := &peerReader{ch: make(chan struct{}, 1)}
	go func() {
		buf := make([]byte, 4096)
		for {
			n, err := c.Read(buf)
			p.mu.Lock()
			p.data = append(p.data, buf[:n]...)
			if err != nil {
				p.eof, p.clean = true, err == io.EOF
			}
			p.mu.Unlock()
			select {
			case p.ch <- struct{}{}:
			default:
			}
			if err != nil {
				return
			}
		}
	}()
	return p
}

func (p *peerReader) wait(timeout time.Duration, pred func() bool) bool {
	deadline := time.Now().Add(timeout)
	for {
		p.mu.Lock()
		ok := pred()
		p.mu.Unlock()
		if ok {
			return true
		}
		remaining := time.Until(deadline)
		if remaining <= 0 {
			return false
		}
		t := time.NewTimer(remaining)
		select {
		case <-p.ch:
		case <-t.C:
		}
		t.Stop()
	}
}

// ended reports whether the stream has ended (cleanly, if requested).
func (p *peerReader) ended(clean bool) bool {
	p.mu.Lock()
	defer p.mu.Unlock()
	return p.eof && (p.clean || !clean)
}

type closeWriter interface{ CloseWrite() error }

func sendAll(c net.Conn, data []byte, r *hx.Rand) error {
	for len(data) > 0 {
		n := len(data)
		if n > 1 && r.Chance(1, 2) {
			n = 1 + r.Intn(n)
		}
		if _, err := c.Write(data[:n]); err != nil {
			return err
		}
		data = data[n:]
	}
	return nil
}

func runSock(kind, mode string, pa, pb []byte) (impl, oracle string) {
	const timeout = 2 * time.Second
	a, first, err := connPair(kind)
	if err != nil {
		return "setup-error", "class=setup " + err.Error()
	}
	second, b, err := connPair(kind)
	if err != nil {
		return "setup-error", "class=setup " + err.Error()
	}
	defer a.Close()
	defer b.Close()
	var aud0, aud1 atomic.Uint64
	ctx, cancel := context.WithCancel(context.Background())
	defer cancel()
	done := make(chan struct{})
	go func() {
		forwarding.ForwardAndClose(ctx, first, second, func(n uint64) { aud0.Add(n) }, func(n uint64) { aud1.Add(n) })
		close(done)
	}()
	ra, rb := readPeer(a), readPeer(b)
	split := hx.NewRand(uint64(len(pa))*131 + uint64(len(pb)))
	var problems []string
	note := func(format string, args ...any) { problems = append(problems, fmt.Sprintf(format, args...)) }
	send := func(c net.Conn, data []byte, halfClose bool, who string) {
		if err := sendAll(c, data, split); err != nil {
			note("%s: write: %v", who, err)
		}
		if halfClose {
			if err := c.(closeWriter).CloseWrite(); err != nil {
				note("%s: CloseWrite: %v", who, err)
			}
		}
	}
	aEOFBeforeEnd := false
	switch mode {
	case "ab":
		send(a, pa, true, "A")
		if !rb.wait(timeout, func() bool { return rb.eof }) {
			note("B did not see A's half-close")
		}
		send(b, pb, true, "B")
		if !ra.wait(timeout, func() bool { return ra.eof }) {
			note("A did not see B's half-close")
		}
		aEOFBeforeEnd = ra.ended(true)
	case "ba":
		send(b, pb, true, "B")
		if !ra.wait(timeout, func() bool { return ra.eof }) {
			note("A did not see B's half-close")
		}
		aEOFBeforeEnd = ra.ended(true)
		send(a, pa, true, "A")
		if !rb.wait(timeout, func() bool { return rb.eof }) {
			note("B did not see A's half-close")
		}
	case "cancel":
		send(a, pa, true, "A")
		send(b, pb, false, "B")
		if !rb.wait(timeout, func() bool { return rb.eof }) {
			note("B did not see A's half-close")
		}
		if !ra.wait(timeout, func() bool { return len(ra.data) >= len(pb) || ra.eof }) {
			note("A did not receive B's payload")
		}
		aEOFBeforeEnd = ra.ended(false)
		cancel()
	default:
		return "bad-op", ""
	}
	select {
	case <-done:
	case <-time.After(timeout):
		note("ForwardAndClose did not return")
	}
	// After the return both forwarder-side sockets are closed: both peers' streams end.
	ra.wait(timeout, func() bool { return ra.eof })
	rb.wait(timeout, func() bool { return rb.eof })
	// The auditor of a copy that was interrupted by the cancellation may still be
	// about to run: give the totals a moment to reach what the peers received.
	for settleDeadline := time.Now().Add(200 * time.Millisecond); time.Now().Before(settleDeadline); {
		ra.mu.Lock()
		rb.mu.Lock()
		settled := aud0.Load() == uint64(len(ra.data)) && aud1.Load() == uint64(len(rb.data))
		rb.mu.Unlock()
		ra.mu.Unlock()
		if settled {
			break
		}
		time.Sleep(50 * time.Microsecond)
	}
	ra.mu.Lock()
	rb.mu.Lock()
	defer ra.mu.Unlock()
	defer rb.mu.Unlock()
	b2i := func(v bool) int {
		if v {
			return 1
		}
		return 0
	}
	impl = fmt.Sprintf("ab=%s/%d ba=%s/%d closed=%d/%d aud=%d/%d", hx.Hex(rb.data), b2i(rb.eof && rb.clean), hx.Hex(ra.data), b2i(aEOFBeforeEnd),
		b2i(ra.eof), b2i(rb.eof), aud0.Load(), aud1.Load())
	switch {
	case len(problems) > 0:
		oracle = "class=anomaly " + fmt.Sprint(problems)
	case string(rb.data) != string(pa) || string(ra.data) != string(pb):
		oracle = fmt.Sprintf("class=relay-not-exact B got %x (A sent %x), A got %x (B sent %x)", rb.data, pa, ra.data, pb)
	case !(rb.eof && rb.clean):
		oracle = "class=half-close A's half-close did not reach B"
	case mode != "cancel" && !aEOFBeforeEnd:
		oracle = "class=half-close B's half-close did not reach A"
	case mode == "cancel" && aEOFBeforeEnd:
		oracle = "class=half-close A saw an end of stream although B never half-closed"
	case !ra.eof || !rb.eof:
		oracle = "class=not-closed-once a peer's stream did not end after ForwardAndClose returned"
	case aud0.Load() != uint64(len(pb)) || aud1.Load() != uint64(len(pa)):
		oracle = fmt.Sprintf("class=audit-total audited %d/%d, relayed %d/%d", aud0.Load(), aud1.Load(), len(pb), len(pa))
	}
	return impl, oracle
}
