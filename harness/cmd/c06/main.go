// C06: every path receives at most one action and conflicts are well formed.
//
// Cases are (ancestor, alpha, beta) triples under every mode. The real
// core.Reconcile's plan is printed canonically for comparison with the Lean
// model; the oracle:
//   - the paths of alpha changes, beta changes and conflict roots are pairwise
//     incomparable (no path twice, no path together with a descendant, on the
//     same or opposite endpoints, change vs conflict);
//   - every conflict has changes on both endpoints, all at/below its root,
//     passes Conflict.EnsureValid (also after Slim), and is rooted at a path
//     where the endpoints disagree.
package main

import (
	"github.com/mutagen-io/mutagen/pkg/synchronization/core"

	"verif/harness/corex"
	"verif/harness/hx"
)

func main() {
	hx.Main("C06", func(c *hx.Ctx) {
		cfg := corex.StreamCfg{
			Modes:  corex.AllModes,
			Stride: c.Size(4, 1),
			Random: c.Size(2500, 300000),
			Opts:   hx.TreeOpts{Unsync: true, Phantom: false, MaxDepth: c.Size(5, 7), MaxKids: 4},
		}
		corex.RunReconcileCases(c,
			func(emit func(string, *core.Entry, *core.Entry, *core.Entry), raw func(string)) {
				corex.Triples(c, cfg, emit)
				cfg2 := cfg
				cfg2.Stride, cfg2.Random = 1<<30, c.Size(300, 30000)
				cfg2.Opts.Phantom = true
				corex.Triples(c, cfg2, emit)
				// Conflict.EnsureValid / Slim on real conflicts and on damaged ones
				// (an empty side, an invalid entry inside a change).
				mo := hx.TreeOpts{Unsync: true, Phantom: true, MaxDepth: 2, MaxKids: 2}
				for i := 0; i < c.Size(20000, 300000); i++ {
					a, al, be := hx.GenTriple(c.R, cfg.Opts)
					m, _ := hx.ModeByName(c.R.Pick(corex.AllModes...))
					p := corex.Reconcile(a, al, be, m)
					for _, cf := range p.Conflicts {
						cf = &core.Conflict{Root: cf.Root, AlphaChanges: cf.AlphaChanges, BetaChanges: cf.BetaChanges}
						switch c.R.Intn(6) {
						case 0:
							cf.AlphaChanges = nil
						case 1:
							cf.BetaChanges = nil
						case 2:
							cf.AlphaChanges = append([]*core.Change{{Path: cf.Root, New: hx.GenMalformed(c.R, mo)}}, cf.AlphaChanges...)
						case 3:
							cf.BetaChanges = append(append([]*core.Change{}, cf.BetaChanges...), &core.Change{Path: cf.Root, Old: hx.GenMalformed(c.R, mo)})
						}
						raw("cfvalid " + hx.EncConflict(cf))
					}
				}
			},
			func(t *corex.Triple, p *corex.Plan) string {
				return corex.First(
					"overlapping-actions", corex.Incomparable(p),
					"malformed-conflict", corex.ConflictsWellFormed(t, p),
				)
			})
	})
}
