// C06: every path receives at most one action and conflicts are well formed.
//
// Cases are (ancestor, alpha, beta) triples under every mode. The real
// core.Reconcile's plan is printed canonically for comparison with the Lean
// model; the oracle:
//   - the paths of alpha changes, beta changes and conflict roots are pairwise
//     incomparable (no path twice, no path together with a descendant, on the
//     same or opposite endpoints, change vs conflict);
//   - every conflict has changes on both endpoints, all at/below its root,
//     passes Conflict.EnsureValid (also after Slim), and is rooted at a path
//     where the endpoints disagree.
package main

import (
	"github.com/mutagen-io/mutagen/pkg/synchronization/core"

	"verif/harness/corex"
	"verif/harness/hx"
)

func main() {
	hx.Main("C06", func(c *hx.Ctx) {
		cfg := corex.StreamCfg{
			Modes:  corex.AllModes,
			Stride: c.Size(4, 1),
			Random: c.Size(2500, 300000),
			Opts:   hx.TreeOpts{Unsync: true, Phantom: false, MaxDepth: c.Size(5, 7), MaxKids: 4},
		}
		corex.RunReconcileCases(c,
			func(emit func(string, *core.Entry, *core.Entry, *core.Entry)) {
				corex.Triples(c, cfg, emit)
				cfg2 := cfg
				cfg2.Stride, cfg2.Random = 1<<30, c.Size(300, 30000)
				cfg2.Opts.Phantom = true
				corex.Triples(c, cfg2, emit)
			},
			func(t *corex.Triple, p *corex.Plan) string {
				return corex.First(
					"overlapping-actions", corex.Incomparable(p),
					"malformed-conflict", corex.ConflictsWellFormed(t, p),
				)
			})
	})
}
