// C34: version and magic-number handshakes agree on both sides.
//
// Single-side cases run the real handshake functions against a scripted
// stream (the bytes the peer delivers, then EOF; optionally a transport that
// stops accepting writes), two-party cases run the real client against the
// real server through a channel with one in-transit fault per direction.
// The oracle is written directly from the property: a side accepts exactly
// when what it received starts with the peer's magic number followed by the
// big-endian encoding of its own version triple (and its own writes went
// through).
package main

import (
	"bytes"
	"encoding/binary"
	"errors"
	"fmt"
	"io"
	"strconv"
	"strings"
	"sync"
	"time"

	"github.com/mutagen-io/mutagen/pkg/agent"
	"github.com/mutagen-io/mutagen/pkg/mutagen"

	"verif/harness/hx"
)

var errWrite = errors.New("transport write error")

// scriptStream delivers `in` in random fragments, then EOF; accepts `wcap`
// bytes of writes in total (-1: unlimited), then fails.
type scriptStream struct {
	in   []byte
	pos  int
	wcap int
	sent []byte
	r    *hx.Rand
}

func (s *scriptStream) Read(p []byte) (int, error) {
	if len(p) == 0 {
		return 0, nil
	}
	rest := len(s.in) - s.pos
	if rest == 0 {
		return 0, io.EOF
	}
	n := len(p)
	if n > rest {
		n = rest
	}
	n = 1 + s.r.Intn(n)
	copy(p, s.in[s.pos:s.pos+n])
	s.pos += n
	return n, nil
}

func (s *scriptStream) Write(p []byte) (int, error) {
	if s.wcap < 0 {
		s.sent = append(s.sent, p...)
		return len(p), nil
	}
	if len(p) <= s.wcap {
		s.sent = append(s.sent, p...)
		s.wcap -= len(p)
		return len(p), nil
	}
	n := s.wcap
	s.sent = append(s.sent, p[:n]...)
	s.wcap = 0
	return n, errWrite
}

func (s *scriptStream) Close() error { return nil }

func errClass(err error) string {
	switch {
	case err == nil:
		return "ok"
	case errors.Is(err, errWrite):
		return "werr"
	case errors.Is(err, io.ErrUnexpectedEOF):
		return "ueof"
	case errors.Is(err, io.EOF):
		return "eof"
	default:
		return "reject"
	}
}

// The call sites: agent.connect (client) and mutagen-agent (server).
func clientConnect(s io.ReadWriteCloser) error {
	if err := agent.ClientHandshake(s); err != nil {
		return err
	}
	return mutagen.ClientVersionHandshake(s)
}

func serverConnect(s io.ReadWriteCloser) error {
	if err := agent.ServerHandshake(s); err != nil {
		return err
	}
	return mutagen.ServerVersionHandshake(s)
}

func fnOf(name string) func(io.ReadWriteCloser) error {
	switch name {
	case "c":
		return clientConnect
	case "s":
		return serverConnect
	case "cm":
		return func(s io.ReadWriteCloser) error { return agent.ClientHandshake(s) }
	case "sm":
		return func(s io.ReadWriteCloser) error { return agent.ServerHandshake(s) }
	case "cv":
		return mutagen.ClientVersionHandshake
	case "sv":
		return mutagen.ServerVersionHandshake
	}
	return nil
}

// Specification side ------------------------------------------------------------

func versionWire() []byte {
	b := make([]byte, 12)
	binary.BigEndian.PutUint32(b[0:], mutagen.VersionMajor)
	binary.BigEndian.PutUint32(b[4:], mutagen.VersionMinor)
	binary.BigEndian.PutUint32(b[8:], mutagen.VersionPatch)
	return b
}

// expectations returns what function `fn` must receive to accept, and what it
// sends when it accepts.
func expectations(fn string) (recv, send []byte) {
	sm, cm := agent.VerifC34MagicNumbers()
	v := versionWire()
	switch fn {
	case "c":
		return append(sm[:], v...), append(cm[:], v...)
	case "s":
		return append(cm[:], v...), append(sm[:], v...)
	case "cm":
		return sm[:], cm[:]
	case "sm":
		return cm[:], sm[:]
	default: // cv, sv
		return v, v
	}
}

// sideOracle is the property's predicate for one side.
func sideOracle(fn string, in []byte, wcap int, verdict string, sent []byte, consumed int) string {
	recv, send := expectations(fn)
	good := len(in) >= len(recv) && bytes.Equal(in[:len(recv)], recv)
	canWrite := wcap < 0 || wcap >= len(send)
	accepted := verdict == "ok"
	if accepted && !good {
		return fmt.Sprintf("class=accepted-bad-handshake %s accepted %x (expects %x)", fn, in, recv)
	}
	if accepted && !canWrite {
		return fmt.Sprintf("class=accepted-despite-write-failure %s wcap=%d", fn, wcap)
	}
	if !accepted && good && canWrite {
		return fmt.Sprintf("class=rejected-good-handshake %s rejected %x with %s", fn, in, verdict)
	}
	if accepted && (!bytes.Equal(sent, send) || consumed != len(recv)) {
		return fmt.Sprintf("class=bad-exchange %s accepted but sent %x (want %x), consumed %d (want %d)", fn, sent, send, consumed, len(recv))
	}
	// Whatever happens, a side only ever sends a prefix of its own handshake,
	// and never reads past the peer's handshake.
	if !bytes.HasPrefix(send, sent) {
		return fmt.Sprintf("class=bad-exchange %s sent %x, not a prefix of %x", fn, sent, send)
	}
	if consumed > len(recv) {
		return fmt.Sprintf("class=bad-exchange %s consumed %d > %d", fn, consumed, len(recv))
	}
	// A composite side that did not see the right magic number must not
	// have disclosed its version.
	if (fn == "c" || fn == "s") && !(len(in) >= 3 && bytes.Equal(in[:3], recv[:3])) && len(sent) > 3 {
		return fmt.Sprintf("class=version-sent-without-magic %s sent %x after receiving %x", fn, sent, in)
	}
	return ""
}

func runSide(c *hx.Ctx, fn string, in []byte, wcap int) (string, string) {
	s := &scriptStream{in: in, wcap: wcap, r: c.R}
	err := fnOf(fn)(s)
	verdict := errClass(err)
	impl := fmt.Sprintf("%s %s %d", verdict, hx.Hex(s.sent), s.pos)
	return impl, sideOracle(fn, in, wcap, verdict, s.sent, s.pos)
}

// Two-party sessions ------------------------------------------------------------

type fault struct {
	kind byte // 'n', 't', 'f'
	k    int
	x    byte
}

func (f fault) String() string {
	switch f.kind {
	case 't':
		return "t" + strconv.Itoa(f.k)
	case 'f':
		return fmt.Sprintf("f%d.%02x", f.k, f.x)
	}
	return "n"
}

func parseFault(s string) fault {
	switch s[0] {
	case 't':
		k, _ := strconv.Atoi(s[1:])
		return fault{'t', k, 0}
	case 'f':
		p := strings.Split(s[1:], ".")
		k, _ := strconv.Atoi(p[0])
		x, _ := strconv.ParseUint(p[1], 16, 8)
		return fault{'f', k, byte(x)}
	}
	return fault{kind: 'n'}
}

type duplex struct {
	r *io.PipeReader
	w *io.PipeWriter
}

func (d duplex) Read(p []byte) (int, error)  { return d.r.Read(p) }
func (d duplex) Write(p []byte) (int, error) { return d.w.Write(p) }
func (d duplex) Close() error                { d.w.Close(); return d.r.Close() }

// middlebox forwards up→down applying the fault, always draining `up`, and
// records what the sender wrote and what the receiver was offered.
func middlebox(up *io.PipeReader, down *io.PipeWriter, f fault, sent, delivered *[]byte) {
	off := 0
	open := true
	closeDown := func() {
		if open {
			down.Close()
			open = false
		}
	}
	if f.kind == 't' && f.k == 0 {
		closeDown()
	}
	buf := make([]byte, 64)
	for {
		n, err := up.Read(buf)
		for i := 0; i < n; i++ {
			b := buf[i]
			*sent = append(*sent, b)
			if open {
				if f.kind == 'f' && off == f.k {
					b ^= f.x
				}
				*delivered = append(*delivered, b)
				down.Write([]byte{b}) // a closed reader is the receiver's business
			}
			off++
			if f.kind == 't' && off >= f.k {
				closeDown()
			}
		}
		if err != nil {
			closeDown()
			return
		}
	}
}

type sessionResult struct {
	cerr, serr             string
	csent, ssent           []byte
	cdelivered, sdelivered []byte // what the client / the server was offered
}

func runSession(fsc, fcs fault) (sessionResult, bool) {
	var res sessionResult
	s2mR, s2mW := io.Pipe()
	m2cR, m2cW := io.Pipe()
	c2mR, c2mW := io.Pipe()
	m2sR, m2sW := io.Pipe()
	var wg sync.WaitGroup
	wg.Add(4)
	go func() { defer wg.Done(); middlebox(s2mR, m2cW, fsc, &res.ssent, &res.cdelivered) }()
	go func() { defer wg.Done(); middlebox(c2mR, m2sW, fcs, &res.csent, &res.sdelivered) }()
	go func() {
		defer wg.Done()
		st := duplex{m2cR, c2mW}
		res.cerr = errClass(clientConnect(st))
		st.Close()
	}()
	go func() {
		defer wg.Done()
		st := duplex{m2sR, s2mW}
		res.serr = errClass(serverConnect(st))
		st.Close()
	}()
	done := make(chan struct{})
	go func() { wg.Wait(); close(done) }()
	select {
	case <-done:
		return res, true
	case <-time.After(10 * time.Second):
		return res, false
	}
}

// sessionOracle: the property on a two-party exchange with in-transit faults.
func sessionOracle(fsc, fcs fault, r sessionResult) (string, string) {
	cRecv, cSend := expectations("c")
	sRecv, sSend := expectations("s")
	cGood := len(r.cdelivered) >= 15 && bytes.Equal(r.cdelivered[:15], cRecv)
	sGood := len(r.sdelivered) >= 15 && bytes.Equal(r.sdelivered[:15], sRecv)
	cOK, sOK := r.cerr == "ok", r.serr == "ok"
	// Each side accepts exactly when it was offered the right 15 bytes.
	if cOK != cGood {
		return fmt.Sprintf("class=accepted-bad-handshake client %s on %x", r.cerr, r.cdelivered), ""
	}
	if sOK != sGood {
		return fmt.Sprintf("class=accepted-bad-handshake server %s on %x", r.serr, r.sdelivered), ""
	}
	if !bytes.HasPrefix(cSend, r.csent) || !bytes.HasPrefix(sSend, r.ssent) {
		return fmt.Sprintf("class=bad-exchange sent %x / %x", r.csent, r.ssent), ""
	}
	effective := func(f fault) bool { return (f.kind == 't' || f.kind == 'f' && f.x != 0) && f.k < 15 }
	hitSC, hitCS := effective(fsc), effective(fcs)
	// Without an effective fault both accept.
	if !hitSC && !hitCS && !(cOK && sOK) {
		return fmt.Sprintf("class=rejected-good-handshake faultless session ended %s/%s", r.cerr, r.serr), ""
	}
	// Both accept only without an effective fault... unless the fault lies in
	// bytes that were never transmitted because the other fault stopped the
	// exchange first; "both accept" rules that out.
	if cOK && sOK && (hitSC || hitCS) {
		return fmt.Sprintf("class=accepted-bad-handshake both accepted under faults %v %v", fsc, fcs), ""
	}
	// One side accepting while the other fails is only possible when the
	// damage is confined to the final (version) flight of one direction.
	split := ""
	if cOK != sOK {
		split = "split"
		if cOK { // server lost the client's version
			if !(hitCS && fcs.k >= 3 && !hitSC) {
				return fmt.Sprintf("class=one-sided-accept client accepted, server %s, faults %v %v", r.serr, fsc, fcs), ""
			}
		} else { // the client saw a damaged server version after answering
			if !(hitSC && fsc.kind == 'f' && fsc.k >= 3) {
				return fmt.Sprintf("class=one-sided-accept server accepted, client %s, faults %v %v", r.cerr, fsc, fcs), ""
			}
		}
	}
	return "", split
}

func main() {
	hx.Main("C34", func(c *hx.Ctx) {
		side := func(fn string, in []byte, wcap int) {
			capS := "-"
			if wcap >= 0 {
				capS = strconv.Itoa(wcap)
			}
			line := fmt.Sprintf("%s %s %s", fn, hx.Hex(in), capS)
			var oracle string
			impl := hx.Try(func() string {
				i, o := runSide(c, fn, in, wcap)
				oracle = o
				return i
			})
			if strings.HasPrefix(impl, "panic:") {
				oracle = "class=panic " + impl
			}
			key := ""
			if !strings.HasPrefix(impl, "ok ") {
				key = fn + " " + impl
			}
			c.Count(fn + ":" + strings.Fields(impl)[0])
			c.Case(line, impl, oracle, key)
		}
		recvVersion := func(in []byte) {
			line := "rv " + hx.Hex(in)
			s := &scriptStream{in: in, wcap: -1, r: c.R}
			a, b, d, err := mutagen.VerifC34ReceiveVersion(s)
			impl := fmt.Sprintf("%d %d %d %s %d", a, b, d, errClass(err), s.pos)
			oracle := ""
			if len(in) >= 12 {
				// big-endian round trip through the real sender-side encoder
				var w [12]byte
				binary.BigEndian.PutUint32(w[0:], a)
				binary.BigEndian.PutUint32(w[4:], b)
				binary.BigEndian.PutUint32(w[8:], d)
				if err != nil || !bytes.Equal(w[:], in[:12]) || s.pos != 12 {
					oracle = fmt.Sprintf("class=version-codec decoded %d.%d.%d (%v) from %x", a, b, d, err, in)
				}
			} else if err == nil {
				oracle = fmt.Sprintf("class=accepted-bad-handshake receiveVersion accepted %d bytes", len(in))
			}
			c.Count("rv:" + errClass(err))
			c.Case(line, impl, oracle, "rv "+impl)
		}
		session := func(fsc, fcs fault) {
			line := fmt.Sprintf("x %v %v", fsc, fcs)
			res, ok := runSession(fsc, fcs)
			if !ok {
				c.Case(line, "timeout", "class=deadlock session did not terminate", "")
				return
			}
			impl := fmt.Sprintf("%s %s %s %s", res.cerr, res.serr, hx.Hex(res.csent), hx.Hex(res.ssent))
			oracle, split := sessionOracle(fsc, fcs, res)
			c.Count("x:" + res.cerr + "/" + res.serr)
			if split != "" {
				c.Count("x:one-side-accepts(final-flight-damage)")
			}
			c.Case(line, impl, oracle, "x "+impl)
		}
		if lines := c.ReplayLines(); lines != nil {
			for _, l := range lines {
				f := strings.Fields(l)
				switch {
				case f[0] == "rv":
					recvVersion(unhex(f[1]))
				case f[0] == "x":
					session(parseFault(f[1]), parseFault(f[2]))
				default:
					wcap := -1
					if f[2] != "-" {
						wcap, _ = strconv.Atoi(f[2])
					}
					side(f[0], unhex(f[1]), wcap)
				}
			}
			return
		}

		// The send side of the version codec: sendVersion must emit exactly the
		// big-endian triple (checked once, as a case of its own through "sv").
		fns := []string{"c", "s", "cm", "sm", "cv", "sv"}
		for _, fn := range fns {
			recv, _ := expectations(fn)
			// exact, and with trailing bytes of the following protocol
			side(fn, recv, -1)
			side(fn, append(append([]byte{}, recv...), 0x0a, 0x00, 0xff), -1)
			// every truncation point
			for k := 0; k < len(recv); k++ {
				side(fn, recv[:k], -1)
				c.Count("exhaustive")
			}
			// every single-byte corruption
			for k := 0; k < len(recv); k++ {
				for x := 1; x < 256; x++ {
					in := append([]byte{}, recv...)
					in[k] ^= byte(x)
					side(fn, in, -1)
					c.Count("exhaustive")
				}
			}
			// every write budget, on good and on damaged input
			for w := 0; w <= 17; w++ {
				side(fn, recv, w)
				bad := append([]byte{}, recv...)
				bad[len(bad)-1] ^= 0x01
				side(fn, bad, w)
				side(fn, recv[:len(recv)-1], w)
				c.Count("exhaustive")
			}
		}
		// every single-field perturbation of the version triple (all single-bit
		// changes, ±1, byte-order reversal, extremes), and of the magic numbers
		// (peer presenting the wrong role's magic, rotations)
		sm, cm := agent.VerifC34MagicNumbers()
		triple := []uint32{mutagen.VersionMajor, mutagen.VersionMinor, mutagen.VersionPatch}
		perturb := func(v uint32) []uint32 {
			out := []uint32{v + 1, v - 1, ^v, 0, 0xffffffff, v<<24 | (v&0xff00)<<8 | (v>>8)&0xff00 | v>>24}
			for b := 0; b < 32; b++ {
				out = append(out, v^(1<<uint(b)))
			}
			return out
		}
		for field := 0; field < 3; field++ {
			for _, nv := range perturb(triple[field]) {
				t := append([]uint32{}, triple...)
				t[field] = nv
				v := make([]byte, 12)
				for i := range t {
					binary.BigEndian.PutUint32(v[4*i:], t[i])
				}
				side("c", append(append([]byte{}, sm[:]...), v...), -1)
				side("s", append(append([]byte{}, cm[:]...), v...), -1)
				side("cv", v, -1)
				side("sv", v, -1)
				recvVersion(v)
				c.Count("field-perturbation")
			}
		}
		// swapped fields
		for _, perm := range [][3]int{{1, 0, 2}, {0, 2, 1}, {2, 1, 0}, {1, 2, 0}, {2, 0, 1}} {
			v := make([]byte, 12)
			for i := range perm {
				binary.BigEndian.PutUint32(v[4*i:], triple[perm[i]])
			}
			side("c", append(append([]byte{}, sm[:]...), v...), -1)
			side("s", append(append([]byte{}, cm[:]...), v...), -1)
		}
		v := versionWire()
		for _, m := range [][]byte{cm[:], sm[:], {sm[1], sm[2], sm[0]}, {cm[2], cm[1], cm[0]}, {0, 0, 0}, []byte("SSH"), []byte("bas")} {
			side("c", append(append([]byte{}, m...), v...), -1)
			side("s", append(append([]byte{}, m...), v...), -1)
			side("cm", m, -1)
			side("sm", m, -1)
			c.Count("magic-perturbation")
		}
		for k := 0; k <= 12; k++ {
			recvVersion(c.R.Bytes(k, 0))
		}

		// Two-party sessions: every single fault on either direction.
		var faults []fault
		for k := 0; k <= 16; k++ {
			faults = append(faults, fault{'t', k, 0})
		}
		for k := 0; k <= 15; k++ {
			for x := 1; x < 256; x++ {
				if c.Thorough() || x < 4 || x == 0x80 || x == 0xff || c.R.Chance(1, 12) {
					faults = append(faults, fault{'f', k, byte(x)})
				}
			}
		}
		session(fault{kind: 'n'}, fault{kind: 'n'})
		for _, f := range faults {
			session(f, fault{kind: 'n'})
			session(fault{kind: 'n'}, f)
			c.Count("exhaustive")
		}
		for i := 0; i < c.Size(600, 20000); i++ {
			session(faults[c.R.Intn(len(faults))], faults[c.R.Intn(len(faults))])
			c.Count("double-fault")
		}

		// Random streams: the good handshake with random damage, garbage, text.
		for i := 0; i < c.Size(20000, 600000); i++ {
			fn := fns[c.R.Intn(len(fns))]
			recv, _ := expectations(fn)
			var in []byte
			switch c.R.Intn(6) {
			case 0:
				in = c.R.Bytes(c.R.Intn(24), 0)
			case 1:
				in = []byte(c.R.Pick("bash: mutagen-agent: command not found\n", "Permission denied\n", "\x05\x27", "\x87\x27\x05", ""))
			default:
				in = append(append([]byte{}, recv...), c.R.Bytes(c.R.Intn(4), 0)...)
				for j := c.R.Intn(3); j > 0; j-- {
					switch c.R.Intn(4) {
					case 0:
						in[c.R.Intn(len(in))] ^= byte(1 << uint(c.R.Intn(8)))
					case 1:
						in = in[:c.R.Intn(len(in)+1)]
					case 2: // drop a byte
						k := c.R.Intn(len(in))
						in = append(in[:k:k], in[k+1:]...)
					default: // duplicate a byte
						k := c.R.Intn(len(in))
						in = append(in[:k+1:k+1], in[k:]...)
					}
					if len(in) == 0 {
						break
					}
				}
			}
			wcap := -1
			if c.R.Chance(1, 5) {
				wcap = c.R.Intn(20)
			}
			side(fn, in, wcap)
			c.Count("random")
		}
	})
}

func unhex(s string) []byte {
	if s == "-" {
		return nil
	}
	b := make([]byte, len(s)/2)
	for i := range b {
		v, _ := strconv.ParseUint(s[2*i:2*i+2], 16, 8)
		b[i] = byte(v)
	}
	return b
}
