// C41: staging requests only what is missing and enforces limits.
//
// Drives the real local endpoint (watching disabled) on scratch roots through
// random call orders of Scan / Stage (+ the peer's rsync transmission, or an
// abandoned receiver) / Transition / external edits, with random entry limits,
// roots containing copies and renames of the requested content and content left
// in the staging store by interrupted cycles. Every case is described
// abstractly (path -> digest id maps) on one line; the canonical per-op results
// are compared with the Lean model, and the property's own predicates are
// evaluated independently (walks of the real root, an independent probe of the
// staging store through the store package's public API).
package main

import (
	"bytes"
	"context"
	"flag"
	"fmt"
	"os"
	"path/filepath"
	"sort"
	"strconv"
	"strings"
	"sync"

	"github.com/mutagen-io/mutagen/pkg/filesystem"
	"github.com/mutagen-io/mutagen/pkg/synchronization"
	"github.com/mutagen-io/mutagen/pkg/synchronization/core"
	"github.com/mutagen-io/mutagen/pkg/synchronization/endpoint/local"
	"github.com/mutagen-io/mutagen/pkg/synchronization/endpoint/local/staging/store"
	"github.com/mutagen-io/mutagen/pkg/synchronization/rsync"

	"verif/harness/hx"
)

const nContents = 8

var hasherFactory = synchronization.Version_Version1.DefaultHashingAlgorithm().Factory()

func content(k int) []byte {
	return []byte(fmt.Sprintf("content-%d-%s", k, strings.Repeat("x", 3*k+1)))
}

var digestOf = func() [][]byte {
	out := make([][]byte, nContents)
	for k := range out {
		h := hasherFactory()
		h.Write(content(k))
		out[k] = h.Sum(nil)
	}
	return out
}()

// node is the abstract description of one root entry.
type node struct {
	dir bool
	k   int // content id of a file; -1 when the bytes are none of ours
}

func (n node) String() string {
	if n.dir {
		return "d"
	}
	return "f" + strconv.Itoa(n.k)
}

// walk is the independent description of a real directory: path -> node.
func walk(root string) map[string]node {
	out := map[string]node{}
	filepath.Walk(root, func(p string, info os.FileInfo, err error) error {
		if err != nil || p == root {
			return nil
		}
		rel := filepath.ToSlash(strings.TrimPrefix(p, root+string(filepath.Separator)))
		if info.IsDir() {
			out[rel] = node{dir: true}
			return nil
		}
		data, _ := os.ReadFile(p)
		k := -1
		for i := 0; i < nContents; i++ {
			if bytes.Equal(data, content(i)) {
				k = i
			}
		}
		out[rel] = node{k: k}
		return nil
	})
	return out
}

func sortedPaths(m map[string]node) []string {
	ps := make([]string, 0, len(m))
	for p := range m {
		ps = append(ps, p)
	}
	sort.Strings(ps)
	return ps
}

func listing(m map[string]node) string {
	if len(m) == 0 {
		return "-"
	}
	var items []string
	for _, p := range sortedPaths(m) {
		items = append(items, p+"="+m[p].String())
	}
	return strings.Join(items, "+")
}

func sameWalk(a, b map[string]node) bool { return listing(a) == listing(b) }

// related reports whether one path is the other or an ancestor of it.
func related(a, b string) bool {
	return a == b || strings.HasPrefix(a, b+"/") || strings.HasPrefix(b, a+"/")
}

// ---- abstract entries (flat listing with "." first) ----

type absEntry []struct {
	rel string
	n   node
}

func parseEntry(s string) absEntry {
	if s == "-" {
		return nil
	}
	var out absEntry
	for _, item := range strings.Split(s, "+") {
		p := strings.SplitN(item, "=", 2)
		out = append(out, struct {
			rel string
			n   node
		}{p[0], parseNode(p[1])})
	}
	return out
}

func parseNode(s string) node {
	if s == "d" {
		return node{dir: true}
	}
	k, _ := strconv.Atoi(s[1:])
	return node{k: k}
}

func (a absEntry) String() string {
	if a == nil {
		return "-"
	}
	var items []string
	for _, it := range a {
		items = append(items, it.rel+"="+it.n.String())
	}
	return strings.Join(items, "+")
}

func mkEntry(n node) *core.Entry {
	if n.dir {
		return &core.Entry{Kind: core.EntryKind_Directory}
	}
	return &core.Entry{Kind: core.EntryKind_File, Digest: digestOf[n.k]}
}

// toCore builds the real entry.
func (a absEntry) toCore() *core.Entry {
	if a == nil {
		return nil
	}
	top := mkEntry(a[0].n)
	for _, it := range a[1:] {
		cur := top
		comps := strings.Split(it.rel, "/")
		for i, c := range comps {
			if cur.Contents == nil {
				cur.Contents = map[string]*core.Entry{}
			}
			if i == len(comps)-1 {
				cur.Contents[c] = mkEntry(it.n)
			} else {
				cur = cur.Contents[c]
			}
		}
	}
	return top
}

// entryAt extracts the abstract entry rooted at p from a walk.
func entryAt(w map[string]node, p string) absEntry {
	n, ok := w[p]
	if !ok {
		return nil
	}
	out := absEntry{{".", n}}
	for _, q := range sortedPaths(w) {
		if strings.HasPrefix(q, p+"/") {
			out = append(out, struct {
				rel string
				n   node
			}{q[len(p)+1:], w[q]})
		}
	}
	return out
}

type change struct {
	path     string
	old, new absEntry
}

func (c change) String() string { return c.path + "|" + c.old.String() + "|" + c.new.String() }

// deps is TransitionDependencies on the abstract description.
func deps(ts []change) (paths []string, ks []int) {
	for _, t := range ts {
		if len(t.old) == 1 && len(t.new) == 1 && !t.old[0].n.dir && !t.new[0].n.dir && t.old[0].n.k == t.new[0].n.k {
			continue
		}
		for _, it := range t.new {
			if it.n.dir {
				continue
			}
			p := t.path
			if it.rel != "." {
				p = t.path + "/" + it.rel
			}
			paths = append(paths, p)
			ks = append(ks, it.n.k)
		}
	}
	return
}

// ---- one case ----

type env struct {
	base, root, src, staging string
	session                  string
	ep                       synchronization.Endpoint
	cfgMax, max              uint64
	ro                       bool
	// the oracle's own bookkeeping
	scanSnap         map[string]node // the root as walked at the last scan attempt
	scanCount        uint64
	okScanSinceStage bool
	okScanSinceTrans bool
	touched          []string // paths edited since the last successful scan
	oracle           string
	skip             bool
	counts           map[string]int
}

func (e *env) count(label string) { e.counts[label]++ }

func (e *env) bad(class, format string, a ...any) {
	if e.oracle == "" {
		e.oracle = "class=" + class + " " + fmt.Sprintf(format, a...)
	}
}

// newEnv sets up case number id (cases run in parallel; they share the Mutagen
// data directory and differ in the session identifier).
func newEnv(id int, cfgMax uint64, ro bool, rootListing string) *env {
	base := filepath.Join(os.Getenv("VERIF_OUT"), "work", strconv.Itoa(id))
	os.RemoveAll(base)
	e := &env{base: base, root: filepath.Join(base, "root"), src: filepath.Join(base, "src"), cfgMax: cfgMax, ro: ro, counts: map[string]int{}}
	must(os.MkdirAll(e.root, 0o755))
	must(os.MkdirAll(e.src, 0o755))
	if rootListing != "-" {
		for _, item := range strings.Split(rootListing, "+") {
			p := strings.SplitN(item, "=", 2)
			e.edit("w", p[0], parseNode(p[1]))
		}
	}
	e.max = cfgMax
	if cfgMax == 0 {
		e.max = synchronization.Version_Version1.DefaultMaximumEntryCount()
	}
	session := "sync_verifc41x" + strconv.Itoa(id)
	e.session = session
	cfg := &synchronization.Configuration{
		WatchMode:         synchronization.WatchMode_WatchModeNoWatch,
		MaximumEntryCount: cfgMax,
	}
	if ro {
		cfg.SynchronizationMode = core.SynchronizationMode_SynchronizationModeOneWaySafe
	}
	ep, err := local.NewEndpoint(nil, e.root, session, synchronization.Version_Version1, cfg, true)
	must(err)
	e.ep = ep
	stagingParent, err := filesystem.Mutagen(false, filesystem.MutagenSynchronizationStagingDirectoryName)
	must(err)
	e.staging = filepath.Join(stagingParent, session+"-alpha")
	return e
}

func (e *env) close() {
	e.ep.Shutdown()
	os.RemoveAll(e.base)
	os.RemoveAll(e.staging)
	if caches, err := filesystem.Mutagen(false, filesystem.MutagenSynchronizationCachesDirectoryName); err == nil {
		os.Remove(filepath.Join(caches, e.session+"_alpha"))
	}
}

func must(err error) {
	if err != nil {
		panic(err)
	}
}

// edit applies one external modification to the real root.
func (e *env) edit(kind, p string, n node) {
	full := filepath.Join(e.root, filepath.FromSlash(p))
	switch {
	case kind == "r":
		must(os.RemoveAll(full))
	case n.dir:
		must(os.Mkdir(full, 0o755))
	default:
		must(os.WriteFile(full, content(n.k), 0o644))
	}
}

// probeStaged asks an independent Store object on the same directory.
func (e *env) probeStaged(p string, k int) bool {
	if _, err := os.Lstat(e.staging); err != nil {
		return false
	}
	s := store.NewStore(e.staging, false, 1<<40, hasherFactory)
	if err := s.Initialize(); err != nil {
		return false
	}
	ok, _ := s.Contains(p, digestOf[k])
	return ok
}

func isSubsequence(sub, all []string) bool {
	i := 0
	for _, a := range all {
		if i < len(sub) && sub[i] == a {
			i++
		}
	}
	return i == len(sub)
}

func countEntry(a absEntry) uint64 { return uint64(len(a)) }

// exec runs one op (possibly rewriting its hint field) and returns the final
// op text and the canonical result.
func (e *env) exec(op string) (string, string) {
	f := strings.Split(op, ":")
	ctx := context.Background()
	switch f[0] {
	case "sc":
		snap, err, _ := e.ep.Scan(ctx, nil, false)
		w := walk(e.root)
		e.scanSnap, e.scanCount = w, uint64(len(w))+1
		e.count("op:sc")
		if err == nil {
			e.okScanSinceStage, e.okScanSinceTrans = true, true
			e.touched = nil
			if n := snap.Content.Count(); n != e.scanCount {
				e.bad("scan-count", "snapshot has %d entries, walk %d", n, e.scanCount)
			}
			if e.scanCount > e.max {
				e.bad("scan-limit", "scan of %d entries succeeded with limit %d", e.scanCount, e.max)
			}
			return op, "sc:ok:" + strconv.FormatUint(snap.Content.Count(), 10)
		}
		if strings.Contains(err.Error(), "exceeded allowed entry count") {
			e.count("sc:exceeded")
			if e.scanCount <= e.max {
				e.bad("scan-limit", "scan of %d entries refused with limit %d", e.scanCount, e.max)
			}
			return op, "sc:exceeded"
		}
		return op, "sc:err"
	case "x":
		for _, ed := range strings.Split(f[1], "+") {
			p := strings.Split(ed, "=")
			switch p[0] {
			case "w":
				k, _ := strconv.Atoi(p[2])
				e.edit("w", p[1], node{k: k})
			case "d":
				e.edit("w", p[1], node{dir: true})
			case "r":
				e.edit("r", p[1], node{})
			}
			e.touched = append(e.touched, p[1])
		}
		e.count("op:x")
		return op, "x"
	case "st", "st!":
		return e.execStage(f)
	case "tr":
		return e.execTransition(op, f[1])
	}
	return op, "bad-op"
}

func (e *env) execStage(f []string) (string, string) {
	var paths []string
	var ks []int
	if f[1] != "-" {
		for _, item := range strings.Split(f[1], "+") {
			p := strings.SplitN(item, "=", 2)
			k, _ := strconv.Atoi(p[1])
			paths = append(paths, p[0])
			ks = append(ks, k)
		}
	}
	digests := make([][]byte, len(ks))
	for i, k := range ks {
		digests[i] = digestOf[k]
	}
	if f[0] == "st!" && len(digests) > 0 {
		digests = digests[:len(digests)-1]
	}
	stagedBefore := make([]bool, len(paths))
	for i := range paths {
		stagedBefore[i] = e.probeStaged(paths[i], ks[i])
	}
	now := walk(e.root)
	e.count("op:st")

	// Stage filters in place: hand it a copy.
	filtered, sigs, recv, err := e.ep.Stage(append([]string(nil), paths...), digests)

	wellFormed := !e.ro && len(paths) == len(digests) && len(paths) > 0
	if e.ro && (err == nil || !strings.Contains(err.Error(), "read-only")) {
		// C02: a one-way alpha (read-only) endpoint refuses every Stage, whatever the arguments
		e.bad("readonly-stage", "Stage on a read-only endpoint answered %v", err)
	}
	if e.ro && !sameWalk(now, walk(e.root)) {
		e.bad("readonly-stage", "Stage on a read-only endpoint changed the root")
	}
	res := ""
	switch {
	case err == nil:
		res = "st:ok:" + joinOr(filtered)
	case strings.Contains(err.Error(), "read-only"):
		res = "st:err:ro"
	case strings.Contains(err.Error(), "does not match digest count"):
		res = "st:err:len"
	case strings.Contains(err.Error(), "without scan"):
		res = "st:err:noscan"
	case strings.Contains(err.Error(), "exceeded allowed entry count"):
		res = "st:err:exceed"
	default:
		res = "st:err:other"
	}
	if err == nil {
		e.count("st:ok")
	} else {
		e.count(res)
	}

	picks := "-"
	if wellFormed {
		// scan-before-stage
		if !e.okScanSinceStage {
			if res != "st:err:noscan" {
				e.bad("stage-without-scan", "Stage without a preceding successful Scan answered %s", res)
			}
		} else if res == "st:err:noscan" {
			e.bad("stage-without-scan", "Stage after a successful Scan refused")
		}
		reached := e.okScanSinceStage
		e.okScanSinceStage = false
		if reached {
			// entry limit
			over := e.scanCount+uint64(len(paths)) > e.max
			if err == nil && over {
				e.bad("stage-limit", "staging %d paths accepted with %d entries at the last scan and limit %d", len(paths), e.scanCount, e.max)
			}
			if res == "st:err:exceed" && !over {
				e.bad("stage-limit-spurious", "staging %d paths refused with %d entries and limit %d", len(paths), e.scanCount, e.max)
			}
		}
		if err == nil {
			if !isSubsequence(filtered, paths) {
				e.bad("stage-order", "%v is not an in-order subsequence of %v", filtered, paths)
			}
			inFiltered := map[string]bool{}
			for _, p := range filtered {
				inFiltered[p] = true
			}
			var hints []string
			hinted := map[int]bool{}
			for i, p := range paths {
				k := ks[i]
				// candidates: files with that digest at the last scan; valid: still so
				var valid, invalid []string
				states := map[string]bool{}
				for _, q := range sortedPaths(e.scanSnap) {
					if n := e.scanSnap[q]; !n.dir && n.k == k {
						if m, ok := now[q]; ok && !m.dir && m.k == k {
							valid = append(valid, q)
						} else {
							invalid = append(invalid, q)
							if !ok {
								states["gone"] = true
							} else {
								states[m.String()] = true
							}
						}
					}
				}
				if !stagedBefore[i] && len(states) > 1 {
					e.skip = true // the copy's side effect depends on the map order
				}
				omitted := !inFiltered[p]
				if omitted {
					if !stagedBefore[i] && len(valid) == 0 {
						e.bad("stage-dropped", "%s (content %d) not returned, but neither staged nor present in the root", p, k)
					}
					if !e.probeStaged(p, k) {
						e.bad("stage-dropped", "%s (content %d) not returned, but the store does not hold it", p, k)
					}
				} else {
					if stagedBefore[i] {
						e.bad("stage-redundant", "%s (content %d) requested although staged", p, k)
					}
					if len(valid) > 0 && len(invalid) == 0 {
						e.bad("stage-redundant", "%s (content %d) requested although %v holds it", p, k, valid)
					}
				}
				if !stagedBefore[i] && len(valid) > 0 && len(invalid) > 0 && !hinted[k] {
					hinted[k] = true
					e.count("st:ambiguous-pick")
					if omitted {
						hints = append(hints, fmt.Sprintf("%d@%s", k, valid[0]))
					} else {
						hints = append(hints, fmt.Sprintf("%d@%s", k, invalid[0]))
					}
				}
			}
			if len(hints) > 0 {
				picks = strings.Join(hints, "+")
			}
			if len(filtered) < len(paths) {
				e.count("st:some-available")
			}
		}
	}

	// the peer
	if recv != nil {
		if f[2] == "n" {
			rsync.Transmit(e.src, nil, sigs, recv) // length mismatch: finalizes the receiver
			e.count("st:abandoned")
		} else {
			sup := strings.Split(f[2], "+")
			os.RemoveAll(e.src)
			must(os.MkdirAll(e.src, 0o755))
			for i, p := range paths {
				if i < len(sup) && sup[i] != "x" {
					k, _ := strconv.Atoi(sup[i])
					full := filepath.Join(e.src, filepath.FromSlash(p))
					must(os.MkdirAll(filepath.Dir(full), 0o755))
					must(os.WriteFile(full, content(k), 0o644))
				}
			}
			if err := rsync.Transmit(e.src, filtered, sigs, recv); err != nil {
				e.bad("transmit", "%v", err)
			}
		}
	}
	return strings.Join([]string{f[0], f[1], f[2], picks}, ":"), res
}

func joinOr(l []string) string {
	if len(l) == 0 {
		return "-"
	}
	return strings.Join(l, "+")
}

func (e *env) execTransition(op, arg string) (string, string) {
	var ts []change
	if arg != "-" {
		for _, t := range strings.Split(arg, ";") {
			p := strings.Split(t, "|")
			ts = append(ts, change{p[0], parseEntry(p[1]), parseEntry(p[2])})
		}
	}
	changes := make([]*core.Change, len(ts))
	for i, t := range ts {
		changes[i] = &core.Change{Path: t.path, Old: t.old.toCore(), New: t.new.toCore()}
	}
	before := walk(e.root)
	e.count("op:tr")
	results, problems, missing, err := e.ep.Transition(context.Background(), changes)
	after := walk(e.root)

	// the plan, on the oracle's own numbers
	planned, underflow := e.scanCount, false
	for _, t := range ts {
		if countEntry(t.old) > planned {
			underflow = true
			break
		}
		planned = planned - countEntry(t.old) + countEntry(t.new)
	}

	res := ""
	refused := false
	switch {
	case err != nil && strings.Contains(err.Error(), "read-only"):
		res = "tr:err:ro"
	case err != nil && strings.Contains(err.Error(), "without scan"):
		res = "tr:err:noscan"
	case err != nil && strings.Contains(err.Error(), "removing more entries than exist"):
		res = "tr:err:underflow"
	case err != nil:
		res = "tr:err:other"
	default:
		for _, p := range problems {
			if p.Path == "" && strings.Contains(p.Error, "exceeded allowed entry count") {
				refused = true
			}
		}
		if refused {
			res = "tr:refused"
			for i := range results {
				if !results[i].Equal(changes[i].Old, true) {
					e.bad("transition-refusal", "refused transition reports a result different from the old entry")
				}
			}
		} else {
			cls := ""
			for i := range results {
				switch {
				case results[i].Equal(changes[i].New, true):
					cls += "1"
				case results[i].Equal(changes[i].Old, true):
					cls += "0"
				default:
					cls += "p"
				}
			}
			if cls == "" {
				cls = "-"
			}
			m := 0
			if missing {
				m = 1
			}
			res = fmt.Sprintf("tr:ok:%s:m%d:%d", cls, m, len(after)+1)
			if strings.ContainsAny(cls, "0p") {
				e.count("tr:partial")
			}
		}
	}
	if strings.HasPrefix(res, "tr:ok") {
		e.count("tr:ok")
	} else {
		e.count(res)
	}

	if e.ro && res != "tr:err:ro" {
		// C02: a one-way alpha (read-only) endpoint refuses every Transition, whatever the call state
		e.bad("readonly-transition", "Transition on a read-only endpoint answered %s", res)
	}
	if !e.ro {
		if !e.okScanSinceTrans {
			if res != "tr:err:noscan" {
				e.bad("transition-without-scan", "Transition without a preceding successful Scan answered %s", res)
			}
		} else if res == "tr:err:noscan" {
			e.bad("transition-without-scan", "Transition after a successful Scan refused")
		}
		reached := e.okScanSinceTrans
		e.okScanSinceTrans = false
		if reached {
			switch {
			case res == "tr:err:underflow":
				if !underflow {
					e.bad("transition-limit-spurious", "underflow reported for a consistent plan")
				}
			case refused:
				if underflow || planned <= e.max {
					e.bad("transition-limit-spurious", "plan of %d entries refused with limit %d", planned, e.max)
				}
			case err == nil:
				if underflow || planned > e.max {
					e.bad("transition-limit", "plan of %d entries (underflow %v) executed with limit %d", planned, underflow, e.max)
				}
				// on a root nobody else touched since the scan, the disk obeys the limit
				if sameWalk(before, e.scanSnap) && len(after) > len(before) && uint64(len(after))+1 > e.max {
					e.bad("transition-limit", "root grew to %d entries with limit %d", len(after)+1, e.max)
				}
			}
		}
	}
	if err != nil || refused {
		if !sameWalk(before, after) {
			e.bad("transition-refusal", "a refused transition changed the root")
		}
	}
	return op, res
}

// ---- generation ----

var names = []string{"a", "b", "c", "d", "e", "f", "g", "h"}

func genRoot(r *hx.Rand) map[string]node {
	w := map[string]node{}
	n := r.Intn(9)
	for i := 0; i < n; i++ {
		dirs := []string{""}
		for _, p := range sortedPaths(w) {
			if w[p].dir && strings.Count(p, "/") < 2 {
				dirs = append(dirs, p+"/")
			}
		}
		p := dirs[r.Intn(len(dirs))] + names[r.Intn(len(names))]
		if _, ok := w[p]; ok {
			continue
		}
		if r.Chance(1, 4) {
			w[p] = node{dir: true}
		} else {
			w[p] = node{k: r.Intn(5)}
		}
	}
	return w
}

// freshPath picks a path that does not exist, below an existing directory.
func freshPath(r *hx.Rand, w map[string]node, taken map[string]bool) string {
	for tries := 0; tries < 20; tries++ {
		dirs := []string{""}
		for _, p := range sortedPaths(w) {
			if w[p].dir && !taken[p] {
				dirs = append(dirs, p+"/")
			}
		}
		p := dirs[r.Intn(len(dirs))] + names[r.Intn(len(names))] + strconv.Itoa(r.Intn(3))
		if _, ok := w[p]; !ok && !taken[p] {
			return p
		}
	}
	return ""
}

func someDigest(r *hx.Rand, w map[string]node) int {
	// biased to content present in the root (copies and renames)
	if r.Chance(3, 5) {
		var ks []int
		for _, p := range sortedPaths(w) {
			if !w[p].dir && w[p].k >= 0 {
				ks = append(ks, w[p].k)
			}
		}
		if len(ks) > 0 {
			return ks[r.Intn(len(ks))]
		}
	}
	return r.Intn(nContents)
}

func genNewEntry(r *hx.Rand, w map[string]node) absEntry {
	if r.Chance(1, 2) {
		return absEntry{{".", node{k: someDigest(r, w)}}}
	}
	out := absEntry{{".", node{dir: true}}}
	n := r.Intn(5)
	var subdirs []string
	for i := 0; i < n; i++ {
		pre := ""
		if len(subdirs) > 0 && r.Chance(1, 3) {
			pre = subdirs[r.Intn(len(subdirs))] + "/"
		}
		rel := pre + names[i]
		if r.Chance(1, 4) {
			out = append(out, struct {
				rel string
				n   node
			}{rel, node{dir: true}})
			subdirs = append(subdirs, rel)
		} else {
			out = append(out, struct {
				rel string
				n   node
			}{rel, node{k: someDigest(r, w)}})
		}
	}
	// children after their parents, siblings in name order, as a scan lists them
	sort.SliceStable(out[1:], func(i, j int) bool { return out[1+i].rel < out[1+j].rel })
	return out
}

// genChanges plans transitions valid for the current disk.
func (e *env) genChanges(r *hx.Rand, n int) []change {
	w := walk(e.root)
	var ts []change
	taken := map[string]bool{}
	clean := func(p string) bool {
		for _, t := range e.touched {
			if related(p, t) {
				return false
			}
		}
		for q := range taken {
			if related(p, q) {
				return false
			}
		}
		return true
	}
	for i := 0; i < n; i++ {
		existing := []string{}
		for _, p := range sortedPaths(w) {
			if clean(p) {
				existing = append(existing, p)
			}
		}
		switch c := r.Intn(10); {
		case c < 5 || len(existing) == 0: // creation
			p := freshPath(r, w, taken)
			if p == "" || !clean(p) {
				continue
			}
			taken[p] = true
			ts = append(ts, change{p, nil, genNewEntry(r, w)})
		case c < 8: // deletion
			p := existing[r.Intn(len(existing))]
			taken[p] = true
			ts = append(ts, change{p, entryAt(w, p), nil})
		default: // modification / replacement
			p := existing[r.Intn(len(existing))]
			taken[p] = true
			if !w[p].dir && r.Chance(2, 3) {
				k := someDigest(r, w)
				if r.Chance(1, 6) {
					k = w[p].k
				}
				ts = append(ts, change{p, entryAt(w, p), absEntry{{".", node{k: k}}}})
			} else {
				ts = append(ts, change{p, entryAt(w, p), genNewEntry(r, w)})
			}
		}
	}
	return ts
}

func fmtChanges(ts []change) string {
	if len(ts) == 0 {
		return "tr:-"
	}
	var s []string
	for _, t := range ts {
		s = append(s, t.String())
	}
	return "tr:" + strings.Join(s, ";")
}

func fmtStage(paths []string, ks []int, supply string) string {
	if len(paths) == 0 {
		return "st:-:" + supply + ":-"
	}
	var items []string
	for i := range paths {
		items = append(items, paths[i]+"="+strconv.Itoa(ks[i]))
	}
	return "st:" + strings.Join(items, "+") + ":" + supply + ":-"
}

func genSupply(r *hx.Rand, ks []int) string {
	switch c := r.Intn(10); {
	case c < 6:
		var s []string
		for _, k := range ks {
			s = append(s, strconv.Itoa(k))
		}
		if len(s) == 0 {
			return "n"
		}
		return strings.Join(s, "+")
	case c < 8:
		return "n"
	default:
		var s []string
		for _, k := range ks {
			switch r.Intn(4) {
			case 0:
				s = append(s, "x")
			case 1:
				s = append(s, strconv.Itoa(r.Intn(nContents)))
			default:
				s = append(s, strconv.Itoa(k))
			}
		}
		if len(s) == 0 {
			return "n"
		}
		return strings.Join(s, "+")
	}
}

func (e *env) genEdits(r *hx.Rand) string {
	w := walk(e.root)
	var eds []string
	n := 1 + r.Intn(3)
	used := map[string]bool{}
	for i := 0; i < n; i++ {
		ps := sortedPaths(w)
		switch c := r.Intn(10); {
		case c < 3 || len(ps) == 0:
			if p := freshPath(r, w, used); p != "" {
				k := someDigest(r, w)
				eds = append(eds, fmt.Sprintf("w=%s=%d", p, k))
				w[p] = node{k: k}
				used[p] = true
			}
		case c < 4:
			if p := freshPath(r, w, used); p != "" {
				eds = append(eds, "d="+p)
				w[p] = node{dir: true}
			}
		case c < 7: // rewrite a file with other content
			p := ps[r.Intn(len(ps))]
			if !w[p].dir && !used[p] {
				k := r.Intn(nContents)
				eds = append(eds, fmt.Sprintf("w=%s=%d", p, k))
				w[p] = node{k: k}
				used[p] = true
			}
		default:
			p := ps[r.Intn(len(ps))]
			if !used[p] {
				eds = append(eds, "r="+p)
				for _, q := range ps {
					if related(q, p) && (q == p || strings.HasPrefix(q, p+"/")) {
						delete(w, q)
					}
				}
				used[p] = true
			}
		}
	}
	if len(eds) == 0 {
		return ""
	}
	return "x:" + strings.Join(eds, "+")
}

// genOps produces the next few ops given the current real state.
func (e *env) genOps(r *hx.Rand) []string {
	var ops []string
	add := func(s string) {
		if s != "" {
			ops = append(ops, s)
		}
	}
	switch c := r.Intn(20); {
	case c < 8: // a synchronization cycle, with perturbations
		if r.Chance(9, 10) {
			add("sc")
		}
		return append(ops, "@cycle")
	case c < 11:
		add("sc")
	case c < 14:
		add(e.genEdits(r))
	case c < 18: // free-standing Stage
		w := walk(e.root)
		n := r.Intn(5)
		var paths []string
		var ks []int
		seen := map[string]bool{}
		for i := 0; i < n; i++ {
			var p string
			ps := sortedPaths(w)
			if len(ps) > 0 && r.Chance(1, 3) {
				p = ps[r.Intn(len(ps))]
			} else {
				p = freshPath(r, w, seen)
			}
			if p == "" {
				continue
			}
			clash := false
			for q := range seen {
				clash = clash || related(p, q)
			}
			if clash {
				continue
			}
			seen[p] = true
			paths = append(paths, p)
			ks = append(ks, someDigest(r, w))
		}
		s := fmtStage(paths, ks, genSupply(r, ks))
		if r.Chance(1, 15) && len(paths) > 0 {
			s = "st!" + s[2:]
		}
		add(s)
	default: // free-standing Transition, possibly with an inconsistent plan
		if r.Chance(1, 3) {
			big := absEntry{{".", node{dir: true}}}
			for i := 0; i < 3+r.Intn(8); i++ {
				big = append(big, struct {
					rel string
					n   node
				}{"z" + strconv.Itoa(i), node{dir: true}})
			}
			add(fmtChanges([]change{{"zz" + strconv.Itoa(r.Intn(3)), big, nil}}))
		} else {
			add(fmtChanges(e.genChanges(r, r.Intn(3))))
		}
	}
	return ops
}

type result struct {
	line, impl, oracle string
	skip               bool
	counts             map[string]int
}

func runGenerated(r *hx.Rand, id int) (res result) {
	rootW := genRoot(r)
	c0 := uint64(len(rootW)) + 1
	var cfgMax uint64
	switch x := r.Intn(20); {
	case x < 5:
		cfgMax = 0
	case x < 17:
		cfgMax = c0 + uint64(r.Intn(8))
		if cfgMax > 0 && r.Chance(1, 4) {
			cfgMax--
		}
		if cfgMax == 0 {
			cfgMax = 1
		}
	default:
		cfgMax = 1000 + uint64(r.Intn(1000))
	}
	ro := r.Chance(1, 25) || *roOnly
	e := newEnv(id, cfgMax, ro, listing(rootW))
	defer e.close()
	defer func() { res.counts = e.counts }()
	head := fmt.Sprintf("m=%d ro=%d root=%s", cfgMax, map[bool]int{false: 0, true: 1}[ro], listing(rootW))
	var opsOut, resOut []string
	run := func(op string) {
		final, res := e.exec(op)
		opsOut = append(opsOut, final)
		resOut = append(resOut, res)
	}
	nGroups := 1 + r.Intn(5)
	for g := 0; g < nGroups; g++ {
		for _, op := range e.genOps(r) {
			if op != "@cycle" {
				run(op)
				continue
			}
			// plan against the disk as it is now, stage the dependencies, apply
			ts := e.genChanges(r, 1+r.Intn(3))
			if r.Chance(1, 6) {
				if ed := e.genEdits(r); ed != "" {
					run(ed)
					if r.Chance(1, 2) {
						run("sc")
					}
					// plan again: nothing that was edited since the scan is touched
					ts = e.genChanges(r, 1+r.Intn(3))
				}
			}
			paths, ks := deps(ts)
			if len(paths) > 0 && r.Chance(9, 10) {
				run(fmtStage(paths, ks, genSupply(r, ks)))
				if r.Chance(1, 8) { // interrupted: rescan and stage again
					run("sc")
					run(fmtStage(paths, ks, genSupply(r, ks)))
				}
			}
			if r.Chance(1, 10) {
				run("sc")
			}
			if r.Chance(9, 10) {
				run(fmtChanges(ts))
			}
		}
	}
	return result{line: head + " " + strings.Join(opsOut, " "), impl: strings.Join(resOut, " "), oracle: e.oracle, skip: e.skip}
}

func runLine(line string, id int) (res result) {
	f := strings.Fields(line)
	cfgMax, _ := strconv.ParseUint(strings.TrimPrefix(f[0], "m="), 10, 64)
	ro := f[1] == "ro=1"
	e := newEnv(id, cfgMax, ro, strings.TrimPrefix(f[2], "root="))
	defer e.close()
	defer func() { res.counts = e.counts }()
	var opsOut, resOut []string
	for _, op := range f[3:] {
		final, res := e.exec(op)
		opsOut = append(opsOut, final)
		resOut = append(resOut, res)
	}
	return result{line: strings.Join(f[:3], " ") + " " + strings.Join(opsOut, " "), impl: strings.Join(resOut, " "), oracle: e.oracle}
}

// protect converts a panic of one case into an oracle failure.
func protect(fallbackLine string, f func() result) (res result) {
	defer func() {
		if r := recover(); r != nil {
			msg := strings.ReplaceAll(fmt.Sprint(r), "\n", " ")
			res = result{line: fallbackLine, impl: "panic:" + msg, oracle: "class=panic " + msg}
		}
	}()
	return f()
}

// -ro: every generated case uses a read-only (one-way alpha) endpoint; this is the stream C02 uses for
// its endpoint half (Properties/C02 readOnly_refuses).
var roOnly = flag.Bool("ro", false, "generate read-only endpoints only (C02 stream)")

func main() {
	hx.Main("C41", func(c *hx.Ctx) {
		out := os.Getenv("VERIF_OUT")
		if out == "" {
			out = c.Dir
		}
		if abs, err := filepath.Abs(out); err == nil {
			out = abs
		}
		os.Setenv("VERIF_OUT", out)
		must(os.Setenv("MUTAGEN_DATA_DIRECTORY", filepath.Join(out, "work", "data")))
		defer os.RemoveAll(filepath.Join(out, "work"))
		emit := func(res result) {
			for k, v := range res.counts {
				for i := 0; i < v; i++ {
					c.Count(k)
				}
			}
			if res.skip {
				c.Count("skipped:order-dependent-copy")
				return
			}
			key := ""
			if strings.Contains(res.impl, "err:") || strings.Contains(res.impl, "refused") || strings.Contains(res.impl, "exceeded") ||
				strings.Contains(res.impl, "st:ok:") {
				key = res.impl
			}
			c.Case(res.line, res.impl, res.oracle, key)
		}
		if lines := c.ReplayLines(); lines != nil {
			for i, l := range lines {
				emit(protect(l, func() result { return runLine(l, i) }))
			}
			return
		}
		n := c.Size(2500, 40000)
		if *roOnly {
			n = c.Size(600, 8000)
		}
		const workers = 6
		seeds := make([]uint64, n)
		for i := range seeds {
			seeds[i] = c.R.U64()
		}
		results := make([]result, n)
		var wg sync.WaitGroup
		next := make(chan int)
		for w := 0; w < workers; w++ {
			wg.Add(1)
			go func() {
				defer wg.Done()
				for i := range next {
					results[i] = protect("m=0 ro=0 root=- panic", func() result { return runGenerated(hx.NewRand(seeds[i]), i) })
				}
			}()
		}
		for i := 0; i < n; i++ {
			next <- i
		}
		close(next)
		wg.Wait()
		for _, res := range results {
			emit(res)
		}
	})
}
