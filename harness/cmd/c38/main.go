// C38: endpoint URLs round-trip through their text form.
//
// Drives the real url.Parse / (*URL).EnsureValid / (*URL).Format on URL
// strings from a grammar (SCP-style SSH, docker://, local paths and forwarding
// endpoints, both kinds) plus exhaustive short strings over the delimiter
// alphabet, prints the canonical results for comparison with the Lean model
// (Model/URL.lean), and evaluates the property's own oracle: whenever Parse
// succeeds the result is valid and Parse(Format(result)) is the same URL.
//
// The process environment read by parseDocker is set per case; the answers of
// filesystem.Normalize (a parameter of the model) are computed here, passed to
// the model in the case line and checked against the specification the
// theorem assumes (absolute and idempotent).
package main

import (
	"fmt"
	"os"
	"strings"
	"unicode"

	"github.com/mutagen-io/mutagen/pkg/url"

	"verif/harness/hx"
	"verif/harness/urlx"
)

var (
	kelvin         = "doc\u212Aer"
	sshUsers       = []string{"user", "user", "u", "", "üser", "docker", "u/x", "~", "a b", "0", "tcp"}
	sshHosts       = []string{"host", "host", "h", "", "docker", "DOCKER", "Docker", kelvin, "h@x", "h/x", "1", "tcp", "unix", "npipe", "C", "c", "[", "a.b", "höst"}
	ports          = []string{"", "0", "00", "000000", "1", "22", "022", "65535", "65536", "065535", "99999999999999999999", "-1", "+1", "1a", "a1", "٣", " 1"}
	syncPaths      = []string{"path", "path", "", "/abs", "~/x", "123:foo", ":foo", "0:", "0:0:x", "12", "//x", "//", "/~", "C:\\x", "a:b", "a@b", "ü", "0", "22:", "65536:x", "x:22:y", "~", "/"}
	fwdPaths       = []string{"tcp:localhost:80", "tcp::80", "unix:/s.sock", "unix:rel", "unix:a/../b", "unix:~/s", "unix:~nosuchuser9/x", "npipe:\\\\.\\pipe\\x", "tcp4:a", "tcp6:[::1]:1", "tcp:", "bogus:x", "tcp", "", "0:tcp:x", "12:tcp::1", "TCP:x", "unix:", ":x", "unix:/a//b/", "tcp://x"}
	dockerPrefixes = []string{"docker://", "docker://", "docker://", "DOCKER://", "Docker://", "dOcKeR://", kelvin + "://", "docker:/", "docker:", "dockerx://", "docker:///"}
	containers     = []string{"cont", "cont", "c", "", "a@b", "c:d", "C", "docker", "0", "cönt", "a.b_c"}
	dockerUsers    = []string{"user", "u", "", "ü", "a:b", "a/b", "0"}
	dockerSyncTail = []string{"/", "/path", "/a/b", "/~", "/~/x", "/~user/x", "/C:/x", "/C:\\x", "/~C:/x", "/~c:\\", "//~x", "/c:", "/c:/", "", "/ü", "/~~", "//", "/1:/x", "/~/C:/x", "/C:", "/CC:/x"}
	localSync      = []string{"/abs/path", "rel", "./a/../b", "~/x", "~", "~root/x", "~nosuchuser9/x", "a/b:c", "/a:b", "C:\\x", "/", ".", "..", "/a//b/", "ü", "/docker://x", "a/docker://", "~/", "/~", "x/~"}
	dashUsers      = []string{"-l", "-", "-oProxyCommand=x", "--"}
	dashHosts      = []string{"-oProxyCommand=x", "-v", "-", "--help", "-h@x"}
	envValues      = []string{"", "x", "tcp://h:1", "1", "/p a"}
)

type gen struct {
	r         *hx.Rand
	dashFixed bool
}

func (g *gen) pick(xs []string) string { return xs[g.r.Intn(len(xs))] }

func (g *gen) user(pool []string) string {
	if g.dashFixed && g.r.Chance(1, 12) {
		return g.pick(dashUsers)
	}
	return g.pick(pool)
}

func (g *gen) host(pool []string) string {
	if g.dashFixed && g.r.Chance(1, 12) {
		return g.pick(dashHosts)
	}
	return g.pick(pool)
}

func (g *gen) ssh(kind string) string {
	s := ""
	if g.r.Chance(1, 2) {
		s += g.user(sshUsers) + "@"
	}
	s += g.host(sshHosts) + ":"
	if g.r.Chance(1, 2) {
		s += g.pick(ports) + ":"
	}
	if kind == "f" && !g.r.Chance(1, 8) {
		s += g.pick(fwdPaths)
	} else {
		s += g.pick(syncPaths)
	}
	return s
}

func (g *gen) docker(kind string) string {
	s := g.pick(dockerPrefixes)
	if g.r.Chance(1, 2) {
		s += g.user(dockerUsers) + "@"
	}
	s += g.host(containers)
	if kind == "f" && !g.r.Chance(1, 8) {
		s += ":" + g.pick(fwdPaths)
	} else {
		s += g.pick(dockerSyncTail)
	}
	return s
}

func (g *gen) local(kind string) string {
	if kind == "f" && !g.r.Chance(1, 8) {
		return g.pick(fwdPaths)
	}
	return g.pick(localSync)
}

const editAlphabet = "a:@/0~C\\d9 .-\xc3\xbc"

func (g *gen) mutate(s string) string {
	b := []byte(s)
	for n := 1 + g.r.Intn(2); n > 0; n-- {
		c := editAlphabet[g.r.Intn(len(editAlphabet))]
		if c == '-' && !g.dashFixed {
			c = 'a'
		}
		switch g.r.Intn(3) {
		case 0: // insert
			i := g.r.Intn(len(b) + 1)
			b = append(b[:i], append([]byte{c}, b[i:]...)...)
		case 1: // delete
			if len(b) > 0 {
				i := g.r.Intn(len(b))
				b = append(b[:i], b[i+1:]...)
			}
		default: // replace
			if len(b) > 0 {
				b[g.r.Intn(len(b))] = c
			}
		}
	}
	return string(b)
}

func (g *gen) env() [][2]string {
	if !g.r.Chance(1, 2) {
		return nil
	}
	var out [][2]string
	for _, n := range urlx.EnvNames {
		if g.r.Chance(1, 10) {
			out = append(out, [2]string{n, g.pick(envValues)})
		}
	}
	return out
}

// factCheck re-establishes the one Unicode fact the model of isDockerURL uses.
func factCheck() {
	for r := rune(128); r <= unicode.MaxRune; r++ {
		if l := unicode.ToLower(r); l < 128 && !(r == 0x212A && l == 'k') && !(r == 0x130 && l == 'i') {
			fmt.Fprintf(os.Stderr, "model assumption broken: unicode.ToLower(%U) = %q\n", r, l)
			os.Exit(3)
		}
	}
	if strings.ToLower("\u212A") != "k" || strings.ToLower("\xe2\x84") == "k" {
		fmt.Fprintln(os.Stderr, "model assumption broken: strings.ToLower on the Kelvin sign")
		os.Exit(3)
	}
}

func main() {
	hx.Main("C38", func(c *hx.Ctx) {
		factCheck()
		os.Unsetenv("MUTAGEN_EXTENSION")
		for _, n := range urlx.EnvNames {
			os.Unsetenv(n)
		}
		emit := func(t urlx.Case, label string) {
			line, spec := t.Line()
			var oracle string
			impl := hx.Try(func() string {
				i, o := urlx.Run(t)
				oracle = o
				return i
			})
			if impl == "panic:unsupported URL kind" && t.Kind == "x" {
				impl = "err:unsupported-kind"
			} else if strings.HasPrefix(impl, "panic:") {
				oracle = "class=panic " + impl
			}
			if oracle == "" {
				oracle = spec
			}
			key := ""
			if strings.HasPrefix(impl, "ok ") {
				key = impl
				f := strings.Fields(impl)
				c.Count("ok:" + strings.SplitN(f[1], "/", 2)[0] + ":" + t.Kind)
			} else {
				c.Count(impl)
			}
			c.Count("gen:" + label)
			c.Case(line, impl, oracle, key)
		}
		if lines := c.ReplayLines(); lines != nil {
			for _, l := range lines {
				t, ok := urlx.ParseLine(l)
				if !ok {
					c.Case(l, "bad-line", "", "")
					continue
				}
				emit(t, "replay")
			}
			return
		}

		// Is the C36 repair (leading '-' rejected) present in the tree under
		// test? Its effect on Parse is checked by C36; without it this stream
		// stays away from such inputs so that the two repairs can be
		// validated independently.
		_, derr := url.Parse("-h:p", url.Kind_Synchronization, true)
		g := &gen{r: c.R, dashFixed: derr != nil}
		if !g.dashFixed {
			c.Note("C36 repair absent in the tree under test: inputs with a leading '-' component are left to C36")
		}

		// 1. Exhaustive short strings over the delimiter alphabet, bare and
		// behind the prefixes that select each parser.
		alphabet := []byte("a:@/0~")
		if g.dashFixed {
			alphabet = append(alphabet, '-')
		}
		var rec func(prefix string, cur []byte, depth int, kind string)
		rec = func(prefix string, cur []byte, depth int, kind string) {
			emit(urlx.Case{Kind: kind, First: true, Raw: prefix + string(cur)}, "exhaustive")
			c.Count("exhaustive")
			if depth == 0 {
				return
			}
			for _, a := range alphabet {
				rec(prefix, append(cur, a), depth-1, kind)
			}
		}
		for _, kind := range []string{"s", "f"} {
			rec("", nil, c.Size(4, 6), kind)
			rec("docker://", nil, c.Size(3, 5), kind)
			rec("h:", nil, c.Size(3, 5), kind)
			if kind == "f" {
				rec("h:tcp:", nil, c.Size(2, 3), kind)
				rec("unix:", nil, c.Size(2, 4), kind)
				rec("docker://c:tcp:", nil, c.Size(1, 2), kind)
			}
		}
		// 2. The grammar: every port spelling against every path (the family
		// the design suspected), then random assemblies with byte edits.
		for _, kind := range []string{"s", "f"} {
			paths := syncPaths
			if kind == "f" {
				paths = fwdPaths
			}
			for _, h := range []string{"host", "user@host", "docker", "u@docker"} {
				for _, p := range ports {
					for _, path := range paths {
						emit(urlx.Case{Kind: kind, First: false, Raw: h + ":" + p + ":" + path}, "ports")
					}
				}
			}
			for _, pre := range dockerPrefixes {
				for _, u := range []string{"", "@", "u@", "u@v@", "@v@"} {
					for _, cn := range []string{"c", "a@b", ""} {
						tails := dockerSyncTail
						if kind == "f" {
							tails = nil
							for _, f := range fwdPaths {
								tails = append(tails, ":"+f)
							}
						}
						for _, tail := range tails {
							emit(urlx.Case{Kind: kind, First: true, Raw: pre + u + cn + tail}, "docker-grid")
						}
					}
				}
			}
		}
		for i := 0; i < c.Size(12000, 400000); i++ {
			kind := "s"
			if g.r.Chance(2, 5) {
				kind = "f"
			}
			if g.r.Chance(1, 400) {
				kind = "x"
			}
			var raw, label string
			switch g.r.Intn(10) {
			case 0, 1, 2, 3:
				raw, label = g.ssh(kind), "ssh"
			case 4, 5, 6:
				raw, label = g.docker(kind), "docker"
			default:
				raw, label = g.local(kind), "local"
			}
			if g.r.Chance(1, 4) {
				raw, label = g.mutate(raw), label+"+edit"
			}
			emit(urlx.Case{Kind: kind, First: g.r.Chance(1, 2), Raw: raw, Env: g.env()}, label)
		}
	})
}
