// C11: root deletion, root type change and one-sided emptying halt the session.
//
// Streams (one PRNG):
//
//	e <A> <alpha> <beta>     oneEndpointEmptiedRoot (verif export)
//	r <changes>              containsRootDeletion / containsRootTypeChange
//	f <filtered> <original>  filteredPathsAreSubset
//	s <mode> <portable> <αp> <βp> <A> <alpha> <beta>
//	                         one cycle of a real session (controller.run /
//	                         synchronize) over scripted endpoints that report the
//	                         given contents, then a second flush
//	S <mode> <A> <alpha> <beta> <script>
//	                         the run loop over scripted endpoints: flushes with
//	                         changing contents, pause + resume
//	R <mode> <steps>         a real session between two real directories (real
//	                         local endpoints), with the root deleted / replaced by
//	                         a file / emptied at random points of an edit history
//
// Oracle (from the statement, independent of the model), evaluated on every
// cycle of s, S and R:
//   - a root that exists before a cycle exists afterwards with the same kind
//     (no root deletion or root type change is ever propagated);
//   - if the ancestor is a directory with at least two entries, both roots are
//     directories and exactly one of them is empty, the session halts with
//     halted-on-root-emptied;
//   - a halting cycle calls neither Stage nor Supply nor Transition, leaves both
//     roots and the saved ancestor unchanged, and the session refuses further
//     flushes (again without touching anything) until it is paused and resumed.
package main

import (
	"fmt"
	"os"
	"path/filepath"
	"strings"

	"github.com/mutagen-io/mutagen/pkg/synchronization"
	"github.com/mutagen-io/mutagen/pkg/synchronization/core"

	"verif/harness/corex"
	"verif/harness/hx"
	sessx "verif/harness/scriptx"
)

func flag(b bool) string {
	if b {
		return "1"
	}
	return "0"
}

// ---- independent predicates ----

func isDir(e *core.Entry) bool { return e != nil && e.Kind == core.EntryKind_Directory }

// emptiedSituation: the statement's "emptying of a root that previously held
// at least two entries on only one side".
func emptiedSituation(A, alpha, beta *core.Entry) bool {
	if !isDir(A) || !isDir(alpha) || !isDir(beta) || len(A.Contents) < 2 {
		return false
	}
	return (len(alpha.Contents) == 0) != (len(beta.Contents) == 0)
}

func isSubsequence(filtered, original []string) bool {
	i := 0
	for _, f := range filtered {
		for i < len(original) && original[i] != f {
			i++
		}
		if i == len(original) {
			return false
		}
		i++
	}
	return true
}

// cycleOracle checks one cycle: before/after contents of both roots, the
// ancestor before/after, the outcome and the endpoint events.
func cycleOracle(A, alpha, beta *core.Entry, cy *sessx.Cycle) string {
	halted := strings.HasPrefix(cy.Outcome, "halted-") || strings.HasPrefix(cy.Outcome, "refused:")
	if emptiedSituation(A, alpha, beta) && cy.Outcome != "halted-on-root-emptied" && !strings.HasPrefix(cy.Outcome, "refused:") {
		return "class=emptied-not-halted one side emptied a root with " + fmt.Sprint(len(A.Contents)) + " entries but the cycle ended as " + cy.Outcome
	}
	for _, side := range []struct {
		name          string
		before, after *core.Entry
	}{{"alpha", alpha, cy.Alpha}, {"beta", beta, cy.Beta}} {
		if side.before != nil && side.after == nil {
			return "class=root-deleted the " + side.name + " root " + hx.EncEntry(side.before) + " was deleted by the cycle (" + cy.Outcome + ")"
		}
		if side.before != nil && side.after.Kind != side.before.Kind {
			return "class=root-retyped the " + side.name + " root " + hx.EncEntry(side.before) + " became " + hx.EncEntry(side.after)
		}
	}
	if halted {
		if cy.HasEndpointEvents() {
			return "class=halt-with-effects halted (" + cy.Outcome + ") but the controller called " + sessx.EncEvents(cy.Events, false)
		}
		if !corex.Same(alpha, cy.Alpha) || !corex.Same(beta, cy.Beta) {
			return "class=halt-with-effects halted (" + cy.Outcome + ") but an endpoint changed"
		}
		if !corex.Same(A, cy.Ancestor) {
			return "class=halt-with-effects halted (" + cy.Outcome + ") but the saved ancestor changed to " + hx.EncEntry(cy.Ancestor)
		}
	}
	if cy.Outcome == "flush-accepted-while-halted" {
		return "class=halt-not-absorbing a halted session accepted a flush"
	}
	return ""
}

// ---- case execution ----

type runner struct {
	c     *hx.Ctx
	env   *sessx.Env
	roots int
}

func (rn *runner) session() *sessx.Env {
	if rn.env == nil {
		env, err := sessx.NewEnv("c11")
		if err != nil {
			panic(err)
		}
		rn.env = env
	}
	return rn.env
}

func perms(portable bool) core.PermissionsMode {
	if portable {
		return core.PermissionsMode_PermissionsModePortable
	}
	return core.PermissionsMode_PermissionsModeManual
}

func decTextList(s string) ([]string, bool) {
	if s == "-" {
		return nil, true
	}
	var out []string
	for _, t := range strings.Split(s, ",") {
		d, err := hx.DecText(t)
		if err != nil {
			return nil, false
		}
		out = append(out, d)
	}
	return out, true
}

func encTextList(l []string) string {
	if len(l) == 0 {
		return "-"
	}
	out := make([]string, len(l))
	for i, s := range l {
		out[i] = hx.EncText(s)
	}
	return strings.Join(out, ",")
}

func (rn *runner) runLine(line string) (impl, verdict, key string) {
	c := rn.c
	f := strings.Fields(line)
	if len(f) == 0 {
		return "bad-op", "", ""
	}
	switch f[0] {
	case "e":
		if len(f) != 4 {
			return "bad-op", "", ""
		}
		A, e1 := hx.DecEntry(f[1])
		al, e2 := hx.DecEntry(f[2])
		be, e3 := hx.DecEntry(f[3])
		if e1 != nil || e2 != nil || e3 != nil {
			return "bad-op", "", ""
		}
		got := synchronization.VerifC11OneEndpointEmptiedRoot(A, al, be)
		if got != emptiedSituation(A, al, be) {
			verdict = "class=emptied-check-wrong oneEndpointEmptiedRoot = " + flag(got)
		}
		if got {
			key = "e " + line
			c.Count("e:true")
		}
		return flag(got), verdict, key
	case "r":
		if len(f) != 2 {
			return "bad-op", "", ""
		}
		cs, err := hx.DecChanges(f[1])
		if err != nil {
			return "bad-op", "", ""
		}
		del := synchronization.VerifC11ContainsRootDeletion(cs)
		typ := synchronization.VerifC11ContainsRootTypeChange(cs)
		wantDel, wantTyp := false, false
		for _, ch := range cs {
			if ch.Path == "" && ch.Old != nil && ch.New == nil {
				wantDel = true
			}
			if ch.Path == "" && ch.Old != nil && ch.New != nil && ch.Old.Kind != ch.New.Kind {
				wantTyp = true
			}
		}
		if del != wantDel || typ != wantTyp {
			verdict = "class=root-check-wrong deletion=" + flag(del) + " type-change=" + flag(typ)
		}
		if del || typ {
			key = "r " + flag(del) + flag(typ) + f[1]
			c.Count("r:" + flag(del) + flag(typ))
		}
		return flag(del) + flag(typ), verdict, key
	case "f":
		if len(f) != 3 {
			return "bad-op", "", ""
		}
		fl, ok1 := decTextList(f[1])
		orig, ok2 := decTextList(f[2])
		if !ok1 || !ok2 {
			return "bad-op", "", ""
		}
		got := synchronization.VerifC11FilteredPathsAreSubset(fl, orig)
		if got != isSubsequence(fl, orig) {
			verdict = "class=subset-check-wrong filteredPathsAreSubset = " + flag(got)
		}
		c.Count("f:" + flag(got))
		return flag(got), verdict, "f " + line
	case "s":
		return rn.single(f)
	case "S":
		return rn.script(f)
	case "R":
		return rn.real(f)
	}
	return "bad-op", "", ""
}

func (rn *runner) single(f []string) (impl, verdict, key string) {
	c := rn.c
	if len(f) != 8 {
		return "bad-op", "", ""
	}
	mode, ok := hx.ModeByName(f[1])
	if !ok {
		return "bad-op", "", ""
	}
	portable, pa, pb := f[2] == "1", f[3] == "1", f[4] == "1"
	A, e1 := hx.DecEntry(f[5])
	al, e2 := hx.DecEntry(f[6])
	be, e3 := hx.DecEntry(f[7])
	if e1 != nil || e2 != nil || e3 != nil {
		return "bad-op", "", ""
	}
	env := rn.session()
	w := &sessx.World{Alpha: &sessx.Side{Tree: al, Preserves: pa, StripExec: !pa}, Beta: &sessx.Side{Tree: be, Preserves: pb, StripExec: !pb}}
	s, err := env.NewFakeSession(sessx.Config(mode, perms(portable)), w)
	if err != nil {
		panic(err)
	}
	defer s.Terminate()
	if err := s.SetAncestor(A); err != nil {
		panic(err)
	}
	if err := s.Resume(); err != nil {
		panic(err)
	}
	cy := s.Cycle()
	impl = cy.Enc(false) + " conf=" + sessx.ConflictRoots(cy.Conflicts)
	phantom := corex.HasKind(al, core.EntryKind_PhantomDirectory) || corex.HasKind(be, core.EntryKind_PhantomDirectory)
	if !phantom {
		verdict = cycleOracle(A, al, be, cy)
	}
	c.Count("s:" + f[1] + ":" + cy.Outcome)
	again := "-"
	switch {
	case strings.HasPrefix(cy.Outcome, "halted-"):
		cy2 := s.Cycle()
		again = "refused"
		if cy2.Outcome != "refused:"+cy.Outcome {
			again = cy2.Outcome
		}
		if verdict == "" {
			verdict = cycleOracle(cy.Ancestor, cy.Alpha, cy.Beta, cy2)
			if verdict == "" && cy2.Outcome != "refused:"+cy.Outcome {
				verdict = "class=halt-not-absorbing second flush of a halted session: " + cy2.Outcome
			}
		}
		key = "s-halt " + impl
	case cy.Outcome == "completed":
		cy2 := s.Cycle()
		again = cy2.Enc(false) + " conf=" + sessx.ConflictRoots(cy2.Conflicts)
		if verdict == "" && !phantom {
			verdict = cycleOracle(cy.Ancestor, cy.Alpha, cy.Beta, cy2)
		}
		if len(cy.Events) > 0 {
			key = "s-act " + impl
		}
	}
	impl += " again=" + again
	return
}

func (rn *runner) script(f []string) (impl, verdict, key string) {
	c := rn.c
	if len(f) != 6 {
		return "bad-op", "", ""
	}
	mode, ok := hx.ModeByName(f[1])
	if !ok {
		return "bad-op", "", ""
	}
	A, e1 := hx.DecEntry(f[2])
	al, e2 := hx.DecEntry(f[3])
	be, e3 := hx.DecEntry(f[4])
	if e1 != nil || e2 != nil || e3 != nil {
		return "bad-op", "", ""
	}
	var items []string
	if f[5] != "-" {
		items = strings.Split(f[5], ";")
	}
	env := rn.session()
	w := &sessx.World{Alpha: &sessx.Side{Tree: al, Preserves: true}, Beta: &sessx.Side{Tree: be, Preserves: true}}
	s, err := env.NewFakeSession(sessx.Config(mode, core.PermissionsMode_PermissionsModePortable), w)
	if err != nil {
		panic(err)
	}
	defer s.Terminate()
	if err := s.SetAncestor(A); err != nil {
		panic(err)
	}
	if err := s.Resume(); err != nil {
		panic(err)
	}
	var outs []string
	haltSeen := false
	for _, item := range items {
		parts := strings.Split(item, "=")
		switch {
		case parts[0] == "t" && (len(parts) == 1 || len(parts) == 3):
			if len(parts) == 3 {
				a2, err1 := hx.DecEntry(parts[1])
				b2, err2 := hx.DecEntry(parts[2])
				if err1 != nil || err2 != nil {
					return "bad-op", "", ""
				}
				w.Set(a2, b2)
			}
			anc, err := s.Ancestor()
			if err != nil {
				panic(err)
			}
			a0, b0 := w.Trees()
			cy := s.Cycle()
			outs = append(outs, cy.Enc(false))
			c.Count("S:" + strings.SplitN(cy.Outcome, ":", 2)[0])
			if verdict == "" {
				verdict = cycleOracle(anc, a0, b0, cy)
			}
			if strings.HasPrefix(cy.Outcome, "halted-") || strings.HasPrefix(cy.Outcome, "refused:") {
				haltSeen = true
			}
			if cy.Outcome == "failed" {
				impl = strings.Join(outs, " | ")
				return impl, verdict, "S " + impl
			}
		case item == "pr":
			if err := s.Pause(); err != nil {
				panic(err)
			}
			if err := s.Resume(); err != nil {
				panic(err)
			}
			anc, err := s.Ancestor()
			if err != nil {
				panic(err)
			}
			a0, b0 := w.Trees()
			outs = append(outs, "resumed anc="+hx.EncEntry(anc)+" alpha="+hx.EncEntry(a0)+" beta="+hx.EncEntry(b0))
			w.Events()
		default:
			return "bad-op", "", ""
		}
	}
	impl = strings.Join(outs, " | ")
	if haltSeen {
		key = "S " + impl
	}
	return
}

func (rn *runner) real(f []string) (impl, verdict, key string) {
	c := rn.c
	if len(f) != 3 {
		return "bad-op", "", ""
	}
	mode, ok := hx.ModeByName(f[1])
	if !ok {
		return "bad-op", "", ""
	}
	var steps []string
	if f[2] != "-" {
		steps = strings.Split(f[2], ",")
	}
	env := rn.session()
	rn.roots++
	dir := filepath.Join(filepath.Dir(env.Dir), fmt.Sprintf("roots-c11-%d", rn.roots))
	os.RemoveAll(dir)
	defer os.RemoveAll(dir)
	s, err := env.NewRealSession(sessx.Config(mode, core.PermissionsMode_PermissionsModePortable), dir)
	if err != nil {
		panic(err)
	}
	defer s.Terminate()
	w := s.World
	var outs []string
	haltSeen := false
	for _, step := range steps {
		parts := strings.Split(step, "=")
		switch {
		case step == "f":
			anc, err := s.Ancestor()
			if err != nil {
				panic(err)
			}
			anc = sessx.Abstract(anc)
			a0, b0 := w.Trees()
			cy := s.Cycle()
			outs = append(outs, cy.Enc(true))
			c.Count("R:" + strings.SplitN(cy.Outcome, ":", 2)[0])
			if verdict == "" {
				verdict = cycleOracle(anc, a0, b0, cy)
			}
			if strings.HasPrefix(cy.Outcome, "halted-") || strings.HasPrefix(cy.Outcome, "refused:") {
				haltSeen = true
			}
			if cy.Outcome == "failed" {
				st, _ := s.State()
				c.Note("real session cycle failed: " + st.LastError + " in " + strings.Join(f, " "))
				impl = strings.Join(outs, " | ")
				return impl, verdict, "R " + impl
			}
		case step == "pr":
			if err := s.Pause(); err != nil {
				panic(err)
			}
			if err := s.Resume(); err != nil {
				panic(err)
			}
			anc, err := s.Ancestor()
			if err != nil {
				panic(err)
			}
			a0, b0 := w.Trees()
			outs = append(outs, "resumed anc="+hx.EncEntry(sessx.Abstract(anc))+" alpha="+hx.EncEntry(a0)+" beta="+hx.EncEntry(b0))
			w.Events()
		case parts[0] == "a" || parts[0] == "b":
			root := w.Real.Alpha
			if parts[0] == "b" {
				root = w.Real.Beta
			}
			if err := sessx.FSEdit(root, parts[1:]); err != nil {
				return "bad-op", "", ""
			}
		default:
			return "bad-op", "", ""
		}
	}
	impl = strings.Join(outs, " | ")
	if haltSeen {
		key = "R " + impl
	}
	return
}

// ---- generators ----

var rootNames = []string{"a", "b", "c", "d"}

func smallRoots() []*core.Entry {
	specs := []string{"~", "F#01", "L@t", "U", "X!p", "D", "D(a:F#01)", "D(a:D)", "D(a:F#01,b:F#02)", "D(a:F#01,b:D(c:F#03))",
		"D(a:F#01,b:F#02,c:L@t)", "D(a:U)", "D(a:F#01,b:U)", "P(a:F#01,b:F#02)"}
	out := make([]*core.Entry, len(specs))
	for i, s := range specs {
		out[i] = hx.MustEntry(s)
	}
	return out
}

// dangerous applies, with some probability, one of the root-level events of
// the statement to an endpoint tree.
func dangerous(r *hx.Rand, e *core.Entry) (*core.Entry, string) {
	switch r.Intn(10) {
	case 0:
		return nil, "root-deleted"
	case 1:
		return &core.Entry{Kind: core.EntryKind_File, Digest: []byte{byte(1 + r.Intn(3))}}, "root-file"
	case 2:
		return &core.Entry{Kind: core.EntryKind_SymbolicLink, Target: "t"}, "root-link"
	case 3, 4:
		return &core.Entry{Kind: core.EntryKind_Directory}, "root-emptied"
	}
	return e, "none"
}

func editTree(r *hx.Rand, e *core.Entry, k int) *core.Entry {
	for i := 0; i < k; i++ {
		paths := hx.Paths(e)
		if len(paths) == 0 {
			return e
		}
		q := paths[r.Intn(len(paths))]
		cur := hx.Lookup(e, q)
		var v *core.Entry
		switch r.Intn(6) {
		case 0:
			if q == "" {
				continue
			}
			v = nil
		case 1, 2:
			v = &core.Entry{Kind: core.EntryKind_File, Digest: []byte{byte(1 + r.Intn(5))}, Executable: r.Chance(1, 4)}
			if isDir(cur) {
				q = corex.Join(q, rootNames[r.Intn(len(rootNames))])
			}
		case 3:
			if isDir(cur) {
				q = corex.Join(q, rootNames[r.Intn(len(rootNames))])
			}
			v = &core.Entry{Kind: core.EntryKind_Directory}
		default:
			if q == "" {
				continue
			}
			v = hx.GenEntry(r, hx.TreeOpts{MaxDepth: 2, MaxKids: 2, Names: rootNames}, 2)
		}
		if next, ok := hx.Set(e, q, v); ok {
			e = next
		}
	}
	return e
}

func genRootDir(r *hx.Rand) *core.Entry {
	d := &core.Entry{Kind: core.EntryKind_Directory}
	k := r.Intn(5)
	for i := 0; i < k; i++ {
		if d.Contents == nil {
			d.Contents = map[string]*core.Entry{}
		}
		d.Contents[rootNames[r.Intn(len(rootNames))]] = hx.GenEntry(r, hx.TreeOpts{MaxDepth: 2, MaxKids: 2, Names: rootNames}, 2)
	}
	return d
}

func genCase(r *hx.Rand, c *hx.Ctx) (A, al, be *core.Entry) {
	switch r.Intn(8) {
	case 0:
		A, al, be = hx.GenTriple(r, hx.TreeOpts{Unsync: true, MaxDepth: 3, MaxKids: 3, Names: rootNames})
	case 1:
		A = nil
		al, be = genRootDir(r), genRootDir(r)
	default:
		A = genRootDir(r)
		al = editTree(r, A, r.Intn(3))
		be = editTree(r, A, r.Intn(3))
	}
	var what string
	if r.Chance(1, 2) {
		al, what = dangerous(r, al)
	} else {
		be, what = dangerous(r, be)
	}
	c.Count("event:" + what)
	if r.Chance(1, 12) {
		// the same event on both sides
		be = al
	}
	return
}

func main() {
	hx.Main("C11", func(c *hx.Ctx) {
		rn := &runner{c: c}
		defer func() {
			if rn.env != nil {
				rn.env.Close()
			}
		}()
		run := func(line string) {
			var verdict, key string
			impl := hx.Try(func() string {
				i, v, k := rn.runLine(line)
				verdict, key = v, k
				return i
			})
			if strings.HasPrefix(impl, "panic:") {
				verdict = "class=panic " + impl
			}
			c.Case(line, impl, verdict, key)
		}
		if lines := c.ReplayLines(); lines != nil {
			for _, l := range lines {
				run(l)
			}
			return
		}
		r := c.R
		roots := smallRoots()

		// e: exhaustive over the small roots, then random.
		for _, a := range roots {
			for _, al := range roots {
				for _, be := range roots {
					run("e " + hx.EncEntry(a) + " " + hx.EncEntry(al) + " " + hx.EncEntry(be))
					c.Count("exhaustive")
				}
			}
		}
		for n := 0; n < c.Size(3000, 100000); n++ {
			A, al, be := genCase(r, c)
			run("e " + hx.EncEntry(A) + " " + hx.EncEntry(al) + " " + hx.EncEntry(be))
		}

		// r: change lists.
		paths := []string{"", "", "a", "a/b", "b"}
		for n := 0; n < c.Size(4000, 100000); n++ {
			k := r.Intn(4)
			cs := make([]*core.Change, k)
			for i := range cs {
				cs[i] = &core.Change{Path: paths[r.Intn(len(paths))], Old: roots[r.Intn(len(roots))], New: roots[r.Intn(len(roots))]}
			}
			run("r " + hx.EncChangesOrdered(cs))
		}

		// f: exhaustive short lists over {a, b, a/b}, then random longer ones.
		alphabet := []string{"a", "b", "a/b"}
		var lists func(n int) [][]string
		lists = func(n int) [][]string {
			if n == 0 {
				return [][]string{nil}
			}
			var out [][]string
			for _, l := range lists(n - 1) {
				out = append(out, l)
				if len(l) == n-1 {
					for _, x := range alphabet {
						out = append(out, append(append([]string{}, l...), x))
					}
				}
			}
			return out
		}
		for _, fl := range lists(3) {
			for _, orig := range lists(4) {
				run("f " + encTextList(fl) + " " + encTextList(orig))
				c.Count("exhaustive")
			}
		}
		pool := []string{"a", "b", "c", "a/b", "a/c", "d/e/f", "", "é"}
		for n := 0; n < c.Size(3000, 100000); n++ {
			orig := make([]string, r.Intn(8))
			for i := range orig {
				orig[i] = pool[r.Intn(len(pool))]
			}
			var fl []string
			for _, o := range orig {
				if r.Chance(1, 2) {
					fl = append(fl, o)
				}
			}
			switch r.Intn(6) {
			case 0:
				if len(fl) > 1 {
					fl[0], fl[len(fl)-1] = fl[len(fl)-1], fl[0]
				}
			case 1:
				fl = append(fl, pool[r.Intn(len(pool))])
			case 2:
				if len(fl) > 0 {
					fl = append(fl, fl[r.Intn(len(fl))])
				}
			}
			run("f " + encTextList(fl) + " " + encTextList(orig))
		}

		// s: single cycles of real sessions over scripted endpoints.
		for n := 0; n < c.Size(1500, 60000); n++ {
			m := hx.Modes[r.Intn(len(hx.Modes))]
			A, al, be := genCase(r, c)
			portable, pa, pb := true, true, true
			switch r.Intn(8) {
			case 0:
				pa = false
			case 1:
				pb = false
			case 2:
				portable = false
			}
			run("s " + m.Name + " " + flag(portable) + " " + flag(pa) + " " + flag(pb) + " " + hx.EncEntry(A) + " " + hx.EncEntry(al) + " " + hx.EncEntry(be))
		}

		// S: run-loop scripts.
		for n := 0; n < c.Size(250, 10000); n++ {
			m := hx.Modes[r.Intn(len(hx.Modes))]
			A := genRootDir(r)
			al, be := A, A
			if r.Chance(1, 4) {
				A = nil
			}
			cur := [2]*core.Entry{al, be}
			k := 1 + r.Intn(6)
			items := make([]string, 0, k)
			for j := 0; j < k; j++ {
				switch r.Intn(7) {
				case 0:
					items = append(items, "t")
				case 1:
					items = append(items, "pr")
				default:
					side := r.Intn(2)
					base := cur[side]
					if r.Chance(1, 3) {
						base, _ = dangerous(r, base)
					} else {
						base = editTree(r, base, 1+r.Intn(2))
					}
					cur[side] = base
					items = append(items, "t="+hx.EncEntry(cur[0])+"="+hx.EncEntry(cur[1]))
					// After a completed cycle the real contents move on; the
					// script keeps editing its own idea of them, which is fine:
					// every item states both contents explicitly.
				}
			}
			run("S " + m.Name + " " + hx.EncEntry(A) + " " + hx.EncEntry(al) + " " + hx.EncEntry(be) + " " + strings.Join(items, ";"))
		}

		// R: real sessions between real directories.
		for n := 0; n < c.Size(60, 3000); n++ {
			m := hx.Modes[r.Intn(len(hx.Modes))]
			k := 4 + r.Intn(14)
			steps := make([]string, 0, k+4)
			// start with some content on alpha and a first synchronization
			for j := 0; j < 1+r.Intn(3); j++ {
				steps = append(steps, "a=w=/"+rootNames[r.Intn(len(rootNames))]+"="+hx.Hex([]byte{byte(1 + r.Intn(4))}))
			}
			steps = append(steps, "f")
			rndPath := func() string {
				p := "/" + rootNames[r.Intn(len(rootNames))]
				if r.Chance(1, 3) {
					p += "/" + rootNames[r.Intn(len(rootNames))]
				}
				return p
			}
			for j := 0; j < k; j++ {
				side := r.Pick("a", "b")
				switch r.Intn(16) {
				case 0, 1, 2:
					x := ""
					if r.Chance(1, 4) {
						x = "x"
					}
					steps = append(steps, side+"=w="+rndPath()+"="+hx.Hex([]byte{byte(1 + r.Intn(4))})+x)
				case 3:
					steps = append(steps, side+"=m="+rndPath())
				case 4:
					steps = append(steps, side+"=d="+rndPath())
				case 5:
					steps = append(steps, side+"=d=/")
					c.Count("event:real-root-deleted")
				case 6:
					steps = append(steps, side+"=w=/="+hx.Hex([]byte{byte(1 + r.Intn(4))}))
					c.Count("event:real-root-file")
				case 7, 8:
					steps = append(steps, side+"=e")
					c.Count("event:real-root-emptied")
				case 9:
					steps = append(steps, side+"=m=/")
				case 10:
					steps = append(steps, "pr")
				default:
					steps = append(steps, "f")
				}
			}
			steps = append(steps, "f")
			run("R " + m.Name + " " + strings.Join(steps, ","))
		}
	})
}
