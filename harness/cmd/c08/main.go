// C08: transitions never destroy content changed after the scan.
//
// Builds random trees on a real scratch directory, scans them with the real
// core.Scan, modifies the disk behind the scanner's back (content and time
// changes, chmod, replacement by a new inode, link retargeting, unknown
// children, FIFOs, type changes), runs the real core.Transition with plans
// derived from the scan (and with plans that are not), with and without
// injected faults, reads the tree back independently, prints the canonical
// answer for comparison with the Lean model, and evaluates the property's own
// oracle: whatever changed after the scan is untouched afterwards.
package main

import (
	"path/filepath"
	"sort"
	"strings"

	"verif/harness/hx"
	"verif/harness/transx"
)

func key(sc *transx.Scenario, o *transx.Outcome, faults []transx.Fault) string {
	set := map[string]bool{}
	for _, p := range o.Problems {
		set["p:"+transx.Classify(p.Error)] = true
	}
	for _, e := range sc.Edits {
		set["e:"+e.Kind] = true
	}
	for _, f := range faults {
		set["f:"+f.Op+string(f.Act)] = true
	}
	if len(set) == 0 {
		return ""
	}
	ks := make([]string, 0, len(set))
	for k := range set {
		ks = append(ks, k)
	}
	sort.Strings(ks)
	return strings.Join(ks, ",")
}

func main() {
	hx.Main("C08", func(c *hx.Ctx) {
		dir := filepath.Join(c.Dir, "scratch")
		harnessError := func(line string, err error) {
			c.Case(line, "harness-error: "+err.Error(), "class=harness-error "+err.Error(), "")
		}
		run := func(cs *transx.Case, sc *transx.Scenario) *transx.Outcome {
			o, err := transx.Run(cs)
			if err != nil {
				harnessError("harness-error", err)
				return nil
			}
			oracle := transx.OracleC08(cs, o)
			for _, p := range o.Problems {
				cl := transx.Classify(p.Error)
				c.Count("problem:" + cl)
				if cl == "unclassified" && oracle == "" {
					oracle = "class=harness-error unclassified problem text: " + p.Error
				}
			}
			k := ""
			if sc != nil {
				k = key(sc, o, cs.Faults)
			}
			c.Case(o.Line, o.Impl, oracle, k)
			return o
		}
		if lines := c.ReplayLines(); lines != nil {
			for _, l := range lines {
				cs, err := transx.BuildFromLine(l, dir)
				if err != nil {
					harnessError(l, err)
					continue
				}
				run(cs, nil)
			}
			return
		}
		shm := transx.ShmAvailable(dir)
		if !shm {
			c.Note("/dev/shm is not a separate writable device: cross-device renames are only injected")
		}
		n := c.Size(500, 25000)
		for i := 0; i < n; i++ {
			g := &transx.Gen{R: c.R}
			sc := g.GenScenario(!c.R.Chance(1, 6), c.R.Chance(1, 3))
			var faults []transx.Fault
			// Cross-device transitions: the first rename of a staged file reports
			// EXDEV (injected through the hook, or for real with the staging area on
			// /dev/shm) — always tried when content was put, after the scan, at a
			// path where the plan creates something, and now and then otherwise.
			var xdev []transx.Fault
			if len(sc.Squats) > 0 {
				c.Count("squat")
				switch r := c.R.Intn(4); {
				case r == 0:
				case r == 1 && shm:
					sc.ShmStaging = true
				default:
					for _, p := range sc.Squats {
						xdev = append(xdev, transx.Fault{Op: "rename", Name: transx.Leaf(p), K: 0, Act: 'x'})
					}
				}
			} else if names := transx.FileCreationNames(sc.Plan); len(names) > 0 && c.R.Chance(1, 8) {
				if shm && c.R.Chance(1, 2) {
					sc.ShmStaging = true
				} else {
					xdev = append(xdev, transx.Fault{Op: "rename", Name: names[c.R.Intn(len(names))], K: 0, Act: 'x'})
				}
			}
			if sc.ShmStaging {
				if sc.Cfg.FileMode == 0 {
					sc.Cfg.FileMode = 0o600
				}
				c.Count("real-cross-device")
			}
			if len(xdev) > 0 {
				c.Count("injected-exdev")
			}
			if c.R.Chance(1, 3) && (sc.Derived || len(xdev) == 0) {
				// Learn the fault points from a fault-free run, then inject one or two.
				cs, err := transx.Build(sc, dir, xdev)
				if err != nil {
					harnessError("harness-error", err)
					continue
				}
				o, err := transx.Run(cs)
				if cs.Cleanup != nil {
					cs.Cleanup()
				}
				if err == nil {
					// The permission call that follows the creation of a link is the
					// fault point of the C09 finding (fixes/C09.patch); it plays no role
					// for C08 and is left to C09's stream.
					links := transx.NewLinkNames(sc.Plan)
					var pts []transx.Fault
					for _, f := range transx.FaultPoints(o.Events) {
						if f.Op == "chmod" && links[f.Name] {
							continue
						}
						pts = append(pts, f)
					}
					k := 1 + c.R.Intn(2)
					if !sc.Derived {
						// Plans that are not a diff of the scan may visit a name in more
						// than one content loop; the observed sibling order is then only
						// reliable for what does not depend on it (one failure, no
						// cancellation, no directory-listing fault).
						k = 1
					}
					for ; k > 0 && len(pts) > 0; k-- {
						f := pts[c.R.Intn(len(pts))]
						f.Act = "ffcx"[c.R.Intn(4)]
						if f.Act == 'x' && f.Op != "rename" {
							f.Act = 'f'
						}
						if !sc.Derived && (f.Act == 'c' || f.Op == "readdir") {
							continue
						}
						if sc.ShmStaging && f.Op == "rename" && f.Act != 'f' {
							// a really cross-device rename cannot also cancel or be told to report EXDEV
							f.Act = 'f'
						}
						dup := false
						for _, x := range xdev {
							if x.Op == f.Op && x.Name == f.Name && x.K == f.K {
								dup = true
							}
						}
						if dup {
							continue
						}
						faults = append(faults, f)
					}
				}
				c.Count("with-faults")
			}
			faults = append(xdev, faults...)
			cs, err := transx.Build(sc, dir, faults)
			if err != nil {
				harnessError("harness-error", err)
				continue
			}
			for _, e := range sc.Edits {
				c.Count("edit:" + e.Kind)
			}
			if !sc.Derived {
				c.Count("weird-plan")
			}
			if len(cs.Protected) > 0 {
				c.Count("has-protected")
			}
			run(cs, sc)
			if cs.Cleanup != nil {
				cs.Cleanup()
			}
		}
	})
}
