// sessx: the shared session-history stream of properties C01–C05.
//
// Every case is a whole history of a REAL synchronization session: two real
// local roots on disk, a session created through synchronization.Manager
// (protocol "local", watch mode no-watch, the mode under test, one ignore
// pattern), synchronous flush cycles, an edit script between the cycles, and —
// in some cycles — a filesystem fault injected into the transition or a
// cancellation placed inside the transition (the session is then paused and
// resumed). After every cycle both roots are read back by an independent
// walker, the archive file the controller saved is decoded, and the session
// state is taken from Manager.List. `modeld SESS` replays the same history on
// the Lean model of controller.synchronize (reconcile + ideal application for
// fault-free cycles; for faulted / cancelled cycles the expected archive is
// computed from the previous archive, the plan and the observed roots) and
// must print the same answer. See harness/sessx for the line format, the
// generators and the oracles.
//
// `-prop Cxx` selects the generator profile of that property and restricts the
// emitted oracle failures to that property's classes (class=Cxx-…).
package main

import (
	"flag"
	"fmt"
	"os"
	"strings"
	"sync"

	"verif/harness/hx"
	"verif/harness/sessx"
)

var prop = flag.String("prop", "", "property whose oracle failures are emitted (C01..C05); empty = all")
var workers = flag.Int("workers", 6, "histories executed concurrently")

type job struct {
	idx    int
	gen    *sessx.Gen
	replay string // a case line to re-execute
	ep     string // a direct-endpoint case line
}

func main() {
	hx.Main("SESS", func(c *hx.Ctx) {
		profile, ok := sessx.Profiles[*prop]
		if !ok {
			fmt.Fprintln(os.Stderr, "unknown -prop", *prop)
			os.Exit(2)
		}
		out := os.Getenv("VERIF_OUT")
		if out == "" {
			out = c.Dir
		}
		env, err := sessx.NewEnv(out)
		if err != nil {
			fmt.Fprintln(os.Stderr, "sessx:", err)
			os.Exit(2)
		}
		defer env.Close()
		runner := &sessx.Runner{Env: env}

		var jobs []job
		if lines := c.ReplayLines(); lines != nil {
			// Replayed lines may come from different runs and share leaf names; the
			// fault hook is keyed by leaf name, so replays run one at a time.
			*workers = 1
			for i, l := range lines {
				if strings.HasPrefix(l, "EP ") {
					jobs = append(jobs, job{idx: i, ep: l})
				} else {
					jobs = append(jobs, job{idx: i, replay: l})
				}
			}
		} else {
			// hx.NewRand(s+1) is hx.NewRand(s) advanced by one output, so plain
			// forks of consecutive seeds would replay the same histories shifted by
			// one position; mix the seed into every fork.
			fork := func() *hx.Rand { return hx.NewRand(c.R.U64() ^ (c.Seed+1)*0xA24BAED4963EE407) }
			n := c.Size(400, 8000)
			for i := 0; i < n; i++ {
				jobs = append(jobs, job{idx: i, gen: sessx.NewGen(fork(), profile, i)})
			}
			if *prop == "C02" || *prop == "" {
				g := sessx.NewGen(fork(), profile, n)
				for i, m := 0, c.Size(120, 3000); i < m; i++ {
					jobs = append(jobs, job{idx: n + i, ep: sessx.GenEndpointCase(g)})
				}
			}
		}

		// Execute concurrently (a cycle is mostly waiting on filesystem calls and
		// goroutine hand-offs), emit in job order.
		results := make([]sessx.Result, len(jobs))
		var wg sync.WaitGroup
		next := make(chan int)
		for w := 0; w < *workers; w++ {
			wg.Add(1)
			go func() {
				defer wg.Done()
				for i := range next {
					j := jobs[i]
					switch {
					case j.ep != "":
						results[i] = runner.RunEndpointCase(j.idx, j.ep)
					case j.replay != "":
						h, err := sessx.ParseHistory(j.replay)
						if err != nil {
							results[i] = sessx.Result{Line: j.replay, Impl: "bad-op"}
						} else {
							results[i] = runner.Run(j.idx, nil, h)
						}
					default:
						results[i] = runner.Run(j.idx, j.gen, nil)
					}
				}
			}()
		}
		for i := range jobs {
			next <- i
		}
		close(next)
		wg.Wait()

		for _, r := range results {
			if r.Err != nil {
				// A failure of the harness itself (not of a property): make the run fail loudly.
				fmt.Fprintln(os.Stderr, "sessx: harness failure:", r.Err, "\n  line:", r.Line)
				os.Exit(3)
			}
			for k, v := range r.Counts {
				for i := 0; i < v; i++ {
					c.Count(k)
				}
			}
			verdicts := sessx.Filter(r.Verdicts, *prop)
			for _, v := range r.Verdicts {
				c.Count("oracle-failure:" + strings.SplitN(strings.TrimPrefix(v, "class="), " ", 2)[0])
			}
			c.Case(r.Line, r.Impl, strings.Join(verdicts, " ;; "), r.Key)
		}
		c.Note("sessx: histories of real Manager sessions (two local roots, no-watch, synchronous flushes); oracle classes emitted: " + *prop + "-*")
	})
}
