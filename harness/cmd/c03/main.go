// C03: ignored, unsupported and problematic content is never removed or replaced.
//
// Cases are (ancestor, alpha, beta) triples in which at least one endpoint
// holds untracked or problematic content (phantom directories in a side
// stream), under every mode. The real core.Reconcile's plan is printed
// canonically for comparison with the Lean model; the oracle:
//   - clean targets: a change never targets a path whose current content
//     includes unsynchronizable entries, never lies at/below one, and never
//     carries unsynchronizable content;
//   - where the endpoints disagree and one holds unsynchronizable residue,
//     the residue is not touched and a conflict is rooted there unless the
//     other endpoint is the one being changed (or one-way-safe leaves beta's
//     content alone);
//   - problematic paths are skipped entirely: no change, conflict or ancestor
//     change at or below a path that is problematic on either endpoint.
//
// (The on-disk half — transitions refusing to remove unknown content — is the
// subject of C08/C09.)
package main

import (
	"fmt"

	"github.com/mutagen-io/mutagen/pkg/synchronization/core"

	"verif/harness/corex"
	"verif/harness/hx"
)

// problematicSkipped: nothing is planned at or below a problematic entry.
func problematicSkipped(t *corex.Triple, p *corex.Plan) string {
	var bad []string
	for _, tree := range []*core.Entry{t.Alpha, t.Beta} {
		for _, q := range hx.Paths(tree) {
			if hx.Lookup(tree, q).Kind == core.EntryKind_Problematic {
				bad = append(bad, q)
			}
		}
	}
	under := func(path string) bool {
		for _, q := range bad {
			if hx.PathIsPrefix(q, path) {
				return true
			}
		}
		return false
	}
	for _, c := range p.Anc {
		if under(c.Path) {
			return fmt.Sprintf("ancestor change at %q, at/below a problematic entry", c.Path)
		}
	}
	for _, c := range append(append([]*core.Change{}, p.Alpha...), p.Beta...) {
		if under(c.Path) {
			return fmt.Sprintf("change at %q, at/below a problematic entry", c.Path)
		}
	}
	for _, c := range p.Conflicts {
		if under(c.Root) {
			return fmt.Sprintf("conflict at %q, at/below a problematic entry", c.Root)
		}
	}
	return ""
}

func main() {
	hx.Main("C03", func(c *hx.Ctx) {
		cfg := corex.StreamCfg{
			Modes:       corex.AllModes,
			Stride:      c.Size(4, 1),
			ForceUnsync: true,
			Random:      c.Size(2500, 300000),
			Opts:        hx.TreeOpts{Unsync: true, Phantom: false, MaxDepth: c.Size(4, 6), MaxKids: 3},
		}
		corex.RunReconcileCases(c,
			func(emit func(string, *core.Entry, *core.Entry, *core.Entry), raw func(string)) {
				corex.Triples(c, cfg, emit)
				cfg2 := cfg
				cfg2.Stride, cfg2.Random = 1<<30, c.Size(500, 50000)
				cfg2.Opts.Phantom = true
				corex.Triples(c, cfg2, emit)
			},
			func(t *corex.Triple, p *corex.Plan) string {
				return corex.First(
					"unclean-target", corex.CleanTargets(t, p),
					"unsync-not-blocking", corex.UnsyncBlocks(t, p),
					"problematic-not-skipped", problematicSkipped(t, p),
				)
			})
	})
}
