// C47: stream helper writers honour their contracts.
//
// Drives the real cutoff writer, LineProcessor, hashing writer, preemptable
// writer, ValveWriter and multi-closer of pkg/stream through write sequences
// with scripted (short-writing / failing, occasionally contract-violating)
// downstream writers, prints canonical results for comparison with the Lean
// model, and evaluates each writer's own contract as an independent oracle.
package main

import (
	"bytes"
	"crypto/sha256"
	"errors"
	"fmt"
	"hash"
	"io"
	"strconv"
	"strings"
	"time"

	"github.com/mutagen-io/mutagen/pkg/stream"

	"verif/harness/hx"
)

var errPeer = errors.New("peer error")

// resp is one downstream response: mode 0 returns an error iff the write is
// short (the io.Writer contract), 1 always returns an error, 2 never does
// (a contract-violating writer when the write is short).
type resp struct {
	accept int
	mode   int
}

// down is the scripted downstream writer. An exhausted script accepts
// everything.
type down struct {
	script        []resp
	got           []byte
	offers        []int
	nonconforming bool // returned n < len(p) with a nil error at least once
	calls         int
	lastN         int
	lastErr       error
}

func (d *down) Write(p []byte) (int, error) {
	d.calls++
	d.offers = append(d.offers, len(p))
	n, fail := len(p), false
	if len(d.script) > 0 {
		r := d.script[0]
		d.script = d.script[1:]
		if r.accept < n {
			n = r.accept
		}
		fail = r.mode == 1 || (r.mode == 0 && n < len(p))
	}
	d.got = append(d.got, p[:n]...)
	if n < len(p) && !fail {
		d.nonconforming = true
	}
	d.lastN, d.lastErr = n, nil
	if fail {
		d.lastErr = errPeer
	}
	return d.lastN, d.lastErr
}

func (d *down) tail(state string) string {
	offers := "-"
	if len(d.offers) > 0 {
		s := make([]string, len(d.offers))
		for i, o := range d.offers {
			s[i] = strconv.Itoa(o)
		}
		offers = strings.Join(s, ",")
	}
	return fmt.Sprintf(" |%s|%s|%s", hx.Hex(d.got), offers, state)
}

func errName(err error) string {
	switch err {
	case nil:
		return "ok"
	case errPeer:
		return "peer"
	case stream.ErrWritePreempted:
		return "preempted"
	case stream.ErrMaximumBufferSizeExceeded:
		return "maxbuf"
	}
	return "other"
}

func unhex(s string) []byte {
	if s == "-" {
		return nil
	}
	b := make([]byte, len(s)/2)
	for i := range b {
		v, _ := strconv.ParseUint(s[2*i:2*i+2], 16, 8)
		b[i] = byte(v)
	}
	return b
}

func parseScript(s string) []resp {
	if s == "-" {
		return nil
	}
	var out []resp
	for _, r := range strings.Split(s, ";") {
		p := strings.Split(r, "/")
		a, _ := strconv.Atoi(p[0])
		m, _ := strconv.Atoi(p[1])
		out = append(out, resp{a, m})
	}
	return out
}

func parseWrite(op string) ([]byte, bool) {
	p := strings.Split(op, ":")
	switch {
	case p[0] == "w" && len(p) == 2:
		return unhex(p[1]), true
	case p[0] == "f" && len(p) == 3:
		n, _ := strconv.Atoi(p[1])
		return bytes.Repeat(unhex(p[2]), n), true
	}
	return nil, false
}

// recordingHash feeds a real hash and records what it was fed.
type recordingHash struct {
	hash.Hash
	fed []byte
}

func (h *recordingHash) Write(p []byte) (int, error) {
	h.fed = append(h.fed, p...)
	return h.Hash.Write(p)
}

type failer struct {
	first  string
	detail string
}

func (f *failer) bad(class string, format string, a ...any) {
	if f.first == "" {
		f.first = "class=" + class + " " + fmt.Sprintf(format, a...)
	}
}

func runCase(line string, count func(string)) (impl, oracle string) {
	f := strings.Fields(line)
	var o failer
	var outs []string
	switch f[0] {
	case "cut":
		n64, _ := strconv.ParseUint(f[1], 10, 63)
		N := int(n64)
		d := &down{script: parseScript(f[2])}
		w := stream.NewCutoffWriter(d, uint(N))
		var consumed []byte // bytes the caller may regard as written
		for i, op := range f[3:] {
			data, ok := parseWrite(op)
			if !ok {
				return "bad-op", ""
			}
			callsBefore, gotBefore := d.calls, len(d.got)
			n, err := w.Write(data)
			outs = append(outs, fmt.Sprintf("%d/%s", n, errName(err)))
			if n < 0 || n > len(data) {
				o.bad("cutoff", "op#%d count %d out of range", i, n)
				n = 0
			}
			consumed = append(consumed, data[:n]...)
			called := d.calls > callsBefore
			if called && d.offers[len(d.offers)-1] > N-gotBefore {
				o.bad("cutoff", "op#%d offered %d bytes with %d remaining", i, d.offers[len(d.offers)-1], N-gotBefore)
			}
			if gotBefore >= N && N >= 0 && called && !d.nonconforming {
				o.bad("cutoff", "op#%d downstream called after the cutoff was reached", i)
			}
			if !d.nonconforming {
				if called && d.lastErr != nil {
					if err != d.lastErr || n != d.lastN {
						o.bad("cutoff", "op#%d downstream returned %d/%v, wrapper %d/%v", i, d.lastN, d.lastErr, n, err)
					}
					count("cut-error")
				} else {
					if err != nil || n != len(data) {
						o.bad("cutoff", "op#%d no downstream error but wrapper returned %d/%v for %d bytes", i, n, err, len(data))
					}
					if !called {
						count("cut-past")
					} else if len(data) > N-gotBefore {
						count("cut-truncating")
					} else {
						count("cut-forward")
					}
				}
				want := consumed
				if len(want) > N {
					want = want[:N]
				}
				if !bytes.Equal(d.got, want) {
					o.bad("cutoff", "op#%d downstream holds %x, first %d written bytes are %x", i, d.got, N, want)
				}
			} else {
				count("cut-nonconforming-peer")
			}
		}
		return strings.Join(outs, " ") + d.tail(strconv.FormatUint(uint64(stream.VerifC47CutoffRemaining(w)), 10)), o.first
	case "lp":
		max, _ := strconv.Atoi(f[1])
		var lines []string
		p := &stream.LineProcessor{Callback: func(s string) { lines = append(lines, s) }, MaximumBufferSize: max}
		var accepted []byte
		pending := 0 // bytes after the last newline of accepted
		limit := max
		if max == 0 {
			limit = 64 * 1024
		}
		showLines := func(l []string) string {
			if len(l) == 0 {
				return "none"
			}
			s := make([]string, len(l))
			for i, x := range l {
				s[i] = hx.Hex([]byte(x))
			}
			return strings.Join(s, ",")
		}
		for i, op := range f[2:] {
			data, ok := parseWrite(op)
			if !ok {
				return "bad-op", ""
			}
			before := len(lines)
			scratch := append([]byte(nil), data...)
			n, err := p.Write(scratch)
			for k := range scratch { // io.Writer must not retain p: callers reuse their buffer
				scratch[k] ^= 0xA5
			}
			outs = append(outs, fmt.Sprintf("%d/%s[%s]", n, errName(err), showLines(lines[before:])))
			if limit > 0 && pending+len(data) > limit {
				if err != stream.ErrMaximumBufferSizeExceeded || n != 0 {
					o.bad("lines", "op#%d %d pending + %d bytes exceed %d but got %d/%v", i, pending, len(data), limit, n, err)
				}
				count("lp-rejected")
			} else {
				if err != nil || n != len(data) {
					o.bad("lines", "op#%d got %d/%v for %d bytes within the limit", i, n, err, len(data))
				}
				if err == nil {
					accepted = append(accepted, data...)
				}
				count("lp-accepted")
			}
			// Contract: callback arguments so far = the complete lines of the
			// accepted stream, each with one trailing CR removed.
			segs := bytes.Split(accepted, []byte{'\n'})
			pending = len(segs[len(segs)-1])
			segs = segs[:len(segs)-1]
			okLines := len(segs) == len(lines)
			for j := 0; okLines && j < len(segs); j++ {
				s := segs[j]
				if len(s) > 0 && s[len(s)-1] == '\r' {
					s = s[:len(s)-1]
					count("lp-cr-trimmed")
				}
				okLines = string(s) == lines[j]
			}
			if !okLines {
				o.bad("lines", "op#%d callback got %q for stream %q", i, lines, accepted)
			}
			if len(lines) > before {
				count("lp-lines-delivered")
			}
		}
		buf := stream.VerifC47LineProcessorBuffer(p)
		segs := bytes.Split(accepted, []byte{'\n'})
		if !bytes.Equal(buf, segs[len(segs)-1]) {
			o.bad("lines", "buffer %q, trailing fragment %q", buf, segs[len(segs)-1])
		}
		return strings.Join(outs, " ") + " |" + hx.Hex(buf), o.first
	case "hash":
		d := &down{script: parseScript(f[1])}
		h := &recordingHash{Hash: sha256.New()}
		w := stream.NewHashedWriter(d, h)
		for i, op := range f[2:] {
			data, ok := parseWrite(op)
			if !ok {
				return "bad-op", ""
			}
			n, err := w.Write(data)
			outs = append(outs, fmt.Sprintf("%d/%s", n, errName(err)))
			if n != d.lastN || err != d.lastErr {
				o.bad("hash", "op#%d downstream returned %d/%v, wrapper %d/%v", i, d.lastN, d.lastErr, n, err)
			}
			want := sha256.Sum256(d.got)
			if !bytes.Equal(h.Sum(nil), want[:]) {
				o.bad("hash", "op#%d digest differs from digest of the %d bytes accepted downstream (fed %d)", i, len(d.got), len(h.fed))
			}
			if n < len(data) {
				count("hash-short")
			} else {
				count("hash-full")
			}
		}
		return strings.Join(outs, " ") + d.tail(hx.Hex(h.fed)), o.first
	case "pre":
		iv, _ := strconv.ParseUint(f[1], 10, 63)
		d := &down{script: parseScript(f[2])}
		ch := make(chan struct{})
		w := stream.NewPreemptableWriter(d, ch, uint(iv))
		cancelled, preempted := false, false
		passedAfterCancel := 0
		for i, op := range f[3:] {
			if op == "c" {
				if !cancelled {
					close(ch)
				}
				cancelled = true
				outs = append(outs, "c")
				continue
			}
			data, ok := parseWrite(op)
			if !ok {
				return "bad-op", ""
			}
			callsBefore := d.calls
			n, err := w.Write(data)
			outs = append(outs, fmt.Sprintf("%d/%s", n, errName(err)))
			called := d.calls > callsBefore
			if called {
				if n != d.lastN || err != d.lastErr {
					o.bad("preempt", "op#%d downstream returned %d/%v, wrapper %d/%v", i, d.lastN, d.lastErr, n, err)
				}
				if d.offers[len(d.offers)-1] != len(data) || !bytes.Equal(data[:d.lastN], d.got[len(d.got)-d.lastN:]) {
					o.bad("preempt", "op#%d data altered", i)
				}
				if cancelled {
					passedAfterCancel++
					count("pre-passed-after-cancel")
				} else {
					count("pre-passed")
				}
			} else {
				if err != stream.ErrWritePreempted || n != 0 {
					o.bad("preempt", "op#%d downstream not called but result %d/%v", i, n, err)
				}
				if !cancelled {
					o.bad("preempt", "op#%d preempted without cancellation", i)
				}
				preempted = true
				count("pre-preempted")
			}
			if preempted && called {
				o.bad("preempt", "op#%d write passed after a preempted write", i)
			}
			if passedAfterCancel > int(iv) {
				o.bad("preempt", "op#%d %d writes passed after cancellation, interval %d", i, passedAfterCancel, iv)
			}
		}
		return strings.Join(outs, " ") + d.tail(strconv.FormatUint(uint64(stream.VerifC47PreemptableWriteCount(w)), 10)), o.first
	case "valve":
		d := &down{script: parseScript(f[2])}
		var w *stream.ValveWriter
		open := f[1] == "1"
		if open {
			w = stream.NewValveWriter(d)
		} else {
			w = stream.NewValveWriter(nil)
		}
		for i, op := range f[3:] {
			if op == "s" {
				w.Shut()
				open = false
				outs = append(outs, "s")
				continue
			}
			data, ok := parseWrite(op)
			if !ok {
				return "bad-op", ""
			}
			callsBefore := d.calls
			n, err := w.Write(data)
			outs = append(outs, fmt.Sprintf("%d/%s", n, errName(err)))
			called := d.calls > callsBefore
			if open {
				if !called || n != d.lastN || err != d.lastErr || d.offers[len(d.offers)-1] != len(data) {
					o.bad("valve", "op#%d open valve did not forward faithfully", i)
				}
				count("valve-open")
			} else {
				if called || n != len(data) || err != nil {
					o.bad("valve", "op#%d shut valve: called=%v result %d/%v", i, called, n, err)
				}
				count("valve-shut")
			}
		}
		return strings.Join(outs, " ") + d.tail("-"), o.first
	case "mc":
		var called []int
		var closers []io.Closer
		var errs []error
		want := "ok"
		if f[1] != "-" {
			for i, e := range strings.Split(f[1], ",") {
				id, _ := strconv.Atoi(e)
				var err error
				if id != 0 {
					err = fmt.Errorf("%d", id)
					if want == "ok" {
						want = strconv.Itoa(id)
					}
					count("mc-failing-closer")
				} else {
					count("mc-ok-closer")
				}
				errs = append(errs, err)
				i := i
				closers = append(closers, closerFunc(func() error { called = append(called, i); return errs[i] }))
			}
		}
		err := stream.NewMultiCloser(closers...).Close()
		got := "ok"
		if err != nil {
			got = err.Error()
		}
		if got != want {
			o.bad("multicloser", "returned %s, first error is %s", got, want)
		}
		if len(called) != len(closers) {
			o.bad("multicloser", "%d of %d closers closed", len(called), len(closers))
		}
		cs := "-"
		if len(called) > 0 {
			s := make([]string, len(called))
			for i, c := range called {
				s[i] = strconv.Itoa(c)
				if c != i {
					o.bad("multicloser", "close order %v", called)
				}
			}
			cs = strings.Join(s, ",")
		}
		return cs + "/" + got, o.first
	}
	return "bad-op", ""
}

type closerFunc func() error

func (c closerFunc) Close() error { return c() }

// genScript draws a downstream script of at most n responses.
func genScript(r *hx.Rand, n int, allowNonconforming bool) string {
	k := r.Intn(n + 1)
	if k == 0 {
		return "-"
	}
	rs := make([]string, k)
	for i := range rs {
		switch x := r.Intn(100); {
		case x < 50:
			rs[i] = "99999/0"
		case x < 75:
			rs[i] = fmt.Sprintf("%d/0", r.Intn(8))
		case x < 83:
			rs[i] = fmt.Sprintf("%d/1", r.Intn(6))
		case x < 90:
			rs[i] = "99999/1"
		default:
			if allowNonconforming && r.Chance(1, 3) {
				rs[i] = fmt.Sprintf("%d/2", r.Intn(6))
			} else {
				rs[i] = fmt.Sprintf("%d/0", r.Intn(3))
			}
		}
	}
	return strings.Join(rs, ";")
}

func genData(r *hx.Rand, maxLen int, alphabet []byte) string {
	n := r.Intn(maxLen + 1)
	b := make([]byte, n)
	for i := range b {
		if alphabet != nil {
			b[i] = alphabet[r.Intn(len(alphabet))]
		} else {
			b[i] = byte(r.Intn(256))
		}
	}
	return "w:" + hx.Hex(b)
}

// watchdog runs one case with panic isolation and a time limit, so that a
// defect that makes the code under test loop forever is reported as a failing
// case (class=hang) instead of stalling the whole check.
func watchdog(f func() (string, string)) (impl, oracle string, ok bool) {
	type res struct{ impl, oracle string }
	ch := make(chan res, 1)
	go func() {
		var o string
		i := hx.Try(func() string {
			a, b := f()
			o = b
			return a
		})
		ch <- res{i, o}
	}()
	select {
	case r := <-ch:
		return r.impl, r.oracle, true
	case <-time.After(30 * time.Second):
		return "hang", "class=hang no answer within 10s", false
	}
}

func main() {
	hx.Main("C47", func(c *hx.Ctx) {
		hung := false
		emit := func(line string) {
			if hung {
				return // a case never returned: its goroutine is still spinning, stop here
			}
			impl, oracle, ok := watchdog(func() (string, string) { return runCase(line, c.Count) })
			if !ok {
				hung = true
			}
			if strings.HasPrefix(impl, "panic:") {
				oracle = "class=panic " + impl
			}
			key := ""
			if strings.ContainsAny(impl, "pm,") || strings.Contains(impl, "[") {
				key = strings.Fields(line)[0] + impl
				if len(key) > 300 {
					key = key[:300]
				}
			}
			c.Case(line, impl, oracle, key)
			c.Count("kind-" + strings.Fields(line)[0])
		}
		if lines := c.ReplayLines(); lines != nil {
			for _, l := range lines {
				emit(l)
			}
			return
		}

		// ---- exhaustive small spaces
		responses := []string{"99/0", "0/0", "1/0", "99/1", "1/1", "1/2"}
		datas := []string{"w:-", "w:a1", "w:b1b2", "w:c1c2c3"}
		// cutoff: N 0..4, two or three writes, every pair of first responses.
		for N := 0; N <= 4; N++ {
			for _, r1 := range responses {
				for _, r2 := range responses {
					for _, d1 := range datas {
						for _, d2 := range datas {
							emit(fmt.Sprintf("cut %d %s;%s %s %s w:d1d2", N, r1, r2, d1, d2))
							c.Count("exhaustive")
						}
					}
				}
			}
		}
		// line processor: every string over {a, LF, CR} up to length L, every split into two writes, three limits.
		L := c.Size(5, 8)
		alpha := []byte{'a', '\n', '\r'}
		var rec func(s []byte)
		rec = func(s []byte) {
			for _, max := range []int{-1, 0, 3} {
				for cut := 0; cut <= len(s); cut++ {
					emit(fmt.Sprintf("lp %d w:%s w:%s", max, hx.Hex(s[:cut]), hx.Hex(s[cut:])))
					c.Count("exhaustive")
				}
			}
			if len(s) == L {
				return
			}
			for _, a := range alpha {
				rec(append(s[:len(s):len(s)], a))
			}
		}
		rec(nil)
		// hashing writer: two writes, every pair of responses.
		for _, r1 := range responses {
			for _, r2 := range responses {
				for _, d1 := range datas {
					for _, d2 := range datas {
						emit(fmt.Sprintf("hash %s;%s %s %s", r1, r2, d1, d2))
						c.Count("exhaustive")
					}
				}
			}
		}
		// preemptable writer and valve: every sequence of writes and cancel/shut up to length 7.
		var seqs func(prefix []string, depth int, other string, f func([]string))
		seqs = func(prefix []string, depth int, other string, f func([]string)) {
			if len(prefix) > 0 {
				f(prefix)
			}
			if depth == 0 {
				return
			}
			for _, a := range []string{"w:aa", other} {
				seqs(append(prefix[:len(prefix):len(prefix)], a), depth-1, other, f)
			}
		}
		for iv := 0; iv <= 4; iv++ {
			seqs(nil, c.Size(7, 10), "c", func(ops []string) {
				emit(fmt.Sprintf("pre %d - %s", iv, strings.Join(ops, " ")))
				c.Count("exhaustive")
			})
		}
		for open := 0; open <= 1; open++ {
			seqs(nil, c.Size(6, 9), "s", func(ops []string) {
				emit(fmt.Sprintf("valve %d 1/0 %s", open, strings.Join(ops, " ")))
				c.Count("exhaustive")
			})
		}
		// multi-closer: every pattern of failing closers up to 6 closers.
		emit("mc -")
		for n := 1; n <= 6; n++ {
			for mask := 0; mask < 1<<n; mask++ {
				es := make([]string, n)
				for i := range es {
					es[i] = "0"
					if mask>>i&1 == 1 {
						es[i] = strconv.Itoa(i + 1)
					}
				}
				emit("mc " + strings.Join(es, ","))
				c.Count("exhaustive")
			}
		}
		// line processor: the default limit (taken from the code) at its boundary.
		for _, line := range []string{
			"lp 0 f:65536:61 w:62", "lp 0 f:65537:61 w:0a", "lp 0 f:65535:61 w:62 w:63 w:0a w:64",
			"lp 0 f:65530:61 w:0d0a62 f:65535:63 w:64 w:0a", "lp 0 f:40000:61 f:25536:62 w:0a f:65536:0d w:0a",
			"lp 0 f:40000:61 f:25537:62 w:0a", "lp -1 f:70000:61 w:0a", "lp 65537 f:65537:61 w:62 w:0a",
		} {
			emit(line)
			c.Count("lp-default-limit-boundary")
		}

		// ---- seeded random
		for i := 0; i < c.Size(6000, 400000); i++ {
			n := 1 + c.R.Intn(12)
			ops := make([]string, 0, n)
			switch c.R.Intn(6) {
			case 0: // cutoff
				N := c.R.Intn(30)
				for j := 0; j < n; j++ {
					ops = append(ops, genData(c.R, 12, nil))
				}
				emit(fmt.Sprintf("cut %d %s %s", N, genScript(c.R, n, true), strings.Join(ops, " ")))
			case 1: // line processor
				max := []int{-1, 0, 0, 4, 8, 16}[c.R.Intn(6)]
				for j := 0; j < n; j++ {
					ops = append(ops, genData(c.R, 10, []byte{'a', 'b', '\n', '\n', '\r', ' '}))
				}
				emit(fmt.Sprintf("lp %d %s", max, strings.Join(ops, " ")))
			case 2: // hashing
				for j := 0; j < n; j++ {
					ops = append(ops, genData(c.R, 12, nil))
				}
				emit(fmt.Sprintf("hash %s %s", genScript(c.R, n, true), strings.Join(ops, " ")))
			case 3: // preemptable
				iv := c.R.Intn(6)
				cancelAt := c.R.Intn(n + 3)
				for j := 0; j < n; j++ {
					if j == cancelAt || (j > cancelAt && c.R.Chance(1, 8)) {
						ops = append(ops, "c")
					}
					ops = append(ops, genData(c.R, 6, nil))
				}
				emit(fmt.Sprintf("pre %d %s %s", iv, genScript(c.R, n, true), strings.Join(ops, " ")))
			case 4: // valve
				shutAt := c.R.Intn(n + 3)
				for j := 0; j < n; j++ {
					if j == shutAt || (j > shutAt && c.R.Chance(1, 8)) {
						ops = append(ops, "s")
					}
					ops = append(ops, genData(c.R, 6, nil))
				}
				open := 1
				if c.R.Chance(1, 8) {
					open = 0
				}
				emit(fmt.Sprintf("valve %d %s %s", open, genScript(c.R, n, true), strings.Join(ops, " ")))
			default: // multi-closer
				k := c.R.Intn(10)
				es := make([]string, k)
				for j := range es {
					es[j] = "0"
					if c.R.Chance(1, 3) {
						es[j] = strconv.Itoa(1 + c.R.Intn(50))
					}
				}
				if k == 0 {
					emit("mc -")
				} else {
					emit("mc " + strings.Join(es, ","))
				}
			}
			c.Count("random")
		}
	})
}
