// C05: saved sync state stays valid and faithful under any transition outcome.
//
// Cases are (ancestor, alpha, beta) triples under every mode together with a
// reported result entry for every planned change of each endpoint (or `!` for
// an endpoint whose transition failed as a whole). Result entries are drawn
// from {new, old, nothing, a random prefix-closed sub-tree of old or of new,
// an arbitrary valid synchronizable entry}. The driver reconciles with the
// real core.Reconcile, builds the change list exactly as
// controller.synchronize does (ancestor changes, then alpha results, then beta
// results, each in the order Reconcile returned them), calls core.Apply and
// Entry.EnsureValid(true), and prints the new ancestor and the validity flag
// for comparison with the Lean model. Oracle:
//   - Apply succeeds and the new ancestor passes EnsureValid(true);
//   - at each transitioned path the new ancestor records exactly the reported
//     entry;
//   - paths not touched by a transition or an ancestor change keep their record.
//
// The controller's own concatenation code sits inside synchronize and cannot
// be called in isolation; it is replicated here from the exported pieces.
package main

import (
	"fmt"
	"sort"
	"strings"

	"github.com/mutagen-io/mutagen/pkg/synchronization/core"

	"verif/harness/corex"
	"verif/harness/hx"
)

// prune returns a random prefix-closed sub-tree of e (what a transition that
// stopped half-way reports).
func prune(r *hx.Rand, e *core.Entry) *core.Entry {
	if e == nil {
		return nil
	}
	out := &core.Entry{Kind: e.Kind, Executable: e.Executable, Digest: e.Digest, Target: e.Target}
	for _, n := range hx.SortedNames(e) {
		if r.Chance(1, 2) {
			if out.Contents == nil {
				out.Contents = make(map[string]*core.Entry)
			}
			out.Contents[n] = prune(r, e.Contents[n])
		}
	}
	return out
}

func pickResult(c *hx.Ctx, ch *core.Change, so hx.TreeOpts) *core.Entry {
	switch c.R.Intn(9) {
	case 0, 1, 2:
		c.Count("outcome:new")
		return ch.New
	case 3:
		c.Count("outcome:old")
		return ch.Old
	case 4:
		c.Count("outcome:nothing")
		return nil
	case 5:
		c.Count("outcome:part-of-new")
		return prune(c.R, ch.New)
	case 6:
		c.Count("outcome:part-of-old")
		return prune(c.R, ch.Old)
	default:
		c.Count("outcome:arbitrary")
		return hx.GenEntry(c.R, so, 2)
	}
}

func resultsField(c *hx.Ctx, changes []*core.Change, so hx.TreeOpts) string {
	if len(changes) > 0 && c.R.Chance(1, 12) {
		c.Count("outcome:side-failed")
		return "!"
	}
	var rs []*core.Change
	for _, ch := range changes {
		rs = append(rs, &core.Change{Path: ch.Path, New: pickResult(c, ch, so)})
	}
	return hx.EncChanges(rs)
}

// sideResults pairs planned changes (in plan order) with the reported entries.
func sideResults(planned []*core.Change, field string) ([]*core.Change, bool, error) {
	if field == "!" {
		return nil, true, nil
	}
	rs, err := hx.DecChanges(field)
	if err != nil {
		return nil, false, err
	}
	var a, b []string
	byPath := map[string]*core.Entry{}
	for _, r := range rs {
		a = append(a, r.Path)
		byPath[r.Path] = r.New
	}
	for _, ch := range planned {
		b = append(b, ch.Path)
	}
	sort.Strings(a)
	sort.Strings(b)
	if strings.Join(a, "\x00") != strings.Join(b, "\x00") || len(byPath) != len(rs) {
		return nil, false, nil
	}
	var out []*core.Change
	for _, ch := range planned {
		// controller.go:1347 / 1358
		out = append(out, &core.Change{Path: ch.Path, New: byPath[ch.Path]})
	}
	return out, true, nil
}

func runCase(c *hx.Ctx, line string) (impl, verdict, key string) {
	f := strings.Fields(line)
	if len(f) != 6 {
		return "bad-op", "", ""
	}
	t, ok := corex.ParseTriple(f[:4])
	if !ok {
		return "bad-op", "", ""
	}
	p := corex.Reconcile(t.Anc, t.Alpha, t.Beta, t.Mode)
	αChanges, okA, errA := sideResults(p.Alpha, f[4])
	βChanges, okB, errB := sideResults(p.Beta, f[5])
	if errA != nil || errB != nil {
		return "bad-op", "", ""
	}
	if !okA || !okB {
		return "path-mismatch", "", ""
	}
	c.Count("mode:" + t.ModeName)
	// controller.go:1379-1380
	ancestorChanges := append([]*core.Change{}, p.Anc...)
	ancestorChanges = append(ancestorChanges, αChanges...)
	ancestorChanges = append(ancestorChanges, βChanges...)
	hypotheses := corex.NoPhantom(t)
	fail := func(class, format string, a ...any) {
		if verdict == "" && hypotheses {
			verdict = "class=" + class + " " + fmt.Sprintf(format, a...)
		}
	}
	before := hx.EncEntry(t.Anc)
	// controller.go:1381-1400
	newAncestor, err := core.Apply(t.Anc, ancestorChanges)
	if err != nil {
		fail("apply-failed", "unable to propagate changes to ancestor: %v", err)
		return "err:unresolved", verdict, "err"
	}
	valid := newAncestor.EnsureValid(true) == nil
	impl = hx.EncEntry(newAncestor) + " " + map[bool]string{false: "0", true: "1"}[valid]
	if len(ancestorChanges) > 0 {
		key = fmt.Sprintf("%d/%d/%d %s", len(p.Anc), len(αChanges), len(βChanges), impl)
	}
	if !hypotheses {
		c.Count("oracle-skipped-phantom")
		return
	}
	if !valid {
		fail("invalid-ancestor", "new ancestor is invalid: %v", newAncestor.EnsureValid(true))
	}
	if corex.HasUnsync(newAncestor) {
		fail("invalid-ancestor", "new ancestor holds unsynchronizable content")
	}
	var touched []string
	for _, ch := range append(append([]*core.Change{}, αChanges...), βChanges...) {
		touched = append(touched, ch.Path)
		if got := hx.Lookup(newAncestor, ch.Path); !corex.Same(got, ch.New) {
			fail("unfaithful", "at %q the endpoint reported %s, the ancestor records %s", ch.Path, hx.EncEntry(ch.New), hx.EncEntry(got))
		}
	}
	for _, ch := range p.Anc {
		touched = append(touched, ch.Path)
	}
	for _, q := range corex.AllPaths(t.Anc, newAncestor) {
		skip := false
		for _, tp := range touched {
			if corex.Comparable(tp, q) {
				skip = true
				break
			}
		}
		if !skip && !corex.ShallowSame(hx.Lookup(t.Anc, q), hx.Lookup(newAncestor, q)) {
			fail("unfaithful", "untouched path %q changed in the ancestor", q)
		}
	}
	if hx.EncEntry(t.Anc) != before {
		fail("apply-aliasing", "Apply modified the old ancestor")
	}
	return
}

func main() {
	hx.Main("C05", func(c *hx.Ctx) {
		run := func(line string) {
			var verdict, key string
			impl := hx.Try(func() string {
				i, v, k := runCase(c, line)
				verdict, key = v, k
				return i
			})
			if impl == "panic:runtime error: invalid memory address or nil pointer dereference" {
				// Apply dereferences a nil base for a non-root change.
				impl = "err:panic"
				verdict = "class=apply-failed Apply panicked on a nil ancestor"
			} else if strings.HasPrefix(impl, "panic:") {
				verdict = "class=panic " + impl
			}
			c.Case(line, impl, verdict, key)
		}
		if lines := c.ReplayLines(); lines != nil {
			for _, l := range lines {
				run(l)
			}
			return
		}
		so := hx.TreeOpts{MaxDepth: 2, MaxKids: 3}
		emit := func(mode string, anc, alpha, beta *core.Entry) {
			m, _ := hx.ModeByName(mode)
			p := corex.Reconcile(anc, alpha, beta, m)
			reps := 1
			if len(p.Alpha)+len(p.Beta) > 0 {
				reps = c.Size(2, 4)
			}
			for i := 0; i < reps; i++ {
				run(corex.TripleLine(mode, anc, alpha, beta) + " " + resultsField(c, p.Alpha, so) + " " + resultsField(c, p.Beta, so))
			}
		}
		cfg := corex.StreamCfg{
			Modes:  corex.AllModes,
			Stride: c.Size(8, 1),
			Random: c.Size(2500, 250000),
			Opts:   hx.TreeOpts{Unsync: true, Phantom: false, MaxDepth: c.Size(4, 6), MaxKids: 3},
		}
		corex.Triples(c, cfg, emit)
		cfg.Stride, cfg.Random = 1<<30, c.Size(300, 30000)
		cfg.Opts.Phantom = true
		corex.Triples(c, cfg, emit)
		// A few malformed lines: results that do not name the planned paths.
		for i := 0; i < 50; i++ {
			a, al, be := hx.GenTriple(c.R, cfg.Opts)
			run(corex.TripleLine(c.R.Pick(corex.AllModes...), a, al, be) + " /zz=~>F#01 -")
		}
	})
}
