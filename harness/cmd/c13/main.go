// C13: accelerated scans equal full scans.
//
// A history = a random real tree, a cold core.Scan, then several rounds of
// random os-level edits (create, delete, rename, type change, content change
// with size or mtime change, chmod, touch, same content under a new inode, a
// directory swapped for another one by rename) each followed by an
// accelerated core.Scan that receives the previous scan's snapshot, digest
// cache and ignore cache and, as recheck paths, the paths a watcher would
// report for the edits (+ random extra paths).  Every scan is also performed
// cold.  The canonical results of all accelerated scans are compared with the
// Lean model (which is fed the os-level descriptions and its own previous
// outputs), and the property's oracle demands, for every round whose
// hypotheses hold, accelerated = cold: content, counters, digest cache, and
// the ignore cache up to keys of untracked / problematic / vanished entries.
//
// Rounds that deliberately break a hypothesis (content changed under the same
// size, time and inode; a change reported only through its parent; recheck
// paths dropped; the digest cache withheld) are still compared with the
// model, which must reproduce the stale or failing result exactly; the oracle
// is silent there.
package main

import (
	"fmt"
	"os"
	"sort"
	"strings"

	"github.com/mutagen-io/mutagen/pkg/synchronization/core"
	"github.com/mutagen-io/mutagen/pkg/synchronization/core/ignore"

	"verif/harness/hx"
	"verif/harness/scanx"
)

var slModes = []core.SymbolicLinkMode{core.SymbolicLinkMode_SymbolicLinkModeIgnore, core.SymbolicLinkMode_SymbolicLinkModePortable,
	core.SymbolicLinkMode_SymbolicLinkModePOSIXRaw}
var pmModes = []core.PermissionsMode{core.PermissionsMode_PermissionsModePortable, core.PermissionsMode_PermissionsModeManual}

func entryAt(e *core.Entry, path string) *core.Entry {
	if path == "" {
		return e
	}
	for _, c := range strings.Split(path, "/") {
		if e == nil {
			return nil
		}
		e = e.Contents[c]
	}
	return e
}

// equalScans is the property's predicate: the accelerated result against the
// cold one.
func equalScans(warm, cold *scanx.Result) string {
	if warm.Panic != "" {
		return "class=panic accelerated scan: " + warm.Panic
	}
	if cold.Panic != "" {
		return "class=panic cold scan: " + cold.Panic
	}
	if !cold.OK() {
		if warm.OK() {
			return "class=accelerated-succeeds-cold-fails"
		}
		return ""
	}
	if !warm.OK() {
		return fmt.Sprintf("class=accelerated-fails %v %s", warm.Err, warm.Panic)
	}
	w, c := warm.Snapshot, cold.Snapshot
	if hx.EncEntry(scanx.Canon(w.Content)) != hx.EncEntry(scanx.Canon(c.Content)) {
		return "class=content-differs at " + firstDiff(w.Content, c.Content, "")
	}
	if w.Directories != c.Directories || w.Files != c.Files || w.SymbolicLinks != c.SymbolicLinks || w.TotalFileSize != c.TotalFileSize {
		return fmt.Sprintf("class=counters-differ %d/%d/%d/%d vs %d/%d/%d/%d", w.Directories, w.Files, w.SymbolicLinks, w.TotalFileSize,
			c.Directories, c.Files, c.SymbolicLinks, c.TotalFileSize)
	}
	if w.PreservesExecutability != c.PreservesExecutability || w.DecomposesUnicode != c.DecomposesUnicode {
		return "class=behaviour-differs"
	}
	if scanx.EncCache(warm.Cache) != scanx.EncCache(cold.Cache) {
		return "class=digest-cache-differs"
	}
	for k, v := range warm.IgnoreCache {
		if cv, ok := cold.IgnoreCache[k]; !ok || cv != v {
			return "class=ignore-cache-not-subset " + k.Path
		}
	}
	for k := range cold.IgnoreCache {
		if _, ok := warm.IgnoreCache[k]; ok {
			continue
		}
		e := entryAt(c.Content, k.Path)
		if e != nil && e.Kind != core.EntryKind_Untracked && e.Kind != core.EntryKind_Problematic {
			return "class=ignore-cache-lost-tracked-key " + k.Path
		}
	}
	return ""
}

// firstDiff locates the first path at which two entry trees differ.
func firstDiff(a, b *core.Entry, path string) string {
	if a == nil || b == nil {
		return fmt.Sprintf("/%s accelerated=%s cold=%s", path, hx.EncEntry(scanx.Canon(a)), hx.EncEntry(scanx.Canon(b)))
	}
	sa, sb := *a, *b
	sa.Contents, sb.Contents = nil, nil
	if hx.EncEntry(scanx.Canon(&sa)) != hx.EncEntry(scanx.Canon(&sb)) {
		return fmt.Sprintf("/%s accelerated=%s cold=%s", path, hx.EncEntry(scanx.Canon(&sa)), hx.EncEntry(scanx.Canon(&sb)))
	}
	names := map[string]bool{}
	for n := range a.Contents {
		names[n] = true
	}
	for n := range b.Contents {
		names[n] = true
	}
	var sorted []string
	for n := range names {
		sorted = append(sorted, n)
	}
	sort.Strings(sorted)
	for _, n := range sorted {
		if hx.EncEntry(scanx.Canon(a.Contents[n])) != hx.EncEntry(scanx.Canon(b.Contents[n])) {
			return firstDiff(a.Contents[n], b.Contents[n], scanx.Join(path, n))
		}
	}
	return "/" + path
}

func main() {
	hx.Main("C13", func(c *hx.Ctx) {
		scratch := scanx.Scratch("c13")
		defer os.RemoveAll(scratch)
		root, stage := scratch+"/root", scratch+"/stage"

		if lines := c.ReplayLines(); lines != nil {
			c.Note("replay re-executes the model side only: a C13 case is a history of real directory trees; the op line holds their descriptions")
			for _, l := range lines {
				c.Case(l, "replay-needs-regeneration", "", "")
			}
			return
		}

		n := c.Size(800, 20000)
		for i := 0; i < n && !scanx.Hung; i++ {
			r := c.R
			cfg := &scanx.Cfg{SymlinkMode: slModes[i%3], PermsMode: pmModes[(i/3)%2]}
			px, du := (i/6)%2 == 0, (i/12)%4 == 3
			spec := scanx.GenIgnorer(r)
			cfg.Ignorer = spec.Ignorer
			c.Count(spec.Label)
			opts := scanx.GenOpts{MaxDepth: 1 + r.Intn(3), MaxKids: 2 + r.Intn(4), Plain: r.Chance(1, 2)}
			tree := scanx.GenDir(r, opts, 0)
			scanx.Cleanup(root)
			os.RemoveAll(stage)
			if err := os.MkdirAll(stage, 0o755); err != nil {
				panic(err)
			}
			if err := scanx.Materialize(root, tree); err != nil {
				c.Count("materialize-failed")
				continue
			}
			desc, err := scanx.Describe(root)
			if err != nil {
				panic(err)
			}
			ed := &scanx.Editor{R: r, Root: root, Stage: stage, Tree: tree, Du: du, Opts: opts, Protect: map[string]bool{}}
			if r.Chance(1, 5) {
				cfg.Faults = scanx.GenFaults(r, du, 1, 8, desc)
				for _, f := range cfg.Faults {
					ed.Protect[f.Leaf] = true
					c.Count("fault:" + f.Op)
				}
			}
			descs := []*scanx.Node{desc}
			steps := []*scanx.Step{{Px: px, Du: du, CacheMod: "c", FS: desc}}
			last := scanx.Scan(root, cfg, px, du, nil)
			outs := []string{scanx.EncResult(last)}
			oracle := ""
			keyParts := []string{}
			// baseOK: the outputs handed to the next scan equal those of a cold scan
			// of the tree they were taken from (the theorem's hypothesis on the base).
			baseOK := true

			rounds := 2 + r.Intn(4)
			for k := 0; k < rounds; k++ {
				ed.Changed, ed.Stealth, ed.Under, ed.Labels = nil, false, false, nil
				step := &scanx.Step{Px: px, Du: du, CacheMod: "="}
				honest := true
				mode := r.Intn(100)
				edits := 1 + r.Intn(3)
				if mode < 8 {
					edits = 0 // nothing changed, nothing reported: the shortcut
					c.Count("round:no-change")
				}
				for j := 0; j < edits; j++ {
					for try := 0; try < 6 && !ed.Apply(); try++ {
					}
				}
				for _, l := range ed.Labels {
					c.Count(l)
				}
				recheck := append([]string(nil), ed.Changed...)
				switch {
				case mode < 8:
				case mode < 45: // exactly the changed paths
					c.Count("round:exact")
				case mode < 75: // plus extra paths (existing, missing, nested under files)
					for j := 0; j < 1+r.Intn(3); j++ {
						var paths []string
						scanx.Walk(ed.Tree, "", du, func(p string, _ *scanx.Node) { paths = append(paths, p) })
						p := paths[r.Intn(len(paths))]
						if r.Chance(1, 3) {
							p = scanx.Join(p, "no/such")
						}
						recheck = append(recheck, p)
					}
					c.Count("round:extra")
				case mode < 83 && len(recheck) > 0: // a reported path is lost
					recheck = recheck[:r.Intn(len(recheck))]
					if len(recheck) == 0 {
						recheck = []string{"no/such/path"}
					}
					honest = false
					c.Count("round:dropped-paths")
				case mode < 88: // baseline without its digest cache
					step.CacheMod, honest = "0", false
					c.Count("round:cache-withheld")
				case mode < 93: // caches without baseline (warm scan)
					step.CacheMod = "w"
					c.Count("round:warm-no-baseline")
				case mode < 96 && du == false: // the probed behaviour changes: the baseline must be dropped
					step.Px = !px
					c.Count("round:behaviour-change")
				default:
					c.Count("round:exact")
				}
				if edits > 0 && len(recheck) == 0 {
					recheck = []string{"no/such/path"}
					honest = false
				}
				step.Recheck = recheck
				d, err := scanx.Describe(root)
				if err != nil {
					panic(err)
				}
				step.FS = d
				if ed.Stealth || ed.Under || scanx.StealthBetween(descs[len(descs)-1], d, du) {
					honest = false
					c.Count("round:hypothesis-broken-by-edit")
				}
				warm := scanx.Scan(root, cfg, step.Px, step.Du, scanx.PrevFor(step, last))
				cold := scanx.Scan(root, cfg, step.Px, step.Du, nil)
				verdict := equalScans(warm, cold)
				if (honest && baseOK || strings.HasPrefix(verdict, "class=panic")) && oracle == "" && verdict != "" {
					oracle = fmt.Sprintf("%s (round %d)", verdict, k+1)
				}
				if honest && baseOK {
					c.Count("oracle:round-checked")
				}
				if verdict != "" && !(honest && baseOK) {
					c.Count("stale-result-when-hypothesis-broken")
				}
				baseOK = verdict == ""
				if !warm.OK() {
					c.Count("accelerated:error")
				}
				descs = append(descs, d)
				steps = append(steps, step)
				outs = append(outs, scanx.EncResult(warm))
				keyParts = append(keyParts, ed.Labels...)
				keyParts = append(keyParts, step.CacheMod)
				last = warm
				px = step.Px
			}

			ignTable := scanx.EncIgnTable(scanx.IgnTable(cfg.Ignorer, []bool{du}, descs...))
			var b strings.Builder
			b.WriteString(scanx.LineHead(cfg, ignTable, scanx.EncNfcTable(descs...)))
			for _, s := range steps {
				b.WriteByte(' ')
				b.WriteString(scanx.EncStep(s))
			}
			sort.Strings(keyParts)
			c.Case(b.String(), strings.Join(outs, " || "), oracle, strings.Join(keyParts, ","))
			scanx.Cleanup(root)
		}
		_ = ignore.IgnoreStatusNominal
	})
}
