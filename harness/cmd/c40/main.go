// C40: session selection and listing are exact.
//
// Three kinds of cases, all executed on the real code:
//
//   - less  <a> <b>:  fastpath.Less on arbitrary byte strings (exhaustive over a
//     small alphabet that contains bytes below and above '/', then random);
//   - sortc / sortp:  core.SortConflicts / core.SortProblems on random lists;
//   - list:           a real synchronization.Manager loaded (NewManager) from a
//     scratch MUTAGEN_DATA_DIRECTORY holding random paused sessions (names,
//     labels, creation times); conflict and problem lists are put into the
//     controllers' states through the verif-tagged export VerifC40SetState and
//     Manager.List is called with random selections (all, specifications,
//     label selectors, invalid).
//
// The oracle is the property's own predicate written independently of the
// Lean model: depth-first order via strings.Split, selection by set
// comprehension, sortedness/permutation/excluded-count checks.
package main

import (
	"context"
	"fmt"
	"io"
	"os"
	"path/filepath"
	"sort"
	"strconv"
	"strings"

	"google.golang.org/protobuf/types/known/timestamppb"

	"github.com/mutagen-io/mutagen/pkg/encoding"
	"github.com/mutagen-io/mutagen/pkg/logging"
	"github.com/mutagen-io/mutagen/pkg/selection"
	"github.com/mutagen-io/mutagen/pkg/synchronization"
	"github.com/mutagen-io/mutagen/pkg/synchronization/core"
	"github.com/mutagen-io/mutagen/pkg/synchronization/core/fastpath"
	urlpkg "github.com/mutagen-io/mutagen/pkg/url"

	"verif/harness/hx"
)

// ---------------------------------------------------------------- encoding

func unhex(s string) string {
	if s == "-" {
		return ""
	}
	b := make([]byte, len(s)/2)
	for i := range b {
		v, _ := strconv.ParseUint(s[2*i:2*i+2], 16, 8)
		b[i] = byte(v)
	}
	return string(b)
}

func parsePaths(s string) []string {
	if s == "." {
		return nil
	}
	var out []string
	for _, h := range strings.Split(s, ",") {
		out = append(out, unhex(h))
	}
	return out
}

func showPaths(ps []string) string {
	if len(ps) == 0 {
		return "."
	}
	hs := make([]string, len(ps))
	for i, p := range ps {
		hs[i] = hx.Hex([]byte(p))
	}
	return strings.Join(hs, ",")
}

// ---------------------------------------------------------------- oracle pieces

// dfsLess: depth-first (pre-order, children in byte-wise name order) path
// order, stated on component lists.
func dfsLess(a, b string) bool {
	ca, cb := strings.Split(a, "/"), strings.Split(b, "/")
	for i := 0; i < len(ca) && i < len(cb); i++ {
		if ca[i] != cb[i] {
			return ca[i] < cb[i]
		}
	}
	return len(ca) < len(cb)
}

func sameMultiset(a, b []string) bool {
	if len(a) != len(b) {
		return false
	}
	m := map[string]int{}
	for _, x := range a {
		m[x]++
	}
	for _, x := range b {
		m[x]--
		if m[x] < 0 {
			return false
		}
	}
	return true
}

func dfsSorted(l []string) bool {
	for i := 1; i < len(l); i++ {
		if dfsLess(l[i], l[i-1]) {
			return false
		}
	}
	return true
}

// ---------------------------------------------------------------- sessions

type sess struct {
	id, name   string
	sec, nanos int64
	labels     [][2]string // sorted by key
	lists      [5][]string // conflicts, alpha scan, alpha transition, beta scan, beta transition
}

func (s *sess) persistent() string {
	name := s.name
	if name == "" {
		name = "-"
	}
	labels := "-"
	if len(s.labels) > 0 {
		var kv []string
		for _, l := range s.labels {
			kv = append(kv, l[0]+"="+l[1])
		}
		labels = strings.Join(kv, "&")
	}
	return fmt.Sprintf("%s|%s|%d|%d|%s", s.id, name, s.sec, s.nanos, labels)
}

func (s *sess) encode() string {
	f := []string{s.persistent()}
	for _, l := range s.lists {
		f = append(f, showPaths(l))
	}
	return strings.Join(f, "|")
}

func parseSessions(field string) []*sess {
	if field == "." {
		return nil
	}
	var out []*sess
	for _, e := range strings.Split(field, ";") {
		f := strings.Split(e, "|")
		s := &sess{id: f[0], name: f[1]}
		if s.name == "-" {
			s.name = ""
		}
		s.sec, _ = strconv.ParseInt(f[2], 10, 64)
		s.nanos, _ = strconv.ParseInt(f[3], 10, 64)
		if f[4] != "-" {
			for _, kv := range strings.Split(f[4], "&") {
				p := strings.SplitN(kv, "=", 2)
				s.labels = append(s.labels, [2]string{p[0], p[1]})
			}
		}
		for i := 0; i < 5; i++ {
			s.lists[i] = parsePaths(f[5+i])
		}
		out = append(out, s)
	}
	return out
}

type req struct {
	key, op string
	values  []string
}

type query struct {
	all     bool
	specs   []string
	selKind string // none | bad | reqs
	selText string // for bad: the raw string
	style   uint64
	reqs    []req
}

func parseQuery(field string) *query {
	f := strings.Split(field, "|")
	q := &query{all: f[0] == "1"}
	if f[1] != "-" {
		for _, s := range strings.Split(f[1], ",") {
			if s == "_" {
				s = ""
			}
			q.specs = append(q.specs, s)
		}
	}
	switch {
	case f[2] == "none":
		q.selKind = "none"
	case strings.HasPrefix(f[2], "bad:"):
		q.selKind, q.selText = "bad", unhex(f[2][4:])
	default:
		p := strings.SplitN(f[2], ":", 2)
		q.selKind = "reqs"
		q.style, _ = strconv.ParseUint(p[0][1:], 10, 64)
		if p[1] != "-" {
			for _, r := range strings.Split(p[1], "&") {
				t := strings.Split(r, "~")
				rq := req{key: t[0], op: t[1]}
				if t[2] != "-" {
					for _, v := range strings.Split(t[2], "+") {
						if v == "_" {
							v = ""
						}
						rq.values = append(rq.values, v)
					}
				}
				q.reqs = append(q.reqs, rq)
			}
		}
	}
	return q
}

// render turns the structured requirements into selector syntax; the style
// number seeds the choice among equivalent spellings and white space.
func render(reqs []req, style uint64) string {
	r := hx.NewRand(style)
	sp := func() string {
		if r.Chance(1, 3) {
			return " "
		}
		return ""
	}
	var parts []string
	for _, q := range reqs {
		set := func() string {
			if len(q.values) == 1 && q.values[0] == "" {
				return "(" + sp() + ")"
			}
			return "(" + sp() + strings.Join(q.values, sp()+","+sp()) + sp() + ")"
		}
		var s string
		switch q.op {
		case "exists":
			s = q.key
		case "nexists":
			s = "!" + sp() + q.key
		case "gt":
			s = q.key + sp() + ">" + sp() + q.values[0]
		case "lt":
			s = q.key + sp() + "<" + sp() + q.values[0]
		case "in":
			if len(q.values) == 1 && r.Chance(2, 3) {
				s = q.key + sp() + r.Pick("=", "==") + sp() + q.values[0]
			} else {
				s = q.key + " in " + set()
			}
		case "notin":
			if len(q.values) == 1 && r.Chance(2, 3) {
				s = q.key + sp() + "!=" + sp() + q.values[0]
			} else {
				s = q.key + " notin " + set()
			}
		}
		parts = append(parts, sp()+s+sp())
	}
	out := strings.Join(parts, ",")
	if out == "" {
		// An empty requirement list still has to be a non-empty string for the
		// manager to take the label-selector path.
		out = " "
	}
	return out
}

// reqMatches: the documented semantics of one requirement on a label map.
func reqMatches(q req, labels map[string]string) bool {
	v, has := labels[q.key]
	in := false
	for _, x := range q.values {
		if x == v {
			in = true
		}
	}
	switch q.op {
	case "exists":
		return has
	case "nexists":
		return !has
	case "in":
		return has && in
	case "notin":
		return !has || !in
	case "gt", "lt":
		if !has {
			return false
		}
		lv, err := strconv.ParseInt(v, 10, 64)
		if err != nil {
			return false
		}
		rv, err := strconv.ParseInt(q.values[0], 10, 64)
		if err != nil {
			return false
		}
		if q.op == "gt" {
			return lv > rv
		}
		return lv < rv
	}
	return false
}

// ---------------------------------------------------------------- the real manager

type world struct {
	key     string
	dir     string
	manager *synchronization.Manager
}

var (
	current  *world
	worldSeq int
	outRoot  string
	logger   = logging.NewLogger(logging.LevelDisabled, io.Discard)
)

func closeWorld() {
	if current != nil {
		current.manager.Shutdown()
		os.RemoveAll(current.dir)
		current = nil
	}
}

func worldFor(sessions []*sess) (*world, error) {
	var keys []string
	for _, s := range sessions {
		keys = append(keys, s.persistent())
	}
	key := strings.Join(keys, ";")
	if current != nil && current.key == key {
		return current, nil
	}
	closeWorld()
	worldSeq++
	dir := filepath.Join(outRoot, fmt.Sprintf("data-%d", worldSeq))
	os.RemoveAll(dir)
	sessionsDir := filepath.Join(dir, "sessions")
	if err := os.MkdirAll(sessionsDir, 0o700); err != nil {
		return nil, err
	}
	for _, s := range sessions {
		labels := map[string]string{}
		for _, l := range s.labels {
			labels[l[0]] = l[1]
		}
		if len(labels) == 0 {
			labels = nil
		}
		session := &synchronization.Session{
			Identifier:    s.id,
			Version:       synchronization.DefaultVersion,
			CreationTime:  &timestamppb.Timestamp{Seconds: s.sec, Nanos: int32(s.nanos)},
			Alpha:         &urlpkg.URL{Kind: urlpkg.Kind_Synchronization, Protocol: urlpkg.Protocol_Local, Path: "/nonexistent/alpha"},
			Beta:          &urlpkg.URL{Kind: urlpkg.Kind_Synchronization, Protocol: urlpkg.Protocol_Local, Path: "/nonexistent/beta"},
			Configuration: &synchronization.Configuration{},
			Name:          s.name,
			Labels:        labels,
			Paused:        true,
		}
		if err := encoding.MarshalAndSaveProtobuf(filepath.Join(sessionsDir, s.id), session); err != nil {
			return nil, err
		}
	}
	os.Setenv("MUTAGEN_DATA_DIRECTORY", dir)
	m, err := synchronization.NewManager(logger)
	if err != nil {
		return nil, err
	}
	current = &world{key: key, dir: dir, manager: m}
	return current, nil
}

func problems(paths []string) []*core.Problem {
	if paths == nil {
		return nil
	}
	out := make([]*core.Problem, len(paths))
	for i, p := range paths {
		out[i] = &core.Problem{Path: p, Error: fmt.Sprintf("e%d", i)}
	}
	return out
}

func conflicts(paths []string) []*core.Conflict {
	if paths == nil {
		return nil
	}
	out := make([]*core.Conflict, len(paths))
	for i, p := range paths {
		out[i] = &core.Conflict{
			Root:         p,
			AlphaChanges: []*core.Change{{Path: p, New: &core.Entry{Kind: core.EntryKind_Directory, Contents: map[string]*core.Entry{"x": {Kind: core.EntryKind_File, Digest: []byte{byte(i)}}}}}},
			BetaChanges:  []*core.Change{{Path: p, New: &core.Entry{Kind: core.EntryKind_File, Digest: []byte{byte(i)}}}},
		}
	}
	return out
}

func problemPaths(ps []*core.Problem) []string {
	out := make([]string, len(ps))
	for i, p := range ps {
		out[i] = p.Path
	}
	return out
}

// ---------------------------------------------------------------- running one case

func runLess(a, b string) (string, string) {
	got := fastpath.Less(a, b)
	impl := "0"
	if got {
		impl = "1"
	}
	oracle := ""
	if got != dfsLess(a, b) {
		oracle = fmt.Sprintf("class=less-not-dfs Less(%q,%q)=%v", a, b, got)
	}
	return impl, oracle
}

func runSort(kind string, paths []string) (string, string) {
	var out []string
	if kind == "sortc" {
		cs := conflicts(paths)
		core.SortConflicts(cs)
		for _, c := range cs {
			out = append(out, c.Root)
		}
	} else {
		ps := problems(paths)
		core.SortProblems(ps)
		out = problemPaths(ps)
	}
	oracle := ""
	if !sameMultiset(paths, out) {
		oracle = fmt.Sprintf("class=sort-not-permutation %q -> %q", paths, out)
	} else if !dfsSorted(out) {
		oracle = fmt.Sprintf("class=sort-not-dfs-sorted %q", out)
	}
	return showPaths(out), oracle
}

// checkListed validates one sorted/truncated list against the full input.
func checkListed(what string, input, kept []string, excluded uint64) string {
	if uint64(len(kept))+excluded != uint64(len(input)) {
		return fmt.Sprintf("class=excluded-count %s: %d kept + %d excluded != %d", what, len(kept), excluded, len(input))
	}
	if len(input) > 0 && len(kept) == 0 {
		return fmt.Sprintf("class=excluded-count %s: everything excluded", what)
	}
	if !dfsSorted(kept) {
		return fmt.Sprintf("class=list-not-dfs-sorted %s %q", what, kept)
	}
	full := append([]string(nil), input...)
	sort.SliceStable(full, func(i, j int) bool { return dfsLess(full[i], full[j]) })
	for i := range kept {
		if kept[i] != full[i] {
			return fmt.Sprintf("class=list-not-smallest %s kept %q of %q", what, kept, full)
		}
	}
	return ""
}

func runList(sessions []*sess, q *query) (string, string) {
	w, err := worldFor(sessions)
	if err != nil {
		return "setup-error:" + err.Error(), "class=setup " + err.Error()
	}
	index := map[string]int{}
	for i, s := range sessions {
		index[s.id] = i
		if !w.manager.VerifC40SetState(s.id, conflicts(s.lists[0]), problems(s.lists[1]), problems(s.lists[2]), problems(s.lists[3]), problems(s.lists[4])) {
			return "setup-error:session-not-loaded", "class=setup session " + s.id + " not loaded"
		}
	}
	sel := &selection.Selection{All: q.all, Specifications: q.specs}
	switch q.selKind {
	case "bad":
		sel.LabelSelector = q.selText
	case "reqs":
		sel.LabelSelector = render(q.reqs, q.style)
	}
	_, states, err := w.manager.List(context.Background(), sel, 0)

	// The property's own expectation.
	var wantErr string
	want := map[int]bool{}
	switch {
	case q.all:
		for i := range sessions {
			want[i] = true
		}
	case len(q.specs) > 0:
		for _, spec := range q.specs {
			matched := false
			for i, s := range sessions {
				if s.id == spec || s.name == spec {
					want[i] = true
					matched = true
				}
			}
			if !matched {
				wantErr = "err:nomatch"
			}
		}
	case q.selKind == "none":
		wantErr = "err:invalid"
	case q.selKind == "bad":
		wantErr = "err:selector"
	default:
		for i, s := range sessions {
			labels := map[string]string{}
			for _, l := range s.labels {
				labels[l[0]] = l[1]
			}
			ok := true
			for _, r := range q.reqs {
				if !reqMatches(r, labels) {
					ok = false
				}
			}
			if ok {
				want[i] = true
			}
		}
	}

	if err != nil {
		impl := "err:other"
		msg := err.Error()
		switch {
		case strings.Contains(msg, "did not match any sessions"):
			impl = "err:nomatch"
		case strings.Contains(msg, "unable to parse label selector"):
			impl = "err:selector"
		case strings.Contains(msg, "invalid session selection"):
			impl = "err:invalid"
		}
		oracle := ""
		if impl != wantErr {
			oracle = fmt.Sprintf("class=selection-error got %s (%v) want %q", impl, err, wantErr)
		}
		return impl, oracle
	}

	oracle := ""
	fail := func(format string, a ...any) {
		if oracle == "" {
			oracle = fmt.Sprintf(format, a...)
		}
	}
	if wantErr != "" {
		fail("class=selection-error no error, want %s", wantErr)
	}
	type row struct {
		idx        int
		sec, nanos int64
		text       string
	}
	var rows []row
	seen := map[int]bool{}
	for _, st := range states {
		i, ok := index[st.Session.Identifier]
		if !ok {
			fail("class=selection-wrong unknown session %s listed", st.Session.Identifier)
			continue
		}
		if seen[i] {
			fail("class=selection-wrong session #%d listed twice", i)
		}
		seen[i] = true
		if !want[i] && wantErr == "" {
			fail("class=selection-wrong session #%d listed but does not match", i)
		}
		s := sessions[i]
		var croots []string
		for _, c := range st.Conflicts {
			croots = append(croots, c.Root)
			for _, ch := range c.AlphaChanges {
				if ch.New != nil && len(ch.New.Contents) != 0 {
					fail("class=conflict-not-slim session #%d", i)
				}
			}
		}
		lists := [5][]string{croots, problemPaths(st.AlphaState.ScanProblems), problemPaths(st.AlphaState.TransitionProblems),
			problemPaths(st.BetaState.ScanProblems), problemPaths(st.BetaState.TransitionProblems)}
		excl := [5]uint64{st.ExcludedConflicts, st.AlphaState.ExcludedScanProblems, st.AlphaState.ExcludedTransitionProblems,
			st.BetaState.ExcludedScanProblems, st.BetaState.ExcludedTransitionProblems}
		names := [5]string{"conflicts", "alpha-scan", "alpha-transition", "beta-scan", "beta-transition"}
		text := strconv.Itoa(i)
		for k := 0; k < 5; k++ {
			if v := checkListed(fmt.Sprintf("session #%d %s", i, names[k]), s.lists[k], lists[k], excl[k]); v != "" {
				fail("%s", v)
			}
			text += fmt.Sprintf("|%s/%d", showPaths(lists[k]), excl[k])
		}
		rows = append(rows, row{i, st.Session.CreationTime.Seconds, int64(st.Session.CreationTime.Nanos), text})
	}
	if wantErr == "" {
		for i := range want {
			if !seen[i] {
				fail("class=selection-wrong session #%d matches but is not listed", i)
			}
		}
	}
	for k := 1; k < len(rows); k++ {
		a, b := rows[k-1], rows[k]
		if b.sec < a.sec || (b.sec == a.sec && b.nanos < a.nanos) {
			fail("class=not-by-creation-time #%d (%d.%09d) before #%d (%d.%09d)", a.idx, a.sec, a.nanos, b.idx, b.sec, b.nanos)
		}
	}
	// Canonicalise: the order among sessions with identical creation time is
	// unspecified (map iteration, unstable sort): order each run of equal
	// times by session index.
	for lo := 0; lo < len(rows); {
		hi := lo + 1
		for hi < len(rows) && rows[hi].sec == rows[lo].sec && rows[hi].nanos == rows[lo].nanos {
			hi++
		}
		sort.Slice(rows[lo:hi], func(a, b int) bool { return rows[lo+a].idx < rows[lo+b].idx })
		lo = hi
	}
	out := []string{"ok"}
	for _, r := range rows {
		out = append(out, r.text)
	}
	return strings.Join(out, " "), oracle
}

func runCase(line string) (impl, oracle string) {
	f := strings.Fields(line)
	switch {
	case len(f) == 3 && f[0] == "less":
		return runLess(unhex(f[1]), unhex(f[2]))
	case len(f) == 2 && (f[0] == "sortc" || f[0] == "sortp"):
		return runSort(f[0], parsePaths(f[1]))
	case len(f) == 3 && f[0] == "list":
		return runList(parseSessions(f[1]), parseQuery(f[2]))
	}
	return "bad-op", ""
}

// ---------------------------------------------------------------- generators

const base62 = "0123456789abcdefghijklmnopqrstuvwxyzABCDEFGHIJKLMNOPQRSTUVWXYZ"

func genID(r *hx.Rand) string {
	if r.Chance(1, 8) {
		// legacy identifier: lower-case UUID
		h := func(n int) string {
			b := make([]byte, n)
			for i := range b {
				b[i] = "0123456789abcdef"[r.Intn(16)]
			}
			return string(b)
		}
		return h(8) + "-" + h(4) + "-" + h(4) + "-" + h(4) + "-" + h(12)
	}
	b := make([]byte, 43)
	for i := range b {
		b[i] = base62[r.Intn(62)]
	}
	return "sync_" + string(b)
}

var (
	namePool   = []string{"", "", "web", "api", "db", "Web", "a1", "x-y", "web"}
	keyPool    = []string{"app", "tier", "env", "n", "example.com/role", "a-b_c.d"}
	valuePool  = []string{"web", "api", "", "1", "5", "10", "007", "v1.2", "a_b", "9223372036854775807", "99999999999999999999", "x"}
	numPool    = []string{"0", "1", "5", "7", "10", "006", "9223372036854775806"}
	compPool   = []string{"a", "b", "a-b", "a.b", "ab", "A", "a b", "é", "0"}
	badSelPool = []string{"=", ",", "a in (b", "a in b)", "a in", "a==b==c", "a b", "a=b,", "!a=b", "-a", "a>x", "a<", "a/b/c=d", "a=b c", "a notin", "(a)", "a in (b))", "a=é", "a,,b", "a!b"}
)

func genPath(r *hx.Rand) string {
	if r.Chance(1, 12) {
		return ""
	}
	n := 1 + r.Intn(3)
	cs := make([]string, n)
	for i := range cs {
		cs[i] = compPool[r.Intn(len(compPool))]
	}
	return strings.Join(cs, "/")
}

func genPathList(r *hx.Rand, max int) []string {
	n := r.Intn(max + 1)
	var out []string
	for i := 0; i < n; i++ {
		if len(out) > 0 && r.Chance(1, 10) {
			out = append(out, out[r.Intn(len(out))])
		} else {
			out = append(out, genPath(r))
		}
	}
	return out
}

func genSessions(r *hx.Rand) []*sess {
	n := r.Intn(8)
	if r.Chance(1, 6) {
		n = 8 + r.Intn(6)
	}
	secs := []int64{1000, 1001, 1002, 1700000000}
	nanos := []int64{0, 1, 500, 999999999}
	var out []*sess
	for i := 0; i < n; i++ {
		s := &sess{id: genID(r), name: namePool[r.Intn(len(namePool))], sec: secs[r.Intn(len(secs))], nanos: nanos[r.Intn(len(nanos))]}
		if r.Chance(1, 5) {
			s.sec, s.nanos = int64(r.Intn(2000000000)), int64(r.Intn(1000000000))
		}
		for _, k := range keyPool {
			if r.Chance(1, 3) {
				s.labels = append(s.labels, [2]string{k, valuePool[r.Intn(len(valuePool))]})
			}
		}
		sort.Slice(s.labels, func(a, b int) bool { return s.labels[a][0] < s.labels[b][0] })
		out = append(out, s)
	}
	return out
}

func genLists(r *hx.Rand, sessions []*sess) {
	for _, s := range sessions {
		for k := 0; k < 5; k++ {
			s.lists[k] = nil
			if r.Chance(1, 4) {
				max := 6
				if r.Chance(1, 2) {
					max = 16
				}
				s.lists[k] = genPathList(r, max)
			}
		}
	}
}

func genReq(r *hx.Rand) string {
	key := keyPool[r.Intn(len(keyPool))]
	if r.Chance(1, 10) {
		key = "zz"
	}
	val := func() string {
		v := valuePool[r.Intn(len(valuePool))]
		if v == "" {
			v = "_"
		}
		return v
	}
	switch r.Intn(6) {
	case 0:
		return key + "~exists~-"
	case 1:
		return key + "~nexists~-"
	case 2:
		return key + "~gt~" + numPool[r.Intn(len(numPool))]
	case 3:
		return key + "~lt~" + numPool[r.Intn(len(numPool))]
	}
	op := r.Pick("in", "notin")
	n := 1 + r.Intn(3)
	seen := map[string]bool{}
	var vs []string
	for i := 0; i < n; i++ {
		v := val()
		if v == "_" && n > 1 {
			continue // the empty value is only rendered on its own
		}
		if !seen[v] {
			seen[v] = true
			vs = append(vs, v)
		}
	}
	if len(vs) == 0 {
		vs = []string{"_"}
	}
	sort.Strings(vs)
	return key + "~" + op + "~" + strings.Join(vs, "+")
}

func genQuery(r *hx.Rand, sessions []*sess, c *hx.Ctx) string {
	all := "0"
	specs := "-"
	sel := "none"
	genSpecs := func() string {
		n := 1 + r.Intn(4)
		var out []string
		var names []string
		for _, s := range sessions {
			if s.name != "" {
				names = append(names, s.name)
			}
		}
		miss := func() string {
			switch r.Intn(4) {
			case 0:
				return r.Pick("nope", "sync_", "WEB", "web ", "defaults", genID(r))
			case 1:
				return "_"
			case 2:
				if len(sessions) > 0 {
					id := sessions[r.Intn(len(sessions))].id
					return id[:len(id)-1] // proper prefix of an identifier
				}
			}
			return namePool[2+r.Intn(len(namePool)-2)] // a name that may or may not be in use
		}
		for i := 0; i < n; i++ {
			switch k := r.Intn(10); {
			case k < 5 && len(sessions) > 0:
				out = append(out, sessions[r.Intn(len(sessions))].id)
			case len(names) > 0:
				out = append(out, names[r.Intn(len(names))])
			default:
				out = append(out, miss())
			}
		}
		if r.Chance(1, 4) {
			out[r.Intn(len(out))] = miss()
		}
		return strings.Join(out, ",")
	}
	genSel := func() string {
		if r.Chance(1, 12) {
			return "bad:" + hx.Hex([]byte(badSelPool[r.Intn(len(badSelPool))]))
		}
		n := r.Intn(4)
		var rs []string
		for i := 0; i < n; i++ {
			rs = append(rs, genReq(r))
		}
		body := "-"
		if n > 0 {
			body = strings.Join(rs, "&")
		}
		return fmt.Sprintf("r%d:%s", r.Intn(1000), body)
	}
	switch k := r.Intn(20); {
	case k < 2:
		all = "1"
		if r.Chance(1, 2) {
			specs = genSpecs()
		}
		if r.Chance(1, 2) {
			sel = genSel()
		}
		c.Count("query-all")
	case k < 11:
		specs = genSpecs()
		if r.Chance(1, 5) {
			sel = genSel()
		}
		c.Count("query-specs")
	case k < 19:
		sel = genSel()
		c.Count("query-selector")
	default:
		c.Count("query-none")
	}
	return all + "|" + specs + "|" + sel
}

func main() {
	hx.Main("C40", func(c *hx.Ctx) {
		outRoot = os.Getenv("VERIF_OUT")
		if outRoot == "" {
			outRoot = c.Dir
		}
		outRoot, _ = filepath.Abs(filepath.Join(outRoot, "c40-data"))
		os.RemoveAll(outRoot)
		defer func() {
			closeWorld()
			os.RemoveAll(outRoot)
		}()
		emit := func(line string) {
			var oracle string
			impl := hx.Try(func() string {
				i, o := runCase(line)
				oracle = o
				return i
			})
			if strings.HasPrefix(impl, "panic:") {
				oracle = "class=panic " + impl
			}
			key := ""
			switch {
			case strings.HasPrefix(line, "less"):
				key = line
			case strings.HasPrefix(line, "sort"):
				key = impl
			default:
				if impl != "ok" {
					key = impl
				}
			}
			c.Case(line, impl, oracle, key)
			if strings.HasPrefix(impl, "err:") {
				c.Count("list-" + impl)
			}
			if strings.HasPrefix(line, "list") && strings.HasPrefix(impl, "ok") {
				c.Count(fmt.Sprintf("listed-%02d", len(strings.Fields(impl))-1))
			}
			if strings.Contains(impl, "/1") || strings.Contains(impl, "/2") || strings.Contains(impl, "/3") || strings.Contains(impl, "/4") || strings.Contains(impl, "/5") || strings.Contains(impl, "/6") {
				c.Count("list-with-truncation")
			}
		}
		if lines := c.ReplayLines(); lines != nil {
			for _, l := range lines {
				emit(l)
			}
			return
		}

		// 1. fastpath.Less, exhaustive: all ordered pairs of strings of length <= L
		// over {'-', '/', 'a', 'b'} ('-' < '/' < 'a').
		alphabet := []byte{'-', '/', 'a', 'b'}
		L := c.Size(3, 4)
		var words []string
		var rec func(prefix []byte)
		rec = func(prefix []byte) {
			words = append(words, string(prefix))
			if len(prefix) == L {
				return
			}
			for _, ch := range alphabet {
				rec(append(append([]byte(nil), prefix...), ch))
			}
		}
		rec(nil)
		for _, a := range words {
			for _, b := range words {
				emit("less " + hx.Hex([]byte(a)) + " " + hx.Hex([]byte(b)))
				c.Count("less-exhaustive")
			}
		}
		// 2. fastpath.Less, random: arbitrary bytes around '/', long common prefixes.
		for i := 0; i < c.Size(4000, 300000); i++ {
			var a, b string
			switch c.R.Intn(3) {
			case 0:
				a, b = genPath(c.R), genPath(c.R)
			case 1:
				gen := func() string {
					n := c.R.Intn(9)
					bs := make([]byte, n)
					for j := range bs {
						bs[j] = []byte{'/', '/', '.', '0', 'a', 'b', 0, 0xff, ' ', '-'}[c.R.Intn(10)]
					}
					return string(bs)
				}
				a, b = gen(), gen()
			default:
				p := genPath(c.R)
				a, b = p+string(c.R.Bytes(c.R.Intn(3), 0)), p+string(c.R.Bytes(c.R.Intn(3), 0))
				if c.R.Chance(1, 2) {
					a, b = p+"/"+genPath(c.R), p+c.R.Pick("-", "/", ".", "0", "//")+genPath(c.R)
				}
			}
			emit("less " + hx.Hex([]byte(a)) + " " + hx.Hex([]byte(b)))
			c.Count("less-random")
		}
		// 3. sort helpers.
		for i := 0; i < c.Size(2000, 100000); i++ {
			kind := c.R.Pick("sortc", "sortp")
			emit(kind + " " + showPaths(genPathList(c.R, 24)))
			c.Count(kind)
		}
		// 4. Manager.List on loaded managers.
		worlds := c.Size(60, 1500)
		per := c.Size(80, 150)
		for wi := 0; wi < worlds; wi++ {
			sessions := genSessions(c.R)
			c.Count(fmt.Sprintf("sessions-%02d", len(sessions)))
			for qi := 0; qi < per; qi++ {
				genLists(c.R, sessions)
				enc := "."
				if len(sessions) > 0 {
					es := make([]string, len(sessions))
					for i, s := range sessions {
						es[i] = s.encode()
					}
					enc = strings.Join(es, ";")
				}
				emit("list " + enc + " " + genQuery(c.R, sessions, c))
			}
		}
	})
}
