// C31: coalesced signals are never lost.
//
// Runs the real state.Coalescer inside testing/synctest bubbles: the Go
// runtime's timers run on a virtual clock that only advances when every
// goroutine of the bubble is blocked, so strobe times, gaps "around the
// window length" (including exactly the window, ±1 ns) and signal arrival
// times are exact and the check never depends on wall-clock latency. The
// schedule (strobe bursts, drains, termination, with or without an active
// consumer) is the op line; the observation (arrival times or drain results)
// is the implementation's answer; the Lean timed-automaton model must produce
// the same observation (where an event coincides with the timer's deadline
// both orders are valid runs, and the model accepts either).
//
// Oracle (independent of the model's loop state machine): works on signal
// due-times only — a strobe at time s makes a signal due at s+window and
// cancels an earlier one that is still due later; a one-slot buffer holds
// signals that nobody consumes.
package main

import (
	"fmt"
	"os"
	"sort"
	"strconv"
	"strings"
	"testing"
	"testing/synctest"
	"time"

	"github.com/mutagen-io/mutagen/pkg/state"

	"verif/harness/hx"
)

type event struct {
	kind byte // s d t
	at   int64
}

func parseEvents(toks []string) ([]event, bool) {
	var evs []event
	for _, tok := range toks {
		if len(tok) < 2 || !strings.ContainsRune("sdt", rune(tok[0])) {
			return nil, false
		}
		at, err := strconv.ParseInt(tok[1:], 10, 64)
		if err != nil || at < 0 {
			return nil, false
		}
		evs = append(evs, event{tok[0], at})
	}
	return evs, true
}

// execute runs the schedule on the real coalescer and returns the observation.
func execute(t *testing.T, window int64, active bool, evs []event) (obs string) {
	synctest.Test(t, func(t *testing.T) {
		start := time.Now()
		c := state.NewCoalescer(time.Duration(window))
		var outs []string
		stop, cdone := make(chan struct{}), make(chan struct{})
		if active {
			go func() {
				defer close(cdone)
				for {
					select {
					case <-c.Signals():
						outs = append(outs, strconv.FormatInt(int64(time.Since(start)), 10))
					case <-stop:
						return
					}
				}
			}()
		} else {
			close(cdone)
		}
		for _, e := range evs {
			if d := time.Duration(e.at) - time.Since(start); d > 0 {
				time.Sleep(d)
			}
			switch e.kind {
			case 's':
				c.Strobe()
			case 't':
				c.Terminate()
			case 'd':
				synctest.Wait()
				if !active {
					select {
					case <-c.Signals():
						outs = append(outs, "1")
					default:
						outs = append(outs, "0")
					}
				}
			}
		}
		// Let a still-armed timer expire, then shut down.
		time.Sleep(time.Duration(max(window, 0)) + 1)
		synctest.Wait()
		c.Terminate()
		close(stop)
		<-cdone
		if len(outs) == 0 {
			obs = "-"
		} else {
			obs = strings.Join(outs, " ")
		}
	})
	return
}

// possible computes every observation the specification allows.
func possible(window int64, active bool, evs []event) []string {
	if window < 0 {
		window = 0
	}
	type cfg struct {
		due      int64 // -1: nothing due
		buffered bool
		term     bool
		out      []string
	}
	emit := func(c cfg) cfg {
		if active {
			c.out = append(c.out[:len(c.out):len(c.out)], strconv.FormatInt(c.due, 10))
		} else {
			c.buffered = true
		}
		c.due = -1
		return c
	}
	cfgs := []cfg{{due: -1}}
	for _, e := range evs {
		var next []cfg
		for _, c := range cfgs {
			var cs []cfg
			switch {
			case c.due >= 0 && c.due < e.at:
				cs = []cfg{emit(c)}
			case c.due >= 0 && c.due == e.at && e.kind != 'd':
				cs = []cfg{emit(c), c} // race between the timer and the event
			case c.due >= 0 && c.due == e.at:
				cs = []cfg{emit(c)}
			default:
				cs = []cfg{c}
			}
			for _, c := range cs {
				switch e.kind {
				case 's':
					if !c.term {
						c.due = e.at + window
					}
				case 't':
					c.term = true
					c.due = -1
				case 'd':
					if !active {
						v := "0"
						if c.buffered {
							v = "1"
						}
						c.buffered = false
						c.out = append(c.out[:len(c.out):len(c.out)], v)
					}
				}
				next = append(next, c)
			}
		}
		cfgs = next
	}
	seen := map[string]bool{}
	var outs []string
	for _, c := range cfgs {
		if c.due >= 0 {
			c = emit(c) // the harness lets the last timer expire before it terminates
		}
		s := "-"
		if len(c.out) > 0 {
			s = strings.Join(c.out, " ")
		}
		if !seen[s] {
			seen[s] = true
			outs = append(outs, s)
		}
	}
	sort.Strings(outs)
	return outs
}

func main() {
	args := os.Args
	os.Args = args[:1]
	testing.Main(func(pat, str string) (bool, error) { return true, nil }, []testing.InternalTest{{Name: "C31", F: func(t *testing.T) {
		os.Args = args
		hx.Main("C31", func(c *hx.Ctx) { drive(c, t) })
	}}}, nil, nil)
}

func drive(c *hx.Ctx, t *testing.T) {
	emit := func(window int64, active bool, evs []event) {
		mode := "D"
		if active {
			mode = "A"
		}
		var toks []string
		for _, e := range evs {
			toks = append(toks, fmt.Sprintf("%c%d", e.kind, e.at))
		}
		obs := execute(t, window, active, evs)
		line := fmt.Sprintf("%d %s %s = %s", window, mode, strings.Join(toks, " "), obs)
		oracle := ""
		poss := possible(window, active, evs)
		ok := false
		for i, p := range poss {
			if p == obs {
				ok = true
				if len(poss) > 1 && i == 0 {
					c.Count("race-at-deadline:first-outcome")
				} else if len(poss) > 1 {
					c.Count("race-at-deadline:other-outcome")
				}
			}
		}
		if !ok {
			class := "signal-mismatch"
			want := strings.Fields(poss[0])
			got := strings.Fields(obs)
			if active {
				switch {
				case len(got) < len(want) || obs == "-" && poss[0] != "-":
					class = "signal-lost"
				case len(got) > len(want) || poss[0] == "-":
					class = "signal-extra"
				default:
					class = "signal-time"
				}
			}
			oracle = fmt.Sprintf("class=%s observed [%s], allowed %q", class, obs, poss)
		}
		if len(poss) > 1 {
			c.Count("race-at-deadline")
		}
		key := ""
		if obs != "-" {
			key = mode + obs + fmt.Sprint(len(poss))
		}
		c.Case(line, obs, oracle, key)
	}
	if lines := c.ReplayLines(); lines != nil {
		for _, l := range lines {
			f := strings.Fields(l)
			bad := true
			if len(f) >= 2 && (f[1] == "A" || f[1] == "D") {
				if w, err := strconv.ParseInt(f[0], 10, 64); err == nil {
					toks := f[2:]
					for i, x := range toks {
						if x == "=" {
							toks = toks[:i]
							break
						}
					}
					if evs, ok := parseEvents(toks); ok && sort.SliceIsSorted(evs, func(a, b int) bool { return evs[a].at < evs[b].at }) {
						emit(w, f[1] == "A", evs)
						bad = false
					}
				}
			}
			if bad {
				c.Case(l, "bad-line", "", "")
			}
		}
		return
	}
	// Exhaustive: window 2, every schedule of up to L events with gaps 0..3
	// (inside, exactly at, and beyond the window), both modes; a final drain
	// beyond the window is appended.
	L := c.Size(3, 5)
	var rec func(evs []event, at int64, depth int)
	rec = func(evs []event, at int64, depth int) {
		if len(evs) > 0 {
			for _, active := range []bool{true, false} {
				full := append(evs[:len(evs):len(evs)], event{'d', at + 5})
				emit(2, active, full)
				c.Count("exhaustive")
			}
		}
		if depth == 0 {
			return
		}
		for _, k := range []byte{'s', 'd', 't'} {
			for gap := int64(0); gap <= 3; gap++ {
				rec(append(evs[:len(evs):len(evs)], event{k, at + gap}), at+gap, depth-1)
			}
		}
	}
	rec(nil, 0, L)
	// Random schedules.
	windows := []int64{0, 1, 2, 10, 100, 1000, 1000000, 50000000, -7}
	for i := 0; i < c.Size(12000, 400000); i++ {
		w := windows[c.R.Intn(len(windows))]
		ew := w
		if ew < 1 {
			ew = 1
		}
		active := c.R.Chance(1, 2)
		n := 1 + c.R.Intn(25)
		var evs []event
		at := int64(c.R.Intn(3))
		terminated := false
		for len(evs) < n {
			var gap int64
			switch x := c.R.Intn(20); {
			case x < 1:
				gap = 0
			case x < 4:
				gap = ew
			case x < 5:
				gap = ew - 1
			case x < 6:
				gap = ew + 1
			case x < 13:
				gap = int64(c.R.Intn(int(min(ew, 1<<30))))
			case x < 18:
				gap = ew + 1 + int64(c.R.Intn(int(min(2*ew, 1<<30))))
			default:
				gap = 10 * ew
			}
			at += gap
			k := byte('s')
			switch x := c.R.Intn(40); {
			case x < 9:
				k = 'd'
			case x < 10 || (x < 14 && terminated):
				k = 't'
				terminated = true
			}
			evs = append(evs, event{k, at})
		}
		evs = append(evs, event{'d', at + 3*ew + 1})
		emit(w, active, evs)
		c.Count("random")
		if terminated {
			c.Count("random:terminated")
		}
		if w <= 0 {
			c.Count("random:zero-window")
		}
	}
}
