// C01: two-way-safe synchronization never loses a modification.
//
// Cases are (ancestor, alpha, beta) triples under two-way-safe mode: the
// exhaustive depth-1 space over two names, then random related deep triples.
// The real core.Reconcile's plan is printed canonically for comparison with
// the Lean model, and the property's own oracle is evaluated on it:
//   - per-path no-loss on both endpoints (nothing that differs from the last
//     synchronized state is deleted or overwritten),
//   - every change's Old describes the endpoint's current content,
//   - where both endpoints created/modified content at a disagreeing path a
//     conflict is rooted there and nothing at that path is touched.
package main

import (
	"github.com/mutagen-io/mutagen/pkg/synchronization/core"

	"verif/harness/corex"
	"verif/harness/hx"
)

func main() {
	hx.Main("C01", func(c *hx.Ctx) {
		cfg := corex.StreamCfg{
			Modes:  []string{"two-way-safe"},
			Stride: 1,
			Random: c.Size(4000, 600000),
			Opts:   hx.TreeOpts{Unsync: true, Phantom: false, MaxDepth: c.Size(4, 6), MaxKids: 3},
		}
		corex.RunReconcileCases(c,
			func(emit func(string, *core.Entry, *core.Entry, *core.Entry), raw func(string)) {
				corex.Triples(c, cfg, emit)
				// A slice of triples with phantom directories (correspondence only).
				cfg2 := cfg
				cfg2.Stride, cfg2.Random = 1<<30, c.Size(500, 50000)
				cfg2.Opts.Phantom = true
				corex.Triples(c, cfg2, emit)
			},
			func(t *corex.Triple, p *corex.Plan) string {
				return corex.First(
					"lost-modification", corex.NoLoss("alpha", t.Alpha, t.Anc, p.Alpha),
					"lost-modification", corex.NoLoss("beta", t.Beta, t.Anc, p.Beta),
					"stale-old", corex.OldDescribes("alpha", t.Alpha, p.Alpha),
					"stale-old", corex.OldDescribes("beta", t.Beta, p.Beta),
					"missing-conflict", corex.BothModifiedConflict(t, p),
				)
			})
	})
}
