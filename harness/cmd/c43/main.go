// C43: housekeeping removes only stale artifacts.
//
// Every case populates a scratch MUTAGEN_DATA_DIRECTORY (agents / caches /
// staging children: files, empty and non-empty directories, agent binaries,
// symbolic links to objects in a canary area outside the data directory,
// dangling links) with access/modification times at chosen ages around the
// thresholds (os.Chtimes), calls the real housekeeping.Housekeep(), lists what
// survived and verifies that nothing outside the three sub-directories
// changed. The canonical survivor lists are compared with the Lean model; the
// property's own oracle (thresholds written out from the statement: 30 days of
// agent idleness by access time, 7 days for caches and staging roots by
// modification time, strictly) is evaluated on the real outcome.
//
// Housekeep reads the sidecar environment once per process and
// MUTAGEN_DATA_DIRECTORY on every call, so cases run in worker processes (the
// driver re-executes itself): ordinary workers and one with MUTAGEN_SIDECAR=1.
// time.Now() inside Housekeep cannot be injected: ages are taken relative to a
// nominal `now` sampled before populating; ages within 3 s below a threshold
// are never generated and a case whose wall time exceeds 2 s is repeated.
package main

import (
	"bufio"
	"crypto/sha1"
	"fmt"
	"io"
	"io/fs"
	"os"
	"os/exec"
	"path/filepath"
	"sort"
	"strconv"
	"strings"
	"sync"
	"syscall"
	"time"

	"github.com/mutagen-io/mutagen/pkg/filesystem"
	"github.com/mutagen-io/mutagen/pkg/housekeeping"

	"verif/harness/hx"
)

const workerEnv = "VERIF_C43_WORKER"

const (
	day       = 24 * time.Hour
	agentIdle = 30 * day // from the statement
	cacheAge  = 7 * day
	stageAge  = 7 * day
	agentName = "mutagen-agent"
)

type child struct {
	name           string
	link           bool
	kind           string // f d x
	extra          bool
	aAge, mAge     int64
	agent          int // 0 none, 1 file, 2 link to an outside file
	agentA, agentM int64
}

type subdir struct {
	missing  bool
	children []child
}

func parseSub(s string) (subdir, bool) {
	if s == "!" {
		return subdir{missing: true}, true
	}
	if !strings.HasPrefix(s, "=") {
		return subdir{}, false
	}
	var d subdir
	if s == "=" {
		return d, true
	}
	for _, cs := range strings.Split(s[1:], ",") {
		p := strings.Split(cs, "/")
		if len(p) != 9 {
			return d, false
		}
		c := child{name: p[0], link: p[1] == "1", kind: p[2], extra: p[3] == "1"}
		c.aAge, _ = strconv.ParseInt(p[4], 10, 64)
		c.mAge, _ = strconv.ParseInt(p[5], 10, 64)
		c.agent, _ = strconv.Atoi(p[6])
		c.agentA, _ = strconv.ParseInt(p[7], 10, 64)
		c.agentM, _ = strconv.ParseInt(p[8], 10, 64)
		d.children = append(d.children, c)
	}
	return d, true
}

func at(t0 time.Time, age int64) time.Time { return t0.Add(-time.Duration(age)) }

// makeObject creates the file/directory a child (or the target of a link
// child) consists of and stamps its times.
func makeObject(path string, c child, t0 time.Time, outside, tag string) error {
	switch c.kind {
	case "f":
		if err := os.WriteFile(path, []byte("content of "+tag), 0o644); err != nil {
			return err
		}
	case "d":
		if err := os.Mkdir(path, 0o755); err != nil {
			return err
		}
		if c.extra {
			if err := os.MkdirAll(filepath.Join(path, "sub", "deep"), 0o755); err != nil {
				return err
			}
			if err := os.WriteFile(filepath.Join(path, "sub", "deep", "data"), []byte("nested "+tag), 0o644); err != nil {
				return err
			}
		}
		if c.agent != 0 && c.kind == "d" {
			ap := filepath.Join(path, agentName)
			if c.agent == 2 {
				target := filepath.Join(outside, "agent-of-"+tag)
				if err := os.WriteFile(target, []byte("outside agent "+tag), 0o755); err != nil {
					return err
				}
				if err := os.Symlink(target, ap); err != nil {
					return err
				}
			} else if err := os.WriteFile(ap, []byte("agent "+tag), 0o755); err != nil {
				return err
			}
			if err := os.Chtimes(ap, at(t0, c.agentA), at(t0, c.agentM)); err != nil {
				return err
			}
		}
	default:
		return nil
	}
	return os.Chtimes(path, at(t0, c.aAge), at(t0, c.mAge))
}

func populate(data, outside, subName string, d subdir, t0 time.Time) error {
	if d.missing {
		return nil
	}
	dir := filepath.Join(data, subName)
	if err := os.MkdirAll(dir, 0o755); err != nil {
		return err
	}
	for _, c := range d.children {
		tag := subName + "-" + c.name
		p := filepath.Join(dir, c.name)
		if !c.link {
			if err := makeObject(p, c, t0, outside, tag); err != nil {
				return err
			}
			continue
		}
		target := filepath.Join(outside, "target-"+tag)
		if err := makeObject(target, c, t0, outside, tag); err != nil {
			return err
		}
		if err := os.Symlink(target, p); err != nil {
			return err
		}
	}
	return nil
}

// snapshot fingerprints a tree: paths, types, link targets, file contents.
func snapshot(root string) string {
	h := sha1.New()
	filepath.WalkDir(root, func(p string, d fs.DirEntry, err error) error {
		if err != nil {
			fmt.Fprintf(h, "ERR %s\n", p)
			return nil
		}
		rel, _ := filepath.Rel(root, p)
		switch {
		case d.Type()&fs.ModeSymlink != 0:
			t, _ := os.Readlink(p)
			fmt.Fprintf(h, "L %s -> %s\n", rel, t)
		case d.IsDir():
			fmt.Fprintf(h, "D %s\n", rel)
		default:
			fmt.Fprintf(h, "F %s %x\n", rel, sha1.Sum(readNoAtime(p)))
		}
		return nil
	})
	return fmt.Sprintf("%x", h.Sum(nil))
}

// readNoAtime reads a file without updating its access time (the snapshot
// taken before Housekeep must not refresh the agents' idle clocks).
func readNoAtime(p string) []byte {
	fd, err := syscall.Open(p, syscall.O_RDONLY|syscall.O_NOATIME|syscall.O_CLOEXEC, 0)
	if err != nil {
		return []byte("unreadable: " + err.Error())
	}
	f := os.NewFile(uintptr(fd), p)
	defer f.Close()
	b, _ := io.ReadAll(f)
	return b
}

func list(dir string) string {
	es, err := os.ReadDir(dir)
	if err != nil {
		return "!"
	}
	if len(es) == 0 {
		return "-"
	}
	names := make([]string, len(es))
	for i, e := range es {
		names[i] = e.Name()
	}
	sort.Strings(names)
	return strings.Join(names, ",")
}

// expectRemoved is the statement's rule for one child.
func expectRemoved(sub string, c child, sidecar bool) bool {
	statOK := c.kind != "x"
	switch sub {
	case "agents":
		return !sidecar && c.kind == "d" && c.agent != 0 && time.Duration(c.agentA) > agentIdle
	case "caches":
		// os.Remove: a link, a file or an empty directory
		removable := c.link || c.kind == "f" || !(c.extra || c.agent != 0)
		return statOK && time.Duration(c.mAge) > cacheAge && removable
	default:
		return statOK && time.Duration(c.mAge) > stageAge
	}
}

func runCase(root, line string) (impl, oracle string) {
	f := strings.Fields(line)
	if len(f) != 5 {
		return "bad-op", ""
	}
	subs := map[string]subdir{}
	for i, n := range []string{"agents", "caches", "staging"} {
		d, ok := parseSub(f[2+i])
		if !ok {
			return "bad-op", ""
		}
		subs[n] = d
	}
	sidecar := os.Getenv("MUTAGEN_SIDECAR") == "1"
	if (f[0] == "s") != sidecar {
		return "setup-failed: case routed to the wrong worker", ""
	}
	data, outside := filepath.Join(root, "data"), filepath.Join(root, "outside")
	for attempt := 0; ; attempt++ {
		os.RemoveAll(data)
		os.RemoveAll(outside)
		if err := os.MkdirAll(outside, 0o755); err != nil {
			return "setup-failed: " + err.Error(), ""
		}
		if err := os.MkdirAll(filepath.Join(data, "sessions"), 0o755); err != nil {
			return "setup-failed: " + err.Error(), ""
		}
		os.WriteFile(filepath.Join(data, "sessions", "sync_keep"), []byte("session"), 0o600)
		os.WriteFile(filepath.Join(data, "keep-file"), []byte("keep"), 0o600)
		old := time.Now().Add(-400 * day)
		os.Chtimes(filepath.Join(data, "sessions", "sync_keep"), old, old)
		os.Chtimes(filepath.Join(data, "keep-file"), old, old)
		t0 := time.Now()
		for _, n := range []string{filesystem.MutagenAgentsDirectoryName, filesystem.MutagenSynchronizationCachesDirectoryName, filesystem.MutagenSynchronizationStagingDirectoryName} {
			if err := populate(data, outside, n, subs[n], t0); err != nil {
				return "setup-failed: " + err.Error(), ""
			}
		}
		outsideBefore := snapshot(outside)
		otherBefore := snapshot(filepath.Join(data, "sessions")) + list(data)
		switch f[0] {
		case "r":
			os.Chdir(root)
			os.Setenv("MUTAGEN_DATA_DIRECTORY", "data")
		case "e":
			os.Chdir(data)
			os.Setenv("MUTAGEN_DATA_DIRECTORY", "")
		default:
			os.Chdir(root)
			os.Setenv("MUTAGEN_DATA_DIRECTORY", data)
		}

		housekeeping.Housekeep()

		elapsed := time.Since(t0)
		os.Chdir(root)
		if elapsed > 2*time.Second {
			if attempt < 5 {
				continue
			}
			return "inconclusive: case took " + elapsed.String(), ""
		}
		impl = fmt.Sprintf("agents=%s|caches=%s|staging=%s", list(filepath.Join(data, "agents")), list(filepath.Join(data, "caches")), list(filepath.Join(data, "staging")))
		if snapshot(outside) != outsideBefore {
			oracle = "class=outside-touched objects outside the data directory changed"
		} else if snapshot(filepath.Join(data, "sessions"))+list(data) != otherBefore {
			oracle = "class=other-data-touched other parts of the data directory changed"
		}
		// statement, child by child
		invalid := f[0] == "r" || f[0] == "e"
		for _, n := range []string{"agents", "caches", "staging"} {
			if oracle != "" {
				break
			}
			if subs[n].missing {
				continue
			}
			for _, c := range subs[n].children {
				_, err := os.Lstat(filepath.Join(data, n, c.name))
				gone := err != nil
				want := !invalid && expectRemoved(n, c, sidecar)
				if gone && !want {
					oracle = fmt.Sprintf("class=recent-removed %s/%s was removed (age a=%s m=%s agent a=%s)", n, c.name, time.Duration(c.aAge), time.Duration(c.mAge), time.Duration(c.agentA))
				} else if !gone && want {
					oracle = fmt.Sprintf("class=stale-kept %s/%s survived (age a=%s m=%s agent a=%s)", n, c.name, time.Duration(c.aAge), time.Duration(c.mAge), time.Duration(c.agentA))
				}
			}
		}
		return impl, oracle
	}
}

func worker() {
	exe, _ := os.Executable()
	root := filepath.Join(filepath.Dir(exe), "root")
	os.MkdirAll(root, 0o755)
	// The file system must keep nanosecond timestamps.
	probe := filepath.Join(root, "probe")
	os.WriteFile(probe, nil, 0o600)
	want := time.Unix(1000000000, 123456789)
	os.Chtimes(probe, want, want)
	if st, err := os.Stat(probe); err != nil || !st.ModTime().Equal(want) {
		fmt.Fprintln(os.Stderr, "c43 worker: file system does not keep nanosecond timestamps")
		os.Exit(3)
	}
	os.Remove(probe)
	in := bufio.NewReaderSize(os.Stdin, 1<<22)
	out := bufio.NewWriter(os.Stdout)
	for {
		line, err := in.ReadString('\n')
		if line = strings.TrimRight(line, "\n"); line != "" {
			var oracle string
			impl := hx.Try(func() string {
				i, o := runCase(root, line)
				oracle = o
				return i
			})
			if strings.HasPrefix(impl, "panic:") {
				oracle = "class=panic " + impl
			}
			fmt.Fprintf(out, "%s\t%s\n", impl, oracle)
			out.Flush()
		}
		if err != nil {
			return
		}
	}
}

// ---- parent ----

type proc struct {
	cmd *exec.Cmd
	in  io.WriteCloser
	out *bufio.Reader
}

func startWorker(work, id string, sidecar bool) (*proc, error) {
	self, err := os.Executable()
	if err != nil {
		return nil, err
	}
	dir := filepath.Join(work, id)
	if err := os.MkdirAll(dir, 0o755); err != nil {
		return nil, err
	}
	data, err := os.ReadFile(self)
	if err != nil {
		return nil, err
	}
	bin := filepath.Join(dir, "c43")
	if err := os.WriteFile(bin, data, 0o755); err != nil {
		return nil, err
	}
	cmd := exec.Command(bin)
	cmd.Env = append(os.Environ(), workerEnv+"=1", "GOMAXPROCS=2")
	if sidecar {
		cmd.Env = append(cmd.Env, "MUTAGEN_SIDECAR=1")
	} else {
		cmd.Env = append(cmd.Env, "MUTAGEN_SIDECAR=")
	}
	cmd.Stderr = os.Stderr
	in, err := cmd.StdinPipe()
	if err != nil {
		return nil, err
	}
	out, err := cmd.StdoutPipe()
	if err != nil {
		return nil, err
	}
	if err := cmd.Start(); err != nil {
		return nil, err
	}
	return &proc{cmd, in, bufio.NewReaderSize(out, 1<<22)}, nil
}

func (p *proc) ask(line string) (string, string) {
	if _, err := io.WriteString(p.in, line+"\n"); err != nil {
		return "worker-failed: " + err.Error(), ""
	}
	resp, err := p.out.ReadString('\n')
	if err != nil {
		return "worker-failed: " + err.Error(), ""
	}
	parts := strings.SplitN(strings.TrimRight(resp, "\n"), "\t", 2)
	if len(parts) != 2 {
		return "worker-failed: " + resp, ""
	}
	return parts[0], parts[1]
}

// ---- generators ----

func randAge(r *hx.Rand, thr, other time.Duration) int64 {
	var a time.Duration
	switch r.Intn(13) {
	case 0:
		a = thr + 1
	case 1:
		a = thr + 1 + time.Duration(r.Intn(1000000000))
	case 2:
		a = thr + time.Duration(1+r.Intn(72))*time.Hour
	case 3:
		a = thr - 3*time.Second
	case 4:
		a = thr - 3*time.Second - time.Duration(r.Intn(3600))*time.Second
	case 5:
		a = thr - time.Duration(1+r.Intn(6))*day
	case 6:
		a = 0
	case 7:
		a = -time.Hour
	case 8:
		a = 40 * 365 * day
	case 9:
		a = other + time.Second
	case 10:
		a = other - time.Hour
	case 11:
		a = time.Duration(r.Intn(60*24)) * time.Hour
	default:
		a = thr + time.Millisecond
	}
	// Never within 3 s below (or exactly at) a threshold: time.Now() inside
	// Housekeep is later than the nominal now by an unknown few milliseconds.
	for _, x := range []time.Duration{cacheAge, agentIdle} {
		if a > x-3*time.Second && a <= x {
			a = x - 3*time.Second
		}
	}
	return int64(a)
}

var names = []string{"v0.18.1", "v0.17.0", "0.16.2-beta1", "cache_a", "sync_8f3a", "x", "..hidden", ".dot", "a+b", "UPPER", "mutagen-agent", "zz-last"}

func randChild(r *hx.Rand, name string, thr, other time.Duration, sub string) string {
	link, kind, extra, agent := 0, "d", 0, 0
	if r.Chance(1, 4) {
		link = 1
	}
	switch r.Intn(8) {
	case 0, 1:
		kind = "f"
	case 2:
		if link == 1 {
			kind = "x"
		}
	}
	if kind == "d" {
		if r.Chance(1, 2) {
			extra = 1
		}
		p := 3
		if sub == "agents" {
			p = 1
		}
		if r.Intn(p+1) < 1 || sub == "agents" && r.Chance(3, 4) {
			agent = 1
			if r.Chance(1, 5) {
				agent = 2
			}
		}
	}
	return fmt.Sprintf("%s/%d/%s/%d/%d/%d/%d/%d/%d", name, link, kind, extra,
		randAge(r, thr, other), randAge(r, thr, other), agent, randAge(r, agentIdle, cacheAge), randAge(r, agentIdle, cacheAge))
}

func randSub(r *hx.Rand, sub string) string {
	if r.Chance(1, 15) {
		return "!"
	}
	thr, other := cacheAge, agentIdle
	if sub == "agents" {
		thr, other = agentIdle, cacheAge
	}
	n := r.Intn(5)
	perm := make([]int, len(names))
	for i := range perm {
		perm[i] = i
	}
	for i := range perm {
		j := i + r.Intn(len(perm)-i)
		perm[i], perm[j] = perm[j], perm[i]
	}
	cs := make([]string, n)
	for i := range cs {
		cs[i] = randChild(r, names[perm[i]], thr, other, sub)
	}
	return "=" + strings.Join(cs, ",")
}

// scratchDir picks the directory for the per-run scratch layouts: a memory
// file system when one is available and allows executing the worker copy (the
// cases are dominated by create/unlink calls, which are slow on the journalled,
// discard-mounted disk under ./out), else <out>/work. Removed at the end.
func scratchDir(outDir string) string {
	if os.Getenv("VERIF_SCRATCH_ON_DISK") == "" {
		if d, err := os.MkdirTemp("/dev/shm", "verif-"+strings.ToLower(filepath.Base(filepath.Dir(outDir)))+"-"); err == nil {
			probe := filepath.Join(d, "probe")
			if self, err := os.Executable(); err == nil {
				if data, err := os.ReadFile(self); err == nil && os.WriteFile(probe, data, 0o755) == nil {
					cmd := exec.Command(probe)
					cmd.Env = append(os.Environ(), workerEnv+"=probe")
					if cmd.Run() == nil {
						os.Remove(probe)
						return d
					}
				}
			}
			os.RemoveAll(d)
		}
	}
	return filepath.Join(outDir, "work")
}

func main() {
	if os.Getenv(workerEnv) == "probe" {
		return
	}
	if os.Getenv(workerEnv) != "" {
		worker()
		return
	}
	hx.Main("C43", func(c *hx.Ctx) {
		work := scratchDir(c.Dir)
		os.RemoveAll(work)
		defer os.RemoveAll(work)
		pools := map[bool][]*proc{}
		for _, w := range []struct {
			id      string
			sidecar bool
		}{{"w0", false}, {"w1", false}, {"w2", false}, {"w3", false}, {"s0", true}} {
			p, err := startWorker(work, w.id, w.sidecar)
			if err != nil {
				fmt.Fprintln(os.Stderr, "cannot start worker:", err)
				os.RemoveAll(work)
				os.Exit(2)
			}
			pools[w.sidecar] = append(pools[w.sidecar], p)
		}
		defer func() {
			for _, ps := range pools {
				for _, p := range ps {
					p.in.Close()
					p.cmd.Wait()
				}
			}
		}()
		var batch []string
		flush := func() {
			impls, oracles := make([]string, len(batch)), make([]string, len(batch))
			queues := map[*proc][]int{}
			next := map[bool]int{}
			for i, line := range batch {
				sc := strings.HasPrefix(line, "s ")
				ps := pools[sc]
				p := ps[next[sc]%len(ps)]
				next[sc]++
				queues[p] = append(queues[p], i)
			}
			var wg sync.WaitGroup
			for p, q := range queues {
				wg.Add(1)
				go func(p *proc, q []int) {
					defer wg.Done()
					for _, i := range q {
						impls[i], oracles[i] = p.ask(batch[i])
					}
				}(p, q)
			}
			wg.Wait()
			for i, line := range batch {
				key := ""
				if f := strings.Fields(line); len(f) == 5 {
					// non-trivial: something was removed (the listing lost a name)
					total := strings.Count(f[2], "/")/8 + strings.Count(f[3], "/")/8 + strings.Count(f[4], "/")/8
					left := 0
					for _, part := range strings.Split(impls[i], "|") {
						if v := part[strings.Index(part, "=")+1:]; v != "-" && v != "!" {
							left += strings.Count(v, ",") + 1
						}
					}
					if left < total {
						key = impls[i]
						c.Count("removed-some")
					} else if total > 0 {
						c.Count("kept-all")
					}
				}
				c.Case(line, impls[i], oracles[i], key)
			}
			batch = batch[:0]
		}
		defer flush()
		emit := func(line string) {
			batch = append(batch, line)
			if len(batch) >= 2000 {
				flush()
			}
		}
		if lines := c.ReplayLines(); lines != nil {
			for _, l := range lines {
				emit(l)
			}
			return
		}
		now := time.Now().UnixNano()
		// Exhaustive: one child, every shape, age just above / safely below the threshold,
		// with the irrelevant timestamp on the other side.
		for _, mode := range []string{"n", "s", "r", "e"} {
			for si, sub := range []string{"agents", "caches", "staging"} {
				thr := cacheAge
				if sub == "agents" {
					thr = agentIdle
				}
				for _, shape := range []string{"0/f/0", "0/d/0", "0/d/1", "1/f/0", "1/d/0", "1/d/1", "1/x/0"} {
					for agent := 0; agent <= 2; agent++ {
						if agent > 0 && !strings.Contains(shape, "/d/") {
							continue
						}
						for _, ages := range [][2]time.Duration{{thr + 1, thr - 3*time.Second}, {thr - 3*time.Second, thr + 1}, {thr + 1, thr + 1}, {0, 0}} {
							ch := fmt.Sprintf("only/%s/%d/%d/%d/%d/%d", shape, int64(ages[0]), int64(ages[1]), agent, int64(ages[0]), int64(ages[1]))
							parts := []string{"=", "=", "="}
							parts[si] = "=" + ch
							emit(fmt.Sprintf("%s %d %s", mode, now, strings.Join(parts, " ")))
							c.Count("exhaustive")
						}
					}
				}
			}
		}
		for i := 0; i < c.Size(5000, 150000); i++ {
			mode := "n"
			switch c.R.Intn(12) {
			case 0, 1:
				mode = "s"
			case 2:
				mode = "r"
			case 3:
				mode = "e"
			}
			emit(fmt.Sprintf("%s %d %s %s %s", mode, now, randSub(c.R, "agents"), randSub(c.R, "caches"), randSub(c.R, "staging")))
			c.Count("random-" + mode)
		}
	})
}
