// C16: portable symbolic links never point outside the root.
//
// Three streams on the real code:
//
//	n  normalizeSymbolicLinkAndEnsurePortable (verif export) on exhaustive
//	   token-built targets at link depths 0..D, random long targets, and a
//	   malformed stream (empty, absolute, over-long, colon, backslash, raw bytes);
//	s  core.Scan of real directories holding real links (portable and POSIX-raw
//	   mode): the entry kind the snapshot reports for every link;
//	t  core.Transition asked to create links (portable, raw, ignore mode): whether
//	   the link exists on disk afterwards.
//
// The oracle is the property's own predicate, written without reference to the
// depth walk: every accepted portable link, resolved lexically from the link's
// directory ("" and "." are no-ops, ".." pops a directory stack), never pops
// the stack of the synchronization root at any prefix; and no empty, absolute,
// over-long, colon- or backslash-containing target is accepted.
package main

import (
	"context"
	"crypto/sha1"
	"encoding/hex"
	"fmt"
	"os"
	"path/filepath"
	"strings"

	"github.com/mutagen-io/mutagen/pkg/synchronization/core"
	"github.com/mutagen-io/mutagen/pkg/synchronization/core/ignore/mutagen"
	"github.com/mutagen-io/mutagen/pkg/filesystem/behavior"

	"verif/harness/hx"
)

// errKind maps the (sentinel-free) errors of the function to a small enum.
func errKind(err error) string {
	switch err.Error() {
	case "target empty":
		return "empty"
	case "target too long":
		return "long"
	case "colon in target (absolute or unsupported path)":
		return "colon"
	case "backslash in target":
		return "backslash"
	case "target is absolute":
		return "absolute"
	case "target references location outside synchronization root":
		return "outside"
	}
	return "other"
}

// escapes is the specification: lexical resolution of target from the
// directory holding the link at path. Returns the index of the first component
// that leaves the root, or -1.
func escapes(path, target string) int {
	var stack []string
	if i := strings.LastIndexByte(path, '/'); i >= 0 {
		stack = strings.Split(path[:i], "/")
	}
	for i, c := range strings.Split(target, "/") {
		switch c {
		case "", ".":
		case "..":
			if len(stack) == 0 {
				return i
			}
			stack = stack[:len(stack)-1]
		default:
			stack = append(stack, c)
		}
	}
	return -1
}

// badTarget reports the statement's explicit rejection classes.
func badTarget(target string) string {
	switch {
	case target == "":
		return "empty"
	case target[0] == '/':
		return "absolute"
	case len(target) > 247:
		return "over-long"
	case strings.ContainsRune(target, ':'):
		return "colon"
	case strings.Contains(target, "\\"):
		return "backslash"
	}
	return ""
}

// acceptedOracle judges an accepted portable link.
func acceptedOracle(path, target string) string {
	if b := badTarget(target); b != "" {
		return fmt.Sprintf("class=bad-target-accepted %s target %q accepted at %q", b, target, path)
	}
	if i := escapes(path, target); i >= 0 {
		return fmt.Sprintf("class=escapes-root target %q of link %q leaves the root at component %d", target, path, i)
	}
	return ""
}

func hexs(s string) string { return hx.Hex([]byte(s)) }

func unhex(s string) string {
	if s == "-" {
		return ""
	}
	b, _ := hex.DecodeString(s)
	return string(b)
}

// linkPath returns a root-relative path of the given depth.
func linkPath(r *hx.Rand, depth int, exotic bool) string {
	var parts []string
	for i := 0; i < depth; i++ {
		if exotic {
			parts = append(parts, r.Pick("d", "dir", "..x", "a.b", "sub dir"))
		} else {
			parts = append(parts, "d")
		}
	}
	parts = append(parts, "l")
	return strings.Join(parts, "/")
}

type fsCase struct{ path, target string }

// mitem is one transition of a multi-link Transition call: a single link
// (`L:<path>:<target>`) or a directory to create with links inside it
// (`D:<path>:<rel>=<target>|…`, intermediate directories implied).
type mitem struct {
	dir    bool
	path   string
	target string
	links  []fsCase // relative to path
}

func itemsField(items []mitem) string {
	out := make([]string, len(items))
	for i, it := range items {
		if !it.dir {
			out[i] = "L:" + hexs(it.path) + ":" + hexs(it.target)
			continue
		}
		ls := make([]string, len(it.links))
		for j, l := range it.links {
			ls[j] = hexs(l.path) + "=" + hexs(l.target)
		}
		out[i] = "D:" + hexs(it.path) + ":" + strings.Join(ls, "|")
	}
	return strings.Join(out, ";")
}

func parseItems(f string) []mitem {
	var items []mitem
	for _, s := range strings.Split(f, ";") {
		p := strings.SplitN(s, ":", 3)
		if len(p) != 3 {
			continue
		}
		if p[0] == "L" {
			items = append(items, mitem{path: unhex(p[1]), target: unhex(p[2])})
			continue
		}
		it := mitem{dir: true, path: unhex(p[1])}
		if p[2] != "" {
			for _, l := range strings.Split(p[2], "|") {
				kv := strings.SplitN(l, "=", 2)
				it.links = append(it.links, fsCase{unhex(kv[0]), unhex(kv[1])})
			}
		}
		items = append(items, it)
	}
	return items
}

func main() {
	hx.Main("C16", func(c *hx.Ctx) {
		normalize := func(path, target string) {
			line := "n " + hexs(path) + " " + hexs(target)
			var oracle string
			impl := hx.Try(func() string {
				out, err := core.VerifC16Normalize(path, target)
				if err != nil {
					if out != "" {
						oracle = "class=result-with-error non-empty result with error"
					}
					k := errKind(err)
					c.Count("n:err:" + k)
					return "err " + k
				}
				c.Count("n:ok")
				oracle = acceptedOracle(path, target)
				if oracle == "" && out != target {
					oracle = fmt.Sprintf("class=not-normal accepted target %q rewritten to %q on POSIX", target, out)
				}
				return "ok " + hexs(out)
			})
			if strings.HasPrefix(impl, "panic:") {
				oracle = "class=panic " + impl
			}
			key := ""
			if strings.Contains(target, "..") || strings.HasPrefix(impl, "err") {
				key = fmt.Sprintf("%d|%s", strings.Count(path, "/"), target)
			}
			c.Case(line, impl, oracle, key)
		}

		// runFS executes one scan batch and one transition batch on disk.
		fsSeq := 0
		runScan := func(mode string, cases []fsCase) {
			fsSeq++
			root := filepath.Join(c.Dir, fmt.Sprintf("fs%d", fsSeq))
			defer os.RemoveAll(root)
			var live []fsCase
			for _, k := range cases {
				full := filepath.Join(root, filepath.FromSlash(k.path))
				if err := os.MkdirAll(filepath.Dir(full), 0o755); err != nil {
					panic(err)
				}
				if err := os.Symlink(k.target, full); err != nil {
					c.Count("s:os-refused-link")
					continue
				}
				live = append(live, k)
			}
			slm := core.SymbolicLinkMode_SymbolicLinkModePortable
			if mode == "r" {
				slm = core.SymbolicLinkMode_SymbolicLinkModePOSIXRaw
			}
			ignorer, _ := mutagen.NewIgnorer(nil)
			snap, _, _, err := core.Scan(context.Background(), root, nil, nil, sha1.New(), nil, ignorer, nil,
				behavior.ProbeMode_ProbeModeAssume, slm, core.PermissionsMode_PermissionsModePortable)
			if err != nil {
				panic(err)
			}
			for _, k := range live {
				e := snap.Content
				for _, name := range strings.Split(k.path, "/") {
					if e != nil {
						e = e.Contents[name]
					}
				}
				line := "s " + mode + " " + hexs(k.path) + " " + hexs(k.target)
				impl, oracle := "", ""
				switch {
				case e == nil:
					impl, oracle = "missing", "class=scan-lost-link link not in snapshot"
				case e.Kind == core.EntryKind_SymbolicLink:
					impl = "symlink " + hexs(e.Target)
					if mode == "p" {
						oracle = acceptedOracle(k.path, e.Target)
						if oracle == "" && e.Target != k.target {
							oracle = "class=not-normal scan rewrote the target"
						}
					}
					c.Count("s:" + mode + ":symlink")
				case e.Kind == core.EntryKind_Problematic:
					impl = "problematic"
					c.Count("s:" + mode + ":problematic")
				default:
					impl = "kind-" + e.Kind.String()
					oracle = "class=scan-kind unexpected kind"
				}
				c.Case(line, impl, oracle, "s"+mode+k.path+"|"+k.target)
			}
		}
		runTransition := func(mode string, cases []fsCase) {
			fsSeq++
			root := filepath.Join(c.Dir, fmt.Sprintf("fs%d", fsSeq))
			defer os.RemoveAll(root)
			slm := core.SymbolicLinkMode_SymbolicLinkModePortable
			switch mode {
			case "r":
				slm = core.SymbolicLinkMode_SymbolicLinkModePOSIXRaw
			case "i":
				slm = core.SymbolicLinkMode_SymbolicLinkModeIgnore
			}
			for i, k := range cases {
				// one link per directory chain so that names never collide
				sub := filepath.Join(root, fmt.Sprintf("r%d", i))
				full := filepath.Join(sub, filepath.FromSlash(k.path))
				if err := os.MkdirAll(filepath.Dir(full), 0o755); err != nil {
					panic(err)
				}
				change := &core.Change{Path: k.path, New: &core.Entry{Kind: core.EntryKind_SymbolicLink, Target: k.target}}
				results, problems, _ := core.Transition(context.Background(), sub, []*core.Change{change}, &core.Cache{},
					slm, 0o600, 0o700, nil, false, nil)
				got, err := os.Readlink(full)
				line := "t " + mode + " " + hexs(k.path) + " " + hexs(k.target)
				impl, oracle := "refused", ""
				if err == nil {
					impl = "created"
					if got != k.target {
						oracle = fmt.Sprintf("class=wrong-link-created %q instead of %q", got, k.target)
					} else if mode == "p" {
						oracle = acceptedOracle(k.path, k.target)
					} else if mode == "i" {
						oracle = "class=link-created-in-ignore-mode"
					}
					if oracle == "" && (len(results) != 1 || results[0] == nil || results[0].Kind != core.EntryKind_SymbolicLink || len(problems) != 0) {
						oracle = "class=result-mismatch link on disk but not reported"
					}
				} else if len(results) != 1 || results[0] != nil || len(problems) != 1 {
					// A refused creation of a link the OS itself rejects is reported the same way.
					oracle = "class=result-mismatch nothing on disk but result/problem list disagrees"
				}
				c.Count("t:" + mode + ":" + impl)
				c.Case(line, impl, oracle, "t"+mode+k.path+"|"+k.target)
			}
		}

		// runMulti: ONE core.Transition call that creates several links — as
		// separate transitions (in the given order) and inside created directory
		// trees (Go map order). Every link is judged at its own path: the verdict
		// for a link must not depend on what the same call created before.
		runMulti := func(mode string, items []mitem) {
			fsSeq++
			root := filepath.Join(c.Dir, fmt.Sprintf("fs%d", fsSeq))
			defer os.RemoveAll(root)
			if err := os.MkdirAll(root, 0o755); err != nil {
				panic(err)
			}
			slm := core.SymbolicLinkMode_SymbolicLinkModePortable
			switch mode {
			case "r":
				slm = core.SymbolicLinkMode_SymbolicLinkModePOSIXRaw
			case "i":
				slm = core.SymbolicLinkMode_SymbolicLinkModeIgnore
			}
			var links []fsCase // every link of the call, with its root-relative path, in line order
			var changes []*core.Change
			for _, it := range items {
				// the parent of a transition root has to exist on disk
				if i := strings.LastIndexByte(it.path, '/'); i >= 0 {
					if err := os.MkdirAll(filepath.Join(root, filepath.FromSlash(it.path[:i])), 0o755); err != nil {
						panic(err)
					}
				}
				if !it.dir {
					links = append(links, fsCase{it.path, it.target})
					changes = append(changes, &core.Change{Path: it.path, New: &core.Entry{Kind: core.EntryKind_SymbolicLink, Target: it.target}})
					continue
				}
				top := &core.Entry{Kind: core.EntryKind_Directory}
				for _, l := range it.links {
					links = append(links, fsCase{it.path + "/" + l.path, l.target})
					cur := top
					parts := strings.Split(l.path, "/")
					for j, part := range parts {
						if cur.Contents == nil {
							cur.Contents = map[string]*core.Entry{}
						}
						if j == len(parts)-1 {
							cur.Contents[part] = &core.Entry{Kind: core.EntryKind_SymbolicLink, Target: l.target}
						} else {
							if cur.Contents[part] == nil {
								cur.Contents[part] = &core.Entry{Kind: core.EntryKind_Directory}
							}
							cur = cur.Contents[part]
						}
					}
				}
				changes = append(changes, &core.Change{Path: it.path, New: top})
			}
			_, problems, _ := core.Transition(context.Background(), root, changes, &core.Cache{},
				slm, 0o600, 0o700, nil, false, nil)
			problemAt := map[string]bool{}
			for _, p := range problems {
				problemAt[p.Path] = true
			}
			bits := make([]byte, len(links))
			oracle := ""
			for i, l := range links {
				got, err := os.Readlink(filepath.Join(root, filepath.FromSlash(l.path)))
				bits[i] = '0'
				if err == nil {
					bits[i] = '1'
					if got != l.target {
						oracle = fmt.Sprintf("class=wrong-link-created %q at %q instead of %q", got, l.path, l.target)
					} else if mode == "p" && oracle == "" {
						oracle = acceptedOracle(l.path, l.target)
					} else if mode == "i" && oracle == "" {
						oracle = "class=link-created-in-ignore-mode " + l.path
					}
					continue
				}
				if !problemAt[l.path] && oracle == "" {
					oracle = fmt.Sprintf("class=refusal-not-reported link %q absent but no problem recorded for it", l.path)
				}
			}
			if mode == "p" && oracle == "" {
				for i, l := range links {
					if (badTarget(l.target) != "" || escapes(l.path, l.target) >= 0) && bits[i] == '1' {
						oracle = acceptedOracle(l.path, l.target)
					}
				}
			}
			line := "T " + mode + " " + itemsField(items)
			impl := fmt.Sprintf("%s P=%d", string(bits), len(problems))
			c.Count("T:" + mode)
			c.Case(line, impl, oracle, "T"+line)
		}

		if lines := c.ReplayLines(); lines != nil {
			for _, l := range lines {
				f := strings.Fields(l)
				switch {
				case len(f) == 3 && f[0] == "n":
					normalize(unhex(f[1]), unhex(f[2]))
				case len(f) == 4 && f[0] == "s":
					runScan(f[1], []fsCase{{unhex(f[2]), unhex(f[3])}})
				case len(f) == 4 && f[0] == "t":
					runTransition(f[1], []fsCase{{unhex(f[2]), unhex(f[3])}})
				case len(f) == 3 && f[0] == "T":
					runMulti(f[1], parseItems(f[2]))
				default:
					c.Case(l, "bad-op", "", "")
				}
			}
			return
		}

		var fsPool []fsCase // targets also exercised through scan / transition
		keep := func(path, target string, num, den int) {
			if target != "" && len(target) < 1000 && !strings.ContainsRune(target, 0) && c.R.Chance(num, den) {
				fsPool = append(fsPool, fsCase{path, target})
			}
		}

		// 1. Exhaustive: every target built from the tokens, joined by "/", up to
		// L tokens, at every link depth 0..D.
		exhaustive := func(tokens []string, L, D int, label string) {
			var rec func(parts []string)
			rec = func(parts []string) {
				if len(parts) > 0 {
					t := strings.Join(parts, "/")
					for d := 0; d <= D; d++ {
						p := linkPath(c.R, d, false)
						normalize(p, t)
						c.Count(label)
						keep(p, t, 1, 60)
					}
				}
				if len(parts) == L {
					return
				}
				for _, tok := range tokens {
					rec(append(parts[:len(parts):len(parts)], tok))
				}
			}
			rec(nil)
		}
		exhaustive([]string{"a", ".", "..", ""}, c.Size(6, 8), c.Size(3, 4), "exhaustive-4tok")
		exhaustive([]string{"a", ".", "..", "", "...", ".a", "..b"}, c.Size(4, 5), 2, "exhaustive-7tok")
		c.Note("exhaustive: all '/'-joined token sequences over {a,.,..,<empty>} up to " + fmt.Sprint(c.Size(6, 8)) +
			" tokens at depths 0.." + fmt.Sprint(c.Size(3, 4)) + "; over 7 tokens incl. dot-lookalike names up to " + fmt.Sprint(c.Size(4, 5)) + " at depths 0..2")

		// 2. Random long targets, biased to hover around the root boundary.
		for i := 0; i < c.Size(12000, 400000); i++ {
			depth := c.R.Intn(6)
			if c.R.Chance(1, 10) {
				depth = c.R.Intn(40)
			}
			p := linkPath(c.R, depth, c.R.Chance(1, 2))
			n := 1 + c.R.Intn(24)
			if c.R.Chance(1, 8) {
				n = 1 + c.R.Intn(90)
			}
			var parts []string
			for j := 0; j < n; j++ {
				switch x := c.R.Intn(10); {
				case x < 3:
					parts = append(parts, "..")
				case x < 5:
					parts = append(parts, "")
				case x < 6:
					parts = append(parts, ".")
				case x < 7:
					parts = append(parts, c.R.Pick("...", ".a", "..b", "a..", " ", "\xff", "é"))
				default:
					parts = append(parts, string(c.R.Bytes(1+c.R.Intn(3), 3)[0]+'a'))
				}
			}
			t := strings.Join(parts, "/")
			normalize(p, t)
			c.Count("random-walk")
			keep(p, t, 1, 30)
		}

		// 3. Malformed stream and the length boundary.
		for i := 0; i < c.Size(4000, 60000); i++ {
			p := linkPath(c.R, c.R.Intn(4), false)
			var t string
			switch c.R.Intn(8) {
			case 0:
				t = ""
			case 1:
				t = "/" + string(c.R.Bytes(c.R.Intn(6), 4))
			case 2: // length boundary: 244..250 bytes, otherwise harmless
				n := 244 + c.R.Intn(7)
				b := []byte(strings.Repeat("ab/", 90))[:n]
				if b[n-1] == '/' && c.R.Chance(1, 2) {
					b[n-1] = 'c'
				}
				t = string(b)
			case 3:
				b := c.R.Bytes(1+c.R.Intn(12), 6)
				for k := range b {
					b[k] = "ab./:\\"[b[k]]
				}
				t = string(b)
			case 4: // several defects at once: which error wins
				t = c.R.Pick("/", "", "a") + strings.Repeat(c.R.Pick("x", "x/", "../"), c.R.Intn(130)) + c.R.Pick(":", "\\", "", "\\:", ":\\")
			case 5: // raw bytes
				t = string(c.R.Bytes(1+c.R.Intn(20), 0))
			case 6:
				b := c.R.Bytes(1+c.R.Intn(10), 5)
				for k := range b {
					b[k] = "a./:\\"[b[k]]
				}
				t = "../" + string(b)
			default:
				t = c.R.Pick("a:b", "C:", "C:\\x", "\\\\?\\x", "\\x", "a\\b", "a/b:", "//", "//a", "a//", ".", "..", "./..", "a/..", "a/../..")
			}
			if c.R.Chance(1, 20) {
				p = c.R.Pick("", "/", "a/", "/a", "a//b")
			}
			normalize(p, t)
			c.Count("malformed")
			keep(p, t, 1, 40)
		}

		// 4. The same property at the call sites, on disk.
		fixed := []fsCase{{"l", "a//../.."}, {"l", "a/"}, {"d/l", "a//../../.."}, {"d/l", "../x"}, {"d/l", "../../x"}, {"l", "a:b"}, {"l", "a\\b"},
			{"l", "/abs"}, {"l", strings.Repeat("a", 247)}, {"l", strings.Repeat("a", 248)}, {"d/d/l", ".//..//..//x"}, {"d/d/l", "..//..//../x"}, {"l", "./x"}}
		var pool []fsCase
		for _, k := range append(fixed, fsPool...) {
			// Paths used on disk must be clean relative paths.
			if k.path == "" || strings.HasPrefix(k.path, "/") || strings.HasSuffix(k.path, "/") || strings.Contains(k.path, "//") || strings.Contains(k.path, "..") {
				continue
			}
			pool = append(pool, k)
		}
		limit := c.Size(1500, 12000)
		if len(pool) > limit {
			pool = pool[:len(fixed)+0+(limit-len(fixed))]
		}
		// Scan: each link gets its own directory chain (unique first component).
		for _, mode := range []string{"p", "r"} {
			for start := 0; start < len(pool); start += 300 {
				end := min(start+300, len(pool))
				batch := make([]fsCase, 0, end-start)
				for i, k := range pool[start:end] {
					if mode == "r" && i%4 != 0 {
						continue
					}
					// Put the chain under a per-link directory without changing depth
					// semantics: the directory becomes the first component, the depth
					// grows by one, which the model is told about (path is part of the case).
					batch = append(batch, fsCase{fmt.Sprintf("k%d/%s", i, k.path), k.target})
				}
				runScan(mode, batch)
			}
		}
		// Links directly in the root need a root of their own.
		for i, k := range pool {
			if !strings.Contains(k.path, "/") && i < 400 {
				runScan("p", []fsCase{k})
			}
		}
		for _, mode := range []string{"p", "r", "i"} {
			var batch []fsCase
			for i, k := range pool {
				if mode != "p" && i%6 != 0 {
					continue
				}
				batch = append(batch, k)
			}
			runTransition(mode, batch)
		}

		// 5. Several links created by ONE Transition call: the same target string
		// at different depths, deeper link first and shallower link first, as
		// sibling transitions and inside one created directory tree.
		boundary := []string{"../s", "../../s", "../../../s", "..", "../..", "a/../..", "a/../../s", ".//..", "./../s", "../x/../../s"}
		dirAt := func(depth int, tag string) string { // a directory path of the given depth
			parts := make([]string, depth)
			for i := range parts {
				parts[i] = tag + fmt.Sprint(i)
			}
			return strings.Join(parts, "/")
		}
		join := func(d, n string) string {
			if d == "" {
				return n
			}
			return d + "/" + n
		}
		for _, t := range boundary {
			for deep := 1; deep <= 3; deep++ {
				for shallow := 0; shallow < deep; shallow++ {
					dl := mitem{path: join(dirAt(deep, "p"), "inner"), target: t}
					sl := mitem{path: join(dirAt(shallow, "q"), "outer"), target: t}
					// sibling transitions, both orders
					runMulti("p", []mitem{dl, sl})
					runMulti("p", []mitem{sl, dl})
					// a created tree holding the deep link, then the shallow link as its own transition
					tree := mitem{dir: true, path: "tree", links: []fsCase{{join(dirAt(deep-1, "p"), "inner"), t}}}
					runMulti("p", []mitem{tree, {path: join(dirAt(shallow, "q"), "outer"), target: t}})
					runMulti("p", []mitem{{path: join(dirAt(shallow, "q"), "outer"), target: t}, tree})
					// both links inside one created tree (map order decides): repeat
					for rep := 0; rep < c.Size(3, 8); rep++ {
						both := mitem{dir: true, path: "tree", links: []fsCase{
							{join(dirAt(deep-1, "p"), "inner"), t},
							{join(dirAt(shallow, "q"), "outer"), t}}}
						if shallow == 0 {
							both.links[1].path = "outer"
						}
						runMulti("p", []mitem{both})
					}
					c.Count("T:same-target-two-depths")
				}
			}
		}
		for i := 0; i < c.Size(300, 6000); i++ {
			n := 2 + c.R.Intn(5)
			var items []mitem
			used := map[string]bool{}
			for j := 0; j < n; j++ {
				t := boundary[c.R.Intn(len(boundary))]
				if c.R.Chance(1, 4) {
					t = c.R.Pick("x", "./x", "a:b", "/abs", "a\\b", "x/y", "../"+strings.Repeat("a", 250))
				}
				d := dirAt(c.R.Intn(4), c.R.Pick("p", "q"))
				name := fmt.Sprintf("l%d", j)
				if c.R.Chance(1, 3) {
					top := fmt.Sprintf("t%d", j)
					k := 1 + c.R.Intn(3)
					it := mitem{dir: true, path: join(d, top)}
					for x := 0; x < k; x++ {
						it.links = append(it.links, fsCase{join(dirAt(c.R.Intn(3), "r"), fmt.Sprintf("m%d", x)), boundary[c.R.Intn(len(boundary))]})
					}
					if !used[it.path] {
						used[it.path] = true
						items = append(items, it)
					}
					continue
				}
				items = append(items, mitem{path: join(d, name), target: t})
			}
			mode := "p"
			if c.R.Chance(1, 8) {
				mode = c.R.Pick("r", "i")
			}
			runMulti(mode, items)
		}
	})
}
