// C17: synchronization never reaches outside the root through in-root
// symbolic links.
//
// Every case builds a real root under the run's scratch directory whose tree
// contains symbolic links (absolute and relative) into a canary directory
// outside the root, and drives the real code across them:
//
//	ops lines   a script of filesystem.Opener.OpenFile requests (one opener kept
//	            across requests, so that its cached parent handles go stale),
//	            rsync.Transmit and the rsync receiver over path lists,
//	            core.Transition creating files / directories / links and removing
//	            files (with a cache entry forged to match the canary file),
//	            interleaved with adversary steps that rename directories, replace
//	            directories by links to the canary, create and remove entries;
//	scan lines  core.Scan of such a root in every symbolic link mode, optionally
//	            with a directory replaced by a link to the canary at the very
//	            moment scan opens it (fault hook on "opendir").
//
// The canonical outcomes are compared with the Lean model
// (Mutagen.Model.Handles / Mutagen.Model.ScanFS). The property's oracle: the
// canary tree (names, contents, modes, modification *and access* times) is
// identical before and after; no successful open ever returns canary content;
// no snapshot names canary content; every operation whose path crosses a link
// fails (for the long-lived opener: when issued on a fresh opener).
package main

import (
	"bytes"
	"context"
	"crypto/sha1"
	"fmt"
	"io"
	"os"
	"sort"
	"strconv"
	"strings"
	"sync"
	"sync/atomic"
	"syscall"

	"golang.org/x/sys/unix"

	"google.golang.org/protobuf/types/known/timestamppb"

	"github.com/mutagen-io/mutagen/pkg/filesystem"
	"github.com/mutagen-io/mutagen/pkg/synchronization/core"
	mutagenignore "github.com/mutagen-io/mutagen/pkg/synchronization/core/ignore/mutagen"
	"github.com/mutagen-io/mutagen/pkg/synchronization/rsync"

	"verif/harness/hx"
	"verif/harness/scanx"
)

// ---------------------------------------------------------------------------
// The harness' own inode graph (generator state), kept in step with the disk.

type ent struct {
	name string
	ino  int
}

type inode struct {
	kind    byte // 'D', 'F', 'L'
	parent  int
	entries []ent
	content []byte
	target  string
	// where the inode is bound (directories and files), or detached
	dir      int
	name     string
	detached string
}

type world struct {
	r       *hx.Rand
	scratch string
	root    string
	canary  string
	stage   string
	xdev    string // a directory on another device (tmpfs): staged files there are copied, not renamed
	nodes   map[int]*inode
	max     int
	seq     int
}

func (w *world) add(n *inode) int {
	w.max++
	w.nodes[w.max] = n
	return w.max
}

func (n *inode) get(name string) (int, bool) {
	for _, e := range n.entries {
		if e.name == name {
			return e.ino, true
		}
	}
	return 0, false
}

func (n *inode) unbind(name string) {
	for i, e := range n.entries {
		if e.name == name {
			n.entries = append(n.entries[:i:i], n.entries[i+1:]...)
			return
		}
	}
}

// diskPath is the current disk path of an inode.
func (w *world) diskPath(i int) string {
	if i == 1 {
		return w.root
	}
	n := w.nodes[i]
	if n.detached != "" {
		return n.detached
	}
	return w.diskPath(n.dir) + "/" + n.name
}

func (w *world) encFS() string {
	var b strings.Builder
	b.WriteString("R1")
	inos := make([]int, 0, len(w.nodes))
	for i := range w.nodes {
		inos = append(inos, i)
	}
	sort.Ints(inos)
	for _, i := range inos {
		n := w.nodes[i]
		fmt.Fprintf(&b, "|%d:", i)
		switch n.kind {
		case 'D':
			fmt.Fprintf(&b, "D%d[", n.parent)
			for k, e := range n.entries {
				if k > 0 {
					b.WriteByte(',')
				}
				fmt.Fprintf(&b, "%s>%d", hx.EncText(e.name), e.ino)
			}
			b.WriteByte(']')
		case 'F':
			fmt.Fprintf(&b, "F%x", n.content)
		case 'L':
			b.WriteString("L" + hx.EncText(n.target))
		}
	}
	return b.String()
}

var names = []string{"a", "b", "c", "d", "e", "f", "g", "sub", "dir", "x"}
var canaryNames = []string{"secret-1", "secret-2", "inner"}

func (w *world) linkTarget() string {
	switch w.r.Intn(7) {
	case 0:
		return w.canary
	case 1:
		return w.canary + "/secret-1"
	case 2:
		return "../canary"
	case 3:
		return w.canary + "/inner"
	case 4:
		return "../canary/secret-2"
	case 5:
		return ".."
	}
	return names[w.r.Intn(len(names))]
}

func (w *world) genDir(ino, depth int) {
	d := w.nodes[ino]
	kids := 1 + w.r.Intn(4)
	for k := 0; k < kids; k++ {
		name := names[w.r.Intn(len(names))]
		if _, ok := d.get(name); ok {
			continue
		}
		var c *inode
		switch x := w.r.Intn(10); {
		case x < 3 && depth < 3:
			c = &inode{kind: 'D', parent: ino}
		case x < 6:
			w.seq++
			c = &inode{kind: 'F', content: []byte(fmt.Sprintf("in-root-%d", w.seq))}
		default:
			c = &inode{kind: 'L', target: w.linkTarget()}
		}
		c.dir, c.name = ino, name
		i := w.add(c)
		d.entries = append(d.entries, ent{name, i})
		if c.kind == 'D' {
			w.genDir(i, depth+1)
		}
	}
}

func (w *world) materialize(i int, path string) {
	n := w.nodes[i]
	switch n.kind {
	case 'D':
		must(os.Mkdir(path, 0o755))
		for _, e := range n.entries {
			w.materialize(e.ino, path+"/"+e.name)
		}
	case 'F':
		must(os.WriteFile(path, n.content, 0o644))
	case 'L':
		must(os.Symlink(n.target, path))
	}
}

func must(err error) {
	if err != nil {
		panic(err)
	}
}

// canary state ---------------------------------------------------------------

var past = syscall.Timespec{Sec: 1500000000}

func (w *world) makeCanary() {
	must(os.MkdirAll(w.canary+"/inner", 0o755))
	must(os.WriteFile(w.canary+"/secret-1", []byte("CANARY-one"), 0o644))
	must(os.WriteFile(w.canary+"/secret-2", []byte("CANARY-two"), 0o755))
	must(os.WriteFile(w.canary+"/inner/secret-3", []byte("CANARY-three"), 0o600))
	// access and modification times in the past: any read or listing moves atime
	for _, p := range []string{"/inner/secret-3", "/secret-1", "/secret-2", "/inner", ""} {
		must(syscall.UtimesNano(w.canary+p, []syscall.Timespec{past, past}))
	}
}

func canaryDigest(path string) string {
	var b strings.Builder
	var rec func(p string)
	rec = func(p string) {
		var st syscall.Stat_t
		if err := syscall.Lstat(p, &st); err != nil {
			fmt.Fprintf(&b, "%s:ERR %v;", p, err)
			return
		}
		fmt.Fprintf(&b, "%s:%o:%d/%d:%d.%d:%d.%d:%d:%d;", p, st.Mode, st.Uid, st.Gid, st.Mtim.Sec, st.Mtim.Nsec, st.Atim.Sec, st.Atim.Nsec, st.Size, st.Nlink)
		switch st.Mode & syscall.S_IFMT {
		case syscall.S_IFDIR:
			// list through a raw getdents on an O_NOATIME descriptor so that the check itself leaves no trace
			fd, err := syscall.Open(p, syscall.O_RDONLY|syscall.O_DIRECTORY|syscall.O_NOATIME, 0)
			if err != nil {
				fmt.Fprintf(&b, "ERR %v;", err)
				return
			}
			f := os.NewFile(uintptr(fd), p)
			ns, _ := f.Readdirnames(-1)
			f.Close()
			sort.Strings(ns)
			for _, n := range ns {
				rec(p + "/" + n)
			}
		case syscall.S_IFREG:
			fd, err := syscall.Open(p, syscall.O_RDONLY|syscall.O_NOATIME, 0)
			if err == nil {
				f := os.NewFile(uintptr(fd), p)
				data, _ := io.ReadAll(f)
				f.Close()
				fmt.Fprintf(&b, "%x;", sha1.Sum(data))
			}
		}
	}
	rec(path)
	return b.String()
}

// crossing: does the root-relative path, walked component by component on the
// disk as it is now, pass through (or, when leafToo, end at) a symbolic link?
func (w *world) crosses(path string, leafToo bool) bool {
	comps := strings.Split(path, "/")
	p := w.root
	for i, c := range comps {
		if c == "" || c == "." || c == ".." {
			return false // rejected or harmless for other reasons; not a link crossing
		}
		p += "/" + c
		var st syscall.Stat_t
		if err := syscall.Lstat(p, &st); err != nil {
			return false
		}
		if st.Mode&syscall.S_IFMT == syscall.S_IFLNK && (i < len(comps)-1 || leafToo) {
			return true
		}
	}
	return false
}

// genPath draws a request path: a walk through the graph that treats links
// into the canary as if they were directories, with occasional junk.
func (w *world) genPath() string {
	var comps []string
	cur := 1
	inCanary := ""
	for depth := 0; depth < 5; depth++ {
		if w.r.Chance(1, 12) {
			j := []string{"..", ".", "", "nosuch", "../canary", "../canary"}[w.r.Intn(6)]
			comps = append(comps, j)
			if j == "../canary" && cur == 1 && inCanary == "" {
				inCanary = "dir" // would be the canary directory if ".." were accepted
			}
			continue
		}
		if inCanary != "" {
			switch inCanary {
			case "dir":
				c := canaryNames[w.r.Intn(len(canaryNames))]
				comps = append(comps, c)
				if c == "inner" {
					inCanary = "inner"
					continue
				}
			case "inner":
				comps = append(comps, "secret-3")
			}
			break
		}
		n := w.nodes[cur]
		if n == nil || n.kind != 'D' || len(n.entries) == 0 {
			break
		}
		e := n.entries[w.r.Intn(len(n.entries))]
		comps = append(comps, e.name)
		c := w.nodes[e.ino]
		switch c.kind {
		case 'D':
			cur = e.ino
			if w.r.Chance(1, 6) {
				depth = 99
			}
		case 'F':
			if w.r.Chance(1, 8) {
				comps = append(comps, "below-file")
			}
			depth = 99
		case 'L':
			switch {
			case strings.HasSuffix(c.target, "canary"):
				inCanary = "dir"
			case strings.HasSuffix(c.target, "inner"):
				inCanary = "inner"
			default:
				depth = 99
			}
			if w.r.Chance(1, 4) {
				depth = 99
			}
		}
	}
	if len(comps) == 0 {
		if w.r.Chance(1, 2) {
			return ""
		}
		comps = []string{"nosuch"}
	}
	if w.r.Chance(1, 40) {
		return "/" + strings.Join(comps, "/")
	}
	return strings.Join(comps, "/")
}

// fresh leaf under a path that may cross links: for create requests.
func (w *world) genCreatePath() string {
	p := w.genPath()
	if p == "" || w.r.Chance(2, 3) {
		w.seq++
		if p == "" {
			return "new" + strconv.Itoa(w.seq)
		}
		return p + "/new" + strconv.Itoa(w.seq)
	}
	return p
}

func (w *world) dirs() []int {
	var out []int
	var rec func(i int)
	rec = func(i int) {
		out = append(out, i)
		for _, e := range w.nodes[i].entries {
			if w.nodes[e.ino].kind == 'D' {
				rec(e.ino)
			}
		}
	}
	rec(1)
	return out
}

func (w *world) inside(d, anc int) bool {
	for d != 0 {
		if d == anc {
			return true
		}
		if d == 1 {
			return false
		}
		n := w.nodes[d]
		if n.detached != "" {
			return false
		}
		d = n.dir
	}
	return false
}

// adversary performs one random mutation on the disk and on the graph.
func (w *world) adversary() string {
	ds := w.dirs()
	d := ds[w.r.Intn(len(ds))]
	dn := w.nodes[d]
	pick := func() (ent, bool) {
		if len(dn.entries) == 0 {
			return ent{}, false
		}
		return dn.entries[w.r.Intn(len(dn.entries))], true
	}
	detach := func(e ent) {
		c := w.nodes[e.ino]
		w.seq++
		dst := w.stage + "/detached-" + strconv.Itoa(w.seq)
		must(os.Rename(w.diskPath(d)+"/"+e.name, dst))
		c.detached = dst
		dn.unbind(e.name)
	}
	switch k := w.r.Intn(10); {
	case k < 4: // replace an entry (preferably a directory) by a link into the canary
		e, ok := pick()
		name := names[w.r.Intn(len(names))]
		if ok {
			for try := 0; try < 4 && w.nodes[e.ino].kind != 'D'; try++ {
				e, _ = pick()
			}
			name = e.name
			detach(e)
		} else if _, bound := dn.get(name); bound {
			return ""
		}
		t := w.linkTarget()
		must(os.Symlink(t, w.diskPath(d)+"/"+name))
		i := w.add(&inode{kind: 'L', target: t, dir: d, name: name})
		dn.entries = append([]ent{{name, i}}, dn.entries...)
		return fmt.Sprintf("ln:%d:%s:%s", d, hx.EncText(name), hx.EncText(t))
	case k < 6: // rename an entry to another directory
		e, ok := pick()
		if !ok {
			return ""
		}
		d2 := ds[w.r.Intn(len(ds))]
		if w.nodes[e.ino].kind == 'D' && w.inside(d2, e.ino) {
			return ""
		}
		n2 := names[w.r.Intn(len(names))]
		if _, bound := w.nodes[d2].get(n2); bound {
			return ""
		}
		must(os.Rename(w.diskPath(d)+"/"+e.name, w.diskPath(d2)+"/"+n2))
		dn.unbind(e.name)
		c := w.nodes[e.ino]
		c.dir, c.name = d2, n2
		if c.kind == 'D' {
			c.parent = d2
		}
		w.nodes[d2].entries = append([]ent{{n2, e.ino}}, w.nodes[d2].entries...)
		return fmt.Sprintf("mv:%d:%s:%d:%s", d, hx.EncText(e.name), d2, hx.EncText(n2))
	case k < 7: // new file
		name := names[w.r.Intn(len(names))]
		if _, bound := dn.get(name); bound {
			return ""
		}
		w.seq++
		content := []byte(fmt.Sprintf("in-root-%d", w.seq))
		must(os.WriteFile(w.diskPath(d)+"/"+name, content, 0o644))
		i := w.add(&inode{kind: 'F', content: content, dir: d, name: name})
		dn.entries = append([]ent{{name, i}}, dn.entries...)
		return fmt.Sprintf("put:%d:%s:%x", d, hx.EncText(name), content)
	case k < 8: // new directory
		name := names[w.r.Intn(len(names))]
		if _, bound := dn.get(name); bound {
			return ""
		}
		must(os.Mkdir(w.diskPath(d)+"/"+name, 0o755))
		i := w.add(&inode{kind: 'D', parent: d, dir: d, name: name})
		dn.entries = append([]ent{{name, i}}, dn.entries...)
		return fmt.Sprintf("mk:%d:%s", d, hx.EncText(name))
	default: // unbind (the inode lives on, detached)
		e, ok := pick()
		if !ok {
			return ""
		}
		detach(e)
		return fmt.Sprintf("un:%d:%s", d, hx.EncText(e.name))
	}
}

// ---------------------------------------------------------------------------
// Real-code steps.

type provider struct{ path string }

func (p *provider) Provide(string, []byte) (string, error) { return p.path, nil }

type memSink struct {
	sunk map[string]bool
	cur  string
}

type nopCloser struct{ io.Writer }

func (nopCloser) Close() error { return nil }

func (s *memSink) Sink(path string) (io.WriteCloser, error) {
	s.sunk[path] = true
	return nopCloser{io.Discard}, nil
}

func openResult(f io.ReadSeekCloser, err error) (string, []byte) {
	if err != nil {
		return "fail", nil
	}
	data, _ := io.ReadAll(f)
	f.Close()
	return "ok:" + hx.Hex(data), data
}

func (w *world) transition(kind, path string) string {
	ctx := context.Background()
	switch kind {
	case "cf", "cd", "cl":
		var e *core.Entry
		prov := &provider{}
		switch kind {
		case "cf":
			w.seq++
			prov.path = w.stage + "/provide-" + strconv.Itoa(w.seq)
			must(os.WriteFile(prov.path, []byte("new"), 0o600))
			e = &core.Entry{Kind: core.EntryKind_File, Digest: []byte{1}}
		case "cd":
			e = &core.Entry{Kind: core.EntryKind_Directory}
		case "cl":
			e = &core.Entry{Kind: core.EntryKind_SymbolicLink, Target: "t"}
		}
		results, problems, _ := core.Transition(ctx, w.root, []*core.Change{{Path: path, New: e}}, &core.Cache{},
			core.SymbolicLinkMode_SymbolicLinkModePOSIXRaw, 0o600, 0o700, nil, false, prov)
		if len(problems) == 0 && len(results) == 1 && results[0] != nil {
			return "ok"
		}
		return "fail"
	case "rm":
		// Forge a cache entry that matches whatever the path resolves to when links are followed.
		cache := &core.Cache{Entries: map[string]*core.CacheEntry{}}
		old := &core.Entry{Kind: core.EntryKind_File, Digest: []byte{7}}
		var st syscall.Stat_t
		if err := syscall.Stat(w.root+"/"+path, &st); err == nil {
			cache.Entries[path] = &core.CacheEntry{Mode: st.Mode, ModificationTime: &timestamppb.Timestamp{Seconds: st.Mtim.Sec, Nanos: int32(st.Mtim.Nsec)},
				Size: uint64(st.Size), FileID: st.Ino, Digest: []byte{7}}
		}
		results, problems, _ := core.Transition(ctx, w.root, []*core.Change{{Path: path, Old: old}}, cache,
			core.SymbolicLinkMode_SymbolicLinkModePOSIXRaw, 0o600, 0o700, nil, false, &provider{})
		if len(problems) == 0 && len(results) == 1 && results[0] == nil {
			return "ok"
		}
		return "fail"
	}
	panic("bad kind")
}

// relPath is the root-relative path of a bound directory inode.
func (w *world) relPath(i int) string {
	if i == 1 {
		return ""
	}
	n := w.nodes[i]
	return scanx.Join(w.relPath(n.dir), n.name)
}

// filePaths lists the root-relative paths of the regular files reachable through directories.
func (w *world) filePaths() []string {
	var out []string
	var rec func(i int, path string)
	rec = func(i int, path string) {
		for _, e := range w.nodes[i].entries {
			switch w.nodes[e.ino].kind {
			case 'D':
				rec(e.ino, scanx.Join(path, e.name))
			case 'F':
				out = append(out, scanx.Join(path, e.name))
			}
		}
	}
	rec(1, "")
	return out
}

// permTransition runs a transition that ends in Directory.SetPermissions(name): an
// executability-only change of a file ("x"; "sx" with swap), the creation of a directory
// ("sd") or of a file whose staged copy lies on another device ("sf"). For the s-kinds the
// fault hook replaces the entry by a symbolic link to target when SetPermissions starts.
func (w *world) permTransition(kind, path, target string) (string, bool) {
	ctx := context.Background()
	leaf := path
	parentDisk := w.root
	if i := strings.LastIndexByte(path, '/'); i >= 0 {
		leaf, parentDisk = path[i+1:], w.root+"/"+path[:i]
	}
	swapped := false
	if kind != "x" {
		filesystem.VerifSetFaultHook(func(op, name string) error {
			if op != "chmod" || swapped {
				return nil
			}
			if kind == "sf" {
				if !strings.HasPrefix(name, filesystem.TemporaryNamePrefix) {
					return nil
				}
			} else if name != leaf {
				return nil
			}
			// the adversary's move: the entry becomes a link out of the root
			if os.Remove(parentDisk+"/"+name) == nil && os.Symlink(target, parentDisk+"/"+name) == nil {
				swapped = true
			}
			return nil
		})
		defer filesystem.VerifSetFaultHook(nil)
	}
	var results []*core.Entry
	var problems []*core.Problem
	switch kind {
	case "x", "sx":
		cache := &core.Cache{Entries: map[string]*core.CacheEntry{}}
		var st syscall.Stat_t
		if err := syscall.Stat(w.root+"/"+path, &st); err == nil && st.Mode&syscall.S_IFMT == syscall.S_IFREG {
			// (a digest cache only ever describes regular files)
			cache.Entries[path] = &core.CacheEntry{Mode: st.Mode, ModificationTime: &timestamppb.Timestamp{Seconds: st.Mtim.Sec, Nanos: int32(st.Mtim.Nsec)},
				Size: uint64(st.Size), FileID: st.Ino, Digest: []byte{7}}
		}
		old := &core.Entry{Kind: core.EntryKind_File, Digest: []byte{7}}
		neu := &core.Entry{Kind: core.EntryKind_File, Digest: []byte{7}, Executable: true}
		results, problems, _ = core.Transition(ctx, w.root, []*core.Change{{Path: path, Old: old, New: neu}}, cache,
			core.SymbolicLinkMode_SymbolicLinkModePOSIXRaw, 0o600, 0o700, nil, false, &provider{})
		if len(problems) == 0 && len(results) == 1 && results[0] == neu {
			return "ok", swapped
		}
		return "fail", swapped
	case "sd":
		e := &core.Entry{Kind: core.EntryKind_Directory}
		results, problems, _ = core.Transition(ctx, w.root, []*core.Change{{Path: path, New: e}}, &core.Cache{},
			core.SymbolicLinkMode_SymbolicLinkModePOSIXRaw, 0o600, 0o700, nil, false, &provider{})
	case "sf":
		w.seq++
		prov := &provider{path: w.xdev + "/provide-" + strconv.Itoa(w.seq)}
		must(os.WriteFile(prov.path, []byte("new"), 0o600))
		defer os.Remove(prov.path)
		e := &core.Entry{Kind: core.EntryKind_File, Digest: []byte{1}}
		results, problems, _ = core.Transition(ctx, w.root, []*core.Change{{Path: path, New: e}}, &core.Cache{},
			core.SymbolicLinkMode_SymbolicLinkModePOSIXRaw, 0o600, 0o700, nil, false, prov)
	}
	if len(problems) == 0 && len(results) == 1 && results[0] != nil {
		return "ok", swapped
	}
	return "fail", swapped
}

// applySwap mirrors the adversary's chmod-time swap in the graph.
func (w *world) applySwap(kind, path, target string) {
	if kind == "sf" {
		return // the intermediate temporary entry (by then the link) is removed again by the transition
	}
	comps := strings.Split(path, "/")
	cur := 1
	for _, c := range comps[:len(comps)-1] {
		i, ok := w.nodes[cur].get(c)
		if !ok {
			panic("graph out of step with disk at " + path)
		}
		cur = i
	}
	leaf := comps[len(comps)-1]
	d := w.nodes[cur]
	switch kind {
	case "sd":
		// the directory that was created and removed again keeps its number
		w.add(&inode{kind: 'D', parent: cur, detached: "(removed)"})
	case "sx":
		d.unbind(leaf)
	}
	i := w.add(&inode{kind: 'L', target: target, dir: cur, name: leaf})
	d.entries = append([]ent{{leaf, i}}, d.entries...)
}

// applyCreated mirrors a successful create / remove in the graph.
func (w *world) applyTransition(kind, path string) {
	comps := strings.Split(path, "/")
	cur := 1
	for _, c := range comps[:len(comps)-1] {
		if c == "." {
			continue
		}
		i, ok := w.nodes[cur].get(c)
		if !ok {
			panic("graph out of step with disk at " + path)
		}
		cur = i
	}
	leaf := comps[len(comps)-1]
	d := w.nodes[cur]
	switch kind {
	case "cf":
		i := w.add(&inode{kind: 'F', content: []byte("new"), dir: cur, name: leaf})
		d.entries = append([]ent{{leaf, i}}, d.entries...)
	case "cd":
		i := w.add(&inode{kind: 'D', parent: cur, dir: cur, name: leaf})
		d.entries = append([]ent{{leaf, i}}, d.entries...)
	case "cl":
		i := w.add(&inode{kind: 'L', target: "t", dir: cur, name: leaf})
		d.entries = append([]ent{{leaf, i}}, d.entries...)
	case "rm":
		d.unbind(leaf)
	}
}

func encPaths(ps []string) string {
	out := make([]string, len(ps))
	for i, p := range ps {
		out[i] = hx.EncText(p)
	}
	return strings.Join(out, ",")
}

func (w *world) opsCase(c *hx.Ctx) {
	w.nodes = map[int]*inode{1: {kind: 'D', parent: 0}}
	w.max = 1
	w.genDir(1, 0)
	os.RemoveAll(w.scratch)
	must(os.MkdirAll(w.stage, 0o755))
	w.makeCanary()
	w.materialize(1, w.root)
	before := canaryDigest(w.canary)
	fsText := w.encFS()

	var items, outs []string
	oracle := ""
	fail := func(class, format string, a ...any) {
		if oracle == "" {
			oracle = "class=" + class + " item#" + strconv.Itoa(len(items)) + " " + fmt.Sprintf(format, a...)
		}
	}
	opener := filesystem.NewOpener(w.root)
	openerFresh := true
	defer func() { opener.Close() }()
	n := 6 + w.r.Intn(14)
	for k := 0; k < n; k++ {
		var item, out string
		switch x := w.r.Intn(100); {
		case x < 30:
			p := w.genPath()
			res, data := openResult(first2(opener.OpenFile(p)))
			item, out = "o:"+hx.EncText(p), res
			if bytes.HasPrefix(data, []byte("CANARY")) {
				fail("escape-read", "Opener.OpenFile(%q) returned canary content", p)
			}
			if openerFresh && res != "fail" && w.crosses(p, true) {
				fail("crossing-succeeded", "fresh Opener.OpenFile(%q)", p)
			}
			openerFresh = false
			c.Count("opener:" + res[:2])
		case x < 37:
			// a Directory primitive with an arbitrary raw name
			ds := w.dirs()
			d := ds[w.r.Intn(len(ds))]
			var name string
			switch w.r.Intn(4) {
			case 0:
				name = []string{"..", ".", "", "../canary/secret-1", "../canary", "a/b", "./f", "sub/../..", "/etc/passwd"}[w.r.Intn(9)]
			default:
				if es := w.nodes[d].entries; len(es) > 0 {
					e := es[w.r.Intn(len(es))]
					name = e.name
					if c2 := w.nodes[e.ino]; w.r.Chance(1, 2) {
						switch {
						case c2.kind == 'L' && strings.HasSuffix(c2.target, "canary"):
							name += "/" + canaryNames[w.r.Intn(2)]
						case c2.kind == 'L' && strings.HasSuffix(c2.target, "inner"):
							name += "/secret-3"
						case c2.kind == 'D' && len(c2.entries) > 0:
							name += "/" + c2.entries[w.r.Intn(len(c2.entries))].name
						}
					}
				} else {
					name = "nosuch"
				}
			}
			wantDir := w.r.Chance(1, 3)
			dir, _, err := filesystem.OpenDirectory(w.diskPath(d), false)
			must(err)
			k := "f"
			if wantDir {
				k = "d"
				if sub, err := dir.OpenDirectory(name); err != nil {
					out = "fail"
				} else {
					out = "ok-dir"
					// listing what was opened must not show canary content
					if names, _ := sub.ReadContentNames(); len(names) > 0 {
						for _, n := range names {
							if strings.HasPrefix(n, "secret") {
								fail("escape-read", "Directory.OpenDirectory(%q) reached the canary", name)
							}
						}
					}
					sub.Close()
				}
			} else {
				res, data := openResult(first2(dir.OpenFile(name)))
				out = res
				if bytes.HasPrefix(data, []byte("CANARY")) {
					fail("escape-read", "Directory.OpenFile(%q) returned canary content", name)
				}
			}
			dir.Close()
			item = fmt.Sprintf("p:%d:%s:%s", d, hx.EncText(name), k)
			c.Count("primitive:" + out[:2])
		case x < 40:
			opener.Close()
			opener = filesystem.NewOpener(w.root)
			openerFresh = true
			item, out = "n", "-"
		case x < 50:
			var ps []string
			for j := 0; j < 1+w.r.Intn(4); j++ {
				ps = append(ps, w.genPath())
			}
			sigs := make([]*rsync.Signature, len(ps))
			for j := range sigs {
				sigs[j] = &rsync.Signature{}
			}
			res := make([]string, 0, len(ps))
			var data []byte
			failed := false
			recv := rsync.VerifC17NewReceiver(func(t *rsync.Transmission) error {
				if t.Operation != nil {
					data = append(data, t.Operation.Data...)
				}
				if t.Error != "" {
					failed = true
				}
				if t.Done {
					if failed {
						res = append(res, "fail")
					} else {
						res = append(res, "ok:"+hx.Hex(data))
						if bytes.HasPrefix(data, []byte("CANARY")) {
							fail("escape-read", "rsync.Transmit sent canary content for %q", ps[len(res)-1])
						}
					}
					data, failed = nil, false
				}
				return nil
			})
			if err := rsync.Transmit(w.root, ps, sigs, recv); err != nil {
				fail("transmit-error", "%v", err)
			}
			for j, p := range ps {
				if j < len(res) && res[j] != "fail" && w.crosses(p, true) && j == 0 {
					fail("crossing-succeeded", "rsync.Transmit %q", p)
				}
			}
			item, out = "t:"+encPaths(ps), strings.Join(res, ",")
			c.Count("transmit")
		case x < 58:
			var ps []string
			for j := 0; j < 1+w.r.Intn(4); j++ {
				ps = append(ps, w.genPath())
			}
			engine := rsync.NewEngine()
			sigs := make([]*rsync.Signature, len(ps))
			for j := range sigs {
				sigs[j] = engine.BytesSignature(bytes.Repeat([]byte("base"), 600), 0)
			}
			sink := &memSink{sunk: map[string]bool{}}
			recv, err := rsync.NewReceiver(w.root, ps, sigs, sink)
			must(err)
			res := make([]string, len(ps))
			for j, p := range ps {
				sink.sunk = map[string]bool{}
				must(recv.Receive(&rsync.Transmission{Operation: &rsync.Operation{Data: []byte("x")}}))
				must(recv.Receive(&rsync.Transmission{Done: true}))
				if sink.sunk[p] {
					res[j] = "sink"
				} else {
					res[j] = "burn"
				}
				if j == 0 && res[j] == "sink" && w.crosses(p, true) {
					fail("crossing-succeeded", "rsync receiver opened base %q", p)
				}
			}
			rsync.VerifC17Finalize(recv)
			item, out = "r:"+encPaths(ps), strings.Join(res, ",")
			c.Count("receive")
		case x < 70:
			// Transitions that end in Directory.SetPermissions(name), with the entry swapped for a
			// link into the canary at the moment SetPermissions starts (fault hook "chmod").
			kind := []string{"x", "sx", "sx", "sd", "sd", "sf"}[w.r.Intn(6)]
			var p string
			switch kind {
			case "x", "sx":
				if fs := w.filePaths(); len(fs) > 0 && w.r.Chance(4, 5) {
					p = fs[w.r.Intn(len(fs))]
				} else {
					p = w.genPath()
				}
			default:
				if w.r.Chance(4, 5) {
					ds := w.dirs()
					w.seq++
					p = scanx.Join(w.relPath(ds[w.r.Intn(len(ds))]), "new"+strconv.Itoa(w.seq))
				} else {
					p = w.genCreatePath()
				}
			}
			if p == "" || strings.HasPrefix(p, "/") {
				continue
			}
			target := []string{w.canary + "/secret-1", w.canary, w.canary + "/inner", "../canary/secret-2", w.canary + "/secret-2"}[w.r.Intn(5)]
			res, swapped := w.permTransition(kind, p, target)
			if swapped && res == "ok" {
				fail("crossing-succeeded", "Transition %s %q reported success although the entry had become a link to %s", kind, p, target)
			}
			if swapped {
				w.applySwap(kind, p, target)
				c.Count("chmod-swap:" + kind)
			}
			switch kind {
			case "x", "sf":
				item = kind + ":" + hx.EncText(p)
			default:
				item = kind + ":" + hx.EncText(p) + ":" + hx.EncText(target)
			}
			out = res
			c.Count("transition:" + kind + ":" + res)
		case x < 82:
			kind := []string{"cf", "cd", "cl", "rm"}[w.r.Intn(4)]
			var p string
			if kind == "rm" {
				p = w.genPath()
			} else {
				p = w.genCreatePath()
			}
			if p == "" || strings.HasPrefix(p, "/") {
				continue // the root itself / an absolute path: other rules apply (root parent is opened by path)
			}
			crossing := w.crosses(p, kind == "rm")
			res := w.transition(kind, p)
			if res == "ok" {
				if crossing {
					fail("crossing-succeeded", "Transition %s %q", kind, p)
				} else {
					w.applyTransition(kind, p)
				}
			}
			item, out = kind+":"+hx.EncText(p), res
			c.Count("transition:" + kind + ":" + res)
		default:
			item = w.adversary()
			if item == "" {
				continue
			}
			out = "-"
			c.Count("adversary:" + item[:2])
		}
		items = append(items, item)
		outs = append(outs, out)
	}
	opener.Close()
	opener = filesystem.NewOpener(w.root)
	if after := canaryDigest(w.canary); after != before {
		fail("canary-touched", "before %s after %s", before, after)
	}
	key := strings.Join(outs, " ")
	c.Case("ops "+fsText+" "+strings.Join(items, " "), strings.Join(outs, " "), oracle, key)
}

func first2(f io.ReadSeekCloser, _ *filesystem.Metadata, err error) (io.ReadSeekCloser, error) {
	return f, err
}

// scanCase: a scan of a root with links into the canary, optionally with a
// directory swapped for a link at the moment it is opened.
func (w *world) scanCase(c *hx.Ctx, i int) {
	w.nodes = map[int]*inode{1: {kind: 'D', parent: 0}}
	w.max = 1
	w.genDir(1, 0)
	os.RemoveAll(w.scratch)
	must(os.MkdirAll(w.stage, 0o755))
	w.makeCanary()
	w.materialize(1, w.root)
	before := canaryDigest(w.canary)
	desc, err := scanx.Describe(w.root)
	must(err)
	ign, _ := mutagenignore.NewIgnorer(nil)
	modes := []core.SymbolicLinkMode{core.SymbolicLinkMode_SymbolicLinkModeIgnore, core.SymbolicLinkMode_SymbolicLinkModePortable,
		core.SymbolicLinkMode_SymbolicLinkModePOSIXRaw}
	cfg := &scanx.Cfg{SymlinkMode: modes[i%3], PermsMode: core.PermissionsMode_PermissionsModePortable, Ignorer: ign}

	// Pick a directory whose leaf name is unique to swap while it is being opened.
	count := map[string]int{}
	type cand struct{ path, leaf, disk string }
	var cands []cand
	var rec func(n *scanx.Node, path, disk string)
	rec = func(n *scanx.Node, path, disk string) {
		for _, ch := range n.Children {
			count[ch.Name]++
			if ch.Node.Kind == 'D' {
				cands = append(cands, cand{scanx.Join(path, ch.Name), ch.Name, disk + "/" + ch.Name})
				rec(ch.Node, scanx.Join(path, ch.Name), disk+"/"+ch.Name)
			}
		}
	}
	rec(desc, "", w.root)
	var faults []scanx.Fault
	if len(cands) > 0 && w.r.Chance(2, 3) {
		x := cands[w.r.Intn(len(cands))]
		if count[x.leaf] == 1 {
			swapped := false
			filesystem.VerifSetFaultHook(func(op, name string) error {
				if op == "opendir" && name == x.leaf && !swapped {
					swapped = true
					must(os.Rename(x.disk, w.stage+"/swapped"))
					must(os.Symlink(w.canary, x.disk))
				}
				return nil
			})
			faults = []scanx.Fault{{Op: "od", Path: x.path}}
			c.Count("scan:swap-during-open")
		}
	}
	res := scanx.Scan(w.root, cfg, true, false, nil)
	filesystem.VerifSetFaultHook(nil)
	cfg.Faults = faults // what the model is told: the open of that directory fails
	op := "scan " + scanx.LineHead(cfg, "-", "-") + " " + scanx.EncStep(&scanx.Step{Px: true, Du: false, CacheMod: "c", FS: desc})
	impl := scanx.EncResult(res)
	oracle := ""
	if res.OK() && namesCanary(res.Snapshot.Content) {
		oracle = "class=escape-scan snapshot names canary content"
	}
	if after := canaryDigest(w.canary); after != before && oracle == "" {
		oracle = "class=canary-touched before " + before + " after " + after
	}
	c.Count("scan")
	c.Case(op, impl, oracle, impl)
}

// namesCanary: some entry of the snapshot is named like canary content.
func namesCanary(e *core.Entry) bool {
	if e == nil {
		return false
	}
	for n, c := range e.Contents {
		if strings.HasPrefix(n, "secret") || n == "inner" || namesCanary(c) {
			return true
		}
	}
	return false
}

// raceCase: a genuinely concurrent adversary. A goroutine keeps exchanging root/sub (a directory) with
// root/.swap (an in-root symbolic link to the canary directory) with renameat2(RENAME_EXCHANGE) while the real
// primitives are used on "sub": Opener.OpenFile (what staging and rsync use) and, one level lower,
// ReadContents + OpenDirectory + RemoveFile (what scans and directory removals use). Every attempt must fail or
// stay inside the root: with openat(O_NOFOLLOW) (Properties/C17 open_flags_never_follow) there is no window, so
// this never fires on code that holds the property; a check-then-open rewrite is caught within a few attempts.
// The number of attempts is fixed (no wall-clock bound decides anything).
func (w *world) raceCase(c *hx.Ctx, kind string, attempts int) {
	const inside, outside = "inside the synchronization root", "CANARY: outside the synchronization root"
	var base string
	for _, cand := range []string{w.scratch + "-race", w.xdev + "/race"} {
		os.RemoveAll(cand)
		must(os.MkdirAll(cand+"/root/sub/inner", 0o700))
		must(os.MkdirAll(cand+"/canary/inner", 0o700))
		must(os.Symlink("../canary", cand+"/root/.swap"))
		a, b := cand+"/root/sub", cand+"/root/.swap"
		if unix.Renameat2(unix.AT_FDCWD, a, unix.AT_FDCWD, b, unix.RENAME_EXCHANGE) == nil {
			must(unix.Renameat2(unix.AT_FDCWD, a, unix.AT_FDCWD, b, unix.RENAME_EXCHANGE))
			base = cand
			break
		}
		os.RemoveAll(cand)
	}
	if base == "" {
		c.Count("race:exchange-unsupported")
		return
	}
	defer os.RemoveAll(base)
	root, canary := base+"/root", base+"/canary"
	for _, f := range []string{"/data.txt", "/inner/x.txt"} {
		must(os.WriteFile(root+"/sub"+f, []byte(inside), 0o600))
		must(os.WriteFile(canary+f, []byte(outside), 0o600))
	}
	var stop atomic.Bool
	var flips atomic.Int64
	var wg sync.WaitGroup
	wg.Add(1)
	go func() {
		defer wg.Done()
		a, b := root+"/sub", root+"/.swap"
		n := 0
		for !stop.Load() {
			if unix.Renameat2(unix.AT_FDCWD, a, unix.AT_FDCWD, b, unix.RENAME_EXCHANGE) == nil {
				n++
				flips.Add(1)
			}
		}
		if n%2 == 1 {
			unix.Renameat2(unix.AT_FDCWD, a, unix.AT_FDCWD, b, unix.RENAME_EXCHANGE)
		}
	}()
	oracle := ""
	okReads := 0
	switch kind {
	case "opener":
		for i := 0; i < attempts && oracle == ""; i++ {
			for _, path := range []string{"sub/data.txt", "sub/inner/x.txt"} {
				opener := filesystem.NewOpener(root)
				file, _, err := opener.OpenFile(path)
				if err != nil {
					opener.Close()
					continue
				}
				content, err := io.ReadAll(file)
				file.Close()
				opener.Close()
				if err != nil {
					continue
				}
				okReads++
				if string(content) != inside {
					oracle = fmt.Sprintf("class=escape-race attempt %d: Opener.OpenFile(%q) followed an in-root symbolic link swapped in concurrently and read %q", i, path, content)
				}
			}
		}
	case "directory":
		rootDirectory, _, err := filesystem.OpenDirectory(root, false)
		must(err)
		for i := 0; i < attempts && oracle == ""; i++ {
			contents, err := rootDirectory.ReadContents()
			if err != nil {
				continue // a listing that fails under the concurrent exchange is contained, not an escape
			}
			for _, e := range contents {
				if e.Mode&filesystem.ModeTypeMask != filesystem.ModeTypeDirectory {
					continue
				}
				child, err := rootDirectory.OpenDirectory(e.Name)
				if err != nil {
					continue
				}
				if child.RemoveFile("data.txt") == nil {
					okReads++
				}
				child.Close()
			}
			if _, err := os.Lstat(canary + "/data.txt"); err != nil {
				oracle = fmt.Sprintf("class=escape-race attempt %d: a file outside the root was deleted through an in-root symbolic link swapped in concurrently", i)
			}
			// put the in-root file back without ever following a link
			for _, name := range []string{"sub", ".swap"} {
				fd, err := unix.Openat(rootDirectory.Descriptor(), name, unix.O_RDONLY|unix.O_DIRECTORY|unix.O_NOFOLLOW|unix.O_CLOEXEC, 0)
				if err != nil {
					continue
				}
				if f, err := unix.Openat(fd, "data.txt", unix.O_WRONLY|unix.O_CREAT|unix.O_NOFOLLOW|unix.O_CLOEXEC, 0o600); err == nil {
					unix.Write(f, []byte(inside))
					unix.Close(f)
				}
				unix.Close(fd)
			}
		}
		rootDirectory.Close()
	}
	stop.Store(true)
	wg.Wait()
	c.Count("race:" + kind)
	c.Note(fmt.Sprintf("race %s: %d attempts, %d in-root successes, %d concurrent flips", kind, attempts, okReads, flips.Load()))
	c.Case(fmt.Sprintf("race %s %d", kind, attempts), "race:contained", oracle, "race:"+kind)
}

func main() {
	hx.Main("C17", func(c *hx.Ctx) {
		scratch := scanx.Scratch("c17")
		defer os.RemoveAll(scratch)
		w := &world{r: c.R, scratch: scratch + "/w", root: scratch + "/w/root", canary: scratch + "/w/canary", stage: scratch + "/w/stage",
			xdev: scratch + "/xdev"}
		must(os.MkdirAll(w.xdev, 0o755))
		must(syscall.Mount("tmpfs", w.xdev, "tmpfs", 0, "size=4m"))
		defer syscall.Unmount(w.xdev, syscall.MNT_DETACH)
		if lines := c.ReplayLines(); lines != nil {
			c.Note("replay re-executes the model side only: a C17 case is a real directory tree with a script; the op line is its description")
			for _, l := range lines {
				c.Case(l, "replay-needs-regeneration", "", "")
			}
			return
		}
		// Self-test of the read detector: reading a canary file must move its access time.
		os.RemoveAll(w.scratch)
		must(os.MkdirAll(w.stage, 0o755))
		w.makeCanary()
		d0 := canaryDigest(w.canary)
		if d1 := canaryDigest(w.canary); d1 != d0 {
			panic("canary digest is not stable")
		}
		os.ReadFile(w.canary + "/secret-1")
		if canaryDigest(w.canary) == d0 {
			c.Note("access times are not updated on this filesystem: reads of the canary are detected by content only")
		} else {
			c.Count("self-test:read-detected-by-atime")
		}
		w.raceCase(c, "opener", c.Size(4000, 40000))
		w.raceCase(c, "directory", c.Size(1500, 15000))
		n := c.Size(2000, 20000)
		// A case whose mirror graph falls out of step with the disk (the code under test operated along a path that
		// does not exist inside the root, e.g. through a link it followed) used to kill the driver; it is now reported
		// as an oracle failure of that case, so the violation comes with the failing case instead of
		// no-failing-input-found. Never happens on the unchanged tree (it would have been a crash before).
		guarded := func(i int, f func()) {
			defer func() {
				if r := recover(); r != nil {
					filesystem.VerifSetFaultHook(nil)
					c.Count("case-aborted")
					c.Case(fmt.Sprintf("aborted %d", i), "aborted", "class=escape-or-harness-abort case "+strconv.Itoa(i)+": "+fmt.Sprint(r), "")
				}
			}()
			f()
		}
		for i := 0; i < n; i++ {
			if i%5 == 4 {
				guarded(i, func() { w.scanCase(c, i) })
			} else {
				guarded(i, func() { w.opsCase(c) })
			}
		}
	})
}
