// C29: session lifecycle commands take effect exactly as documented.
//
// Runs real synchronization sessions (synchronization.Manager + controller) in
// process, offline, on real scratch roots. The endpoints are the real local
// endpoints wrapped by an instrumented endpoint that journals every
// Connect/Poll/Scan/Stage/Supply/Transition/Shutdown call and can hold a call
// to widen a race window; they are plugged in through
// synchronization.ProtocolHandlers. Client calls (create, pause, resume, flush,
// reset, terminate, manager restart) are issued from several goroutines with
// random offsets and journalled at call and return. The journal of a case is
// one line; it is validated by the Lean step model (it must be the visible trace
// of a run of the model ending in the observed disk state), and the property's
// own predicates are evaluated on it independently.
package main

import (
	"context"
	"fmt"
	"os"
	"os/exec"
	"path/filepath"
	"strconv"
	"strings"
	"sync"
	"time"

	"github.com/mutagen-io/mutagen/pkg/encoding"
	"github.com/mutagen-io/mutagen/pkg/filesystem"
	"github.com/mutagen-io/mutagen/pkg/logging"
	"github.com/mutagen-io/mutagen/pkg/selection"
	"github.com/mutagen-io/mutagen/pkg/synchronization"
	"github.com/mutagen-io/mutagen/pkg/synchronization/core"
	"github.com/mutagen-io/mutagen/pkg/synchronization/endpoint/local"
	"github.com/mutagen-io/mutagen/pkg/synchronization/rsync"
	urlpkg "github.com/mutagen-io/mutagen/pkg/url"

	"verif/harness/hx"
)

// ---- journal ----

type journal struct {
	mu     sync.Mutex
	events []string
	// holds: a call of this kind waits (after announcing itself on entered)
	// until the channel is closed.
	holds   map[string]chan struct{}
	entered map[string]chan struct{}
	// failScan: the next scan on alpha fails with a terminal error.
	failScan bool
}

func (j *journal) add(tok string) int {
	j.mu.Lock()
	defer j.mu.Unlock()
	j.events = append(j.events, tok)
	return len(j.events) - 1
}

func (j *journal) snapshot() []string {
	j.mu.Lock()
	defer j.mu.Unlock()
	return append([]string(nil), j.events...)
}

// hold blocks the caller if a hold is armed for the key.
func (j *journal) hold(key string) {
	j.mu.Lock()
	h := j.holds[key]
	e := j.entered[key]
	if e != nil {
		delete(j.entered, key)
	}
	if h != nil {
		delete(j.holds, key)
	}
	j.mu.Unlock()
	if e != nil {
		close(e)
	}
	if h != nil {
		select {
		case <-h:
		case <-time.After(3 * time.Second):
		}
	}
}

var jr = &journal{}

// ---- instrumented endpoint ----

type endpoint struct {
	inner synchronization.Endpoint
	side  string // "A" | "B"
}

func (e *endpoint) Poll(ctx context.Context) error {
	jr.add("p" + e.side + "+")
	err := e.inner.Poll(ctx)
	jr.add("p" + e.side + "-")
	return err
}

func (e *endpoint) Scan(ctx context.Context, ancestor *core.Entry, full bool) (*core.Snapshot, error, bool) {
	f, a := "0", "0"
	if full {
		f = "1"
	}
	if ancestor != nil {
		a = "1"
	}
	jr.add("s" + e.side + "+" + f + a)
	jr.hold("s" + e.side)
	jr.mu.Lock()
	fail := jr.failScan && e.side == "A"
	if fail {
		jr.failScan = false
	}
	jr.mu.Unlock()
	if fail {
		jr.add("s" + e.side + "-0")
		return nil, fmt.Errorf("injected scan failure"), false
	}
	snap, err, again := e.inner.Scan(ctx, ancestor, full)
	if err != nil {
		jr.add("s" + e.side + "-0")
		// a cancelled scan is reported as terminal, as the controller only
		// retries on suspected concurrent modifications
		return snap, err, false
	}
	jr.add("s" + e.side + "-1")
	return snap, err, again
}

func (e *endpoint) Stage(paths []string, digests [][]byte) ([]string, []*rsync.Signature, rsync.Receiver, error) {
	a, b, c, err := e.inner.Stage(paths, digests)
	jr.add("g" + e.side)
	return a, b, c, err
}

func (e *endpoint) Supply(paths []string, signatures []*rsync.Signature, receiver rsync.Receiver) error {
	err := e.inner.Supply(paths, signatures, receiver)
	jr.add("u" + e.side)
	return err
}

func (e *endpoint) Transition(ctx context.Context, transitions []*core.Change) ([]*core.Entry, []*core.Problem, bool, error) {
	jr.add("t" + e.side + "+")
	jr.hold("t" + e.side)
	a, b, c, err := e.inner.Transition(ctx, transitions)
	jr.add("t" + e.side + "-")
	return a, b, c, err
}

func (e *endpoint) Shutdown() error {
	jr.hold("x" + e.side)
	err := e.inner.Shutdown()
	jr.add("x" + e.side)
	return err
}

type handler struct{}

func (handler) Connect(_ context.Context, logger *logging.Logger, url *urlpkg.URL, _ string, session string,
	version synchronization.Version, configuration *synchronization.Configuration, alpha bool) (synchronization.Endpoint, error) {
	side := "B"
	if alpha {
		side = "A"
	}
	inner, err := local.NewEndpoint(logger, url.Path, session, version, configuration, alpha)
	if err != nil {
		return nil, err
	}
	jr.add("c" + side)
	return &endpoint{inner: inner, side: side}, nil
}

// ---- one case ----

type world struct {
	base    string
	mgr     *synchronization.Manager
	id      string
	sel     *selection.Selection
	nextTid int
	r       *hx.Rand
	watch   bool
	counts  map[string]int
	alone   map[int]bool   // tid -> the call ran with no other call in flight
	disk    map[int]string // tid -> disk state read right after the (lone) call returned
	edits   int
	mu      sync.Mutex
}

func (w *world) count(label string) {
	w.mu.Lock()
	w.counts[label]++
	w.mu.Unlock()
}

func must(err error) {
	if err != nil {
		panic(err)
	}
}

func classify(err error) string {
	switch {
	case err == nil:
		return "ok"
	case strings.Contains(err.Error(), "controller disabled"):
		return "dis"
	case strings.Contains(err.Error(), "session is paused"):
		return "pau"
	case strings.Contains(err.Error(), "not currently able to synchronize"):
		return "nsy"
	case strings.Contains(err.Error(), "synchronization failed"), strings.Contains(err.Error(), "synchronization terminated"):
		return "lost"
	case strings.Contains(err.Error(), "did not match any sessions"):
		return "nom"
	}
	return "err(" + strings.ReplaceAll(err.Error(), " ", "_") + ")"
}

func (w *world) sessionPaths() (string, string) {
	s, _ := filesystem.Mutagen(false, filesystem.MutagenSynchronizationSessionsDirectoryName)
	a, _ := filesystem.Mutagen(false, filesystem.MutagenSynchronizationArchivesDirectoryName)
	return filepath.Join(s, w.id), filepath.Join(a, w.id)
}

// diskState reads the persisted state: session file (n absent, p paused, u
// unpaused) and archive (n absent, e empty ancestor, f non-empty).
func (w *world) diskState() string {
	sp, ap := w.sessionPaths()
	sess, arch := "n", "n"
	if w.id != "" {
		s := &synchronization.Session{}
		if err := encoding.LoadAndUnmarshalProtobuf(sp, s); err == nil {
			sess = "u"
			if s.Paused {
				sess = "p"
			}
		}
		a := &core.Archive{}
		if err := encoding.LoadAndUnmarshalProtobuf(ap, a); err == nil {
			arch = "e"
			if a.Content != nil {
				arch = "f"
			}
		}
	}
	return "sess=" + sess + " arch=" + arch
}

// do runs one client call, journalled at call and return.
func (w *world) do(tid int, op string) string {
	ctx := context.Background()
	jr.add(fmt.Sprintf("c%d:%s", tid, op))
	var err error
	switch op {
	case "create0", "create1":
		cfg := &synchronization.Configuration{WatchMode: synchronization.WatchMode_WatchModeNoWatch}
		if w.watch {
			cfg.WatchMode = synchronization.WatchMode_WatchModeForcePoll
			cfg.WatchPollingInterval = 3600
		}
		mk := func(name string) *urlpkg.URL {
			return &urlpkg.URL{Kind: urlpkg.Kind_Synchronization, Protocol: urlpkg.Protocol_Docker, Host: "verif", Path: filepath.Join(w.base, name)}
		}
		var id string
		id, err = w.mgr.Create(ctx, mk("alpha"), mk("beta"), cfg, &synchronization.Configuration{}, &synchronization.Configuration{}, "", nil, op == "create1", "")
		if err == nil {
			w.id = id
			w.sel = &selection.Selection{Specifications: []string{id}}
		}
	case "pause":
		err = w.mgr.Pause(ctx, w.sel, "")
	case "resume":
		err = w.mgr.Resume(ctx, w.sel, "")
	case "flushw":
		err = w.mgr.Flush(ctx, w.sel, "", false)
	case "flushn":
		err = w.mgr.Flush(ctx, w.sel, "", true)
	case "reset":
		err = w.mgr.Reset(ctx, w.sel, "")
	case "term":
		err = w.mgr.Terminate(ctx, w.sel, "")
	case "restart":
		w.mgr.Shutdown()
		w.mgr, err = synchronization.NewManager(nil)
	}
	res := classify(err)
	if w.alone[tid] {
		w.disk[tid] = w.diskState()
	}
	jr.add(fmt.Sprintf("r%d:%s:%s", tid, op, res))
	w.count("op:" + op + ":" + res)
	return res
}

func (w *world) tid() int {
	w.nextTid++
	return w.nextTid
}

// edit changes the alpha root so that the next cycle has something to do.
func (w *world) edit() {
	w.edits++
	name := filepath.Join(w.base, "alpha", fmt.Sprintf("f%d", w.edits%3))
	must(os.WriteFile(name, []byte(strings.Repeat("x", w.edits)), 0o644))
}

var clientOps = []string{"pause", "resume", "flushw", "flushn", "reset", "term"}

func (w *world) pickOp() string {
	switch x := w.r.Intn(20); {
	case x < 4:
		return "pause"
	case x < 8:
		return "resume"
	case x < 12:
		return "flushw"
	case x < 14:
		return "flushn"
	case x < 18:
		return "reset"
	default:
		return "term"
	}
}

// round issues 1-3 calls concurrently with random offsets.
func (w *world) round() {
	n := 1
	if w.r.Chance(1, 2) {
		n = 2 + w.r.Intn(2)
	}
	type planned struct {
		tid   int
		op    string
		delay time.Duration
	}
	var ps []planned
	for i := 0; i < n; i++ {
		ps = append(ps, planned{w.tid(), w.pickOp(), time.Duration(w.r.Intn(4000)) * time.Microsecond})
	}
	if n == 1 {
		w.alone[ps[0].tid] = true
	}
	// widen a window now and then: hold a scan, a transition or a shutdown
	var release chan struct{}
	if w.r.Chance(1, 4) {
		key := []string{"sA", "sB", "tB", "xA", "xB"}[w.r.Intn(5)]
		release = make(chan struct{})
		jr.mu.Lock()
		jr.holds[key] = release
		jr.mu.Unlock()
		w.count("hold:" + key)
	}
	if w.r.Chance(1, 12) {
		jr.mu.Lock()
		jr.failScan = true
		jr.mu.Unlock()
		w.count("inject:scan-failure")
	}
	var wg sync.WaitGroup
	for _, p := range ps {
		wg.Add(1)
		go func() {
			defer wg.Done()
			time.Sleep(p.delay)
			w.do(p.tid, p.op)
		}()
	}
	if release != nil {
		time.Sleep(time.Duration(2000+w.r.Intn(6000)) * time.Microsecond)
		close(release)
	}
	wg.Wait()
	jr.mu.Lock()
	jr.holds = map[string]chan struct{}{}
	jr.mu.Unlock()
}

// raceTerminateReset: terminate holds the lifecycle lock (its loop is shutting
// an endpoint down, held) while a reset that already found the controller
// waits for the lock.
func (w *world) raceTerminateReset(other string) {
	release, entered := make(chan struct{}), make(chan struct{})
	jr.mu.Lock()
	jr.holds["xA"] = release
	jr.entered["xA"] = entered
	jr.mu.Unlock()
	t1, t2 := w.tid(), w.tid()
	var wg sync.WaitGroup
	wg.Add(2)
	go func() { defer wg.Done(); w.do(t1, "term") }()
	select {
	case <-entered:
	case <-time.After(500 * time.Millisecond):
	}
	go func() { defer wg.Done(); w.do(t2, other) }()
	time.Sleep(15 * time.Millisecond)
	close(release)
	wg.Wait()
	jr.mu.Lock()
	jr.holds = map[string]chan struct{}{}
	jr.entered = map[string]chan struct{}{}
	jr.mu.Unlock()
	w.count("scenario:terminate-vs-" + other)
}

// raceResetDuringCycle: a flush cycle is inside Transition (held) when a reset
// arrives: the reset must stop the loop first and clear the history after the
// cycle's own save, not before it.
func (w *world) raceResetDuringCycle() {
	w.edit()
	release, entered := make(chan struct{}), make(chan struct{})
	jr.mu.Lock()
	jr.holds["tB"] = release
	jr.entered["tB"] = entered
	jr.mu.Unlock()
	t1, t2 := w.tid(), w.tid()
	var wg sync.WaitGroup
	wg.Add(1)
	go func() { defer wg.Done(); w.do(t1, "flushw") }()
	select {
	case <-entered:
		w.count("scenario:reset-during-transition")
	case <-time.After(300 * time.Millisecond):
		w.count("scenario:reset-during-transition:no-cycle")
	}
	wg.Add(1)
	go func() { defer wg.Done(); w.do(t2, "reset") }()
	time.Sleep(10 * time.Millisecond)
	close(release)
	wg.Wait()
	jr.mu.Lock()
	jr.holds = map[string]chan struct{}{}
	jr.entered = map[string]chan struct{}{}
	jr.mu.Unlock()
	// nothing else is in flight: in a fully manual session the history stays
	// cleared until the next flush
	w.mu.Lock()
	w.disk[t2] = w.diskState()
	w.mu.Unlock()
}

type result struct {
	line, impl, oracle string
	counts             map[string]int
}

func runCase(seed uint64, base string) result {
	r := hx.NewRand(seed)
	os.RemoveAll(base)
	must(os.MkdirAll(filepath.Join(base, "alpha"), 0o755))
	must(os.MkdirAll(filepath.Join(base, "beta"), 0o755))
	must(os.Setenv("MUTAGEN_DATA_DIRECTORY", filepath.Join(base, "data")))
	defer os.RemoveAll(base)
	jr = &journal{holds: map[string]chan struct{}{}, entered: map[string]chan struct{}{}}
	mgr, err := synchronization.NewManager(nil)
	must(err)
	w := &world{base: base, mgr: mgr, r: r, watch: r.Chance(1, 5), counts: map[string]int{}, alone: map[int]bool{}, disk: map[int]string{}}
	must(os.WriteFile(filepath.Join(base, "alpha", "seed"), []byte("seed"), 0o644))

	t := w.tid()
	w.alone[t] = true
	create := "create0"
	if r.Chance(1, 4) {
		create = "create1"
	}
	w.do(t, create)
	rounds := 1 + r.Intn(5)
	for i := 0; i < rounds; i++ {
		switch x := r.Intn(12); {
		case x == 0:
			t := w.tid()
			w.alone[t] = true
			w.do(t, "restart")
		case x == 2 || x == 3:
			w.raceResetDuringCycle()
		case x == 1:
			w.raceTerminateReset([]string{"reset", "pause", "resume", "flushw"}[r.Intn(4)])
		default:
			if r.Chance(1, 2) {
				w.edit()
			}
			w.round()
		}
	}
	// quiesce: the final disk state must not be a moving target
	t = w.tid()
	w.alone[t] = true
	if r.Chance(1, 3) {
		w.do(t, "term")
	} else {
		w.do(t, "pause")
	}
	events := jr.snapshot()
	final := w.diskState()
	w.mgr.Shutdown()
	if late := jr.snapshot(); len(late) != len(events) {
		events = late
		events = append(events, "late-events")
	}
	wtok := "w=0"
	if w.watch {
		wtok = "w=1"
	}
	line := wtok + " " + strings.Join(events, " ") + " | " + final
	return result{line: line, impl: "accept " + final, oracle: oracle(events, final, w), counts: w.counts}
}

// ---- the property's own predicates, on the journal ----

type callInfo struct {
	op       string
	call, rt int
	res      string
}

func isEndpointEvent(tok string) bool {
	return !strings.Contains(tok, ":") && tok != "late-events"
}

func oracle(events []string, final string, w *world) string {
	calls := map[int]*callInfo{}
	var order []int
	for i, tok := range events {
		f := strings.Split(tok, ":")
		if len(f) == 2 && tok[0] == 'c' {
			t, _ := strconv.Atoi(f[0][1:])
			calls[t] = &callInfo{op: f[1], call: i, rt: len(events)}
			order = append(order, t)
		} else if len(f) == 3 && tok[0] == 'r' {
			t, _ := strconv.Atoi(f[0][1:])
			calls[t].rt, calls[t].res = i, f[2]
		}
	}
	for _, t := range order {
		c := calls[t]
		if strings.HasPrefix(c.res, "err(") {
			return "class=unexpected-error " + c.op + " returned " + c.res
		}
	}
	// 1. after a pause has returned, nothing happens at the endpoints until a
	// resume (or a reset of a running session) that had not returned before.
	for _, t := range order {
		p := calls[t]
		if p.op != "pause" || p.res != "ok" {
			continue
		}
		for j := p.rt + 1; j < len(events); j++ {
			if !isEndpointEvent(events[j]) {
				continue
			}
			excused := false
			for _, u := range order {
				c := calls[u]
				if (c.op == "resume" || c.op == "reset") && c.call < j && c.rt > p.rt {
					excused = true
				}
			}
			if !excused {
				return fmt.Sprintf("class=activity-while-paused endpoint event %s (#%d) after pause returned (#%d) with no resume", events[j], j, p.rt)
			}
		}
		// the flag is on disk before the call returns
		if d, ok := w.disk[t]; ok && !strings.HasPrefix(d, "sess=p") {
			return "class=pause-not-persisted disk after pause returned: " + d
		}
	}
	// 2. a waiting flush succeeds only after full scans of both endpoints that
	// started after the call and completed before the return.
	for _, t := range order {
		c := calls[t]
		if c.op != "flushw" || c.res != "ok" {
			continue
		}
		for _, side := range []string{"A", "B"} {
			started, done := -1, false
			for j := c.call + 1; j < c.rt; j++ {
				if strings.HasPrefix(events[j], "s"+side+"+1") {
					started = j
				}
				if started >= 0 && events[j] == "s"+side+"-1" {
					done = true
				}
			}
			if started < 0 || !done {
				return fmt.Sprintf("class=flush-without-cycle flush (#%d..#%d) succeeded without a complete full scan of %s", c.call, c.rt, side)
			}
		}
	}
	// 3. terminate: persisted state gone, nothing ever runs again.
	for _, t := range order {
		c := calls[t]
		if c.op != "term" || c.res != "ok" {
			continue
		}
		if final != "sess=n arch=n" {
			return "class=terminate-leaves-state disk at the end: " + final
		}
		if d, ok := w.disk[t]; ok && d != "sess=n arch=n" {
			return "class=terminate-leaves-state disk after terminate returned: " + d
		}
		for j := c.rt + 1; j < len(events); j++ {
			if isEndpointEvent(events[j]) {
				return fmt.Sprintf("class=activity-after-terminate %s (#%d)", events[j], j)
			}
		}
		for _, u := range order {
			d := calls[u]
			if d.call > c.rt && d.op != "restart" && d.res != "nom" {
				return fmt.Sprintf("class=terminated-session-found %s after terminate answered %s", d.op, d.res)
			}
		}
	}
	// 4. reset: the history is cleared and the session keeps its run state.
	for _, t := range order {
		c := calls[t]
		if c.op != "reset" || c.res != "ok" {
			continue
		}
		if d, ok := w.disk[t]; ok && !w.watch && !strings.HasSuffix(d, "arch=e") {
			return "class=reset-keeps-history disk after reset returned: " + d
		}
		// the first scan that starts after a lone reset reconnected (or, for a
		// paused session, returned) sees an empty ancestor
		from := c.rt
		for j := c.call + 1; j < c.rt; j++ {
			if events[j] == "cB" {
				from = j
			}
		}
		for j := from + 1; w.alone[t] && j < len(events); j++ {
			if strings.HasPrefix(events[j], "sA+") || strings.HasPrefix(events[j], "sB+") {
				if strings.HasSuffix(events[j], "1") {
					return "class=reset-keeps-history first scan after reset saw an ancestor"
				}
				break
			}
		}
	}
	// 5. a paused session stays paused across a manager restart.
	for _, t := range order {
		c := calls[t]
		if c.op != "restart" {
			continue
		}
		if d, ok := w.disk[t]; ok {
			// the persisted pause flag is not touched by a restart
			// (known only if the call before it was a lone one)
			before, last := "", -1
			for _, u := range order {
				if calls[u].rt < c.call && calls[u].rt > last {
					last = calls[u].rt
					before = w.disk[u]
				}
			}
			if before != "" && strings.HasPrefix(before, "sess=p") && !strings.HasPrefix(d, "sess=p") {
				return "class=pause-lost-on-restart " + before + " -> " + d
			}
		}
	}
	for _, e := range events {
		if e == "late-events" {
			return "class=activity-after-quiescence endpoint events after the final pause/terminate"
		}
	}
	return ""
}

// ---- driver: cases run in worker processes (the data directory is process-global) ----

func worker(args []string) {
	// args: out file, base dir, seeds...
	out, err := os.Create(args[0])
	must(err)
	defer out.Close()
	for i, s := range args[2:] {
		seed, _ := strconv.ParseUint(s, 10, 64)
		var res result
		func() {
			defer func() {
				if r := recover(); r != nil {
					msg := strings.ReplaceAll(fmt.Sprint(r), "\n", " ")
					res = result{line: "w=0 panic | sess=n arch=n", impl: "panic:" + msg, oracle: "class=panic " + msg, counts: map[string]int{}}
				}
			}()
			res = runCase(seed, filepath.Join(args[1], strconv.Itoa(i)))
		}()
		var cs []string
		for k, v := range res.counts {
			cs = append(cs, fmt.Sprintf("%s=%d", k, v))
		}
		fmt.Fprintf(out, "%s\t%s\t%s\t%s\n", res.line, res.impl, res.oracle, strings.Join(cs, ","))
	}
}

func main() {
	synchronization.ProtocolHandlers[urlpkg.Protocol_Docker] = handler{}
	if len(os.Args) > 1 && os.Args[1] == "-worker" {
		worker(os.Args[2:])
		return
	}
	hx.Main("C29", func(c *hx.Ctx) {
		out := os.Getenv("VERIF_OUT")
		if out == "" {
			out = c.Dir
		}
		out, _ = filepath.Abs(out)
		work := filepath.Join(out, "work")
		os.RemoveAll(work)
		must(os.MkdirAll(work, 0o755))
		defer os.RemoveAll(work)
		emit := func(line, impl, orc, counts string) {
			for _, kv := range strings.Split(counts, ",") {
				if p := strings.SplitN(kv, "=", 2); len(p) == 2 {
					n, _ := strconv.Atoi(p[1])
					for i := 0; i < n; i++ {
						c.Count(p[0])
					}
				}
			}
			// non-trivial: some call was refused or lost, or calls overlapped
			key := ""
			for _, cls := range []string{":dis", ":pau", ":nsy", ":lost", ":nom", "restart", "reset"} {
				if strings.Contains(line, cls) {
					key = line
				}
			}
			c.Case(line, impl, orc, key)
		}
		if lines := c.ReplayLines(); lines != nil {
			// a recorded journal is validated by the model again and the journal
			// predicates are evaluated again (without the disk samples taken
			// while it ran)
			for _, l := range lines {
				final, events := "sess=n arch=n", strings.Fields(l)
				if i := strings.Index(l, " | "); i >= 0 {
					final, events = l[i+3:], strings.Fields(l[:i])
				}
				w := &world{watch: len(events) > 0 && events[0] == "w=1", alone: map[int]bool{}, disk: map[int]string{}}
				emit(l, "accept "+final, oracle(events[1:], final, w), "")
			}
			c.Note("replay re-validates the recorded journal against the model; the schedule itself is not reproducible")
			return
		}
		n := c.Size(320, 6000)
		const workers = 4
		seeds := make([]string, n)
		for i := range seeds {
			seeds[i] = strconv.FormatUint(c.R.U64(), 10)
		}
		var wg sync.WaitGroup
		files := make([]string, workers)
		for wk := 0; wk < workers; wk++ {
			lo, hi := wk*n/workers, (wk+1)*n/workers
			files[wk] = filepath.Join(work, fmt.Sprintf("out%d.txt", wk))
			args := append([]string{"-worker", files[wk], filepath.Join(work, fmt.Sprintf("w%d", wk))}, seeds[lo:hi]...)
			wg.Add(1)
			go func() {
				defer wg.Done()
				cmd := exec.Command(os.Args[0], args...)
				cmd.Stderr = os.Stderr
				cmd.Run()
			}()
		}
		wg.Wait()
		for wk := 0; wk < workers; wk++ {
			data, _ := os.ReadFile(files[wk])
			lo, hi := wk*n/workers, (wk+1)*n/workers
			lines := strings.Split(strings.TrimRight(string(data), "\n"), "\n")
			for i := 0; i < hi-lo; i++ {
				if i >= len(lines) || strings.Count(lines[i], "\t") != 3 {
					emit("w=0 worker-died | sess=n arch=n", "worker-died", "class=panic worker process died", "")
					continue
				}
				f := strings.Split(lines[i], "\t")
				emit(f[0], f[1], f[2], f[3])
			}
		}
	})
}
