// C09: transition results describe the disk exactly under any fault.
//
// For every scenario (random tree, real core.Scan, plan derived from the scan,
// files staged through the real store or a map-backed provider) the real
// core.Transition is first run fault-free with the fault hook recording, then
// once per recorded (operation, name, occurrence) point with a failure
// injected there, with the context cancelled there, and (for renames) with a
// cross-device error there; after each run the tree is read back
// independently, a fresh real core.Scan is taken, and the property's own
// oracle compares it with the reported results at every transitioned path.
package main

import (
	"path/filepath"
	"sort"
	"strings"

	"verif/harness/hx"
	"verif/harness/transx"
)

const readlessCase = "r:200:755:root:0 - d755() /a#0ca623e2855f2c75c842ad302fe820e41b4d197d=600/500000/1/0102 " +
	"/a=~>Fx#0ca623e2855f2c75c842ad302fe820e41b4d197d - - 0102>0ca623e2855f2c75c842ad302fe820e41b4d197d ch|-|-"

func main() {
	hx.Main("C09", func(c *hx.Ctx) {
		dir := filepath.Join(c.Dir, "scratch")
		harnessError := func(line string, err error) {
			c.Case(line, "harness-error: "+err.Error(), "class=harness-error "+err.Error(), "")
		}
		emit := func(cs *transx.Case) *transx.Outcome {
			o, err := transx.Run(cs)
			if err != nil {
				harnessError("harness-error", err)
				return nil
			}
			oracle := transx.OracleC09(cs, o)
			set := map[string]bool{}
			for _, p := range o.Problems {
				cl := transx.Classify(p.Error)
				c.Count("problem:" + cl)
				set[cl] = true
				if cl == "unclassified" && oracle == "" {
					oracle = "class=harness-error unclassified problem text: " + p.Error
				}
			}
			ks := make([]string, 0, len(set))
			for k := range set {
				ks = append(ks, k)
			}
			sort.Strings(ks)
			k := strings.Join(ks, ",")
			for _, f := range cs.Faults {
				k += "|" + f.Op + string(f.Act)
				c.Count("fault:" + f.Op + ":" + string(f.Act))
			}
			if o.Missing {
				c.Count("missing-files")
			}
			c.Case(o.Line, o.Impl, oracle, k)
			return o
		}
		if lines := c.ReplayLines(); lines != nil {
			for _, l := range lines {
				cs, err := transx.BuildFromLine(l, dir)
				if err != nil {
					harnessError(l, err)
					continue
				}
				emit(cs)
			}
			return
		}
		build := func(sc *transx.Scenario, faults []transx.Fault) *transx.Case {
			cs, err := transx.Build(sc, dir, faults)
			if err != nil {
				harnessError("harness-error", err)
				return nil
			}
			return cs
		}
		// One fixed case of the known deviation class=exec-without-read: a default
		// file mode that EnsureDefaultFileModeValid accepts but that grants read
		// permission to nobody (0200), and an executable file to create. The file
		// is created without executability bits (markExecutableForReaders), the
		// reported entry says executable. Outside the hypothesis FileModeOK of the
		// theorems; the model agrees with the code on it.
		if cs, err := transx.BuildFromLine(readlessCase, dir); err == nil {
			c.Count("fixed:exec-without-read")
			emit(cs)
		} else {
			harnessError(readlessCase, err)
		}
		n := c.Size(40, 1000)
		for i := 0; i < n; i++ {
			g := &transx.Gen{R: c.R}
			sc := g.GenScenario(false, false)
			if sc.Cfg.FileMode == 0 {
				// A zero default file mode is rejected by EnsureDefaultFileModeValid
				// before Transition is ever called (hypothesis FileModeOK of the theorems).
				sc.Cfg.FileMode = 0o600
			}
			c.Count("scenario")
			cs := build(sc, nil)
			if cs == nil {
				continue
			}
			base := emit(cs)
			if base == nil {
				continue
			}
			// One run per fault point and action.
			var second [][]transx.Fault
			for _, pt := range transx.FaultPoints(base.Events) {
				acts := "fc"
				if pt.Op == "rename" {
					acts = "fcx"
				}
				for _, a := range []byte(acts) {
					f := pt
					f.Act = a
					cs := build(sc, []transx.Fault{f})
					if cs == nil {
						continue
					}
					o := emit(cs)
					// The cross-device fallback opens new fault points: explore them too.
					if o != nil && a == 'x' {
						seen := false
						for _, q := range transx.FaultPoints(o.Events) {
							if q.Op == f.Op && q.Name == f.Name && q.K == f.K {
								seen = true
								continue
							}
							if seen && (strings.HasPrefix(q.Name, transx.TmpPattern) || q.Name == f.Name) {
								q.Act = 'f'
								second = append(second, []transx.Fault{f, q})
								if q.Op == "chmod" || q.Op == "rename" {
									// ... and the clean-up after a failed step can fail as well.
									second = append(second, []transx.Fault{f, q, {Op: "unlink", Name: transx.TmpPattern + "0", K: 0, Act: 'f'}})
								}
								qc := q
								qc.Act = 'c'
								second = append(second, []transx.Fault{f, qc})
							}
						}
					}
				}
			}
			for _, fs := range second {
				if cs := build(sc, fs); cs != nil {
					c.Count("multi-fault")
					emit(cs)
				}
			}
		}
	})
}
