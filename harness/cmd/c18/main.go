// C18: executability survives synchronization through an endpoint that cannot
// store it.
//
// Streams (one PRNG):
//
//	p <A> <S> <T>      the real core.PropagateExecutability on exhaustive small
//	                   and random (ancestor, source, target) triples. Oracle
//	                   (path-wise, from the three rules in the statement): the
//	                   result differs from the target only in executable bits
//	                   of files, each file's bit is the one the rules name, and
//	                   the inputs are not mutated.
//	c <mode> <portable> <αp> <βp> <A> <alpha> <beta>
//	                   the decision part of one cycle recomposed from the real
//	                   pieces (sessx.RunPure). Oracle: sessx.ExecOracle on the
//	                   preserving side when exactly one side preserves.
//	s …same fields…    one cycle of a *real session* (controller.synchronize)
//	                   over scripted endpoints reporting the given contents and
//	                   PreservesExecutability flags; same oracle.
//	h <mode> <N is alpha> <A> <P> <N> <ops>
//	                   a real session over a preserving endpoint P and a
//	                   non-preserving endpoint N, one cycle after each edit
//	                   (content edit on N, content edit on P, chmod on P); the
//	                   oracle is evaluated for every cycle.
//	r <A> <alpha> <beta>
//	                   the real core.ReifyPhantomDirectories.
//	cd / sd / hd       as c / s / h in sessions with Docker-style ignore syntax:
//	                   the scripted snapshots hold phantom directories with
//	                   (executable) files beneath, as a Docker-syntax scan
//	                   reports them, on the non-preserving side or on both; the
//	                   controller reifies them before propagating executability.
//	                   Same oracle: the files below phantom directories exist on
//	                   both sides, so the preserving side's bits must survive.
package main

import (
	"bytes"
	"fmt"
	"strings"

	"github.com/mutagen-io/mutagen/pkg/synchronization/core"

	"verif/harness/corex"
	"verif/harness/hx"
	sessx "verif/harness/scriptx"
)

func flag(b bool) string {
	if b {
		return "1"
	}
	return "0"
}

// ---- oracle for PropagateExecutability ----

func isFileWith(e *core.Entry, d []byte) bool {
	return e != nil && e.Kind == core.EntryKind_File && bytes.Equal(e.Digest, d)
}

// expectedBit is the statement's rule list for one file of the target.
func expectedBit(a, s, t *core.Entry) (bool, string) {
	switch {
	case isFileWith(s, t.Digest):
		return s.Executable, "source-same-content"
	case isFileWith(a, t.Digest):
		return a.Executable, "ancestor-same-content"
	case s != nil && a != nil && s.Kind == core.EntryKind_File && a.Kind == core.EntryKind_File && bytes.Equal(s.Digest, a.Digest):
		return s.Executable, "source-unmodified"
	}
	return t.Executable, "both-modified"
}

func eraseBits(e *core.Entry) *core.Entry {
	if e == nil {
		return nil
	}
	out := &core.Entry{Kind: e.Kind, Digest: e.Digest, Target: e.Target, Problem: e.Problem}
	if e.Kind != core.EntryKind_File {
		out.Executable = e.Executable
	}
	for n, c := range e.Contents {
		if out.Contents == nil {
			out.Contents = map[string]*core.Entry{}
		}
		out.Contents[n] = eraseBits(c)
	}
	return out
}

// underDirectories reports whether every proper prefix of q is a directory in t.
func underDirectories(t *core.Entry, q string) bool {
	if q == "" {
		return true
	}
	parts := strings.Split(q, "/")
	cur := t
	for _, c := range parts[:len(parts)-1] {
		if cur == nil || cur.Kind != core.EntryKind_Directory {
			return false
		}
		cur = cur.Contents[c]
	}
	return cur != nil && cur.Kind == core.EntryKind_Directory
}

func propagateOracle(c *hx.Ctx, A, S, T, R *core.Entry) string {
	if hx.EncEntry(eraseBits(T)) != hx.EncEntry(eraseBits(R)) {
		return "class=not-only-bits result differs from the target in more than file executable bits"
	}
	for _, q := range hx.Paths(T) {
		t := hx.Lookup(T, q)
		if t.Kind != core.EntryKind_File {
			continue
		}
		r := hx.Lookup(R, q)
		want := t.Executable
		rule := "not-under-directories"
		if underDirectories(T, q) {
			want, rule = expectedBit(hx.Lookup(A, q), hx.Lookup(S, q), t)
		}
		c.Count("rule:" + rule)
		if r.Executable != want {
			return fmt.Sprintf("class=wrong-bit at %s rule %s wants %v, result has %v", hx.EncPath(q), rule, want, r.Executable)
		}
	}
	return ""
}

// ---- generators ----

var execLeaves = []string{"F#01", "Fx#01", "F#02", "Fx#02", "F#03", "L@t"}

// execShapes: nil, the leaves, the empty directory, D(a:leaf) and D(a:leaf,b:F#01|Fx#01).
func execShapes() []*core.Entry {
	out := []*core.Entry{nil}
	for _, l := range execLeaves {
		out = append(out, hx.MustEntry(l))
	}
	out = append(out, hx.MustEntry("D"))
	for _, l := range execLeaves {
		out = append(out, hx.MustEntry("D(a:"+l+")"))
		out = append(out, hx.MustEntry("D(a:"+l+",b:F#01)"), hx.MustEntry("D(a:"+l+",b:Fx#01)"))
	}
	return out
}

func execFile(r *hx.Rand) *core.Entry {
	return &core.Entry{Kind: core.EntryKind_File, Digest: []byte{byte(1 + r.Intn(3))}, Executable: r.Chance(1, 2)}
}

var names = []string{"a", "b", "c", "d"}

// execTree draws a tree made mostly of files with a small digest alphabet.
func execTree(r *hx.Rand, depth int) *core.Entry {
	if depth <= 0 || r.Chance(1, 3) {
		switch r.Intn(8) {
		case 0:
			return &core.Entry{Kind: core.EntryKind_SymbolicLink, Target: "t"}
		case 1:
			return &core.Entry{Kind: core.EntryKind_Directory}
		}
		return execFile(r)
	}
	d := &core.Entry{Kind: core.EntryKind_Directory}
	k := 1 + r.Intn(3)
	for i := 0; i < k; i++ {
		if d.Contents == nil {
			d.Contents = map[string]*core.Entry{}
		}
		d.Contents[names[r.Intn(len(names))]] = execTree(r, depth-1)
	}
	return d
}

func strip(e *core.Entry) *core.Entry {
	if e == nil {
		return nil
	}
	out := &core.Entry{Kind: e.Kind, Digest: e.Digest, Target: e.Target, Problem: e.Problem}
	for n, c := range e.Contents {
		if out.Contents == nil {
			out.Contents = map[string]*core.Entry{}
		}
		out.Contents[n] = strip(c)
	}
	return out
}

func filePaths(e *core.Entry) []string {
	var out []string
	for _, q := range hx.Paths(e) {
		if hx.Lookup(e, q).Kind == core.EntryKind_File {
			out = append(out, q)
		}
	}
	return out
}

// mutate applies k random edits (content edit, chmod if allowed, delete,
// create, retype) to a tree.
func mutate(r *hx.Rand, e *core.Entry, k int, chmod bool) *core.Entry {
	for i := 0; i < k; i++ {
		paths := hx.Paths(e)
		if len(paths) == 0 {
			e = execTree(r, 2)
			continue
		}
		q := paths[r.Intn(len(paths))]
		cur := hx.Lookup(e, q)
		var v *core.Entry
		switch r.Intn(10) {
		case 0, 1, 2, 3: // content edit
			if fp := filePaths(e); len(fp) > 0 {
				q = fp[r.Intn(len(fp))]
				cur = hx.Lookup(e, q)
				v = &core.Entry{Kind: core.EntryKind_File, Digest: []byte{byte(1 + r.Intn(5))}, Executable: cur.Executable}
			} else {
				v = execFile(r)
			}
		case 4, 5: // chmod
			if fp := filePaths(e); len(fp) > 0 && chmod {
				q = fp[r.Intn(len(fp))]
				cur = hx.Lookup(e, q)
				v = &core.Entry{Kind: core.EntryKind_File, Digest: cur.Digest, Executable: !cur.Executable}
			} else {
				v = execFile(r)
			}
		case 6: // delete
			v = nil
		case 7, 8: // create a child / replace
			if cur.Kind == core.EntryKind_Directory {
				q = corex.Join(q, names[r.Intn(len(names))])
			}
			v = execTree(r, 1)
		default: // retype
			v = execTree(r, 2)
		}
		if next, ok := hx.Set(e, q, v); ok {
			e = next
		}
	}
	return e
}

// relatedTriple draws (A, P, N): P and N derive from A by a few edits; N's
// executable bits are cleared unless keepBits.
func relatedTriple(r *hx.Rand, keepBits bool) (A, P, N *core.Entry) {
	A = execTree(r, 1+r.Intn(3))
	if A.Kind != core.EntryKind_Directory && r.Chance(3, 4) {
		A = &core.Entry{Kind: core.EntryKind_Directory, Contents: map[string]*core.Entry{"a": A, "b": execFile(r)}}
	}
	P = mutate(r, A, r.Intn(4), true)
	N = mutate(r, A, r.Intn(4), false)
	if !keepBits {
		N = strip(N)
	}
	if r.Chance(1, 10) {
		A = nil
	}
	return
}

// ---- case execution ----

type runner struct {
	c   *hx.Ctx
	env *sessx.Env
	// Docker-syntax histories: scans report the directories at these paths as
	// phantom directories, on N only or on both endpoints.
	docker      bool
	phantom     []string
	phantomBoth bool
}

func (rn *runner) session() *sessx.Env {
	if rn.env == nil {
		env, err := sessx.NewEnv("c18")
		if err != nil {
			panic(err)
		}
		rn.env = env
	}
	return rn.env
}

func perms(portable bool) core.PermissionsMode {
	if portable {
		return core.PermissionsMode_PermissionsModePortable
	}
	return core.PermissionsMode_PermissionsModeManual
}

// sessionCycle runs one cycle of a fresh real session and renders it.
func (rn *runner) sessionCycle(mode core.SynchronizationMode, portable, docker bool, A, alpha, beta *core.Entry, pa, pb bool) (string, *core.Entry, *core.Entry) {
	env := rn.session()
	cfg := sessx.Config(mode, perms(portable))
	if docker {
		cfg = sessx.ConfigDocker(mode, perms(portable))
	}
	w := &sessx.World{Alpha: &sessx.Side{Tree: alpha, Preserves: pa, StripExec: !pa}, Beta: &sessx.Side{Tree: beta, Preserves: pb, StripExec: !pb}}
	s, err := env.NewFakeSession(cfg, w)
	if err != nil {
		panic(err)
	}
	defer s.Terminate()
	if err := s.SetAncestor(A); err != nil {
		panic(err)
	}
	if err := s.Resume(); err != nil {
		panic(err)
	}
	out, a2, b2 := cycleOf(s, w)
	return out, a2, b2
}

// cycleOf flushes once and renders the observable result of the cycle.
func cycleOf(s *sessx.Session, w *sessx.World) (string, *core.Entry, *core.Entry) {
	cy := s.Cycle()
	return cy.Enc(false) + " conf=" + sessx.ConflictRoots(cy.Conflicts), cy.Alpha, cy.Beta
}

type cycleCase struct {
	mode      core.SynchronizationMode
	modeName  string
	portable  bool
	docker    bool
	pa, pb    bool
	A, al, be *core.Entry
}

func parseCycle(f []string) (*cycleCase, bool) {
	if len(f) != 8 {
		return nil, false
	}
	m, ok := hx.ModeByName(f[1])
	if !ok {
		return nil, false
	}
	k := &cycleCase{mode: m, modeName: f[1], portable: f[2] == "1", pa: f[3] == "1", pb: f[4] == "1", docker: f[0] == "cd" || f[0] == "sd"}
	var err error
	if k.A, err = hx.DecEntry(f[5]); err != nil {
		return nil, false
	}
	if k.al, err = hx.DecEntry(f[6]); err != nil {
		return nil, false
	}
	if k.be, err = hx.DecEntry(f[7]); err != nil {
		return nil, false
	}
	return k, true
}

func (k *cycleCase) oracle(c *hx.Ctx, alphaAfter, betaAfter *core.Entry) string {
	if !k.portable || k.pa == k.pb {
		c.Count("oracle-not-applicable")
		return ""
	}
	if !k.docker && (corex.HasKind(k.al, core.EntryKind_PhantomDirectory) || corex.HasKind(k.be, core.EntryKind_PhantomDirectory)) {
		c.Count("oracle-skipped-phantom")
		return ""
	}
	if k.pa {
		return sessx.ExecOracle(k.mode, false, k.A, k.al, k.be, alphaAfter)
	}
	return sessx.ExecOracle(k.mode, true, k.A, k.be, k.al, betaAfter)
}

func (rn *runner) runLine(line string) (impl, verdict, key string) {
	c := rn.c
	f := strings.Fields(line)
	if len(f) == 0 {
		return "bad-op", "", ""
	}
	switch f[0] {
	case "p":
		if len(f) != 4 {
			return "bad-op", "", ""
		}
		A, e1 := hx.DecEntry(f[1])
		S, e2 := hx.DecEntry(f[2])
		T, e3 := hx.DecEntry(f[3])
		if e1 != nil || e2 != nil || e3 != nil {
			return "bad-op", "", ""
		}
		R := core.PropagateExecutability(A, S, T)
		impl = hx.EncEntry(R)
		if hx.EncEntry(A) != f[1] || hx.EncEntry(S) != f[2] || hx.EncEntry(T) != f[3] {
			verdict = "class=mutated-input an argument was modified"
		} else {
			verdict = propagateOracle(c, A, S, T, R)
		}
		if impl != f[3] {
			key = "p-changed " + impl + f[1] + f[2]
			c.Count("p:changed-bits")
		}
		return
	case "r":
		if len(f) != 4 {
			return "bad-op", "", ""
		}
		A, e1 := hx.DecEntry(f[1])
		al, e2 := hx.DecEntry(f[2])
		be, e3 := hx.DecEntry(f[3])
		if e1 != nil || e2 != nil || e3 != nil {
			return "bad-op", "", ""
		}
		a2, b2, ca, cb := core.ReifyPhantomDirectories(A, al, be)
		impl = hx.EncEntry(a2) + " " + hx.EncEntry(b2) + " " + fmt.Sprint(ca) + " " + fmt.Sprint(cb)
		if hx.EncEntry(A) != f[1] || hx.EncEntry(al) != f[2] || hx.EncEntry(be) != f[3] {
			verdict = "class=mutated-input an argument of ReifyPhantomDirectories was modified"
		} else if corex.HasKind(a2, core.EntryKind_PhantomDirectory) || corex.HasKind(b2, core.EntryKind_PhantomDirectory) {
			verdict = "class=phantom-left a phantom directory survived reification"
		}
		if hx.EncEntry(a2) != f[2] || hx.EncEntry(b2) != f[3] {
			key = "r " + impl
			c.Count("r:reified")
		}
		return
	case "c", "cd":
		k, ok := parseCycle(f)
		if !ok {
			return "bad-op", "", ""
		}
		r := sessx.RunPureSyntax(k.mode, k.portable, k.docker, k.A, k.al, k.be, k.pa, k.pb)
		plan := "anc=- alpha=- beta=- conf=-"
		if r.Reconciled {
			plan = hx.EncPlan(r.Anc, r.Alpha, r.Beta, r.Conflicts)
		}
		impl = hx.EncEntry(r.AlphaContent) + " " + hx.EncEntry(r.BetaContent) + " " + r.Outcome + " " + plan +
			" anc=" + hx.EncEntry(r.NewAncestor) + " alpha=" + hx.EncEntry(r.AlphaAfter) + " beta=" + hx.EncEntry(r.BetaAfter)
		verdict = k.oracle(c, r.AlphaAfter, r.BetaAfter)
		c.Count(f[0] + ":" + k.modeName + ":" + r.Outcome)
		if k.portable && k.pa != k.pb {
			c.Count(f[0] + ":one-side-preserves")
			key = f[0] + " " + impl
		}
		return
	case "s", "sd":
		k, ok := parseCycle(f)
		if !ok {
			return "bad-op", "", ""
		}
		out, a2, b2 := rn.sessionCycle(k.mode, k.portable, k.docker, k.A, k.al, k.be, k.pa, k.pb)
		impl = out
		verdict = k.oracle(c, a2, b2)
		c.Count(f[0] + ":" + k.modeName + ":" + strings.Fields(out)[0])
		if k.portable && k.pa != k.pb {
			key = f[0] + " " + impl
		}
		return
	case "h":
		return rn.history(f)
	case "hd":
		// hd <mode> <N is alpha> <n|b> <paths> <A> <P> <N> <ops>
		if len(f) != 9 || (f[3] != "n" && f[3] != "b") {
			return "bad-op", "", ""
		}
		var paths []string
		if f[4] != "-" {
			for _, q := range strings.Split(f[4], ",") {
				d, err := hx.DecPath(q)
				if err != nil {
					return "bad-op", "", ""
				}
				paths = append(paths, d)
			}
		}
		rn.phantom, rn.phantomBoth, rn.docker = paths, f[3] == "b", true
		defer func() { rn.phantom, rn.phantomBoth, rn.docker = nil, false, false }()
		return rn.history([]string{"h", f[1], f[2], f[5], f[6], f[7], f[8]})
	}
	return "bad-op", "", ""
}

func editFile(tree *core.Entry, path string, f func(cur *core.Entry) *core.Entry) *core.Entry {
	cur := hx.Lookup(tree, path)
	if cur == nil || cur.Kind != core.EntryKind_File {
		return tree
	}
	next, err := core.Apply(tree, []*core.Change{{Path: path, New: f(cur)}})
	if err != nil {
		return tree
	}
	return next
}

func (rn *runner) history(f []string) (impl, verdict, key string) {
	c := rn.c
	if len(f) != 7 {
		return "bad-op", "", ""
	}
	mode, ok := hx.ModeByName(f[1])
	if !ok {
		return "bad-op", "", ""
	}
	nAlpha := f[2] == "1"
	A, e1 := hx.DecEntry(f[3])
	P, e2 := hx.DecEntry(f[4])
	N, e3 := hx.DecEntry(f[5])
	if e1 != nil || e2 != nil || e3 != nil {
		return "bad-op", "", ""
	}
	var ops []string
	if f[6] != "-" {
		ops = strings.Split(f[6], ",")
	}
	env := rn.session()
	pSide := &sessx.Side{Tree: P, Preserves: true}
	nSide := &sessx.Side{Tree: N, Preserves: false, StripExec: true, Phantom: rn.phantom}
	if rn.phantomBoth {
		pSide.Phantom = rn.phantom
	}
	hcfg := sessx.Config(mode, core.PermissionsMode_PermissionsModePortable)
	if rn.docker {
		hcfg = sessx.ConfigDocker(mode, core.PermissionsMode_PermissionsModePortable)
	}
	w := &sessx.World{Alpha: pSide, Beta: nSide}
	if nAlpha {
		w = &sessx.World{Alpha: nSide, Beta: pSide}
	}
	s, err := env.NewFakeSession(hcfg, w)
	if err != nil {
		panic(err)
	}
	defer s.Terminate()
	if err := s.SetAncestor(A); err != nil {
		panic(err)
	}
	if err := s.Resume(); err != nil {
		panic(err)
	}
	trees := func() (p, n *core.Entry) {
		a, b := w.Trees()
		if nAlpha {
			return b, a
		}
		return a, b
	}
	set := func(p, n *core.Entry) {
		if nAlpha {
			w.Set(n, p)
		} else {
			w.Set(p, n)
		}
	}
	var items []string
	for _, op := range ops {
		parts := strings.Split(op, "=")
		if len(parts) < 2 {
			return "bad-op", "", ""
		}
		path, err := hx.DecPath(parts[1])
		if err != nil {
			return "bad-op", "", ""
		}
		var digest []byte
		if len(parts) == 3 && parts[2] != "-" {
			digest, err = hexBytes(parts[2])
			if err != nil {
				return "bad-op", "", ""
			}
		}
		p, n := trees()
		switch parts[0] {
		case "eN":
			n = editFile(n, path, func(cur *core.Entry) *core.Entry {
				return &core.Entry{Kind: core.EntryKind_File, Digest: digest, Executable: cur.Executable}
			})
		case "eP":
			p = editFile(p, path, func(cur *core.Entry) *core.Entry {
				return &core.Entry{Kind: core.EntryKind_File, Digest: digest, Executable: cur.Executable}
			})
		case "xP":
			p = editFile(p, path, func(cur *core.Entry) *core.Entry {
				return &core.Entry{Kind: core.EntryKind_File, Digest: cur.Digest, Executable: !cur.Executable}
			})
		default:
			return "bad-op", "", ""
		}
		set(p, n)
		anc, err := s.Ancestor()
		if err != nil {
			panic(err)
		}
		out, _, _ := cycleOf(s, w)
		outcome := strings.Fields(out)[0]
		p2, n2 := trees()
		items = append(items, outcome+":"+hx.EncEntry(p2)+":"+hx.EncEntry(n2))
		if rn.docker {
			c.Count("hd:" + parts[0] + ":" + outcome)
		} else {
			c.Count("h:" + parts[0] + ":" + outcome)
		}
		if verdict == "" {
			verdict = sessx.ExecOracle(mode, nAlpha, anc, p, n, p2)
		}
		if outcome != "completed" {
			break
		}
	}
	impl = strings.Join(items, " | ")
	key = "h " + impl
	return
}

func hexBytes(s string) ([]byte, error) {
	out := make([]byte, 0, len(s)/2)
	if len(s)%2 != 0 {
		return nil, fmt.Errorf("odd hex")
	}
	for i := 0; i < len(s); i += 2 {
		var b byte
		if _, err := fmt.Sscanf(s[i:i+2], "%02x", &b); err != nil {
			return nil, err
		}
		out = append(out, b)
	}
	return out, nil
}

func main() {
	hx.Main("C18", func(c *hx.Ctx) {
		rn := &runner{c: c}
		defer func() {
			if rn.env != nil {
				rn.env.Close()
			}
		}()
		run := func(line string) {
			var verdict, key string
			impl := hx.Try(func() string {
				i, v, k := rn.runLine(line)
				verdict, key = v, k
				return i
			})
			if strings.HasPrefix(impl, "panic:") {
				verdict = "class=panic " + impl
			}
			c.Case(line, impl, verdict, key)
		}
		if lines := c.ReplayLines(); lines != nil {
			for _, l := range lines {
				run(l)
			}
			return
		}
		r := c.R
		shapes := execShapes()

		// p: exhaustive (sampled in the quick tier) small triples, then random ones.
		stride := c.Size(5, 1)
		i := r.Intn(stride)
		for _, a := range shapes {
			for _, s := range shapes {
				for _, t := range shapes {
					i++
					if i%stride != 0 {
						continue
					}
					run("p " + hx.EncEntry(a) + " " + hx.EncEntry(s) + " " + hx.EncEntry(t))
					if stride == 1 {
						c.Count("exhaustive")
					} else {
						c.Count("exhaustive-sampled")
					}
				}
			}
		}
		for n := 0; n < c.Size(6000, 300000); n++ {
			var A, S, T *core.Entry
			switch r.Intn(4) {
			case 0:
				A, S, T = hx.GenTriple(r, hx.TreeOpts{Unsync: true, Phantom: r.Chance(1, 4), MaxDepth: 3, MaxKids: 3})
			default:
				A, S, T = relatedTriple(r, r.Chance(1, 3))
			}
			run("p " + hx.EncEntry(A) + " " + hx.EncEntry(S) + " " + hx.EncEntry(T))
		}

		// c: exhaustive small triples under every mode and both orientations.
		cycleLine := func(op, mode string, portable, pa, pb bool, A, al, be *core.Entry) string {
			return op + " " + mode + " " + flag(portable) + " " + flag(pa) + " " + flag(pb) + " " + hx.EncEntry(A) + " " + hx.EncEntry(al) + " " + hx.EncEntry(be)
		}
		stride = c.Size(24, 1)
		for _, m := range hx.Modes {
			for _, pa := range []bool{true, false} {
				i = r.Intn(stride)
				for _, a := range shapes {
					for _, al := range shapes {
						for _, be := range shapes {
							i++
							if i%stride != 0 {
								continue
							}
							run(cycleLine("c", m.Name, true, pa, !pa, a, al, be))
							if stride == 1 {
								c.Count("exhaustive")
							} else {
								c.Count("exhaustive-sampled")
							}
						}
					}
				}
			}
		}
		randomCycle := func(op string) {
			m := hx.Modes[r.Intn(len(hx.Modes))]
			var A, P, N *core.Entry
			if r.Chance(1, 6) {
				A, P, N = hx.GenTriple(r, hx.TreeOpts{Unsync: true, MaxDepth: 3, MaxKids: 3})
			} else {
				A, P, N = relatedTriple(r, r.Chance(1, 5))
			}
			portable, pa, pb := true, true, false
			switch r.Intn(12) {
			case 0:
				portable = false
			case 1:
				pb = true
			case 2:
				pa = false
			}
			al, be := P, N
			if r.Chance(1, 2) && pa != pb {
				pa, pb = pb, pa
				al, be = N, P
			}
			run(cycleLine(op, m.Name, portable, pa, pb, A, al, be))
		}
		for n := 0; n < c.Size(12000, 400000); n++ {
			randomCycle("c")
		}

		// s: real sessions over scripted endpoints.
		for n := 0; n < c.Size(1500, 40000); n++ {
			randomCycle("s")
		}

		// h: histories of edits on N, edits on P and chmods on P.
		for n := 0; n < c.Size(300, 8000); n++ {
			m := hx.Modes[r.Intn(len(hx.Modes))]
			P := execTree(r, 1+r.Intn(3))
			if P.Kind != core.EntryKind_Directory {
				P = &core.Entry{Kind: core.EntryKind_Directory, Contents: map[string]*core.Entry{"a": P, "b": execFile(r)}}
			}
			N := strip(P)
			A := P
			switch r.Intn(5) {
			case 0:
				A = nil // first cycle of a new session over equal content
			case 1:
				N = nil
				A = nil
			}
			fp := filePaths(P)
			if len(fp) == 0 {
				continue
			}
			k := 1 + r.Intn(8)
			ops := make([]string, k)
			for j := range ops {
				q := hx.EncPath(fp[r.Intn(len(fp))])
				switch r.Intn(5) {
				case 0, 1:
					ops[j] = "eN=" + q + "=" + hx.Hex([]byte{byte(1 + r.Intn(6))})
				case 2, 3:
					ops[j] = "xP=" + q
				default:
					ops[j] = "eP=" + q + "=" + hx.Hex([]byte{byte(1 + r.Intn(6))})
				}
			}
			run("h " + m.Name + " " + flag(r.Chance(1, 2)) + " " + hx.EncEntry(A) + " " + hx.EncEntry(P) + " " + hx.EncEntry(N) + " " + strings.Join(ops, ","))
		}

		// ---- docker streams: phantom directories ----

		// r: ReifyPhantomDirectories on exhaustive small shapes, then random.
		var rShapes []*core.Entry
		for _, spec := range []string{"~", "F#01", "U", "D", "P", "D(a:Fx#01)", "P(a:Fx#01)", "P(a:U)", "P(a:P(b:F#01))",
			"P(a:P(b:U))", "D(a:P(b:Fx#01))", "D(a:P(b:U),c:F#02)", "P(a:D)", "P(a:L@t)", "P(a:X!p)"} {
			rShapes = append(rShapes, hx.MustEntry(spec))
		}
		var rAnc []*core.Entry
		for _, spec := range []string{"~", "F#01", "D", "D(a:Fx#01)", "D(a:D(b:F#01))", "D(a:D)"} {
			rAnc = append(rAnc, hx.MustEntry(spec))
		}
		for _, a := range rAnc {
			for _, al := range rShapes {
				for _, be := range rShapes {
					run("r " + hx.EncEntry(a) + " " + hx.EncEntry(al) + " " + hx.EncEntry(be))
					c.Count("exhaustive")
				}
			}
		}
		dirPaths := func(e *core.Entry) []string {
			var out []string
			for _, q := range hx.Paths(e) {
				if hx.Lookup(e, q).Kind == core.EntryKind_Directory {
					out = append(out, q)
				}
			}
			return out
		}
		// somePhantom picks a random subset of the directories (biased to those
		// that hold files) of a tree.
		somePhantom := func(e *core.Entry) []string {
			var out []string
			for _, q := range dirPaths(e) {
				if r.Chance(1, 2) {
					out = append(out, q)
				}
			}
			return out
		}
		for n := 0; n < c.Size(3000, 100000); n++ {
			A, P, N := relatedTriple(r, r.Chance(1, 3))
			if r.Chance(1, 4) {
				A, P, N = hx.GenTriple(r, hx.TreeOpts{Unsync: true, Phantom: true, MaxDepth: 3, MaxKids: 3})
			}
			P = sessx.Phantomize(P, somePhantom(P))
			N = sessx.Phantomize(N, somePhantom(N))
			run("r " + hx.EncEntry(A) + " " + hx.EncEntry(P) + " " + hx.EncEntry(N))
		}

		// cd / sd: single cycles under Docker-style ignore syntax. The phantom
		// directories sit on the non-preserving side only, or on both sides
		// (the same ignores apply to both endpoints of a session).
		dockerCycle := func(op string) {
			m := hx.Modes[r.Intn(len(hx.Modes))]
			A, P, N := relatedTriple(r, r.Chance(1, 6))
			var ph []string
			if r.Chance(2, 3) {
				// the same paths on both sides (where they are directories)
				ph = somePhantom(N)
				N = sessx.Phantomize(N, ph)
				if r.Chance(1, 2) {
					P = sessx.Phantomize(P, ph)
					c.Count(op + ":phantom-both")
				} else {
					c.Count(op + ":phantom-N")
				}
			} else {
				N = sessx.Phantomize(N, somePhantom(N))
				P = sessx.Phantomize(P, somePhantom(P))
				c.Count(op + ":phantom-independent")
			}
			portable, pa, pb := true, true, false
			switch r.Intn(14) {
			case 0:
				portable = false
			case 1:
				pb = true
			}
			al, be := P, N
			if r.Chance(1, 2) && pa != pb {
				pa, pb = pb, pa
				al, be = N, P
			}
			run(cycleLine(op, m.Name, portable, pa, pb, A, al, be))
		}
		for n := 0; n < c.Size(6000, 200000); n++ {
			dockerCycle("cd")
		}
		for n := 0; n < c.Size(700, 20000); n++ {
			dockerCycle("sd")
		}

		// hd: histories under Docker-style ignore syntax; every scan reports the
		// chosen directories as phantom.
		for n := 0; n < c.Size(200, 6000); n++ {
			m := hx.Modes[r.Intn(len(hx.Modes))]
			P := execTree(r, 2+r.Intn(2))
			if P.Kind != core.EntryKind_Directory {
				P = &core.Entry{Kind: core.EntryKind_Directory, Contents: map[string]*core.Entry{"a": P, "b": execFile(r)}}
			}
			if r.Chance(1, 2) {
				// the shape of the classic case: ignore `build`, unignore a script below it
				P, _ = hx.Set(P, "build", &core.Entry{Kind: core.EntryKind_Directory, Contents: map[string]*core.Entry{
					"tools": {Kind: core.EntryKind_Directory, Contents: map[string]*core.Entry{"run.sh": {Kind: core.EntryKind_File, Digest: []byte{1}, Executable: true}}}}})
			}
			N := strip(P)
			A := P
			switch r.Intn(5) {
			case 0:
				A = nil
			case 1, 2:
				N = &core.Entry{Kind: core.EntryKind_Directory}
				A = nil
			}
			fp := filePaths(P)
			if len(fp) == 0 {
				continue
			}
			var ph []string
			for _, q := range dirPaths(P) {
				if q != "" && r.Chance(2, 3) {
					ph = append(ph, hx.EncPath(q))
				}
			}
			phs := "-"
			if len(ph) > 0 {
				phs = strings.Join(ph, ",")
			}
			k := 1 + r.Intn(8)
			ops := make([]string, k)
			for j := range ops {
				q := hx.EncPath(fp[r.Intn(len(fp))])
				switch r.Intn(6) {
				case 0, 1:
					ops[j] = "eN=" + q + "=" + hx.Hex([]byte{byte(1 + r.Intn(6))})
				case 2, 3:
					ops[j] = "xP=" + q
				case 4:
					ops[j] = "xP=" + hx.EncPath("nowhere") // a cycle without an edit
				default:
					ops[j] = "eP=" + q + "=" + hx.Hex([]byte{byte(1 + r.Intn(6))})
				}
			}
			run("hd " + m.Name + " " + flag(r.Chance(1, 2)) + " " + r.Pick("n", "b") + " " + phs + " " + hx.EncEntry(A) + " " + hx.EncEntry(P) + " " + hx.EncEntry(N) + " " + strings.Join(ops, ","))
		}
	})
}
