// C22: control-stream framing delivers every flushed message intact.
//
// Case kinds (grammar documented in lean/Mutagen/Driver/C22.lean):
//
//	uve/uvd  the varint codec used for the length prefix
//	mf       stream.NewMultiFlusher over scripted flushers
//	enc      encoding.ProtobufEncoder into a writer with a byte budget
//	dec      encoding.ProtobufDecoder on an arbitrary, arbitrarily fragmented byte stream
//	pipe     the pipeline of endpoint/remote: encoder → bufio → compressor →
//	         bufio → fragmenting wire → bufio → decompressor → bufio → decoder,
//	         flushed by the real multi-flusher, observed at every flush point
//
// Oracles are written from the property: what was written before a flush is
// decoded, in order and intact, from what the wire has delivered at that
// point, leaving no undecoded plain bytes (measured for DEFLATE with the
// standard library's inflater, not the one under test); fragmentation never
// changes a decoder's result; a declared size above the limit never yields a
// message.
package main

import (
	"bufio"
	"bytes"
	stdflate "compress/flate"
	"encoding/binary"
	"errors"
	"fmt"
	"io"
	"os"
	"runtime/pprof"
	"sort"
	"strconv"
	"strings"

	"google.golang.org/protobuf/encoding/protowire"
	"google.golang.org/protobuf/proto"
	"google.golang.org/protobuf/types/known/wrapperspb"

	"github.com/mutagen-io/mutagen/pkg/encoding"
	"github.com/mutagen-io/mutagen/pkg/stream"
	"github.com/mutagen-io/mutagen/pkg/synchronization/compression"

	"verif/harness/hx"
)

const limit = encoding.VerifC22MaximumAllowedMessageSize

var (
	errWrite      = errors.New("writer budget exhausted")
	errWouldBlock = errors.New("no more data delivered yet")
	errFlush      = errors.New("scripted flush failure")
)

// Data descriptors ----------------------------------------------------------------

func genData(desc string) []byte {
	switch desc[0] {
	case 'h':
		return unhex(desc[1:])
	case 'g':
		p := strings.Split(desc[1:], ".")
		n, _ := strconv.Atoi(p[0])
		a, _ := strconv.Atoi(p[1])
		b, _ := strconv.Atoi(p[2])
		out := make([]byte, n)
		for i := range out {
			out[i] = byte(a + i*b)
		}
		return out
	case 'r':
		p := strings.Split(desc[1:], ".")
		n, _ := strconv.Atoi(p[0])
		seed, _ := strconv.ParseUint(p[1], 10, 32)
		x := uint32(seed)
		out := make([]byte, n)
		for i := range out {
			x = x*1664525 + 1013904223
			out[i] = byte(x >> 24)
		}
		return out
	}
	panic("bad data descriptor " + desc)
}

func fnv(b []byte) uint32 {
	h := uint32(2166136261)
	for _, c := range b {
		h = (h ^ uint32(c)) * 16777619
	}
	return h
}

func digest(b []byte) string { return fmt.Sprintf("%d.%d", len(b), fnv(b)) }

func showMsgs(ms [][]byte) string {
	if len(ms) == 0 {
		return "-"
	}
	s := make([]string, len(ms))
	for i, m := range ms {
		s[i] = digest(m)
	}
	return strings.Join(s, ",")
}

func unhex(s string) []byte {
	if s == "-" || s == "" {
		return nil
	}
	b := make([]byte, len(s)/2)
	for i := range b {
		v, _ := strconv.ParseUint(s[2*i:2*i+2], 16, 8)
		b[i] = byte(v)
	}
	return b
}

func parseSizes(s string) []int {
	if s == "-" {
		return nil
	}
	var out []int
	for _, p := range strings.Split(s, ",") {
		n, _ := strconv.Atoi(p)
		out = append(out, n)
	}
	return out
}

func showSizes(sz []int) string {
	if len(sz) == 0 {
		return "-"
	}
	s := make([]string, len(sz))
	for i, n := range sz {
		s[i] = strconv.Itoa(n)
	}
	return strings.Join(s, ",")
}

// Readers and writers ---------------------------------------------------------------

// chunkReader is a stream.DualModeReader delivering data in fragments of the
// given sizes (cycled), then EOF. It counts what was consumed.
type chunkReader struct {
	data  []byte
	pos   int
	sizes []int
	si    int
	left  int
}

func (r *chunkReader) refill() {
	if r.left > 0 {
		return
	}
	if len(r.sizes) == 0 {
		r.left = len(r.data) - r.pos
		return
	}
	n := r.sizes[r.si%len(r.sizes)]
	r.si++
	if n == 0 {
		n = 1
	}
	if n > len(r.data)-r.pos {
		n = len(r.data) - r.pos
	}
	r.left = n
}

func (r *chunkReader) Read(p []byte) (int, error) {
	if len(p) == 0 {
		return 0, nil
	}
	if r.pos == len(r.data) {
		return 0, io.EOF
	}
	r.refill()
	n := len(p)
	if n > r.left {
		n = r.left
	}
	copy(p, r.data[r.pos:r.pos+n])
	r.pos += n
	r.left -= n
	return n, nil
}

func (r *chunkReader) ReadByte() (byte, error) {
	if r.pos == len(r.data) {
		return 0, io.EOF
	}
	r.refill()
	b := r.data[r.pos]
	r.pos++
	r.left--
	return b, nil
}

// wire is the transport: writes append; reads deliver what has been written in
// fragments, report errWouldBlock when nothing is left and EOF once closed.
type wire struct {
	buf    []byte
	rpos   int
	closed bool
	sizes  []int
	si     int
}

func (w *wire) Write(p []byte) (int, error) {
	w.buf = append(w.buf, p...)
	return len(p), nil
}

func (w *wire) Read(p []byte) (int, error) {
	if len(p) == 0 {
		return 0, nil
	}
	avail := len(w.buf) - w.rpos
	if avail == 0 {
		if w.closed {
			return 0, io.EOF
		}
		return 0, errWouldBlock
	}
	n := len(p)
	if len(w.sizes) > 0 {
		k := w.sizes[w.si%len(w.sizes)]
		w.si++
		if k == 0 {
			k = 1
		}
		if k < n {
			n = k
		}
	}
	if n > avail {
		n = avail
	}
	copy(p, w.buf[w.rpos:w.rpos+n])
	w.rpos += n
	return n, nil
}

type budgetWriter struct {
	budget int // -1 unlimited
	got    []byte
}

func (w *budgetWriter) Write(p []byte) (int, error) {
	if w.budget < 0 || len(p) <= w.budget {
		w.got = append(w.got, p...)
		if w.budget >= 0 {
			w.budget -= len(p)
		}
		return len(p), nil
	}
	n := w.budget
	w.got = append(w.got, p[:n]...)
	w.budget = 0
	return n, errWrite
}

func decClass(err error) string {
	switch {
	case err == nil:
		return "ok"
	case errors.Is(err, errWouldBlock):
		return "starved"
	case errors.Is(err, io.ErrUnexpectedEOF):
		return "ueof"
	case errors.Is(err, io.EOF):
		return "eof"
	case errors.Is(err, proto.Error):
		return "unmarshal"
	default:
		return "other"
	}
}

// Specification helpers ---------------------------------------------------------------

func payloadOf(data []byte) []byte {
	p, err := proto.Marshal(&wrapperspb.BytesValue{Value: data})
	if err != nil {
		panic(err)
	}
	return p
}

func frameOf(data []byte) []byte {
	p := payloadOf(data)
	return append(binary.AppendUvarint(nil, uint64(len(p))), p...)
}

// Case runners --------------------------------------------------------------------------

func runUve(v uint64) (string, string) {
	enc := protowire.AppendVarint(nil, v)
	back, n := binary.Uvarint(enc)
	oracle := ""
	if n != len(enc) || back != v || len(enc) > 10 {
		oracle = fmt.Sprintf("class=varint-roundtrip %d encodes to %x, decodes to %d (%d bytes)", v, enc, back, n)
	}
	if got, err := binary.ReadUvarint(bytes.NewReader(enc)); err != nil || got != v {
		oracle = fmt.Sprintf("class=varint-roundtrip ReadUvarint(AppendVarint(%d)) = %d, %v", v, got, err)
	}
	return hx.Hex(enc), oracle
}

func runUvd(in []byte) (string, string) {
	r := bytes.NewReader(in)
	v, err := binary.ReadUvarint(r)
	consumed := len(in) - r.Len()
	cls := decClass(err)
	impl := fmt.Sprintf("- %s %d", cls, consumed)
	if err == nil {
		impl = fmt.Sprintf("%d ok %d", v, consumed)
	}
	// the buffer-based decoder of the standard library as reference
	ref, n := binary.Uvarint(in)
	oracle := ""
	switch {
	case n > 0 && (err != nil || v != ref || consumed != n):
		oracle = fmt.Sprintf("class=varint-decode %x: got %d/%v/%d want %d/%d", in, v, err, consumed, ref, n)
	case n <= 0 && err == nil:
		oracle = fmt.Sprintf("class=varint-decode %x: accepted %d, reference rejects (%d)", in, v, n)
	}
	return impl, oracle
}

type scriptedFlusher struct {
	id   int
	fail bool
	log  *[]int
}

func (f *scriptedFlusher) Flush() error {
	*f.log = append(*f.log, f.id)
	if f.fail {
		return fmt.Errorf("flusher %d: %w", f.id, errFlush)
	}
	return nil
}

func runMf(n int, failing []int) (string, string) {
	var log []int
	fl := make([]stream.Flusher, n)
	own := make([]*scriptedFlusher, n)
	first := -1
	for i := range fl {
		f := &scriptedFlusher{id: i, log: &log}
		for _, k := range failing {
			if k == i {
				f.fail = true
				if first < 0 {
					first = i
				}
			}
		}
		fl[i], own[i] = f, f
	}
	err := stream.NewMultiFlusher(fl...).Flush()
	res := "ok"
	if err != nil {
		res = "e?"
		for i := range own {
			if err.Error() == fmt.Sprintf("flusher %d: %v", i, errFlush) && errors.Is(err, errFlush) {
				res = "e" + strconv.Itoa(i)
			}
		}
	}
	// Spec: flushed in the order given, halting at (and reporting) the first failure.
	want := n
	wantRes := "ok"
	if first >= 0 {
		want, wantRes = first+1, "e"+strconv.Itoa(first)
	}
	oracle := ""
	if len(log) != want || res != wantRes {
		oracle = fmt.Sprintf("class=flush-order called %v result %s, want first %d result %s", log, res, want, wantRes)
	}
	for i, id := range log {
		if id != i {
			oracle = fmt.Sprintf("class=flush-order called %v", log)
		}
	}
	return showSizes(log) + " " + res, oracle
}

func runEnc(budget int, descs []string) (string, string) {
	w := &budgetWriter{budget: budget}
	e := encoding.NewProtobufEncoder(w)
	var st []string
	var want []byte
	failed := false
	for _, d := range descs {
		data := genData(d)
		want = append(want, frameOf(data)...)
		if err := e.Encode(&wrapperspb.BytesValue{Value: data}); err != nil {
			cls := "other"
			if errors.Is(err, errWrite) {
				cls = "werr"
			}
			st = append(st, cls)
			failed = true
			break
		}
		st = append(st, "ok")
	}
	if budget >= 0 && len(want) > budget {
		want = want[:budget]
	}
	oracle := ""
	if !bytes.Equal(w.got, want) {
		oracle = fmt.Sprintf("class=bad-frame writer got %d bytes (%08x), want %d (%08x)", len(w.got), fnv(w.got), len(want), fnv(want))
	} else if failed != (budget >= 0 && len(w.got) == budget && encTotal(descs) > budget) {
		oracle = fmt.Sprintf("class=write-error-lost statuses %v with budget %d", st, budget)
	}
	s := "-"
	if len(st) > 0 {
		s = strings.Join(st, ",")
	}
	return s + " " + digest(w.got), oracle
}

func encTotal(descs []string) int {
	n := 0
	for _, d := range descs {
		n += len(frameOf(genData(d)))
	}
	return n
}

// decodeStream runs the real decoder until its first error.
func decodeStream(data []byte, sizes []int) ([][]byte, string, int) {
	r := &chunkReader{data: data, sizes: sizes}
	d := encoding.NewProtobufDecoder(r)
	var ms [][]byte
	for {
		m := &wrapperspb.BytesValue{}
		if err := d.Decode(m); err != nil {
			return ms, decClass(err), r.pos
		}
		ms = append(ms, append([]byte{}, m.Value...))
	}
}

// flatParse is the specification of the framing on a complete byte string.
func flatParse(data []byte) (payloads [][]byte, oversize bool, rest []byte) {
	for {
		n, k := binary.Uvarint(data)
		if k <= 0 {
			return payloads, false, data
		}
		if n > limit {
			return payloads, true, data
		}
		if uint64(len(data)-k) < n {
			return payloads, false, data
		}
		payloads = append(payloads, data[k:k+int(n)])
		data = data[k+int(n):]
	}
}

func runDec(sizes []int, data []byte) (string, string) {
	ms, cls, consumed := decodeStream(data, sizes)
	impl := fmt.Sprintf("%s %s@%d", showMsgs(ms), cls, consumed)
	oracle := ""
	// fragmentation is irrelevant
	ms1, cls1, consumed1 := decodeStream(data, nil)
	if showMsgs(ms1) != showMsgs(ms) || cls1 != cls || consumed1 != consumed {
		oracle = fmt.Sprintf("class=fragmentation-dependent %v gives %s, unfragmented %s %s@%d", sizes, impl, showMsgs(ms1), cls1, consumed1)
	}
	// against the flat specification
	payloads, oversize, rest := flatParse(data)
	if len(ms) > len(payloads) {
		if oversize && len(ms) > len(payloads) {
			oracle = fmt.Sprintf("class=oversize-accepted %d messages decoded, only %d precede the oversize length", len(ms), len(payloads))
		} else {
			oracle = fmt.Sprintf("class=phantom-message %d messages decoded from %d complete frames", len(ms), len(payloads))
		}
	}
	for i := range ms {
		if i < len(payloads) && !bytes.Equal(payloadOf(ms[i]), payloads[i]) && !(len(ms[i]) == 0 && len(payloads[i]) == 2) {
			oracle = fmt.Sprintf("class=corrupted-message message %d", i)
		}
	}
	if len(ms) < len(payloads) && cls != "unmarshal" {
		oracle = fmt.Sprintf("class=lost-message %d of %d complete frames decoded, then %s", len(ms), len(payloads), cls)
	}
	if cls == "ok" {
		oracle = "class=decoder-never-stops"
	}
	// How the stream must end, from the flat specification: clean EOF, a cut
	// prefix or payload, an overflowing prefix, or a declared size above the limit
	// (rejected) — a size of at most the limit is never "too large".
	if cls != "unmarshal" && len(ms) == len(payloads) && oracle == "" {
		want := ""
		n, k := binary.Uvarint(rest)
		switch {
		case len(rest) == 0:
			want = "eof"
		case k == 0 && len(rest) >= binary.MaxVarintLen64:
			want = "other" // ten continuation bytes: ReadUvarint gives up before looking further
		case k == 0:
			want = "ueof"
		case k < 0 || n > limit:
			want = "other"
		case len(rest) == k:
			want = "eof"
		default:
			want = "ueof"
		}
		if cls != want {
			switch {
			case k > 0 && n > limit:
				oracle = fmt.Sprintf("class=oversize-accepted declared size %d ended with %s", n, cls)
			case k > 0 && cls == "other":
				oracle = fmt.Sprintf("class=in-range-size-rejected declared size %d (limit %d)", n, uint64(limit))
			default:
				oracle = fmt.Sprintf("class=wrong-ending stream ends with %s, want %s", cls, want)
			}
		}
	}
	return impl, oracle
}

// inflateAvailable returns the plain bytes the standard library's inflater can
// recover from a (possibly unterminated) DEFLATE stream.
func inflateAvailable(compressed []byte) []byte {
	r := stdflate.NewReader(bytes.NewReader(compressed))
	out, _ := io.ReadAll(r)
	return out
}

func algorithmByName(name string) (compression.Algorithm, bool) {
	for v := range compression.Algorithm_name {
		a := compression.Algorithm(v)
		if text, _ := a.MarshalText(); string(text) == name && a.SupportStatus() == compression.AlgorithmSupportStatusSupported {
			return a, true
		}
	}
	return 0, false
}

func supportedAlgorithms() []string {
	var out []string
	for v := range compression.Algorithm_name {
		a := compression.Algorithm(v)
		if a.SupportStatus() == compression.AlgorithmSupportStatusSupported {
			text, _ := a.MarshalText()
			out = append(out, string(text))
		}
	}
	sort.Strings(out)
	return out
}

func runPipe(algName string, b1, b2 int, sizes []int, ops []string) (string, string) {
	alg, ok := algorithmByName(algName)
	if !ok {
		return "bad-op", ""
	}
	w := &wire{sizes: sizes}
	// Outbound, as in endpoint/remote/client.go and server.go.
	compressedOutbound := bufio.NewWriterSize(w, b2)
	compressor := alg.Compress(compressedOutbound)
	outbound := bufio.NewWriterSize(compressor, b1)
	flusher := stream.NewMultiFlusher(outbound, compressor, compressedOutbound)
	closer := stream.NewMultiCloser(stream.NewFlushCloser(outbound), compressor, stream.NewFlushCloser(compressedOutbound))
	encoder := encoding.NewProtobufEncoder(outbound)
	// Inbound.
	compressedInbound := bufio.NewReaderSize(w, b2)
	decompressor := alg.Decompress(compressedInbound)
	inbound := bufio.NewReaderSize(decompressor, b1)
	decoder := encoding.NewProtobufDecoder(inbound)

	var out []string
	var pending [][]byte
	oracle := ""
	fail := func(format string, a ...any) {
		if oracle == "" {
			oracle = fmt.Sprintf(format, a...)
		}
	}
	decodedFrameBytes := 0
	plainDelivered := func() int {
		if algName == "none" {
			return len(w.buf)
		}
		if algName == "deflate" {
			return len(inflateAvailable(w.buf))
		}
		return -1
	}
	// receive decodes exactly the messages written since the last decode point.
	receive := func(what string) bool {
		var got [][]byte
		for range pending {
			m := &wrapperspb.BytesValue{}
			if err := decoder.Decode(m); err != nil {
				out = append(out, fmt.Sprintf("[%s]starved", showMsgs(got)))
				fail("class=flush-not-delivered after %s only %d of %d messages decodable (%s)", what, len(got), len(pending), decClass(err))
				return false
			}
			got = append(got, append([]byte{}, m.Value...))
			decodedFrameBytes += len(frameOf(m.Value))
		}
		for i := range got {
			if !bytes.Equal(got[i], pending[i]) {
				fail("class=corrupted-message after %s message %d: got %s want %s", what, i, digest(got[i]), digest(pending[i]))
			}
		}
		residue := -1
		if p := plainDelivered(); p >= 0 {
			residue = p - decodedFrameBytes
			if residue != 0 {
				fail("class=residue after %s %d undecoded plain bytes were delivered", what, residue)
			}
		} else {
			residue = 0
		}
		out = append(out, fmt.Sprintf("[%s]r%d", showMsgs(got), residue))
		pending = nil
		return true
	}
	for _, op := range ops {
		switch op[0] {
		case 'm':
			data := genData(op[1:])
			if err := encoder.Encode(&wrapperspb.BytesValue{Value: data}); err != nil {
				return "encode-error", "class=encode-error " + err.Error()
			}
			pending = append(pending, data)
		case 'f':
			if err := flusher.Flush(); err != nil {
				return "flush-error", "class=flush-error " + err.Error()
			}
			if !receive("flush") {
				return strings.Join(out, " "), oracle
			}
		default:
			return "bad-op", ""
		}
	}
	if err := closer.Close(); err != nil {
		return "close-error", "class=close-error " + err.Error()
	}
	w.closed = true
	if !receive("close") {
		return strings.Join(out, " "), oracle
	}
	m := &wrapperspb.BytesValue{}
	err := decoder.Decode(m)
	switch cls := decClass(err); cls {
	case "ok":
		out = append(out, "extra-message")
		fail("class=phantom-message a message was decoded after the last one written")
	case "eof":
		out = append(out, "eof")
	default:
		out = append(out, cls+"!")
		fail("class=unclean-end the closed stream ends with %s", cls)
	}
	if algName == "none" {
		out = append(out, "w"+digest(w.buf))
	}
	return strings.Join(out, " "), oracle
}

// Generators ----------------------------------------------------------------------------

func genDesc(r *hx.Rand, big int) string {
	switch r.Intn(12) {
	case 0:
		return "h-"
	case 1, 2, 3:
		return "h" + hx.Hex(r.Bytes(1+r.Intn(12), 0))
	case 4:
		return fmt.Sprintf("g%d.%d.%d", []int{125, 126, 127, 128, 129, 16380, 16381, 16382, 16383, 16384}[r.Intn(10)], r.Intn(256), r.Intn(4))
	case 5, 6:
		return fmt.Sprintf("g%d.%d.%d", r.Intn(600), r.Intn(256), r.Intn(256))
	case 7, 8:
		return fmt.Sprintf("r%d.%d", r.Intn(3000), r.Intn(1<<31))
	case 9:
		return fmt.Sprintf("r%d.%d", r.Intn(big), r.Intn(1<<31))
	default:
		return fmt.Sprintf("g%d.%d.%d", r.Intn(big), r.Intn(256), r.Intn(3))
	}
}

func genSizes(r *hx.Rand, total int) []int {
	if r.Chance(1, 8) {
		return nil
	}
	floor := total / 1500
	pool := []int{1, 1, 2, 3, 5, 7, 13, 16, 17, 64, 100, 1000, 4096, 65536}
	n := 1 + r.Intn(4)
	out := make([]int, n)
	for i := range out {
		out[i] = pool[r.Intn(len(pool))]
		if out[i] < floor {
			out[i] = floor + r.Intn(floor+1)
		}
	}
	return out
}

func uvarintOf(v uint64) []byte { return binary.AppendUvarint(nil, v) }

// padVarint makes a non-canonical (over-long) encoding of v with extra bytes.
func padVarint(v uint64, extra int) []byte {
	b := uvarintOf(v)
	b[len(b)-1] |= 0x80
	for i := 1; i < extra; i++ {
		b = append(b, 0x80)
	}
	return append(b, 0x00)
}

func main() {
	if path := os.Getenv("VERIF_CPUPROFILE"); path != "" {
		if f, err := os.Create(path); err == nil {
			pprof.StartCPUProfile(f)
			defer pprof.StopCPUProfile()
		}
	}
	hx.Main("C22", func(c *hx.Ctx) {
		oversizeAccepted := 0
		emit := func(line string) {
			f := strings.Fields(line)
			var oracle string
			impl := hx.Try(func() string {
				var i, o string
				switch f[0] {
				case "uve":
					v, _ := strconv.ParseUint(f[1], 10, 64)
					i, o = runUve(v)
				case "uvd":
					i, o = runUvd(unhex(f[1]))
				case "mf":
					n, _ := strconv.Atoi(f[1])
					i, o = runMf(n, parseSizes(f[2]))
				case "enc":
					budget := -1
					if f[1] != "-" {
						budget, _ = strconv.Atoi(f[1])
					}
					var ds []string
					if f[2] != "-" {
						ds = strings.Split(f[2], ",")
					}
					i, o = runEnc(budget, ds)
				case "dec":
					var data []byte
					for _, seg := range strings.Split(f[2], "+") {
						data = append(data, genData(seg)...)
					}
					i, o = runDec(parseSizes(f[1]), data)
				case "pipe":
					b1, _ := strconv.Atoi(f[2])
					b2, _ := strconv.Atoi(f[3])
					i, o = runPipe(f[1], b1, b2, parseSizes(f[4]), f[5:])
				default:
					i = "bad-op"
				}
				oracle = o
				return i
			})
			if strings.HasPrefix(impl, "panic:") {
				oracle = "class=panic " + impl
			}
			key := ""
			switch f[0] {
			case "dec", "pipe", "enc":
				key = impl
			case "uvd":
				if !strings.Contains(impl, " ok ") {
					key = impl
				}
			}
			if strings.Contains(oracle, "class=oversize-accepted") || strings.Contains(oracle, "class=panic") {
				oversizeAccepted++
			}
			c.Count(f[0])
			c.Case(line, impl, oracle, key)
		}
		if lines := c.ReplayLines(); lines != nil {
			for _, l := range lines {
				emit(l)
			}
			return
		}
		r := c.R

		// Varints: boundaries of every length, then random values of every bit width.
		var vals []uint64
		for k := uint(0); k < 64; k++ {
			vals = append(vals, 1<<k, 1<<k-1, 1<<k+1)
		}
		vals = append(vals, 0, ^uint64(0), limit, limit+1, limit-1)
		for i := 0; i < c.Size(1500, 100000); i++ {
			vals = append(vals, r.U64()>>uint(r.Intn(64)))
		}
		for _, v := range vals {
			emit("uve " + strconv.FormatUint(v, 10))
			enc := uvarintOf(v)
			emit("uvd " + hx.Hex(enc))
			if r.Chance(1, 2) {
				emit("uvd " + hx.Hex(enc[:r.Intn(len(enc))])) // truncated
			}
			if r.Chance(1, 2) {
				emit("uvd " + hx.Hex(append(append([]byte{}, enc...), r.Bytes(1+r.Intn(3), 0)...))) // trailing data
			}
			if r.Chance(1, 2) {
				emit("uvd " + hx.Hex(padVarint(v, 1+r.Intn(11-len(enc))))) // over-long
			}
		}
		// all 10-byte encodings' last byte, and 11-byte runs: the overflow boundary
		for last := 0; last < 256; last++ {
			b := bytes.Repeat([]byte{0xff}, 9)
			emit("uvd " + hx.Hex(append(b, byte(last))))
			b2 := append(bytes.Repeat([]byte{0x80}, 9), byte(last), 0x01)
			emit("uvd " + hx.Hex(b2))
			c.Count("exhaustive")
		}
		for i := 0; i < c.Size(2000, 100000); i++ {
			emit("uvd " + hx.Hex(r.Bytes(r.Intn(13), 0)))
		}

		// Multi-flusher: every failure pattern for up to six layers.
		for n := 0; n <= 6; n++ {
			for mask := 0; mask < 1<<uint(n); mask++ {
				var failing []int
				for i := 0; i < n; i++ {
					if mask&(1<<uint(i)) != 0 {
						failing = append(failing, i)
					}
				}
				emit(fmt.Sprintf("mf %d %s", n, showSizes(failing)))
				c.Count("exhaustive")
			}
		}

		// Encoder with write budgets.
		for i := 0; i < c.Size(1500, 40000); i++ {
			n := r.Intn(5)
			ds := make([]string, n)
			total := 0
			for j := range ds {
				ds[j] = genDesc(r, 3000)
				total += len(genData(ds[j])) + 6
			}
			budget := "-"
			if r.Chance(1, 2) {
				budget = strconv.Itoa(r.Intn(total + 4))
			}
			s := "-"
			if n > 0 {
				s = strings.Join(ds, ",")
			}
			emit(fmt.Sprintf("enc %s %s", budget, s))
		}
		// One message above the encoder's persistent buffer size, followed by a small one.
		emit(fmt.Sprintf("enc - g%d.7.3,h0102,r%d.5", 1024*1024+17, 40000))

		// Decoder on arbitrary streams.
		big := c.Size(40000, 400000)
		invalidPayloads := [][]byte{{0x07}, {0x0a}, {0x0a, 0x05, 0x01}, {0x0f, 0x00}, {0x0a, 0x80}}
		// Sizes just above the limit (a decoder that wrongly accepts them allocates ~100 MiB,
		// which the run survives) and sizes no allocator accepts; nothing in between: a
		// wrongly accepted 4 GiB size would stall the run instead of failing it.
		oversizeLens := []uint64{limit + 1, limit + 2, limit + 1000, 1 << 27, 1 << 62, 1<<63 + 1, ^uint64(0)}
		// The boundary itself, deterministically: limit+1 rejected without reading, limit and
		// limit-1 accepted (the decoder then starves on the short payload).
		for _, n := range []uint64{limit + 1, limit, limit - 1, limit + 2} {
			emit(fmt.Sprintf("dec - h%s+h21", hx.Hex(uvarintOf(n))))
			if n >= limit {
				emit(fmt.Sprintf("dec 1,2 h00+h%s+h0a01", hx.Hex(uvarintOf(n))))
			}
			c.Count("dec:boundary")
		}
		atLimit := 0
		for i := 0; i < c.Size(6000, 80000); i++ {
			var segs []string
			total := 0
			add := func(s string) {
				segs = append(segs, s)
				total += len(genData(s))
			}
			addFrame := func(desc string) {
				data := genData(desc)
				p := payloadOf(data)
				add("h" + hx.Hex(uvarintOf(uint64(len(p)))))
				if len(p) > 0 {
					hdr := p[:len(p)-len(data)]
					add("h" + hx.Hex(hdr))
					add(desc)
				}
			}
			n := r.Intn(5)
			for j := 0; j < n; j++ {
				addFrame(genDesc(r, big/(1+r.Intn(4))))
			}
			kind := r.Intn(12)
			if kind == 0 && oversizeAccepted >= 3 {
				kind = 6 // the decoder accepts oversize lengths: the finding is made, spare the allocations
			}
			if kind == 1 && (atLimit >= c.Size(0, 10) || !r.Chance(1, 20)) {
				kind = 0 // at-limit cases make the decoder allocate the full 100 MiB (≈1 s each): keep them few
			}
			switch kind {
			case 0: // oversize declared length
				add("h" + hx.Hex(uvarintOf(oversizeLens[r.Intn(len(oversizeLens))])))
				add("h" + hx.Hex(r.Bytes(r.Intn(6), 0)))
				c.Count("dec:oversize")
			case 1: // exactly at / just below the limit: accepted, then starved
				add("h" + hx.Hex(uvarintOf(uint64(limit-r.Intn(2)))))
				add("h" + hx.Hex(r.Bytes(r.Intn(6), 0)))
				atLimit++
				c.Count("dec:at-limit")
			case 2: // over-long but in-range length prefix
				data := r.Bytes(r.Intn(5), 0)
				p := payloadOf(data)
				add("h" + hx.Hex(padVarint(uint64(len(p)), 1+r.Intn(3))))
				add("h" + hx.Hex(p))
				c.Count("dec:overlong-prefix")
			case 3: // varint overflow
				add("h" + hx.Hex(append(bytes.Repeat([]byte{0x80 | byte(r.Intn(128))}, 9), byte(2+r.Intn(254)))))
				add("h" + hx.Hex(r.Bytes(r.Intn(4), 0)))
				c.Count("dec:overflow")
			case 4: // payload no protobuf parser accepts
				p := invalidPayloads[r.Intn(len(invalidPayloads))]
				add("h" + hx.Hex(uvarintOf(uint64(len(p)))))
				add("h" + hx.Hex(p))
				if r.Chance(1, 2) {
					addFrame("h0102")
				}
				c.Count("dec:bad-payload")
			case 5: // trailing partial varint
				add("h" + hx.Hex(bytes.Repeat([]byte{0x81}, 1+r.Intn(9))))
				c.Count("dec:partial-prefix")
			}
			if len(segs) == 0 {
				add("h-")
			}
			line := strings.Join(segs, "+")
			if kind >= 9 && total > 0 { // truncate the stream at a random point
				data := []byte{}
				for _, s := range segs {
					data = append(data, genData(s)...)
				}
				if total <= 200 {
					line = "h" + hx.Hex(data[:r.Intn(total)])
					total = len(line) / 2
					c.Count("dec:truncated")
				}
			}
			emit(fmt.Sprintf("dec %s %s", showSizes(genSizes(r, total)), line))
		}
		// every truncation point of a three-frame stream, every fragment size 1..4
		{
			var data []byte
			for _, d := range []string{"h01", "h-", "g130.1.1"} {
				data = append(data, frameOf(genData(d))...)
			}
			for k := 0; k <= len(data); k++ {
				for sz := 0; sz <= 4; sz++ {
					s := "-"
					if sz > 0 {
						s = strconv.Itoa(sz)
					}
					emit(fmt.Sprintf("dec %s h%s", s, hx.Hex(data[:k])))
					c.Count("exhaustive")
				}
			}
		}

		// The pipeline, every supported algorithm.
		algs := supportedAlgorithms()
		c.Note("supported algorithms: " + strings.Join(algs, ","))
		bufs := []int{16, 17, 64, 1000, 4096, 65536}
		for i := 0; i < c.Size(3000, 40000); i++ {
			alg := algs[i%len(algs)]
			nops := 1 + r.Intn(10)
			ops := make([]string, 0, nops)
			total := 0
			bigHere := 2000
			if r.Chance(1, 16) {
				bigHere = c.Size(50000, 400000)
			}
			for j := 0; j < nops; j++ {
				if r.Chance(1, 3) {
					ops = append(ops, "f")
				} else {
					d := genDesc(r, bigHere)
					total += len(genData(d))
					ops = append(ops, "m"+d)
				}
			}
			b1, b2 := bufs[r.Intn(len(bufs))], bufs[r.Intn(len(bufs))]
			if r.Chance(1, 3) {
				b1, b2 = 65536, 65536 // the sizes used by endpoint/remote
			}
			emit(fmt.Sprintf("pipe %s %d %d %s %s", alg, b1, b2, showSizes(genSizes(r, total)), strings.Join(ops, " ")))
			c.Count("alg:" + alg)
		}
		// A message above every persistent-buffer threshold through each algorithm.
		for _, alg := range algs {
			emit(fmt.Sprintf("pipe %s 65536 65536 4096,65536 mh01 mg%d.3.1 f mr%d.9 mh- f mh02", alg, 1024*1024+100, c.Size(70000, 1024*1024+5)))
		}
	})
}
