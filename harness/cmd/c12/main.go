// C12: a scan describes the filesystem exactly.
//
// Every case builds a random real tree under the run's scratch directory
// (files of random size / mode / mtime, portable, non-portable and absolute
// links, FIFOs, sockets and device nodes, non-UTF-8 names, NFC/NFD names,
// `.mutagen-temporary-*` names, nested directories, occasionally a tmpfs
// mount point or a tmpfs root), reads it back with os-level calls only (the
// description), runs the real core.Scan cold under one symbolic-link mode ×
// permissions mode × probed behaviours × ignorer (none / Mutagen syntax /
// Docker syntax / pseudo-random function) × injected open/read faults, and
//   - prints the canonical result for comparison with the Lean model
//     (Mutagen.Model.ScanFS.scan on the description),
//   - evaluates the property's own oracle (scanx.CheckCold): EnsureValid,
//     counters = counts of the content, no temporary names, the kind table
//     node by node, digest cache and ignore cache exact,
//   - for a quarter of the cases repeats the scan with SHA-1 and compares the
//     digests with crypto/sha1 over the bytes read by the description walk.
package main

import (
	"bytes"
	"crypto/sha1"
	"fmt"
	"hash"
	"hash/fnv"
	"os"
	"sort"
	"strings"

	"github.com/mutagen-io/mutagen/pkg/synchronization/core"

	"verif/harness/hx"
	"verif/harness/scanx"
)

func fnvDigest(b []byte) []byte {
	h := fnv.New64a()
	h.Write(b)
	return h.Sum(nil)
}

func sha1Digest(b []byte) []byte {
	s := sha1.Sum(b)
	return s[:]
}

var slModes = []core.SymbolicLinkMode{core.SymbolicLinkMode_SymbolicLinkModeIgnore, core.SymbolicLinkMode_SymbolicLinkModePortable,
	core.SymbolicLinkMode_SymbolicLinkModePOSIXRaw}
var pmModes = []core.PermissionsMode{core.PermissionsMode_PermissionsModePortable, core.PermissionsMode_PermissionsModeManual}

// signature summarises which behaviours a result exercised.
func signature(e *core.Entry, set map[string]bool) {
	if e == nil {
		set["nil"] = true
		return
	}
	k := e.Kind.String()
	if e.Kind == core.EntryKind_Problematic {
		k += ":" + scanx.ProblemClass(e.Problem)
	}
	if e.Executable {
		k += ":x"
	}
	set[k] = true
	for _, c := range e.Contents {
		signature(c, set)
	}
}

func main() {
	hx.Main("C12", func(c *hx.Ctx) {
		scratch := scanx.Scratch("c12")
		defer os.RemoveAll(scratch)
		root := scratch + "/root"

		if lines := c.ReplayLines(); lines != nil {
			c.Note("replay rebuilds the described tree (new inode numbers), rescans it and re-evaluates model and oracle; trees that need mounts are re-checked on the model side only")
			for _, l := range lines {
				replay(c, root, l)
			}
			return
		}

		n := c.Size(4000, 40000)
		for i := 0; i < n && !scanx.Hung; i++ {
			r := c.R
			cfg := &scanx.Cfg{SymlinkMode: slModes[i%3], PermsMode: pmModes[(i/3)%2]}
			px, du := (i/6)%2 == 0, (i/12)%4 == 3
			spec := scanx.GenIgnorer(r)
			cfg.Ignorer = spec.Ignorer
			c.Count(spec.Label)

			// The tree.
			var tree *scanx.Node
			opts := scanx.GenOpts{MaxDepth: 1 + r.Intn(3), MaxKids: 2 + r.Intn(5), SizeMismatch: true}
			tmpfsRoot := false
			switch k := r.Intn(100); {
			case k < 4:
				tree = scanx.GenFile(r)
				c.Count("root:file")
			case k < 6:
				tree = nil
				c.Count("root:absent")
			case k < 8:
				tree = &scanx.Node{Kind: 'L', Target: "elsewhere"}
				c.Count("root:link")
			default:
				tree = scanx.GenDir(r, opts, 0)
				c.Count("root:directory")
				if k < 14 {
					tree.Mount, tmpfsRoot = true, true
					c.Count("root:on-tmpfs")
				} else if k < 24 {
					// one directory somewhere below becomes a mount point
					var dirs []*scanx.Node
					var rec func(n *scanx.Node)
					rec = func(n *scanx.Node) {
						for _, ch := range n.Children {
							if ch.Node.Kind == 'D' {
								dirs = append(dirs, ch.Node)
								rec(ch.Node)
							}
						}
					}
					rec(tree)
					if len(dirs) > 0 {
						dirs[r.Intn(len(dirs))].Mount = true
						c.Count("mount-point-inside")
					}
				}
			}
			if tmpfsRoot {
				// tmpfs keeps modification times that a Timestamp cannot
				var rec func(n *scanx.Node)
				rec = func(n *scanx.Node) {
					for _, ch := range n.Children {
						if ch.Node.Kind == 'F' && r.Chance(1, 5) {
							ch.Node.SetTime, ch.Node.Nsec = true, 5
							ch.Node.Sec = []int64{253402300800, 253402300799, -62135596801, -62135596800}[r.Intn(4)]
						}
						rec(ch.Node)
					}
				}
				rec(tree)
			}
			scanx.Cleanup(root)
			if tree != nil {
				if err := scanx.Materialize(root, tree); err != nil {
					scanx.Cleanup(root)
					c.Count("materialize-failed")
					c.Note("materialize: " + err.Error())
					continue
				}
			}
			desc, err := scanx.Describe(root)
			if err != nil {
				panic(err)
			}
			if r.Chance(1, 3) {
				cfg.Faults = scanx.GenFaults(r, du, 1, 6, desc)
				for _, f := range cfg.Faults {
					c.Count("fault:" + f.Op)
				}
			}

			res := scanx.Scan(root, cfg, px, du, nil)
			ignTable := scanx.EncIgnTable(scanx.IgnTable(cfg.Ignorer, []bool{du}, desc))
			op := scanx.LineHead(cfg, ignTable, scanx.EncNfcTable(desc)) + " " +
				scanx.EncStep(&scanx.Step{Px: px, Du: du, CacheMod: "c", FS: desc})
			impl := scanx.EncResult(res)
			oracle := scanx.CheckCold(&scanx.OracleIn{Desc: desc, Cfg: cfg, Px: px, Du: du, ContractOK: spec.ContractOK, Digest: fnvDigest, Res: res})

			// The same scan with SHA-1: same shape, digests = crypto/sha1 of the bytes.
			if oracle == "" && i%4 == 0 && res.OK() {
				cfg2 := *cfg
				cfg2.NewHash = func() hash.Hash { return sha1.New() }
				res2 := scanx.Scan(root, &cfg2, px, du, nil)
				oracle = scanx.CheckCold(&scanx.OracleIn{Desc: desc, Cfg: &cfg2, Px: px, Du: du, ContractOK: spec.ContractOK, Digest: sha1Digest, Res: res2})
				if oracle == "" && !sameShape(res.Snapshot.Content, res2.Snapshot.Content) {
					oracle = "class=hasher-dependent-shape"
				}
				if oracle != "" {
					oracle += " (sha1 scan)"
				}
				c.Count("sha1-rescan")
			}

			set := map[string]bool{}
			if res.OK() {
				signature(res.Snapshot.Content, set)
			} else {
				set["error"] = true
			}
			var keys []string
			for k := range set {
				keys = append(keys, k)
				c.Count("has:" + k)
			}
			sort.Strings(keys)
			key := strings.Join(keys, ",")
			if len(keys) <= 2 {
				key = ""
			}
			c.Count(fmt.Sprintf("mode:%s%s px=%v du=%v", cfg.SlChar(), cfg.PmChar(), px, du))
			c.Case(op, impl, oracle, key)
			scanx.Cleanup(root)
		}
	})
}

// replay re-executes one op line: the described tree is rebuilt on disk, read
// back, scanned with the line's configuration (the ignorer as a table), and the
// case is emitted with the fresh description.
func replay(c *hx.Ctx, root, line string) {
	pl, err := scanx.ParseLine(line)
	if err != nil || len(pl.Steps) != 1 {
		c.Case(line, "unparseable-replay-line", "", "")
		return
	}
	st := pl.Steps[0]
	var dev uint64
	if st.FS != nil {
		dev = st.FS.Dev
	}
	if !scanx.Rebuildable(st.FS, dev) {
		c.Case(line, "replay-needs-mounts", "", "")
		return
	}
	scanx.Cleanup(root)
	if st.FS != nil {
		if err := scanx.Materialize(root, st.FS); err != nil {
			c.Case(line, "replay-materialize-failed", "", "")
			return
		}
	}
	desc, err := scanx.Describe(root)
	if err != nil {
		panic(err)
	}
	cfg := pl.Cfg
	contract := true
	scanx.Walk(desc, "", st.Du, func(p string, _ *scanx.Node) {
		for _, d := range []bool{false, true} {
			status, cont := cfg.Ignorer.Ignore(p, d)
			if cont && (!d || status == 2) {
				contract = false
			}
		}
	})
	res := scanx.Scan(root, cfg, st.Px, st.Du, nil)
	ignTable := scanx.EncIgnTable(scanx.IgnTable(cfg.Ignorer, []bool{st.Du}, desc))
	op := scanx.LineHead(cfg, ignTable, scanx.EncNfcTable(desc)) + " " +
		scanx.EncStep(&scanx.Step{Px: st.Px, Du: st.Du, CacheMod: "c", FS: desc})
	oracle := scanx.CheckCold(&scanx.OracleIn{Desc: desc, Cfg: cfg, Px: st.Px, Du: st.Du, ContractOK: contract, Digest: fnvDigest, Res: res})
	c.Case(op, scanx.EncResult(res), oracle, "replay")
	scanx.Cleanup(root)
}

// sameShape compares two entry trees ignoring digests.
func sameShape(a, b *core.Entry) bool {
	if a == nil || b == nil {
		return a == b
	}
	if a.Kind != b.Kind || a.Executable != b.Executable || a.Target != b.Target || scanx.ProblemClass(a.Problem) != scanx.ProblemClass(b.Problem) ||
		len(a.Contents) != len(b.Contents) || (len(a.Digest) == 0) != (len(b.Digest) == 0) {
		return false
	}
	for n, ca := range a.Contents {
		if cb, ok := b.Contents[n]; !ok || !sameShape(ca, cb) {
			return false
		}
	}
	return bytes.Equal(nil, nil)
}
