// C27: persistent session files are replaced atomically.
//
// The real filesystem.WriteFileAtomic / encoding.MarshalAndSave are executed
//
//   - in-process (kind "run"): success, a natively failing temporary-file
//     creation (the parent "directory" is a regular file), a failing rename
//     (verif fault hook of filesystem.Rename), a failing marshal callback;
//   - in a child process (this binary re-executed with VERIF_C27_CHILD=1) under
//     `strace -ff` (kinds "trace" and "crash"): the system calls the real code
//     performs on the scratch directory are mapped to the model's operations
//     (create, write, close, chmod, rename, unlink, rmdir) — no in-function
//     hooks —, every step can be made to fail with strace's system-call fault
//     injection (error=EIO), and the process can be killed (signal=SIGKILL on
//     entry of the k-th file-system call, i.e. before it executes) at every
//     point of the sequence; the parent then reads the directory.
//
// Oracle (independent of the Lean model): after a crash or a reported failure
// the target holds exactly the old or exactly the new content (and mode);
// after a reported failure it holds the old one; names that appeared all
// carry the Mutagen temporary prefix; the bystander file is untouched; a
// fault-free write succeeds and leaves no temporary file.
package main

import (
	"bufio"
	"bytes"
	"errors"
	"fmt"
	"os"
	"os/exec"
	"path/filepath"
	"regexp"
	"runtime"
	"sort"
	"strconv"
	"strings"
	"sync"
	"syscall"

	"github.com/mutagen-io/mutagen/pkg/encoding"
	"github.com/mutagen-io/mutagen/pkg/filesystem"

	"verif/harness/hx"
)

const (
	oldMode       = 0o640
	bystanderMode = 0o644
)

var bystanderContent = []byte("by")

func init() {
	if os.Getenv("VERIF_C27_CHILD") != "" {
		// Keep the main goroutine on the main thread so that strace's per-thread
		// injection counters see every system call of the write.
		runtime.LockOSThread()
	}
}

// ---------------------------------------------------------------- the code under test

func classify(err error) string {
	if err == nil {
		return "ok"
	}
	msg := err.Error()
	switch {
	case strings.Contains(msg, "unable to marshal message"):
		return "err-marshal"
	case strings.Contains(msg, "unable to create temporary file"):
		return "err-create"
	case strings.Contains(msg, "unable to write data to temporary file"):
		return "err-write"
	case strings.Contains(msg, "unable to close temporary file"):
		return "err-close"
	case strings.Contains(msg, "unable to change file permissions"):
		return "err-chmod"
	case strings.Contains(msg, "unable to rename file"):
		return "err-rename"
	}
	return "err-other"
}

var resultCodes = []string{"ok", "err-marshal", "err-create", "err-write", "err-close", "err-chmod", "err-rename", "err-other"}

func invoke(api, path string, data []byte, perm os.FileMode, marshalFails bool) error {
	if api == "mas" {
		return encoding.MarshalAndSave(path, func() ([]byte, error) {
			if marshalFails {
				return nil, errors.New("marshal failure")
			}
			return data, nil
		})
	}
	return filesystem.WriteFileAtomic(path, data, perm)
}

// childMain: `<api> <path> <hex data> <octal perm> <marshal fails 0/1>`; the
// result is reported through the exit status (20 + index in resultCodes) so
// that reporting needs no file-system call; getppid marks the end of the write.
func childMain() {
	a := os.Args[1:]
	perm, _ := strconv.ParseUint(a[3], 8, 32)
	res := classify(invoke(a[0], a[1], unhex(a[2]), os.FileMode(perm), a[4] == "1"))
	syscall.Getppid()
	for i, r := range resultCodes {
		if r == res {
			os.Exit(20 + i)
		}
	}
	os.Exit(99)
}

// ---------------------------------------------------------------- scenarios

type scenario struct {
	kind, api  string
	old        []byte
	hasOld     bool
	data       []byte
	perm       uint32
	fault      string // none marshal create write close chmod rename
	unlinkFail bool
	crash      int // -1 = none
}

func unhex(s string) []byte {
	if s == "-" {
		return nil
	}
	b := make([]byte, len(s)/2)
	for i := range b {
		v, _ := strconv.ParseUint(s[2*i:2*i+2], 16, 8)
		b[i] = byte(v)
	}
	return b
}

func (s *scenario) line() string {
	old := "none"
	if s.hasOld {
		old = hx.Hex(s.old)
	}
	fault := s.fault
	if s.unlinkFail {
		fault += "+unlink"
	}
	crash := "-"
	if s.crash >= 0 {
		crash = strconv.Itoa(s.crash)
	}
	return fmt.Sprintf("%s %s %s %s %o %s %s", s.kind, s.api, old, hx.Hex(s.data), s.perm, fault, crash)
}

func parseLine(line string) (*scenario, bool) {
	f := strings.Fields(line)
	if len(f) != 7 {
		return nil, false
	}
	s := &scenario{kind: f[0], api: f[1], crash: -1}
	if f[2] != "none" {
		s.hasOld, s.old = true, unhex(f[2])
	}
	s.data = unhex(f[3])
	p, err := strconv.ParseUint(f[4], 8, 32)
	if err != nil {
		return nil, false
	}
	s.perm = uint32(p)
	s.fault = f[5]
	if strings.HasSuffix(s.fault, "+unlink") {
		s.fault, s.unlinkFail = strings.TrimSuffix(s.fault, "+unlink"), true
	}
	if f[6] != "-" {
		k, err := strconv.Atoi(f[6])
		if err != nil {
			return nil, false
		}
		s.crash = k
	}
	return s, true
}

func (s *scenario) newMode() uint32 {
	if s.api == "mas" {
		return 0o600
	}
	return s.perm
}

// ---------------------------------------------------------------- scratch directories and observation

var (
	scratchRoot string
	scratchSeq  int
	scratchLock sync.Mutex
)

func newScratch(s *scenario) (dir string, err error) {
	scratchLock.Lock()
	scratchSeq++
	n := scratchSeq
	scratchLock.Unlock()
	dir = filepath.Join(scratchRoot, fmt.Sprintf("d%d", n))
	if err = os.MkdirAll(dir, 0o700); err != nil {
		return
	}
	by := filepath.Join(dir, "bystander")
	if err = os.WriteFile(by, bystanderContent, bystanderMode); err != nil {
		return
	}
	if err = os.Chmod(by, bystanderMode); err != nil {
		return
	}
	if s.hasOld {
		t := filepath.Join(dir, "target")
		if err = os.WriteFile(t, s.old, oldMode); err != nil {
			return
		}
		err = os.Chmod(t, oldMode)
	}
	return
}

type observed struct {
	hasTarget   bool
	content     []byte
	mode        uint32
	tmp, stray  int
	bystanderOK bool
}

func observe(dir string) (*observed, error) {
	o := &observed{}
	entries, err := os.ReadDir(dir)
	if err != nil {
		return nil, err
	}
	for _, e := range entries {
		p := filepath.Join(dir, e.Name())
		switch e.Name() {
		case "target":
			info, err := os.Lstat(p)
			if err != nil {
				return nil, err
			}
			if !info.Mode().IsRegular() {
				o.stray++
				continue
			}
			data, err := os.ReadFile(p)
			if err != nil {
				return nil, err
			}
			o.hasTarget, o.content, o.mode = true, data, uint32(info.Mode().Perm())
		case "bystander":
			info, err := os.Lstat(p)
			data, err2 := os.ReadFile(p)
			o.bystanderOK = err == nil && err2 == nil && bytes.Equal(data, bystanderContent) && info.Mode().Perm() == bystanderMode
		default:
			if strings.HasPrefix(e.Name(), filesystem.TemporaryNamePrefix) {
				o.tmp++
			} else {
				o.stray++
			}
		}
	}
	return o, nil
}

func (o *observed) String() string {
	t := "none"
	if o.hasTarget {
		t = fmt.Sprintf("%s:%o", hx.Hex(o.content), o.mode)
	}
	b := "bad"
	if o.bystanderOK {
		b = "ok"
	}
	return fmt.Sprintf("target=%s tmp=%d stray=%d bystander=%s", t, o.tmp, o.stray, b)
}

// verdict evaluates the property on an observation.
func verdict(s *scenario, res string, crashed bool, o *observed) string {
	isOld := o.hasTarget == s.hasOld && (!s.hasOld || (bytes.Equal(o.content, s.old) && o.mode == oldMode))
	isNew := o.hasTarget && bytes.Equal(o.content, s.data) && o.mode == s.newMode()
	switch {
	case !o.bystanderOK:
		return "class=bystander-changed " + o.String()
	case o.stray != 0:
		return "class=stray-file " + o.String()
	case !isOld && !isNew:
		return "class=partial-target neither old nor new: " + o.String()
	}
	if crashed {
		return ""
	}
	if res == "ok" {
		if !isNew {
			return "class=success-without-new-content " + o.String()
		}
		if o.tmp != 0 {
			return "class=temporary-left-after-success " + o.String()
		}
		if s.fault != "none" {
			return "class=unexpected-result fault " + s.fault + " but success reported"
		}
		return ""
	}
	if !isOld {
		return "class=failure-changed-target " + o.String()
	}
	if s.fault == "none" {
		return "class=unexpected-result no fault but " + res
	}
	if o.tmp != 0 && !s.unlinkFail {
		return "class=temporary-left-after-failure " + o.String()
	}
	return ""
}

// ---------------------------------------------------------------- in-process runs

var hookLock sync.Mutex

func runInProcess(s *scenario) (impl, oracle string) {
	if s.crash >= 0 || s.unlinkFail || s.fault == "write" || s.fault == "close" || s.fault == "chmod" {
		return "unsupported", ""
	}
	if s.fault == "marshal" && s.api != "mas" || s.fault == "create" && s.hasOld {
		return "unsupported", ""
	}
	dir, err := newScratch(s)
	if err != nil {
		return "setup-error", "class=setup " + err.Error()
	}
	defer os.RemoveAll(dir)
	path := filepath.Join(dir, "target")
	if s.fault == "create" {
		// The directory of the path is a regular file: CreateTemp fails with ENOTDIR.
		path = filepath.Join(dir, "bystander", "target")
	}
	hookLock.Lock()
	if s.fault == "rename" {
		filesystem.VerifSetFaultHook(func(operation, name string) error {
			if operation == "rename" {
				return syscall.EIO
			}
			return nil
		})
	}
	res := classify(invoke(s.api, path, s.data, os.FileMode(s.perm), s.fault == "marshal"))
	filesystem.VerifSetFaultHook(nil)
	hookLock.Unlock()
	o, err := observe(dir)
	if err != nil {
		return "observe-error", "class=setup " + err.Error()
	}
	return "res=" + res + " " + o.String(), verdict(s, res, false, o)
}

// ---------------------------------------------------------------- strace runs

type op struct {
	name     string // create write close chmod rename unlink rmdir
	syscall  string
	text     string // canonical token without the failure mark
	failed   bool
	finished bool // false: the process was killed on entry of this call
	injected bool
}

var (
	reOpenat   = regexp.MustCompile(`^openat\(AT_FDCWD, "([^"]*)", ([A-Z_|0-9]+)(?:, ([0-7]+))?\)\s+= (-?\d+|\?)(.*)$`)
	reWrite    = regexp.MustCompile(`^write\((\d+), .*, (\d+)\)\s+= (-?\d+|\?)(.*)$`)
	reClose    = regexp.MustCompile(`^close\((\d+)\)\s+= (-?\d+|\?)(.*)$`)
	reFchmodat = regexp.MustCompile(`^fchmodat\(AT_FDCWD, "([^"]*)", ([0-7]+)\)\s+= (-?\d+|\?)(.*)$`)
	reRenameat = regexp.MustCompile(`^renameat2?\(AT_FDCWD, "([^"]*)", AT_FDCWD, "([^"]*)"(?:, [A-Z_0-9|]+)?\)\s+= (-?\d+|\?)(.*)$`)
	reUnlinkat = regexp.MustCompile(`^unlinkat\(AT_FDCWD, "([^"]*)", (0|AT_REMOVEDIR)\)\s+= (-?\d+|\?)(.*)$`)
	reSyscall  = regexp.MustCompile(`^([a-z0-9_]+)\(`)
	reTmpName  = regexp.MustCompile(`^` + regexp.QuoteMeta(filesystem.TemporaryNamePrefix) + `atomic-write[0-9]+$`)
)

const traceSet = "trace=execve,openat,open,creat,write,pwrite64,writev,close,fchmodat,fchmod,chmod,renameat,renameat2,rename,unlinkat,unlink,rmdir,link,linkat,symlink,symlinkat,mkdir,mkdirat,truncate,ftruncate,getppid"

type straceResult struct {
	ops      []op
	base     map[string]int // calls per system call on the main thread before the first operation of the write
	exit     int
	killed   bool
	problems []string
}

// parseTrace maps the system calls of the main thread that touch the scratch
// directory to operations.
func parseTrace(file, dir, target string) (*straceResult, error) {
	f, err := os.Open(file)
	if err != nil {
		return nil, err
	}
	defer f.Close()
	r := &straceResult{base: map[string]int{}, exit: -1}
	prefix := dir + "/"
	tmpPath := ""
	tmpFd := ""
	started := false
	counts := map[string]int{}
	sc := bufio.NewScanner(f)
	sc.Buffer(make([]byte, 1<<20), 1<<26)
	add := func(name, syscallName, text, result, rest string) {
		o := op{name: name, syscall: syscallName, text: text, finished: result != "?"}
		o.failed = strings.HasPrefix(result, "-")
		o.injected = strings.Contains(rest, "(INJECTED)")
		r.ops = append(r.ops, o)
	}
	for sc.Scan() {
		l := sc.Text()
		if strings.HasPrefix(l, "+++ killed by SIGKILL") {
			r.killed = true
			continue
		}
		if strings.HasPrefix(l, "+++ exited with ") {
			fmt.Sscanf(l, "+++ exited with %d", &r.exit)
			continue
		}
		m := reSyscall.FindStringSubmatch(l)
		if m == nil {
			continue
		}
		name := m[1]
		mine := false
		if g := reOpenat.FindStringSubmatch(l); g != nil && strings.HasPrefix(g[1], prefix) {
			mine = true
			text := "create"
			if filepath.Dir(g[1]) != dir || !reTmpName.MatchString(filepath.Base(g[1])) {
				text = "create?name=" + filepath.Base(g[1])
			}
			if !strings.Contains(g[2], "O_CREAT") || !strings.Contains(g[2], "O_EXCL") {
				text += "?flags=" + g[2]
			}
			if strings.TrimLeft(g[3], "0") != "600" {
				text += "?mode=" + g[3]
			}
			if !started {
				for k, v := range counts {
					r.base[k] = v
				}
				started = true
			}
			tmpPath = g[1]
			if !strings.HasPrefix(g[4], "-") && g[4] != "?" {
				tmpFd = g[4]
			}
			add("create", name, text, g[4], g[5])
		} else if g := reWrite.FindStringSubmatch(l); g != nil && tmpFd != "" && g[1] == tmpFd {
			mine = true
			add("write", name, "write:"+g[2], g[3], g[4])
		} else if g := reClose.FindStringSubmatch(l); g != nil && tmpFd != "" && g[1] == tmpFd {
			mine = true
			add("close", name, "close", g[2], g[3])
			if g[2] != "?" {
				// Whether or not the call failed, the code does not use the descriptor again.
				tmpFd = ""
			}
		} else if g := reFchmodat.FindStringSubmatch(l); g != nil && strings.HasPrefix(g[1], prefix) {
			mine = true
			text := "chmod:" + strings.TrimLeft(g[2], "0")
			if g[2] == "0" || strings.TrimLeft(g[2], "0") == "" {
				text = "chmod:0"
			}
			if g[1] != tmpPath {
				text += "?name=" + filepath.Base(g[1])
			}
			add("chmod", name, text, g[3], g[4])
		} else if g := reRenameat.FindStringSubmatch(l); g != nil && (strings.HasPrefix(g[1], prefix) || strings.HasPrefix(g[2], prefix)) {
			mine = true
			text := "rename"
			if g[1] != tmpPath || g[2] != target {
				text += "?" + filepath.Base(g[1]) + "->" + filepath.Base(g[2])
			}
			add("rename", name, text, g[3], g[4])
		} else if g := reUnlinkat.FindStringSubmatch(l); g != nil && strings.HasPrefix(g[1], prefix) {
			mine = true
			text := "unlink"
			if g[2] == "AT_REMOVEDIR" {
				text = "rmdir"
			}
			if g[1] != tmpPath {
				text += "?name=" + filepath.Base(g[1])
			}
			add(text[:strings.IndexAny(text+"?", "?")], name, text, g[3], g[4])
		} else if strings.Contains(l, prefix) && name != "execve" {
			// Any other traced call that names the scratch directory is an
			// operation the model does not know.
			mine = true
			add("other", name, "other:"+name, "0", "")
		}
		if !started {
			counts[name]++
		}
		_ = mine
	}
	if !started {
		for k, v := range counts {
			r.base[k] = v
		}
	}
	return r, sc.Err()
}

var opSyscall = map[string]string{"create": "openat", "write": "write", "close": "close", "chmod": "fchmodat", "rename": "renameat", "unlink": "unlinkat", "rmdir": "unlinkat"}

var (
	baseLock  sync.Mutex
	baseKnown map[string]int
	selfPath  string
	straceSeq int
)

// runStrace executes the scenario in a child under strace. killAt < 0: no
// kill; otherwise the child is killed on entry of its killAt-th operation
// (seq gives the operation sequence observed without kill), or, when killAt ==
// len(seq), on entry of the getppid end marker.
func runStrace(s *scenario, killAt int, seq []op) (res *straceResult, o *observed, dir string, err error) {
	dir, err = newScratch(s)
	if err != nil {
		return
	}
	target := filepath.Join(dir, "target")
	baseLock.Lock()
	base := baseKnown
	straceSeq++
	tracePrefix := filepath.Join(scratchRoot, fmt.Sprintf("trace%d", straceSeq))
	baseLock.Unlock()
	args := []string{"-ff", "-o", tracePrefix, "-e", traceSet}
	inject := map[string]string{}
	if s.fault != "none" && s.fault != "marshal" {
		sysname := opSyscall[s.fault]
		inject[sysname] = fmt.Sprintf("error=EIO:when=%d", base[sysname]+1)
	}
	if s.unlinkFail {
		inject["unlinkat"] = fmt.Sprintf("error=EIO:when=%d", base["unlinkat"]+1)
	}
	if killAt >= 0 {
		if killAt == len(seq) {
			inject["getppid"] = fmt.Sprintf("signal=SIGKILL:when=%d", base["getppid"]+1)
		} else {
			sysname := seq[killAt].syscall
			nth := 0
			for _, p := range seq[:killAt] {
				if p.syscall == sysname {
					nth++
				}
			}
			when := base[sysname] + nth + 1
			if prev, ok := inject[sysname]; ok {
				if prev != fmt.Sprintf("error=EIO:when=%d", when) {
					err = fmt.Errorf("conflicting injections on %s", sysname)
					return
				}
				inject[sysname] = fmt.Sprintf("error=EIO:signal=SIGKILL:when=%d", when)
			} else {
				inject[sysname] = fmt.Sprintf("signal=SIGKILL:when=%d", when)
			}
		}
	}
	names := make([]string, 0, len(inject))
	for k := range inject {
		names = append(names, k)
	}
	sort.Strings(names)
	for _, k := range names {
		args = append(args, "-e", "inject="+k+":"+inject[k])
	}
	marshal := "0"
	if s.fault == "marshal" {
		marshal = "1"
	}
	args = append(args, selfPath, s.api, target, hx.Hex(s.data), strconv.FormatUint(uint64(s.perm), 8), marshal)
	cmd := exec.Command("strace", args...)
	cmd.Env = append(os.Environ(), "VERIF_C27_CHILD=1")
	var stderr bytes.Buffer
	cmd.Stderr = &stderr
	cmd.Run()
	files, _ := filepath.Glob(tracePrefix + ".*")
	defer func() {
		for _, f := range files {
			os.Remove(f)
		}
	}()
	mainFile := ""
	for _, f := range files {
		if h, e := os.Open(f); e == nil {
			line, _ := bufio.NewReader(h).ReadString('\n')
			h.Close()
			if strings.HasPrefix(line, "execve(") {
				mainFile = f
			}
		}
	}
	if mainFile == "" {
		err = fmt.Errorf("no main-thread trace (strace said: %s)", strings.TrimSpace(stderr.String()))
		return
	}
	res, err = parseTrace(mainFile, dir, target)
	if err != nil {
		return
	}
	o, err = observe(dir)
	return
}

func opsString(ops []op, onlyFinished bool) string {
	var t []string
	for _, p := range ops {
		if onlyFinished && !p.finished {
			continue
		}
		s := p.text
		if p.failed {
			s += "!"
		}
		t = append(t, s)
	}
	if len(t) == 0 {
		return "-"
	}
	return strings.Join(t, ",")
}

// calibrate runs a fault-free write to learn how many calls of each system
// call the runtime makes on the main thread before the write starts.
func calibrate() error {
	s := &scenario{kind: "trace", api: "wfa", data: []byte("x"), perm: 0o600, fault: "none", crash: -1}
	baseLock.Lock()
	baseKnown = map[string]int{}
	baseLock.Unlock()
	r, _, dir, err := runStrace(s, -1, nil)
	if dir != "" {
		os.RemoveAll(dir)
	}
	if err != nil {
		return err
	}
	if len(r.ops) == 0 {
		return errors.New("calibration run shows no operation on the scratch directory")
	}
	baseLock.Lock()
	baseKnown = r.base
	baseLock.Unlock()
	return nil
}

func checkInjection(s *scenario, r *straceResult) string {
	// Every injected failure must have hit the operation it was meant for.
	want := map[string]bool{}
	if s.fault != "none" && s.fault != "marshal" {
		want[s.fault] = true
	}
	if s.unlinkFail {
		want["unlink"] = true
	}
	for _, p := range r.ops {
		if p.injected {
			if !want[p.name] {
				return "injection hit " + p.name
			}
			delete(want, p.name)
		}
	}
	_ = want // a wanted injection may legitimately not be reached (e.g. unlink after success)
	return ""
}

// seqCache remembers the operation sequence observed (without kill) for a
// scenario, so that the kill points of the same scenario need no second
// baseline run.
var (
	seqCache     = map[string][]op{}
	seqCacheLock sync.Mutex
)

func (s *scenario) cacheKey() string {
	t := *s
	t.kind, t.crash = "trace", -1
	return t.line()
}

func runTraced(s *scenario) (impl, oracle string) {
	if s.fault == "marshal" && s.api != "mas" {
		return "unsupported", ""
	}
	seqCacheLock.Lock()
	cached, ok := seqCache[s.cacheKey()]
	seqCacheLock.Unlock()
	r := &straceResult{ops: cached}
	if !ok || s.kind == "trace" {
		var o *observed
		var dir string
		var err error
		r, o, dir, err = runStrace(s, -1, nil)
		if dir != "" {
			defer os.RemoveAll(dir)
		}
		if err != nil {
			return "harness-error", "class=setup " + err.Error()
		}
		if msg := checkInjection(s, r); msg != "" {
			return "harness-error", "class=setup " + msg
		}
		seqCacheLock.Lock()
		seqCache[s.cacheKey()] = r.ops
		seqCacheLock.Unlock()
		res := "err-other"
		if r.exit >= 20 && r.exit < 20+len(resultCodes) {
			res = resultCodes[r.exit-20]
		}
		if s.kind == "trace" {
			return "ops=" + opsString(r.ops, false) + " res=" + res + " " + o.String(), verdict(s, res, false, o)
		}
	}
	// crash: second run with a kill at the requested point.
	if s.crash > len(r.ops) {
		return "unsupported", ""
	}
	if s.crash < len(r.ops) {
		// strace keeps one injection per system call: skip points that would need two.
		sysname := r.ops[s.crash].syscall
		for i, p := range r.ops {
			if i != s.crash && p.syscall == sysname && p.injected {
				return "unsupported", ""
			}
		}
	}
	r2, o2, dir2, err := runStrace(s, s.crash, r.ops)
	if dir2 != "" {
		defer os.RemoveAll(dir2)
	}
	if err != nil {
		return "harness-error", "class=setup " + err.Error()
	}
	if !r2.killed {
		return "harness-error", fmt.Sprintf("class=setup child was not killed (exit %d)", r2.exit)
	}
	done := 0
	for _, p := range r2.ops {
		if p.finished {
			done++
		}
	}
	if done != s.crash {
		return "harness-error", fmt.Sprintf("class=setup killed after %d operations instead of %d", done, s.crash)
	}
	return "ops=" + opsString(r2.ops, true) + " " + o2.String(), verdict(s, "", true, o2)
}

// ---------------------------------------------------------------- generators

func genContent(r *hx.Rand) []byte {
	switch r.Intn(10) {
	case 0:
		return nil
	case 1:
		return r.Bytes(1+r.Intn(3), 0)
	case 2:
		return r.Bytes(4096+r.Intn(5000), 0)
	default:
		return r.Bytes(1+r.Intn(64), 0)
	}
}

var perms = []uint32{0o600, 0o644, 0o640, 0o755, 0o400, 0o666, 0o0, 0o777, 0o604}

func genScenario(r *hx.Rand, kind string) *scenario {
	s := &scenario{kind: kind, api: r.Pick("wfa", "wfa", "mas"), data: genContent(r), perm: perms[r.Intn(len(perms))], fault: "none", crash: -1}
	if r.Chance(3, 4) {
		s.hasOld, s.old = true, genContent(r)
		if r.Chance(1, 8) {
			s.old = append([]byte(nil), s.data...) // old == new
		}
		if r.Chance(1, 8) && len(s.data) > 1 {
			s.old = append([]byte(nil), s.data[:len(s.data)/2]...) // old is a proper prefix of new
		}
	}
	return s
}

type result struct {
	impl, oracle string
	skip         bool // the scenario cannot be realised (not recorded as a case)
}

func main() {
	if os.Getenv("VERIF_C27_CHILD") != "" {
		childMain()
		return
	}
	hx.Main("C27", func(c *hx.Ctx) {
		out := os.Getenv("VERIF_OUT")
		if out == "" {
			out = c.Dir
		}
		scratchRoot, _ = filepath.Abs(filepath.Join(out, "c27-scratch"))
		os.RemoveAll(scratchRoot)
		if err := os.MkdirAll(scratchRoot, 0o700); err != nil {
			panic(err)
		}
		defer os.RemoveAll(scratchRoot)
		selfPath, _ = os.Executable()
		if err := calibrate(); err != nil {
			fmt.Fprintln(os.Stderr, "C27: strace calibration failed:", err)
			os.Exit(3)
		}

		run := func(line string) result {
			s, ok := parseLine(line)
			if !ok {
				return result{impl: "bad-op"}
			}
			var r result
			impl := hx.Try(func() string {
				var i, o string
				switch s.kind {
				case "run":
					i, o = runInProcess(s)
				case "trace", "crash":
					i, o = runTraced(s)
				default:
					i = "bad-op"
				}
				r.oracle = o
				return i
			})
			r.impl = impl
			r.skip = impl == "unsupported"
			if strings.HasPrefix(impl, "panic:") {
				r.oracle = "class=panic " + impl
			}
			return r
		}
		emit := func(line string, r result) {
			if r.skip {
				c.Count("skipped-unrealisable")
				return
			}
			s, _ := parseLine(line)
			key := ""
			if s != nil {
				ops := ""
				if i := strings.Index(r.impl, "ops="); i >= 0 {
					ops = strings.Fields(r.impl[i:])[0]
				}
				key = fmt.Sprintf("%s %s %v %v %s %v %d %s", s.kind, s.api, s.hasOld, len(s.data) == 0, s.fault, s.unlinkFail, s.crash, ops)
				c.Count(s.kind + "-" + s.fault)
			}
			c.Case(line, r.impl, r.oracle, key)
		}
		// Child-process cases run on a worker pool; results are emitted in order.
		batch := func(lines []string) {
			results := make([]result, len(lines))
			var wg sync.WaitGroup
			sem := make(chan struct{}, 12)
			for i := range lines {
				wg.Add(1)
				sem <- struct{}{}
				go func(i int) {
					defer wg.Done()
					results[i] = run(lines[i])
					<-sem
				}(i)
			}
			wg.Wait()
			for i := range lines {
				emit(lines[i], results[i])
			}
		}
		if lines := c.ReplayLines(); lines != nil {
			batch(lines)
			return
		}

		// seqLen: number of operations observed for the scenario of a trace line.
		seqLen := func(s *scenario) int {
			seqCacheLock.Lock()
			defer seqCacheLock.Unlock()
			return len(seqCache[s.cacheKey()])
		}
		// 1. Exhaustive over (old present, fault, cleanup failure) for
		// WriteFileAtomic, and the fault-free and marshal-failure cases of
		// MarshalAndSave: the operation sequence, then a kill before every
		// operation and after the last one.
		faults := []string{"none", "create", "write", "close", "chmod", "rename"}
		var scenarios []*scenario
		for _, api := range []string{"wfa", "mas"} {
			for _, hasOld := range []bool{false, true} {
				fs := faults
				if api == "mas" {
					fs = []string{"none", "marshal"}
					if c.Thorough() {
						fs = append(append([]string(nil), faults...), "marshal")
					}
				}
				for _, fault := range fs {
					for _, unlinkFail := range []bool{false, true} {
						if unlinkFail && (fault == "none" || fault == "create" || fault == "marshal") {
							continue
						}
						s := &scenario{kind: "trace", api: api, hasOld: hasOld, data: []byte("the new content"), perm: 0o644, fault: fault, unlinkFail: unlinkFail, crash: -1}
						if hasOld {
							s.old = []byte("old content")
						}
						scenarios = append(scenarios, s)
						c.Count("exhaustive-scenarios")
					}
				}
			}
		}
		// 2. Random scenarios; each gets one or two random kill points.
		nExhaustive := len(scenarios)
		for i := 0; i < c.Size(30, 400); i++ {
			s := genScenario(c.R, "trace")
			s.fault = faults[c.R.Intn(len(faults))]
			if c.R.Chance(1, 3) {
				s.fault = "none"
			}
			if s.api == "mas" && c.R.Chance(1, 10) {
				s.fault = "marshal"
			}
			if s.fault != "none" && s.fault != "create" && s.fault != "marshal" && c.R.Chance(1, 3) {
				s.unlinkFail = true
			}
			scenarios = append(scenarios, s)
		}
		var lines []string
		for _, s := range scenarios {
			lines = append(lines, s.line())
		}
		batch(lines)
		lines = nil
		for i, s := range scenarios {
			n := seqLen(s)
			t := *s
			t.kind = "crash"
			if i < nExhaustive {
				for k := 0; k <= n; k++ {
					t.crash = k
					lines = append(lines, t.line())
				}
			} else {
				for j := 0; j < 1+c.R.Intn(2); j++ {
					t.crash = c.R.Intn(n + 1)
					lines = append(lines, t.line())
				}
			}
		}
		batch(lines)

		// 3. In-process bulk.
		for i := 0; i < c.Size(12000, 200000); i++ {
			s := genScenario(c.R, "run")
			switch c.R.Intn(6) {
			case 0:
				s.fault = "rename"
			case 1:
				s.fault, s.hasOld, s.old = "create", false, nil
			case 2:
				if s.api == "mas" {
					s.fault = "marshal"
				}
			}
			line := s.line()
			emit(line, run(line))
		}
	})
}
