// C14: Mutagen-style ignores follow last-match-wins and prune ignored directories.
//
// Streams on the real code (strings travel as hex of UTF-8):
//
//	g  doublestar.ValidatePattern / doublestar.Match directly (the library the
//	   ignorer delegates to) — differential test against the Lean reference matcher
//	p  newIgnorePattern (verif export): negation, directory-only, leaf flag, cleaned pattern
//	i  mutagen.NewIgnorer(patterns).Ignore(path, directory)
//	v  the same through ignore.IgnoreVCS
//	s  core.Scan of a real directory tree with those patterns: the snapshot
//
// Oracle (independent of the Lean model and of doublestar): patterns are
// generated from a *structure* (negation, anchoring slash, segments of
// literals / * / ? / classes or a whole-segment **, trailing slash); the
// expected per-pattern match is computed from that structure through Go's
// regexp package; the expected status is "the last matching pattern decides";
// the expected snapshot is the walk that records an ignored entry as untracked
// and never descends into it. Free-text ("odd") patterns have no structure: for
// them the oracle checks last-match-wins against the real per-pattern matches.
package main

import (
	"context"
	"crypto/sha1"
	"encoding/hex"
	"fmt"
	"os"
	"path/filepath"
	"regexp"
	"sort"
	"strings"
	"syscall"

	"github.com/bmatcuk/doublestar/v4"

	"github.com/mutagen-io/mutagen/pkg/filesystem/behavior"
	"github.com/mutagen-io/mutagen/pkg/synchronization/core"
	"github.com/mutagen-io/mutagen/pkg/synchronization/core/ignore"
	"github.com/mutagen-io/mutagen/pkg/synchronization/core/ignore/mutagen"

	"verif/harness/hx"
)

// ---- structured patterns -------------------------------------------------

type atom struct {
	kind byte   // 'c' literal, '*', '?', '['
	lit  string // literal character, or the class text between the brackets
}

type seg struct {
	dstar bool
	atoms []atom
}

type spat struct {
	neg, lead, trail bool
	segs             []seg
}

func (s seg) text() string {
	if s.dstar {
		return "**"
	}
	var b strings.Builder
	for _, a := range s.atoms {
		switch a.kind {
		case 'c':
			b.WriteString(a.lit)
		case '[':
			b.WriteString("[" + a.lit + "]")
		default:
			b.WriteByte(a.kind)
		}
	}
	return b.String()
}

func (p *spat) body() string {
	parts := make([]string, len(p.segs))
	for i, s := range p.segs {
		parts[i] = s.text()
	}
	return strings.Join(parts, "/")
}

func (p *spat) text() string {
	t := p.body()
	if p.lead {
		t = "/" + t
	}
	if p.trail {
		t += "/"
	}
	if p.neg {
		t = "!" + t
	}
	return t
}

// regex translates the body. classSlash=false is the reading in which a
// character class, like * and ?, never matches the separator. selfMatch=true
// is the reading in which a trailing "/**" also matches the directory itself
// (doublestar's documented behaviour), false the one in which it matches only
// what lies beneath it (gitignore's).
func (p *spat) regex(classSlash, selfMatch bool) *regexp.Regexp {
	var b strings.Builder
	b.WriteString("^")
	for i, s := range p.segs {
		first, last := i == 0, i == len(p.segs)-1
		if s.dstar {
			switch {
			case first && last:
				b.WriteString("(?s:.*)")
			case first:
				b.WriteString("(?s:.*/)?")
			case last && selfMatch:
				b.WriteString("(?s:/.*)?")
			case last:
				b.WriteString("(?s:/.*)")
			default:
				b.WriteString("/(?s:.*/)?")
			}
			continue
		}
		if i > 0 && !p.segs[i-1].dstar {
			b.WriteString("/")
		}
		for _, a := range s.atoms {
			switch a.kind {
			case 'c':
				b.WriteString(regexp.QuoteMeta(a.lit))
			case '*':
				b.WriteString("[^/]*")
			case '?':
				b.WriteString("[^/]")
			case '[':
				body := a.lit
				if body[0] == '!' || body[0] == '^' {
					if classSlash {
						b.WriteString("[^" + body[1:] + "]")
					} else {
						b.WriteString("[^/" + body[1:] + "]")
					}
				} else {
					b.WriteString("[" + body + "]")
				}
			}
		}
	}
	b.WriteString("$")
	return regexp.MustCompile(b.String())
}

func base(path string) string {
	if i := strings.LastIndexByte(path, '/'); i >= 0 {
		return path[i+1:]
	}
	return path
}

// expect is the statement's reading of one pattern.
func (p *spat) expect(path string, dir bool, classSlash, selfMatch bool) bool {
	if p.trail && !dir {
		return false
	}
	re := p.regex(classSlash, selfMatch)
	if re.MatchString(path) {
		return true
	}
	if !p.lead && len(p.segs) == 1 {
		return re.MatchString(base(path))
	}
	return false
}

var letters = []string{"a", "b", "c", ".", "é"}

func genSeg(r *hx.Rand) seg {
	for {
		n := 1 + r.Intn(4)
		var s seg
		prevStar := false
		for i := 0; i < n; i++ {
			switch x := r.Intn(10); {
			case x < 5:
				s.atoms = append(s.atoms, atom{'c', letters[r.Intn(len(letters))]})
				prevStar = false
			case x < 7:
				if prevStar {
					continue
				}
				s.atoms = append(s.atoms, atom{'*', ""})
				prevStar = true
			case x < 8:
				s.atoms = append(s.atoms, atom{'?', ""})
				prevStar = false
			default:
				s.atoms = append(s.atoms, atom{'[', r.Pick("a", "ab", "a-c", "b-c", "!a", "^ab", "!a-b", "^c", "ac", "a-bc", "b-", "!b-")})
				prevStar = false
			}
		}
		if t := s.text(); t == "" || t == "." || t == ".." || t == "**" {
			continue
		}
		return s
	}
}

func genPattern(r *hx.Rand) *spat {
	p := &spat{neg: r.Chance(1, 3), lead: r.Chance(1, 4), trail: r.Chance(1, 4)}
	n := 1
	if r.Chance(1, 2) {
		n = 1 + r.Intn(3)
	}
	for i := 0; i < n; i++ {
		if r.Chance(1, 5) && (i == 0 || !p.segs[i-1].dstar) {
			p.segs = append(p.segs, seg{dstar: true})
		} else {
			p.segs = append(p.segs, genSeg(r))
		}
	}
	return p
}

var oddChunks = []string{"a", "b", "*", "**", "***", "?", "[a]", "[!a]", "[", "]", "/", "//", "./", "../", "!", " ", "é", "[a-", "[]", "[^]", "a**", "**/", "/**", ".", "..", "[a-c]", "-", "^"}

func genOdd(r *hx.Rand) string {
	n := 1 + r.Intn(5)
	var b strings.Builder
	for i := 0; i < n; i++ {
		b.WriteString(oddChunks[r.Intn(len(oddChunks))])
	}
	return b.String()
}

var nameParts = []string{"a", "b", "c", "ab", "ba", "abc", "a.b", ".a", "é", "aé", "cc", "b.c", "-", "a-"}
var vcsNames = []string{".git", ".svn", ".hg", ".bzr", "_darcs"}

func genName(r *hx.Rand) string {
	if r.Chance(1, 12) {
		return vcsNames[r.Intn(len(vcsNames))]
	}
	return nameParts[r.Intn(len(nameParts))]
}

func genPath(r *hx.Rand) string {
	n := 1 + r.Intn(4)
	parts := make([]string, n)
	for i := range parts {
		parts[i] = genName(r)
	}
	return strings.Join(parts, "/")
}

// ---- helpers ---------------------------------------------------------------

func hexs(s string) string { return hx.Hex([]byte(s)) }

func unhex(s string) string {
	if s == "-" || s == "_" {
		return ""
	}
	b, _ := hex.DecodeString(s)
	return string(b)
}

func patsField(ps []string) string {
	if len(ps) == 0 {
		return "-"
	}
	out := make([]string, len(ps))
	for i, p := range ps {
		if p == "" {
			out[i] = "_"
		} else {
			out[i] = hexs(p)
		}
	}
	return strings.Join(out, ",")
}

func parsePats(f string) []string {
	if f == "-" {
		return nil
	}
	var out []string
	for _, t := range strings.Split(f, ",") {
		out = append(out, unhex(t))
	}
	return out
}

func bit(b bool) string {
	if b {
		return "1"
	}
	return "0"
}

func parseErrKind(err error) string {
	m := err.Error()
	switch {
	case strings.HasSuffix(m, "negated empty pattern"):
		return "negated-empty"
	case strings.HasSuffix(m, "empty pattern"):
		return "empty"
	case strings.HasSuffix(m, "root directory pattern"):
		return "root-directory"
	case strings.HasSuffix(m, "root pattern"):
		return "root"
	case strings.Contains(m, "unable to validate pattern"):
		return "bad-pattern"
	}
	return "other"
}

func statusName(s ignore.IgnoreStatus) string {
	switch s {
	case ignore.IgnoreStatusNominal:
		return "nominal"
	case ignore.IgnoreStatusIgnored:
		return "ignored"
	case ignore.IgnoreStatusUnignored:
		return "unignored"
	}
	return "status?"
}

// regularText decides regularity of a free-text pattern (exhaustive stream):
// every "**" is a whole segment, no "*/**" tail, no empty segments in pattern
// or name, no negated class against a name with separators.
func regularText(p, name string) bool {
	if !doublestar.ValidatePattern(p) || strings.Contains(p, "***") || strings.HasSuffix(p, "*/**") {
		return false
	}
	for _, s := range strings.Split(p, "/") {
		if s == "" || (strings.Contains(s, "**") && s != "**") {
			return false
		}
	}
	for _, s := range strings.Split(name, "/") {
		if s == "" {
			return false
		}
	}
	if strings.Contains(name, "/") && (strings.Contains(p, "[!") || strings.Contains(p, "[^")) {
		return false
	}
	return true
}

func unsupported(p string) bool { return strings.ContainsAny(p, "{}\\") }

// lastMatchWins is the statement: the last matching pattern decides.
func lastMatchWins(pats []string, path string, dir bool) (string, error) {
	st := "nominal"
	for _, p := range pats {
		m, err := mutagen.VerifC14Matches(p, path, dir)
		if err != nil {
			return "", err
		}
		if m {
			if strings.HasPrefix(p, "!") {
				st = "unignored"
			} else {
				st = "ignored"
			}
		}
	}
	return st, nil
}

type tnode struct {
	name     string
	kind     byte // f l o d
	children []*tnode
}

func genTree(r *hx.Rand, depth int, budget *int) []*tnode {
	n := r.Intn(4)
	if depth == 0 {
		n = 1 + r.Intn(4)
	}
	seen := map[string]bool{}
	var out []*tnode
	for i := 0; i < n && *budget > 0; i++ {
		name := genName(r)
		if seen[name] {
			continue
		}
		seen[name] = true
		*budget--
		t := &tnode{name: name}
		switch x := r.Intn(10); {
		case x < 4 && depth < 3:
			t.kind = 'd'
			t.children = genTree(r, depth+1, budget)
		case x < 8:
			t.kind = 'f'
		case x < 9:
			t.kind = 'l'
		default:
			t.kind = 'o'
		}
		if strings.HasPrefix(name, ".") && len(name) > 2 && r.Chance(2, 3) {
			t.kind = 'd' // VCS names are mostly directories
			t.children = genTree(r, depth+1, budget)
		}
		out = append(out, t)
	}
	sort.Slice(out, func(i, j int) bool { return out[i].name < out[j].name })
	return out
}

func treeField(ts []*tnode) string {
	var toks []string
	var rec func(ts []*tnode)
	rec = func(ts []*tnode) {
		for _, t := range ts {
			toks = append(toks, string(t.kind)+":"+hexs(t.name))
			if t.kind == 'd' {
				toks = append(toks, "[")
				rec(t.children)
				toks = append(toks, "]")
			}
		}
	}
	rec(ts)
	if len(toks) == 0 {
		return "-"
	}
	return strings.Join(toks, ",")
}

func parseTree(f string) []*tnode {
	if f == "-" {
		return nil
	}
	toks := strings.Split(f, ",")
	pos := 0
	var rec func() []*tnode
	rec = func() []*tnode {
		var out []*tnode
		for pos < len(toks) && toks[pos] != "]" {
			kv := strings.SplitN(toks[pos], ":", 2)
			pos++
			t := &tnode{name: unhex(kv[1]), kind: kv[0][0]}
			if t.kind == 'd' {
				pos++ // [
				t.children = rec()
				pos++ // ]
			}
			out = append(out, t)
		}
		return out
	}
	return rec()
}

func materialize(dir string, ts []*tnode) {
	for _, t := range ts {
		p := filepath.Join(dir, t.name)
		switch t.kind {
		case 'd':
			if err := os.Mkdir(p, 0o755); err != nil {
				panic(err)
			}
			materialize(p, t.children)
		case 'f':
			if err := os.WriteFile(p, []byte("x"), 0o644); err != nil {
				panic(err)
			}
		case 'l':
			if err := os.Symlink("x", p); err != nil {
				panic(err)
			}
		case 'o':
			if err := syscall.Mkfifo(p, 0o644); err != nil {
				panic(err)
			}
		}
	}
}

func snapshotList(e *core.Entry) string {
	var out []string
	var rec func(prefix string, e *core.Entry)
	rec = func(prefix string, e *core.Entry) {
		names := make([]string, 0, len(e.Contents))
		for n := range e.Contents {
			names = append(names, n)
		}
		sort.Strings(names)
		for _, n := range names {
			c := e.Contents[n]
			p := n
			if prefix != "" {
				p = prefix + "/" + n
			}
			k := "x"
			switch c.Kind {
			case core.EntryKind_Directory:
				k = "d"
			case core.EntryKind_PhantomDirectory:
				k = "p"
			case core.EntryKind_File:
				k = "f"
			case core.EntryKind_SymbolicLink:
				k = "l"
			case core.EntryKind_Untracked:
				k = "u"
			}
			out = append(out, hexs(p)+":"+k)
			if c.Kind == core.EntryKind_Directory || c.Kind == core.EntryKind_PhantomDirectory {
				rec(p, c)
			}
		}
	}
	if e != nil {
		rec("", e)
	}
	if len(out) == 0 {
		return "-"
	}
	return strings.Join(out, ",")
}

func main() {
	hx.Main("C14", func(c *hx.Ctx) {
		quirkClassSlash := 0

		// structuredCheck compares a real per-pattern match with the structure's reading.
		structuredCheck := func(sp *spat, got bool, path string, dir bool) string {
			want := sp.expect(path, dir, false, true)
			if got == want {
				return ""
			}
			if sp.expect(path, dir, false, false) == got {
				// "x*/**" does not match "x" although "x/**" does (doublestar only
				// recognises a literal "/**" remainder as empty): both readings of a
				// trailing "/**" are accepted for the directory itself.
				c.Count("quirk:trailing-doublestar-self-match")
				return ""
			}
			if sp.expect(path, dir, true, true) == got || sp.expect(path, dir, true, false) == got {
				// doublestar lets a character class match '/': recorded, not judged
				// (the statement is silent on classes and the separator).
				quirkClassSlash++
				c.Count("quirk:class-matches-separator")
				return ""
			}
			return fmt.Sprintf("class=pattern-semantics pattern %q path %q dir=%v: matches=%v, structure says %v", sp.text(), path, dir, got, want)
		}

		doG := func(p, name string, sp *spat, forceRegular bool) {
			// Regular = the part of the grammar on which the library has to agree
			// with the clean specification (Lean: Glob.gmatch): structured pattern,
			// no negated class facing a name with separators, no "*/**" tail.
			regular := forceRegular
			if sp != nil && !forceRegular {
				regular = true
				for i, s := range sp.segs {
					for _, a := range s.atoms {
						if a.kind == '[' && (a.lit[0] == '!' || a.lit[0] == '^') && strings.Contains(name, "/") {
							regular = false
						}
					}
					if s.dstar && i == len(sp.segs)-1 && i > 0 {
						if prev := sp.segs[i-1]; len(prev.atoms) > 0 && prev.atoms[len(prev.atoms)-1].kind == '*' {
							regular = false
						}
					}
				}
			}
			line := "g " + bit(regular) + " " + hexs(p) + " " + hexs(name)
			if unsupported(p) {
				c.Case(line, "unsupported", "", "")
				return
			}
			agree := " -"
			if regular {
				agree = " 1"
				c.Count("g:regular")
			}
			oracle := ""
			valid := doublestar.ValidatePattern(p)
			if _, errA := doublestar.Match(p, "a"); errA == nil && !valid {
				// newIgnorePattern validates by matching against "a"; that accepts some
				// malformed patterns (e.g. "[!a"). Recorded, not judged (outside the statement).
				c.Count("quirk:invalid-pattern-passes-match-against-a")
			}
			m, err := doublestar.Match(p, name)
			ms := bit(m)
			if err != nil {
				ms = "bad"
				if valid {
					// doublestar validates lazily from wherever the search stopped, which can
					// be the middle of a class ("[!.[]" against ".x"): the library reports a
					// bad pattern for a valid one. ignorePattern.matches discards the error
					// (no match either way). Recorded, not judged.
					c.Count("quirk:valid-pattern-reported-bad")
				}
			}
			impl := bit(valid) + " " + ms + agree
			if valid && err == nil && sp != nil {
				q := &spat{segs: sp.segs, lead: true} // whole-name match only
				oracle = structuredCheck(q, m, name, true)
			}
			if !valid {
				c.Count("g:invalid")
			} else {
				c.Count("g:match=" + ms)
			}
			c.Case(line, impl, oracle, "g"+impl+p)
		}

		doP := func(p string, sp *spat) {
			line := "p " + hexs(p)
			if unsupported(p) {
				c.Case(line, "unsupported", "", "")
				return
			}
			oracle := ""
			impl := hx.Try(func() string {
				neg, dirOnly, leaf, cleaned, err := mutagen.VerifC14Parse(p)
				if err != nil {
					k := parseErrKind(err)
					c.Count("p:err:" + k)
					if sp != nil {
						oracle = fmt.Sprintf("class=parse-rejects-wellformed %q: %v", p, err)
					}
					return "err " + k
				}
				c.Count("p:ok")
				if sp != nil {
					if neg != sp.neg || dirOnly != sp.trail || leaf != (!sp.lead && len(sp.segs) == 1) || cleaned != sp.body() {
						oracle = fmt.Sprintf("class=parse-fields %q parsed as neg=%v dirOnly=%v leaf=%v %q", p, neg, dirOnly, leaf, cleaned)
					}
				}
				return "ok " + bit(neg) + bit(dirOnly) + bit(leaf) + " " + hexs(cleaned)
			})
			if strings.HasPrefix(impl, "panic:") {
				oracle = "class=panic " + impl
			}
			c.Case(line, impl, oracle, "p"+impl)
		}

		doI := func(kind string, dir bool, path string, pats []string, sps []*spat) {
			line := kind + " " + bit(dir) + " " + hexs(path) + " " + patsField(pats)
			for _, p := range pats {
				if unsupported(p) {
					c.Case(line, "unsupported", "", "")
					return
				}
			}
			oracle := ""
			impl := hx.Try(func() string {
				ig, err := mutagen.NewIgnorer(pats)
				if err != nil {
					k := parseErrKind(err)
					c.Count(kind + ":invalid:" + k)
					return "invalid " + k
				}
				inner := ig
				if kind == "v" {
					ig = ignore.IgnoreVCS(ig)
				}
				st, cont := ig.Ignore(path, dir)
				got := statusName(st)
				c.Count(kind + ":" + got)
				if cont {
					oracle = "class=continue-traversal Mutagen-style ignorer asked to continue traversal"
				}
				want, err := lastMatchWins(pats, path, dir)
				if err != nil {
					oracle = "class=parse-inconsistent pattern accepted by NewIgnorer but not alone: " + err.Error()
				}
				if kind == "v" && dir {
					for _, v := range vcsNames {
						if base(path) == v {
							want = "ignored"
						}
					}
				}
				if oracle == "" && got != want {
					oracle = fmt.Sprintf("class=last-match-wins path %q dir=%v patterns %q: got %s, last matching pattern says %s", path, dir, pats, got, want)
				}
				if kind == "v" && oracle == "" {
					ist, _ := inner.Ignore(path, dir)
					if statusName(ist) != got && want != "ignored" {
						oracle = "class=vcs-wrapper changed a non-VCS answer"
					}
				}
				if oracle == "" {
					for i, sp := range sps {
						if sp == nil {
							continue
						}
						m, _ := mutagen.VerifC14Matches(pats[i], path, dir)
						if o := structuredCheck(sp, m, path, dir); o != "" {
							oracle = o
							break
						}
					}
				}
				return got + " " + bit(cont)
			})
			if strings.HasPrefix(impl, "panic:") {
				oracle = "class=panic " + impl
			}
			key := ""
			if len(pats) > 1 && !strings.HasPrefix(impl, "nominal") {
				key = kind + impl + strings.Join(pats, "\x00") + "\x01" + path
			}
			c.Case(line, impl, oracle, key)
		}

		scanSeq := 0
		doS := func(vcs bool, pats []string, tree []*tnode) {
			line := "s " + bit(vcs) + " " + patsField(pats) + " " + treeField(tree)
			for _, p := range pats {
				if unsupported(p) {
					c.Case(line, "unsupported", "", "")
					return
				}
			}
			ig, err := mutagen.NewIgnorer(pats)
			if err != nil {
				c.Case(line, "invalid "+parseErrKind(err), "", "")
				return
			}
			if vcs {
				ig = ignore.IgnoreVCS(ig)
			}
			scanSeq++
			root := filepath.Join(c.Dir, fmt.Sprintf("scan%d", scanSeq))
			if err := os.MkdirAll(root, 0o755); err != nil {
				panic(err)
			}
			defer os.RemoveAll(root)
			materialize(root, tree)
			snap, _, _, err := core.Scan(context.Background(), root, nil, nil, sha1.New(), nil, ig, nil,
				behavior.ProbeMode_ProbeModeAssume, core.SymbolicLinkMode_SymbolicLinkModePortable, core.PermissionsMode_PermissionsModePortable)
			if err != nil {
				panic(err)
			}
			impl := snapshotList(snap.Content)
			// Expected snapshot: ignored entries are untracked and never descended into.
			var want []string
			var rec func(prefix string, ts []*tnode)
			rec = func(prefix string, ts []*tnode) {
				for _, t := range ts {
					p := t.name
					if prefix != "" {
						p = prefix + "/" + t.name
					}
					if t.kind == 'o' {
						want = append(want, hexs(p)+":u")
						continue
					}
					st, _ := lastMatchWins(pats, p, t.kind == 'd')
					if vcs && t.kind == 'd' {
						for _, v := range vcsNames {
							if t.name == v {
								st = "ignored"
							}
						}
					}
					if st == "ignored" {
						want = append(want, hexs(p)+":u")
						continue
					}
					want = append(want, hexs(p)+":"+string(t.kind))
					if t.kind == 'd' {
						rec(p, t.children)
					}
				}
			}
			rec("", tree)
			w := "-"
			if len(want) > 0 {
				w = strings.Join(want, ",")
			}
			oracle := ""
			if strings.Contains(impl, ":p") {
				oracle = "class=phantom-directory Mutagen-style scan produced a phantom directory"
			} else if impl != w {
				oracle = fmt.Sprintf("class=scan-pruning snapshot %s, expected %s", impl, w)
			}
			c.Count("s:scan")
			if strings.Contains(impl, ":u") {
				c.Count("s:with-untracked")
			}
			c.Case(line, impl, oracle, "s"+impl+strings.Join(pats, "\x00"))
		}

		if lines := c.ReplayLines(); lines != nil {
			for _, l := range lines {
				f := strings.Fields(l)
				switch {
				case len(f) == 4 && f[0] == "g":
					doG(unhex(f[2]), unhex(f[3]), nil, f[1] == "1")
				case len(f) == 2 && f[0] == "p":
					doP(unhex(f[1]), nil)
				case len(f) == 4 && (f[0] == "i" || f[0] == "v"):
					doI(f[0], f[1] == "1", unhex(f[2]), parsePats(f[3]), nil)
				case len(f) == 4 && f[0] == "s":
					doS(f[1] == "1", parsePats(f[2]), parseTree(f[3]))
				default:
					c.Case(l, "bad-op", "", "")
				}
			}
			return
		}

		r := c.R
		// 1. Glob matcher: exhaustive small space, then random.
		{
			pal := []string{"a", "b", "*", "?", "/", "[a]", "[!a]", "**"}
			nal := []string{"a", "b", "/"}
			var pats, names []string
			var gen func(al []string, cur string, n int, out *[]string)
			gen = func(al []string, cur string, n int, out *[]string) {
				if cur != "" {
					*out = append(*out, cur)
				}
				if n == 0 {
					return
				}
				for _, a := range al {
					gen(al, cur+a, n-1, out)
				}
			}
			gen(pal, "", c.Size(3, 4), &pats)
			gen(nal, "", c.Size(4, 5), &names)
			for _, p := range pats {
				for _, n := range names {
					doG(p, n, nil, regularText(p, n))
					c.Count("exhaustive-glob")
				}
			}
			c.Note(fmt.Sprintf("exhaustive glob: %d patterns over %v x %d names over %v", len(pats), pal, len(names), nal))
		}
		for i := 0; i < c.Size(20000, 600000); i++ {
			sp := genPattern(r)
			name := genPath(r)
			if r.Chance(1, 6) {
				doG(genOdd(r), name, nil, false)
			} else {
				doG(sp.body(), name, sp, false)
			}
		}
		// 2. Pattern parsing.
		for i := 0; i < c.Size(6000, 100000); i++ {
			if r.Chance(1, 3) {
				doP(genOdd(r), nil)
			} else {
				sp := genPattern(r)
				doP(sp.text(), sp)
			}
		}
		for _, p := range []string{"", "!", "/", "//", "!/", "!//", "///", "a/", "/a", "/a/", "!a", "!!a", "a//b", "./a", "a/..", "a/../", "../a", "/..", "/../", "./", ".", "..", "[", "[]", "[a", "a/[", "**", "/**", "**/", "!**/a/"} {
			doP(p, nil)
		}
		// 3. The ignorer.
		for i := 0; i < c.Size(25000, 800000); i++ {
			n := r.Intn(7)
			pats := make([]string, n)
			sps := make([]*spat, n)
			for j := range pats {
				if r.Chance(1, 12) {
					pats[j] = genOdd(r)
				} else {
					sps[j] = genPattern(r)
					pats[j] = sps[j].text()
				}
			}
			kind := "i"
			if r.Chance(1, 5) {
				kind = "v"
			}
			doI(kind, r.Chance(1, 2), genPath(r), pats, sps)
		}
		// 4. Scans of real trees.
		for i := 0; i < c.Size(400, 6000); i++ {
			budget := 14
			tree := genTree(r, 0, &budget)
			n := r.Intn(5)
			var pats []string
			for j := 0; j < n; j++ {
				sp := genPattern(r)
				if r.Chance(1, 2) {
					// bias towards patterns that hit names of this tree
					sp = &spat{neg: r.Chance(1, 3), trail: r.Chance(1, 4), lead: r.Chance(1, 4), segs: []seg{{atoms: []atom{{'c', genName(r)}}}}}
				}
				pats = append(pats, sp.text())
			}
			doS(r.Chance(1, 2), pats, tree)
		}
		if quirkClassSlash > 0 {
			c.Note(fmt.Sprintf("observed %d cases where a character class matched the path separator (doublestar behaviour; e.g. pattern a[!b]c matches path a/c) — outside the statement, recorded only", quirkClassSlash))
		}
	})
}
