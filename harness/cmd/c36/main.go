// C36: endpoint URL components are never treated as command-line options.
//
// For SSH and Docker URLs whose user / host / container components start with
// '-' or contain option-like text (and ordinary ones), runs the real URL
// validation and, when the URL is accepted, the real agent transports against
// recording fake `ssh`, `scp` and `docker` executables (found through
// MUTAGEN_SSH_PATH / MUTAGEN_DOCKER_PATH), and compares the recorded argument
// vectors with the Lean model (Model/Argv.lean). url.Parse is run on the
// corresponding URL texts as well (C38 line protocol).
//
// Oracle (written without the model): in every recorded vector, an element
// that starts with '-' is one of the fixed options Mutagen itself passes or
// the value of the preceding value-taking option; the URL-derived operand is
// where it belongs. A URL with an option-like component must have been
// rejected by EnsureValid before anything ran.
package main

import (
	"bytes"
	"fmt"
	"os"
	"path/filepath"
	"regexp"
	"sort"
	"strconv"
	"strings"

	dockertransport "github.com/mutagen-io/mutagen/pkg/agent/transport/docker"
	sshtransport "github.com/mutagen-io/mutagen/pkg/agent/transport/ssh"
	"github.com/mutagen-io/mutagen/pkg/url"

	"verif/harness/hx"
	"verif/harness/urlx"
)

var (
	fakeDir string
	logPath string
)

const recorder = `#!/bin/sh
{ printf '%s\0' "$@"; printf '\001\0'; } >> "$VERIF_C36_LOG"
case "$*" in
  *" env") printf 'HOME=%s\nPATH=/bin\n' "$VERIF_C36_HOME";;
  *" id -un") printf '%s\n' "$VERIF_C36_USER";;
  *" id -gn") printf '%s\n' "$VERIF_C36_GROUP";;
esac
exit 0
`

func setup(dir string) {
	abs, _ := filepath.Abs(dir)
	fakeDir = filepath.Join(abs, "fake")
	os.RemoveAll(fakeDir)
	if err := os.MkdirAll(fakeDir, 0o755); err != nil {
		panic(err)
	}
	for _, name := range []string{"ssh", "scp", "docker"} {
		if err := os.WriteFile(filepath.Join(fakeDir, name), []byte(recorder), 0o755); err != nil {
			panic(err)
		}
	}
	logPath = filepath.Join(fakeDir, "argv.log")
	os.Setenv("MUTAGEN_SSH_PATH", fakeDir)
	os.Setenv("MUTAGEN_DOCKER_PATH", fakeDir)
	os.Setenv("VERIF_C36_LOG", logPath)
	if os.Getenv("MUTAGEN_SSH_CONNECT_TIMEOUT") != "" {
		fmt.Fprintln(os.Stderr, "MUTAGEN_SSH_CONNECT_TIMEOUT must be unset")
		os.Exit(3)
	}
}

// takeLog returns the argument vectors recorded since the last call.
func takeLog() [][]string {
	data, _ := os.ReadFile(logPath)
	os.Remove(logPath)
	var out [][]string
	var cur []string
	for _, f := range bytes.Split(data, []byte{0}) {
		if string(f) == "\x01" {
			out = append(out, cur)
			cur = nil
			continue
		}
		cur = append(cur, string(f))
	}
	return out
}

func showArgs(a []string) string {
	parts := make([]string, len(a))
	for i, s := range a {
		parts[i] = urlx.Hexs(s)
	}
	return fmt.Sprintf("%d:%s", len(a), strings.Join(parts, ","))
}

var fixedOption = regexp.MustCompile(`^(-C|-oConnectTimeout=[0-9]+|-oServerAliveInterval=[0-9]+|-oServerAliveCountMax=[0-9]+|--interactive|--tls|--tlsverify)$`)
var valueOption = regexp.MustCompile(`^(-p|-P|--user|--workdir|--config|--host|--context|--tlscacert|--tlscert|--tlskey)$`)

// scan is the oracle's reading of a recorded vector: it returns the operands
// (elements that are neither fixed options nor option values) and complains
// about any other element that a getopt-style parser would take for an option.
// stopAfter > 0: elements after that many operands belong to the remote
// command (ssh, docker exec) and are not inspected.
func scan(argv []string, stopAfter int) (operands []string, complaint string) {
	for i := 0; i < len(argv); i++ {
		a := argv[i]
		if stopAfter > 0 && len(operands) >= stopAfter {
			operands = append(operands, a)
			continue
		}
		switch {
		case valueOption.MatchString(a):
			i++ // the value, whatever it looks like
		case fixedOption.MatchString(a):
		case strings.HasPrefix(a, "-"):
			if complaint == "" {
				complaint = fmt.Sprintf("element %d %q would be read as an option", i, a)
			}
		default:
			operands = append(operands, a)
		}
	}
	return
}

func runSSH(withCopy bool, user, host string, port uint32, command, sourceBase, remoteName string) (impl, oracle string) {
	u := &url.URL{Kind: url.Kind_Synchronization, Protocol: url.Protocol_SSH, User: user, Host: host, Port: port, Path: "/p"}
	if err := u.EnsureValid(); err != nil {
		return "invalid:" + urlx.ValidErrClass(err), ""
	}
	fail := func(format string, a ...any) {
		if oracle == "" {
			oracle = "class=option-injection " + fmt.Sprintf("ssh user=%q host=%q: ", user, host) + fmt.Sprintf(format, a...)
		}
	}
	t, err := sshtransport.NewTransport(u.User, u.Host, uint16(u.Port), "")
	if err != nil {
		return "error:" + err.Error(), ""
	}
	cmd, err := t.Command(command)
	if err != nil {
		return "error:" + err.Error(), ""
	}
	cmdArgs := cmd.Args[1:]
	target := host
	if user != "" {
		target = user + "@" + host
	}
	if ops, complaint := scan(cmdArgs, 1); complaint != "" {
		fail("ssh %q: %s", cmdArgs, complaint)
	} else if len(ops) != 2 || ops[0] != target || ops[1] != command {
		fail("ssh %q: operands %q, expected target %q and the command", cmdArgs, ops, target)
	}
	if !withCopy {
		return fmt.Sprintf("valid cmd=%s", showArgs(cmdArgs)), oracle
	}
	takeLog()
	if err := t.Copy(filepath.Join(fakeDir, sourceBase), remoteName); err != nil {
		return "error:" + err.Error(), ""
	}
	rec := takeLog()
	if len(rec) != 1 {
		return fmt.Sprintf("error:scp ran %d times", len(rec)), ""
	}
	if ops, complaint := scan(rec[0], 0); complaint != "" {
		fail("scp %q: %s", rec[0], complaint)
	} else if len(ops) != 2 || ops[0] != sourceBase || ops[1] != target+":"+remoteName {
		fail("scp %q: operands %q, expected source and %q", rec[0], ops, target+":"+remoteName)
	}
	return fmt.Sprintf("valid cmd=%s scp=%s", showArgs(cmdArgs), showArgs(rec[0])), oracle
}

// runDockerCommand checks the vector built by dockerTransport.command without
// starting anything.
func runDockerCommand(user, container string, params map[string]string, command, workdir, override string) (impl, oracle string) {
	u := &url.URL{Kind: url.Kind_Synchronization, Protocol: url.Protocol_Docker, User: user, Host: container, Path: "/p", Parameters: params}
	if err := u.EnsureValid(); err != nil {
		return "invalid:" + urlx.ValidErrClass(err), ""
	}
	t, err := dockertransport.NewTransport(u.Host, u.User, u.Environment, u.Parameters, "")
	if err != nil {
		return "valid flags-error", ""
	}
	argv, err := dockertransport.VerifC36CommandArguments(t, command, workdir, override)
	if err != nil {
		return "error:" + err.Error(), ""
	}
	argv = argv[1:]
	ops, complaint := scan(argv, 2)
	if complaint != "" {
		oracle = fmt.Sprintf("class=option-injection docker user=%q container=%q: exec %q: %s", user, container, argv, complaint)
	} else if len(ops) < 2 || ops[0] != "exec" || ops[1] != container || strings.Join(ops[2:], " ") != command {
		oracle = fmt.Sprintf("class=option-injection docker user=%q container=%q: exec %q: operands %q", user, container, argv, ops)
	}
	return fmt.Sprintf("valid cmd=%s", showArgs(argv)), oracle
}

func runDocker(user, container string, params map[string]string, command, localPath, remoteName, home, puser, pgroup string) (impl, oracle string) {
	u := &url.URL{Kind: url.Kind_Synchronization, Protocol: url.Protocol_Docker, User: user, Host: container, Path: "/p", Parameters: params}
	if err := u.EnsureValid(); err != nil {
		return "invalid:" + urlx.ValidErrClass(err), ""
	}
	fail := func(format string, a ...any) {
		if oracle == "" {
			oracle = "class=option-injection " + fmt.Sprintf("docker user=%q container=%q: ", user, container) + fmt.Sprintf(format, a...)
		}
	}
	t, err := dockertransport.NewTransport(u.Host, u.User, u.Environment, u.Parameters, "")
	if err != nil {
		return "valid flags-error", ""
	}
	os.Setenv("VERIF_C36_HOME", home)
	os.Setenv("VERIF_C36_USER", puser)
	os.Setenv("VERIF_C36_GROUP", pgroup)
	takeLog()
	cmd, err := t.Command(command)
	if err != nil {
		return "error:" + err.Error(), ""
	}
	probes := takeLog()
	if len(probes) != 3 {
		return fmt.Sprintf("error:%d probe invocations", len(probes)), ""
	}
	// exec-style vectors: options, then the container, then the command
	checkExec := func(name string, argv []string, words []string) {
		ops, complaint := scan(argv, 2)
		if complaint != "" {
			fail("%s %q: %s", name, argv, complaint)
		} else if len(ops) < 2 || ops[0] != "exec" || ops[1] != container || strings.Join(ops[2:], " ") != strings.Join(words, " ") {
			fail("%s %q: operands %q, expected exec, container %q, then the command", name, argv, ops, container)
		}
	}
	checkExec("probe", probes[0], []string{"env"})
	checkExec("probe", probes[1], []string{"id", "-un"})
	checkExec("probe", probes[2], []string{"id", "-gn"})
	cmdArgs := cmd.Args[1:]
	checkExec("command", cmdArgs, strings.Split(command, " "))
	if err := t.Copy(localPath, remoteName); err != nil {
		return "error:" + err.Error(), ""
	}
	rec := takeLog()
	if len(rec) != 2 {
		return fmt.Sprintf("error:%d copy invocations", len(rec)), ""
	}
	if ops, complaint := scan(rec[0], 0); complaint != "" {
		fail("cp %q: %s", rec[0], complaint)
	} else if len(ops) != 3 || ops[0] != "cp" || ops[1] != localPath || ops[2] != container+":"+home+"/"+remoteName {
		fail("cp %q: operands %q", rec[0], ops)
	}
	checkExec("chown", rec[1], []string{"chown", puser + ":" + pgroup, remoteName})
	var status [][]string
	for _, stop := range []bool{true, false} {
		if err := dockertransport.VerifC36ChangeContainerStatus(t, stop); err != nil {
			return "error:" + err.Error(), ""
		}
		r := takeLog()
		if len(r) != 1 {
			return fmt.Sprintf("error:%d status invocations", len(r)), ""
		}
		verb := "start"
		if stop {
			verb = "stop"
		}
		if ops, complaint := scan(r[0], 0); complaint != "" {
			fail("%s %q: %s", verb, r[0], complaint)
		} else if len(ops) != 2 || ops[0] != verb || ops[1] != container {
			fail("%s %q: operands %q", verb, r[0], ops)
		}
		status = append(status, r[0])
	}
	return fmt.Sprintf("valid probe=%s;%s;%s cmd=%s cp=%s chown=%s stop=%s start=%s",
		showArgs(probes[0]), showArgs(probes[1]), showArgs(probes[2]), showArgs(cmdArgs),
		showArgs(rec[0]), showArgs(rec[1]), showArgs(status[0]), showArgs(status[1])), oracle
}

// --- generators ---

var (
	users      = []string{"", "", "user", "u", "root", "üser", "a.b", "u-v", "u@v", "0", "a b"}
	dashUsers  = []string{"-l", "-luser", "-oProxyCommand=touch x", "-", "--", "-v", "--user", "-p"}
	hosts      = []string{"host", "h", "example.com", "10.0.0.1", "höst", "h-x", "a@b", "[::1]", "cont", "my_container.1"}
	dashHosts  = []string{"-oProxyCommand=touch x", "-v", "-", "--", "--help", "-p", "-P", "-C", "--interactive", "-oConnectTimeout=1", "--tls", "--user", "-i/key"}
	commands   = []string{".mutagen/agents/1.0.0/mutagen-agent synchronizer", "agent forwarder", "x", "a  b", "a b c d", ""}
	bases      = []string{"mutagen-agent", "agent.bin", "a b"}
	remotes    = []string{".mutagen-agent-1234", "x", "a b"}
	homes      = []string{"/root", "/home/user", "/h x"}
	groups     = []string{"root", "users", "g"}
	paramNames = []string{"config", "context", "host", "tls", "tlscacert", "tlscert", "tlskey", "tlsverify", "bogus"}
	paramVals  = []string{"", "x", "/p/q", "tcp://h:1"}
)

type gen struct{ r *hx.Rand }

func (g *gen) pick(xs []string) string { return xs[g.r.Intn(len(xs))] }

func (g *gen) component(plain, dash []string, dashOdds int) string {
	if g.r.Chance(1, dashOdds) {
		return g.pick(dash)
	}
	return g.pick(plain)
}

func sshLine(user, host string, port int, command, base, remote string) string {
	return fmt.Sprintf("ssh %s %s %d %s %s %s", urlx.Hexs(user), urlx.Hexs(host), port, urlx.Hexs(command), urlx.Hexs(base), urlx.Hexs(remote))
}

func paramField(params map[string]string) string {
	p := "-"
	if len(params) > 0 {
		var keys []string
		for k := range params {
			keys = append(keys, k)
		}
		sort.Strings(keys)
		var parts []string
		for _, k := range keys {
			parts = append(parts, k+"="+urlx.Hexs(params[k]))
		}
		p = strings.Join(parts, ",")
	}
	return p
}

func sshcLine(user, host string, port int, command string) string {
	return fmt.Sprintf("sshc %s %s %d %s", urlx.Hexs(user), urlx.Hexs(host), port, urlx.Hexs(command))
}

func dockercLine(user, container string, params map[string]string, command, workdir, override string) string {
	return fmt.Sprintf("dockerc %s %s %s %s %s %s", urlx.Hexs(user), urlx.Hexs(container), paramField(params), urlx.Hexs(command), urlx.Hexs(workdir), urlx.Hexs(override))
}

func dockerLine(user, container string, params map[string]string, command, local, remote, home, puser, pgroup string) string {
	return fmt.Sprintf("docker %s %s %s %s %s %s %s %s %s", urlx.Hexs(user), urlx.Hexs(container), paramField(params), urlx.Hexs(command),
		urlx.Hexs(local), urlx.Hexs(remote), urlx.Hexs(home), urlx.Hexs(puser), urlx.Hexs(pgroup))
}

func parseParams(field string) map[string]string {
	if field == "-" {
		return nil
	}
	params := map[string]string{}
	for _, item := range strings.Split(field, ",") {
		kv := strings.SplitN(item, "=", 2)
		params[kv[0]] = unhexOr(kv[1])
	}
	return params
}

func unhexOr(s string) string {
	v, _ := urlx.Unhex(s)
	return v
}

func main() {
	hx.Main("C36", func(c *hx.Ctx) {
		setup(c.Dir)
		defer os.RemoveAll(fakeDir)
		os.Unsetenv("MUTAGEN_EXTENSION")
		for _, n := range urlx.EnvNames {
			os.Unsetenv(n)
		}
		emitLine := func(line string) {
			f := strings.Fields(line)
			var impl, oracle string
			switch {
			case len(f) == 7 && f[0] == "ssh":
				port, _ := strconv.Atoi(f[3])
				impl = hx.Try(func() string {
					i, o := runSSH(true, unhexOr(f[1]), unhexOr(f[2]), uint32(port), unhexOr(f[4]), unhexOr(f[5]), unhexOr(f[6]))
					oracle = o
					return i
				})
			case len(f) == 5 && f[0] == "sshc":
				port, _ := strconv.Atoi(f[3])
				impl = hx.Try(func() string {
					i, o := runSSH(false, unhexOr(f[1]), unhexOr(f[2]), uint32(port), unhexOr(f[4]), "", "")
					oracle = o
					return i
				})
			case len(f) == 7 && f[0] == "dockerc":
				params := parseParams(f[3])
				impl = hx.Try(func() string {
					i, o := runDockerCommand(unhexOr(f[1]), unhexOr(f[2]), params, unhexOr(f[4]), unhexOr(f[5]), unhexOr(f[6]))
					oracle = o
					return i
				})
			case len(f) == 10 && f[0] == "docker":
				params := parseParams(f[3])
				impl = hx.Try(func() string {
					i, o := runDocker(unhexOr(f[1]), unhexOr(f[2]), params, unhexOr(f[4]), unhexOr(f[5]), unhexOr(f[6]), unhexOr(f[7]), unhexOr(f[8]), unhexOr(f[9]))
					oracle = o
					return i
				})
			case len(f) == 6 && f[0] == "parse":
				t, ok := urlx.ParseLine(strings.Join(f[1:], " "))
				if !ok {
					impl = "bad-line"
					break
				}
				impl = hx.Try(func() string {
					i, _ := urlx.Run(t)
					return i
				})
				// a parsed URL with an option-like component must not be valid
				if strings.HasPrefix(impl, "ok ssh/") || strings.HasPrefix(impl, "ok docker/") {
					u, _ := url.Parse(t.Raw, urlx.KindOf(t.Kind), t.First)
					if u != nil && (strings.HasPrefix(u.User, "-") || strings.HasPrefix(u.Host, "-")) && u.EnsureValid() == nil {
						oracle = fmt.Sprintf("class=option-injection Parse(%q) yields user %q host %q and EnsureValid accepts it", t.Raw, u.User, u.Host)
					}
				}
			default:
				impl = "bad-line"
			}
			if strings.HasPrefix(impl, "panic:") {
				oracle = "class=panic " + impl
			} else if strings.HasPrefix(impl, "error:") && oracle == "" {
				oracle = "class=harness " + impl
			}
			key := ""
			if strings.HasPrefix(impl, "valid") || strings.HasPrefix(impl, "invalid") {
				key = f[0] + impl
			}
			c.Count(f[0] + ":" + strings.SplitN(strings.Fields(impl + " x")[0], "=", 2)[0])
			c.Case(line, impl, oracle, key)
		}
		if lines := c.ReplayLines(); lines != nil {
			for _, l := range lines {
				emitLine(l)
			}
			return
		}
		g := &gen{r: c.R}

		// 1. Every (user, host) pair of the pools, option-like ones included:
		// the ssh and docker exec vectors (no process is started for these) and
		// the URL texts through Parse.
		allUsers := append(append([]string{}, users...), dashUsers...)
		allHosts := append(append([]string{}, hosts...), dashHosts...)
		for _, u := range allUsers {
			for _, h := range allHosts {
				emitLine(sshcLine(u, h, []int{0, 22, 65535}[(len(u)+len(h))%3], commands[0]))
				emitLine(dockercLine(u, h, nil, commands[0], homes[0], ""))
				c.Count("exhaustive")
				for _, kind := range []string{"s", "f"} {
					for _, text := range []string{u + "@" + h + ":path", h + ":22:path", "docker://" + u + "@" + h + "/path", "docker://" + h + ":tcp::80", u + "@" + h + ":tcp::80"} {
						if strings.Contains(text, ":0:") || strings.HasPrefix(text, "docker://@") {
							continue // families repaired under C38
						}
						line, _ := urlx.Case{Kind: kind, First: true, Raw: text}.Line()
						emitLine("parse " + line)
					}
				}
			}
		}
		randomParams := func() map[string]string {
			if !g.r.Chance(1, 2) {
				return nil
			}
			params := map[string]string{}
			for n := g.r.Intn(4); n > 0; n-- {
				name := g.pick(paramNames)
				v := g.pick(paramVals)
				if !g.r.Chance(1, 8) {
					// mostly well-formed parameters
					if name == "tls" || name == "tlsverify" {
						v = ""
					} else if v == "" {
						v = "x"
					}
					if name == "bogus" {
						continue
					}
				}
				params[name] = v
			}
			return params
		}
		randomPort := func() int {
			if g.r.Chance(1, 2) {
				return 0
			}
			return 1 + g.r.Intn(65535)
		}
		// 2. Random vectors (no process started).
		for i := 0; i < c.Size(6000, 200000); i++ {
			if g.r.Chance(1, 2) {
				emitLine(sshcLine(g.component(users, dashUsers, 6), g.component(hosts, dashHosts, 6), randomPort(), g.pick(commands)))
			} else {
				emitLine(dockercLine(g.component(users, dashUsers, 6), g.component(hosts, dashHosts, 6), randomParams(), g.pick(commands),
					g.pick([]string{"", "/root", "/h x"}), g.pick([]string{"", "", "root", "-x"})))
			}
		}
		// 3. Whole transports against the recording fake executables (one process
		// per scp / docker invocation, so only a sample): sshTransport.Copy, and
		// dockerTransport probing, Command, Copy (cp + chown), stop/start. Cases
		// with option-like components cost nothing once they are rejected.
		for i := 0; i < c.Size(40, 600); i++ {
			emitLine(sshLine(g.component(users, dashUsers, 4), g.component(hosts, dashHosts, 4), randomPort(), g.pick(commands), g.pick(bases), g.pick(remotes)))
		}
		for i := 0; i < c.Size(8, 120); i++ {
			u := g.component(users, dashUsers, 4)
			if strings.TrimSpace(u) != u {
				u = "user"
			}
			pu := u
			if pu == "" {
				pu = g.pick([]string{"root", "app"})
			}
			emitLine(dockerLine(u, g.component(hosts, dashHosts, 4), randomParams(), g.pick(commands), filepath.Join(fakeDir, g.pick(bases)), g.pick(remotes), g.pick(homes), pu, g.pick(groups)))
		}
	})
}
