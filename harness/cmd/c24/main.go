// C24 driver: see harness/muxh (shared multiplexer harness of C23-C25).
package main

import "verif/harness/muxh"

func main() { muxh.Run("C24") }
