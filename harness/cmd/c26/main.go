// C26: the ring buffer behaves as a bounded FIFO byte queue.
//
// Drives the real ring.Buffer through op sequences (exhaustive small ones,
// then random long ones with short-reading / short-writing scripted peers),
// prints the canonical per-op results for comparison with the Lean model, and
// evaluates the property's own oracle: a plain slice-backed bounded queue.
package main

import (
	"errors"
	"fmt"
	"io"
	"strconv"
	"strings"
	"time"

	"github.com/mutagen-io/mutagen/pkg/multiplexing/ring"

	"verif/harness/hx"
)

var errPeer = errors.New("peer error")

type readResp struct {
	data []byte
	err  int // 0 none, 1 EOF, 2 other
}

type scriptReader struct {
	script []readResp
	got    []byte // bytes actually delivered
}

func (s *scriptReader) Read(p []byte) (int, error) {
	if len(s.script) == 0 {
		return 0, io.EOF
	}
	r := s.script[0]
	s.script = s.script[1:]
	n := copy(p, r.data)
	s.got = append(s.got, r.data[:n]...)
	switch r.err {
	case 1:
		return n, io.EOF
	case 2:
		return n, errPeer
	}
	return n, nil
}

type writeResp struct {
	accept int
	fail   bool
}

type scriptWriter struct {
	script []writeResp
	got    []byte
}

func (s *scriptWriter) Write(p []byte) (int, error) {
	if len(s.script) == 0 {
		return 0, errPeer
	}
	r := s.script[0]
	s.script = s.script[1:]
	n := r.accept
	if n > len(p) {
		n = len(p)
	}
	s.got = append(s.got, p[:n]...)
	if r.fail || n < len(p) {
		return n, errPeer
	}
	return n, nil
}

func errName(err error) string {
	switch {
	case err == nil:
		return "ok"
	case err == ring.ErrBufferFull:
		return "full"
	case err == io.EOF:
		return "eof"
	default:
		return "peer"
	}
}

// queue is the specification: a bounded FIFO of bytes.
type queue struct {
	cap  int
	data []byte
}

// runCase executes one op line on the real buffer and on the spec queue.
func runCase(line string) (impl string, oracle string) {
	f := strings.Fields(line)
	capacity, _ := strconv.Atoi(f[0])
	b := ring.NewBuffer(capacity)
	q := &queue{cap: capacity}
	var outs []string
	bad := func(i int, format string, a ...any) {
		if oracle == "" {
			oracle = fmt.Sprintf("class=queue-mismatch op#%d %s: ", i, f[i+1]) + fmt.Sprintf(format, a...)
		}
	}
	for i, op := range f[1:] {
		parts := strings.Split(op, ":")
		var out string
		switch parts[0] {
		case "w":
			d := unhex(parts[1])
			n, err := b.Write(d)
			out = fmt.Sprintf("%d/%s", n, errName(err))
			free := q.cap - len(q.data)
			wn, werr := len(d), "ok"
			if wn > free {
				wn, werr = free, "full"
			}
			q.data = append(q.data, d[:wn]...)
			if n != wn || errName(err) != werr {
				bad(i, "got %d/%s want %d/%s", n, errName(err), wn, werr)
			}
		case "wb":
			d := unhex(parts[1])
			err := b.WriteByte(d[0])
			out = errName(err)
			werr := "ok"
			if len(q.data) == q.cap {
				werr = "full"
			} else {
				q.data = append(q.data, d[0])
			}
			if errName(err) != werr {
				bad(i, "got %s want %s", errName(err), werr)
			}
		case "r":
			n, _ := strconv.Atoi(parts[1])
			buf := make([]byte, n)
			m, err := b.Read(buf)
			out = fmt.Sprintf("%s/%s", hx.Hex(buf[:m]), errName(err))
			var want []byte
			werr := "ok"
			if n == 0 {
			} else if len(q.data) == 0 {
				werr = "eof"
			} else {
				k := n
				if k > len(q.data) {
					k = len(q.data)
				}
				want = q.data[:k]
				q.data = q.data[k:]
			}
			if string(buf[:m]) != string(want) || errName(err) != werr {
				bad(i, "got %x/%s want %x/%s", buf[:m], errName(err), want, werr)
			}
		case "rb":
			v, err := b.ReadByte()
			if err == nil {
				out = fmt.Sprintf("%s/%s", hx.Hex([]byte{v}), errName(err))
			} else {
				out = fmt.Sprintf("-/%s", errName(err))
			}
			if len(q.data) == 0 {
				if err != io.EOF {
					bad(i, "got %v want eof", err)
				}
			} else {
				if err != nil || v != q.data[0] {
					bad(i, "got %x/%v want %x", v, err, q.data[0])
				}
				q.data = q.data[1:]
			}
		case "reset":
			b.Reset()
			q.data = nil
			out = "ok"
		case "rn":
			n, _ := strconv.Atoi(parts[1])
			sr := &scriptReader{script: parseReadScript(parts[2])}
			before := len(q.data)
			m, err := b.ReadNFrom(sr, n)
			out = fmt.Sprintf("%d/%s", m, errName(err))
			// Spec: the bytes the reader delivered (in order) were appended, the
			// count is exact, never more than n nor than the free space; "full" iff
			// the request could not complete for lack of space and the reader did
			// not fail; EOF is cleared iff it coincides with completion.
			if m < 0 || m > n || before+m > q.cap {
				bad(i, "count %d out of range (n=%d free=%d)", m, n, q.cap-before)
			}
			if m != len(sr.got) {
				bad(i, "returned %d but reader delivered %d", m, len(sr.got))
			}
			q.data = append(q.data, sr.got...)
			if err == nil && m != n && n > 0 {
				bad(i, "nil error but %d of %d read", m, n)
			}
			if err == ring.ErrBufferFull && !(m < n && len(q.data) == q.cap) {
				bad(i, "full reported with space or complete")
			}
		case "wt":
			sw := &scriptWriter{script: parseWriteScript(parts[1])}
			m, err := b.WriteTo(sw)
			out = fmt.Sprintf("%s/%s", hx.Hex(sw.got), errName(err))
			if int(m) != len(sw.got) {
				bad(i, "returned %d but writer accepted %d", m, len(sw.got))
			}
			if int(m) > len(q.data) || string(sw.got) != string(q.data[:min(int(m), len(q.data))]) {
				bad(i, "writer got %x, queue head %x", sw.got, q.data)
			} else {
				q.data = q.data[m:]
			}
			if err == nil && len(q.data) != 0 {
				bad(i, "nil error with %d bytes left", len(q.data))
			}
		default:
			return "bad-op", ""
		}
		if b.Used() != len(q.data) || b.Free() != q.cap-len(q.data) || b.Size() != q.cap {
			bad(i, "used/free/size %d/%d/%d, queue holds %d of %d", b.Used(), b.Free(), b.Size(), len(q.data), q.cap)
		}
		outs = append(outs, fmt.Sprintf("%s@%d", out, b.Used()))
	}
	// Drain what is left through Read to observe the final contents.
	rest := make([]byte, b.Used())
	if len(rest) > 0 {
		b.Read(rest)
	}
	if string(rest) != string(q.data) {
		bad(len(f)-2, "final contents %x, queue %x", rest, q.data)
	}
	return strings.Join(outs, " ") + " |" + hx.Hex(rest), oracle
}

func unhex(s string) []byte {
	if s == "-" {
		return nil
	}
	b := make([]byte, len(s)/2)
	for i := range b {
		v, _ := strconv.ParseUint(s[2*i:2*i+2], 16, 8)
		b[i] = byte(v)
	}
	return b
}

func parseReadScript(s string) []readResp {
	if s == "" {
		return nil
	}
	var out []readResp
	for _, r := range strings.Split(s, ";") {
		p := strings.Split(r, "/")
		e, _ := strconv.Atoi(p[1])
		out = append(out, readResp{unhex(p[0]), e})
	}
	return out
}

func parseWriteScript(s string) []writeResp {
	if s == "" {
		return nil
	}
	var out []writeResp
	for _, r := range strings.Split(s, ";") {
		p := strings.Split(r, "/")
		a, _ := strconv.Atoi(p[0])
		out = append(out, writeResp{a, p[1] == "1"})
	}
	return out
}

// genOp draws one op for capacity c.
func genOp(r *hx.Rand, c int, next *byte) string {
	fresh := func(n int) []byte {
		b := make([]byte, n)
		for i := range b {
			*next++
			b[i] = *next
		}
		return b
	}
	switch r.Intn(9) {
	case 0, 1:
		return "w:" + hx.Hex(fresh(r.Intn(c+3)))
	case 2:
		return "wb:" + hx.Hex(fresh(1))
	case 3, 4:
		return "r:" + strconv.Itoa(r.Intn(c+3))
	case 5:
		return "rb"
	case 6:
		n := r.Intn(c + 3)
		k := r.Intn(n + 2)
		var rs []string
		for j := 0; j < k; j++ {
			e := 0
			if r.Chance(1, 6) {
				e = 1 + r.Intn(2)
			}
			sz := r.Intn(c + 3)
			rs = append(rs, fmt.Sprintf("%s/%d", hx.Hex(fresh(sz)), e))
		}
		return fmt.Sprintf("rn:%d:%s", n, strings.Join(rs, ";"))
	case 7:
		k := r.Intn(4)
		var ws []string
		for j := 0; j < k; j++ {
			f := 0
			if r.Chance(1, 6) {
				f = 1
			}
			ws = append(ws, fmt.Sprintf("%d/%d", r.Intn(c+2), f))
		}
		return "wt:" + strings.Join(ws, ";")
	default:
		if r.Chance(1, 4) {
			return "reset"
		}
		return "rb"
	}
}

// watchdog runs one case with panic isolation and a time limit, so that a
// defect that makes the code under test loop forever is reported as a failing
// case (class=hang) instead of stalling the whole check.
func watchdog(f func() (string, string)) (impl, oracle string, ok bool) {
	type res struct{ impl, oracle string }
	ch := make(chan res, 1)
	go func() {
		var o string
		i := hx.Try(func() string {
			a, b := f()
			o = b
			return a
		})
		ch <- res{i, o}
	}()
	select {
	case r := <-ch:
		return r.impl, r.oracle, true
	case <-time.After(30 * time.Second):
		return "hang", "class=hang no answer within 10s", false
	}
}

func main() {
	hx.Main("C26", func(c *hx.Ctx) {
		hung := false
		emit := func(line string) {
			if hung {
				return // a case never returned: its goroutine is still spinning, stop here
			}
			impl, oracle, ok := watchdog(func() (string, string) { return runCase(line) })
			if !ok {
				hung = true
			}
			if strings.HasPrefix(impl, "panic:") {
				oracle = "class=panic " + impl
			}
			key := ""
			if strings.Contains(impl, "full") || strings.Contains(impl, "eof") || strings.Contains(impl, "peer") {
				key = impl
			}
			c.Case(line, impl, oracle, key)
		}
		if lines := c.ReplayLines(); lines != nil {
			for _, l := range lines {
				emit(l)
			}
			return
		}
		// Exhaustive: all sequences of length <= L over a small op alphabet, capacities 0..3.
		alphabet := []string{"w:a1", "w:b1b2", "w:c1c2c3c4", "wb:d1", "r:1", "r:2", "r:5", "rb", "reset",
			"rn:2:e1/0;e2/0", "rn:3:f1/0;/1", "rn:4:e3/2", "rn:1:e4e5e6/0", "rn:2:e7e8e9ea/0;eb/0", "wt:1/0;9/0", "wt:9/0", "wt:0/1", "r:0", "w:-"}
		L := c.Size(3, 4)
		var rec func(prefix []string, depth int, capacity int)
		rec = func(prefix []string, depth int, capacity int) {
			if len(prefix) > 0 && depth == 0 {
				emit(strconv.Itoa(capacity) + " " + strings.Join(prefix, " "))
				c.Count("exhaustive")
				return
			}
			if depth == 0 {
				return
			}
			for _, a := range alphabet {
				rec(append(prefix, a), depth-1, capacity)
			}
		}
		for capacity := 0; capacity <= 3; capacity++ {
			rec(nil, L, capacity)
		}
		// Random long sequences.
		for i := 0; i < c.Size(3000, 200000); i++ {
			capacity := c.R.Intn(9)
			if c.R.Chance(1, 10) {
				capacity = 20 + c.R.Intn(200)
			}
			n := 1 + c.R.Intn(40)
			var next byte
			ops := make([]string, n)
			for j := range ops {
				ops[j] = genOp(c.R, capacity, &next)
			}
			emit(strconv.Itoa(capacity) + " " + strings.Join(ops, " "))
			c.Count("random")
		}
	})
}
