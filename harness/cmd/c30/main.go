// C30: state-change long-polls never miss an update.
//
// Two streams, both executed inside testing/synctest bubbles so that
// "everything is blocked" is an exact, clock-free observation (a goroutine
// parked in sync.Cond.Wait or in a channel select is durably blocked):
//
//	seq  – sequential scripts on a Tracker built by the real NewTracker, run to
//	       quiescence after every op (black box; exhaustive short scripts, then
//	       random long ones). Deterministic, replayable.
//	conc – several goroutines run random scripts concurrently against a Tracker
//	       whose mutex is an instrumented sync.Locker (state.VerifC30NewTracker).
//	       Every API call/return, context cancellation and every critical
//	       section (with a snapshot of index/terminated/len(pollRequests) taken
//	       while the mutex is held) is journalled in one total order. The op
//	       line is that journal; the Lean model must accept it event by event and
//	       print the same snapshots and results (trace validation). Schedules are
//	       sampled by the Go scheduler plus random yields/spins/virtual sleeps in
//	       front of every mutex acquisition.
//
// Oracle (independent of the model): a three-variable sequential spec for seq;
// for conc, predicates on the journal: real-time-ordered results never go
// backwards, a successful wait never returns the index it was given, index
// arithmetic (only notifications advance it, by one), every TrackingLock
// unlock advances the index, error kinds are justified, the TrackingLock is
// exclusive, and — at quiescence — no waiter is left blocked although its
// index is stale or tracking was terminated (lost wakeup).
package main

import (
	"context"
	"fmt"
	"os"
	"runtime"
	"sort"
	"strconv"
	"strings"
	"sync"
	"sync/atomic"
	"testing"
	"testing/synctest"
	"time"

	"github.com/mutagen-io/mutagen/pkg/state"

	"verif/harness/hx"
)

func errName(err error) string {
	switch err {
	case nil:
		return "ok"
	case state.ErrTrackingTerminated:
		return "term"
	case context.Canceled:
		return "canc"
	}
	return "other"
}

// ---------------------------------------------------------------- seq stream

type seqWaiter struct {
	prev     uint64
	cancel   context.CancelFunc
	done     atomic.Bool
	res      string
	reported bool
}

// runSeq executes a sequential script; returns the implementation's answer and
// the oracle verdict.
func runSeq(t *testing.T, ops []string) (impl string, oracle string) {
	synctest.Test(t, func(t *testing.T) {
		tr := state.NewTracker()
		tl := state.NewTrackingLock(tr)
		synctest.Wait()
		// Specification state.
		specIdx, specTerm, held := uint64(1), false, false
		pending := map[int]uint64{}
		var ws []*seqWaiter
		var outs []string
		bad := func(i int, class, format string, a ...any) {
			if oracle == "" {
				oracle = fmt.Sprintf("class=%s op#%d %s: ", class, i, ops[i]) + fmt.Sprintf(format, a...)
			}
		}
		stop := false
		for i, op := range ops {
			expect := map[int]string{}
			complete := func(k int, e string) {
				expect[k] = fmt.Sprintf("%d/%s", specIdx, e)
				delete(pending, k)
			}
			notify := func() {
				if !specTerm {
					specIdx++
					for k, p := range pending {
						if p != specIdx {
							complete(k, "ok")
						}
					}
				}
			}
			switch {
			case op == "n":
				tr.NotifyOfChange()
				notify()
			case op == "t":
				tr.Terminate()
				specTerm = true
				for k := range pending {
					complete(k, "term")
				}
			case op == "l":
				if held {
					stop = true
					break
				}
				tl.Lock()
				held = true
			case op == "u":
				if !held {
					stop = true
					break
				}
				tl.Unlock()
				held = false
				notify()
			case op == "v":
				if !held {
					stop = true
					break
				}
				tl.UnlockWithoutNotify()
				held = false
			case op[0] == 'w':
				prev, err := strconv.ParseUint(op[1:], 10, 64)
				if err != nil {
					stop = true
					break
				}
				ctx, cancel := context.WithCancel(context.Background())
				w := &seqWaiter{prev: prev, cancel: cancel}
				ws = append(ws, w)
				k := len(ws)
				go func() {
					idx, err := tr.WaitForChange(ctx, prev)
					w.res = fmt.Sprintf("%d/%s", idx, errName(err))
					w.done.Store(true)
				}()
				switch {
				case specTerm:
					complete(k, "term")
				case prev == 0 || prev != specIdx:
					complete(k, "ok")
				default:
					pending[k] = prev
				}
			case op[0] == 'x':
				k, err := strconv.Atoi(op[1:])
				if err != nil {
					stop = true
					break
				}
				if k >= 1 && k <= len(ws) {
					ws[k-1].cancel()
					if _, ok := pending[k]; ok {
						complete(k, "canc")
					}
				}
			default:
				stop = true
			}
			if stop {
				outs = append(outs, "bad-op")
				break
			}
			synctest.Wait()
			var toks []string
			for k, w := range ws {
				if w.done.Load() && !w.reported {
					w.reported = true
					toks = append(toks, fmt.Sprintf("%d:%s", k+1, w.res))
					want, ok := expect[k+1]
					if !ok {
						bad(i, "spurious-return", "waiter %d (prev %d) returned %s while the index is %d", k+1, w.prev, w.res, specIdx)
					} else if want != w.res {
						bad(i, "wrong-result", "waiter %d (prev %d) returned %s, expected %s", k+1, w.prev, w.res, want)
					}
					delete(expect, k+1)
				}
			}
			for k, want := range expect {
				bad(i, "lost-wakeup", "waiter %d (prev %d) still blocked at quiescence, expected %s", k, ws[k-1].prev, want)
			}
			if len(toks) == 0 {
				outs = append(outs, "-")
			} else {
				outs = append(outs, strings.Join(toks, ","))
			}
		}
		// Clean up so that the bubble can end.
		if held {
			tl.UnlockWithoutNotify()
		}
		for _, w := range ws {
			w.cancel()
		}
		tr.Terminate()
		synctest.Wait()
		impl = strings.Join(outs, " ")
	})
	return
}

// --------------------------------------------------------------- conc stream

type journal struct {
	mu sync.Mutex
	ev []string
}

func (j *journal) add(tok string) int {
	j.mu.Lock()
	j.ev = append(j.ev, tok)
	n := len(j.ev)
	j.mu.Unlock()
	return n - 1
}

func (j *journal) set(i int, tok string) {
	j.mu.Lock()
	j.ev[i] = tok
	j.mu.Unlock()
}

func gid() uint64 {
	var b [64]byte
	n := runtime.Stack(b[:], false)
	s := b[len("goroutine "):n]
	var id uint64
	for _, c := range s {
		if c < '0' || c > '9' {
			break
		}
		id = id*10 + uint64(c-'0')
	}
	return id
}

// ilock is the instrumented Locker handed to the tracker.
type ilock struct {
	mu      sync.Mutex
	holder  int // actor currently inside the critical section (-1: tracking goroutine)
	slot    int // journal position reserved for the current critical section
	tr      *state.Tracker
	j       *journal
	actors  map[uint64]int // goroutine id -> caller id (read-only once the case runs)
	workers []*worker      // by caller id
	trackR  *hx.Rand       // perturbation source of the tracking goroutine
}

func (l *ilock) Lock() {
	a, ok := l.actors[gid()]
	if !ok {
		a = -1
		perturb(l.trackR, true)
	} else {
		w := l.workers[a]
		perturb(w.noise, !w.holdsTL)
	}
	l.mu.Lock()
	l.holder = a
	// The critical section is journalled at its beginning: its channel sends
	// are visible to other goroutines before the mutex is released. The
	// snapshot is filled in at the end.
	l.slot = l.j.add("")
}

func (l *ilock) Unlock() {
	idx, term, n := state.VerifC30Fields(l.tr)
	name := "T"
	if l.holder >= 0 {
		name = strconv.Itoa(l.holder)
	}
	t := 0
	if term {
		t = 1
	}
	l.j.set(l.slot, fmt.Sprintf("s%s=%d,%d,%d", name, idx, t, n))
	l.mu.Unlock()
}

var sink uint64

// perturb delays the caller a little: yield, spin, or (when allowed) sleep in
// virtual time, which postpones it until every other goroutine is blocked.
func perturb(r *hx.Rand, maySleep bool) {
	switch r.Intn(10) {
	case 0, 1:
		runtime.Gosched()
	case 2:
		n := r.Intn(3000)
		for i := 0; i < n; i++ {
			sink += uint64(i)
		}
	case 3:
		if maySleep {
			time.Sleep(time.Duration(1 + r.Intn(500)))
		}
	}
}

type wop struct {
	kind        byte // n p t l u v
	prevMode    int
	prevArg     uint64
	cancelAfter int // virtual ns; <0: never
}

const (
	stRunning int32 = iota
	stInPoll
	stDone
)

type worker struct {
	id      int
	script  []wop
	noise   *hx.Rand
	holdsTL bool
	last    uint64
	status  atomic.Int32
	curPrev atomic.Uint64
	cancel  atomic.Pointer[context.CancelFunc]
}

func genScript(r *hx.Rand, allowTerm bool) []wop {
	n := 1 + r.Intn(7)
	var s []wop
	poll := func() wop {
		o := wop{kind: 'p', cancelAfter: -1}
		switch x := r.Intn(20); {
		case x < 2:
			o.prevMode = 0
		case x < 10:
			o.prevMode = 1
		case x < 15:
			o.prevMode, o.prevArg = 2, uint64(1+r.Intn(3))
		case x < 17:
			o.prevMode, o.prevArg = 3, uint64(1+r.Intn(2))
		default:
			o.prevMode, o.prevArg = 4, uint64(1+r.Intn(6))
		}
		if r.Chance(1, 3) {
			o.cancelAfter = r.Intn(1500)
		}
		return o
	}
	for len(s) < n {
		switch x := r.Intn(20); {
		case x < 7:
			s = append(s, wop{kind: 'n'})
		case x < 15:
			s = append(s, poll())
		case x < 16:
			if allowTerm {
				s = append(s, wop{kind: 't'})
			}
		default:
			s = append(s, wop{kind: 'l'})
			for k := r.Intn(3); k > 0; k-- {
				if r.Chance(1, 2) {
					s = append(s, wop{kind: 'n'})
				} else {
					s = append(s, wop{kind: 'p', prevMode: 0, cancelAfter: -1})
				}
			}
			if r.Chance(3, 4) {
				s = append(s, wop{kind: 'u'})
			} else {
				s = append(s, wop{kind: 'v'})
			}
		}
	}
	return s
}

func (w *worker) prevFor(o wop) uint64 {
	switch o.prevMode {
	case 0:
		return 0
	case 1:
		return w.last
	case 2:
		if w.last > o.prevArg {
			return w.last - o.prevArg
		}
		return w.last + o.prevArg + 1
	case 3:
		return w.last + o.prevArg
	}
	return o.prevArg
}

// doOp performs one API call with journalling.
func doOp(w *worker, o wop, j *journal, tr *state.Tracker, tl *state.TrackingLock) {
	id := w.id
	switch o.kind {
	case 'n':
		j.add(fmt.Sprintf("c%d:n", id))
		tr.NotifyOfChange()
		j.add(fmt.Sprintf("r%d=-", id))
	case 't':
		j.add(fmt.Sprintf("c%d:t", id))
		tr.Terminate()
		j.add(fmt.Sprintf("r%d=-", id))
	case 'l':
		j.add(fmt.Sprintf("c%d:l", id))
		tl.Lock()
		w.holdsTL = true
		j.add(fmt.Sprintf("r%d=-", id))
	case 'u':
		j.add(fmt.Sprintf("c%d:u", id))
		w.holdsTL = false
		tl.Unlock()
		j.add(fmt.Sprintf("r%d=-", id))
	case 'v':
		j.add(fmt.Sprintf("c%d:v", id))
		w.holdsTL = false
		tl.UnlockWithoutNotify()
		j.add(fmt.Sprintf("r%d=-", id))
	case 'p':
		prev := w.prevFor(o)
		ctx, cancel := context.WithCancel(context.Background())
		stop, cdone := make(chan struct{}), make(chan struct{})
		if o.cancelAfter >= 0 {
			go func() {
				defer close(cdone)
				select {
				case <-stop:
					return
				case <-time.After(time.Duration(o.cancelAfter)):
				}
				j.add(fmt.Sprintf("x%d", id))
				cancel()
			}()
		} else {
			close(cdone)
		}
		w.curPrev.Store(prev)
		w.cancel.Store(&cancel)
		j.add(fmt.Sprintf("c%d:p%d", id, prev))
		w.status.Store(stInPoll)
		idx, err := tr.WaitForChange(ctx, prev)
		w.status.Store(stRunning)
		close(stop)
		<-cdone
		j.add(fmt.Sprintf("r%d=%d/%s", id, idx, errName(err)))
		cancel()
		if idx > 0 {
			w.last = idx
		}
	}
}

// runConc executes one concurrent case and returns the journal (the op line
// without its prefix) and the quiescence verdicts of the controller.
func runConc(t *testing.T, r *hx.Rand) (line string, live string) {
	nw := 2 + r.Intn(3)
	termWorker := -1
	if r.Chance(1, 3) {
		termWorker = 1 + r.Intn(nw)
	}
	ws := make([]*worker, nw+1)
	for i := range ws {
		ws[i] = &worker{id: i, noise: r.Fork(), last: 1}
		if i > 0 {
			ws[i].script = genScript(r, i == termWorker)
		}
	}
	rootR, trackR := r.Fork(), r.Fork()
	synctest.Test(t, func(t *testing.T) {
		j := &journal{}
		il := &ilock{j: j, actors: map[uint64]int{}, workers: ws, trackR: trackR, holder: -1}
		il.actors[gid()] = 0
		// Start the workers; they register their goroutine ids, then wait for the gate.
		var tr *state.Tracker
		var tl *state.TrackingLock
		var reg sync.WaitGroup
		gate := make(chan struct{})
		gids := make([]uint64, nw+1)
		for _, w := range ws[1:] {
			reg.Add(1)
			go func() {
				gids[w.id] = gid()
				reg.Done()
				<-gate
				for _, o := range w.script {
					switch w.noise.Intn(6) {
					case 0:
						runtime.Gosched()
					case 1:
						if !w.holdsTL {
							time.Sleep(time.Duration(1 + w.noise.Intn(800)))
						}
					}
					doOp(w, o, j, tr, tl)
				}
				w.status.Store(stDone)
			}()
		}
		reg.Wait()
		for i := 1; i <= nw; i++ {
			il.actors[gids[i]] = i
		}
		// The actor table is complete (and read-only from here on) before the
		// tracking goroutine can reach the instrumented lock.
		il.mu.Lock()
		tr = state.VerifC30NewTracker(il)
		il.tr = tr
		tl = state.NewTrackingLock(tr)
		il.mu.Unlock()
		close(gate)

		root := ws[0]
		terminated := false
		barrier := func() {
			time.Sleep(time.Hour)
			synctest.Wait()
		}
		for round := 0; ; round++ {
			barrier()
			var blocked []*worker
			for _, w := range ws[1:] {
				if w.status.Load() != stDone {
					blocked = append(blocked, w)
				}
			}
			if len(blocked) == 0 {
				break
			}
			// Quiescent: every unfinished worker is parked in WaitForChange.
			il.mu.Lock()
			idx, term, _ := state.VerifC30Fields(tr)
			il.mu.Unlock()
			for _, w := range blocked {
				if w.status.Load() != stInPoll {
					if live == "" {
						live = fmt.Sprintf("class=stuck caller %d is not finished and not in WaitForChange at quiescence", w.id)
					}
					continue
				}
				if p := w.curPrev.Load(); (term || p != idx) && live == "" {
					live = fmt.Sprintf("class=lost-wakeup caller %d blocked in WaitForChange(prev=%d) at quiescence although index=%d terminated=%v", w.id, p, idx, term)
				}
			}
			if terminated {
				// Nothing more can release them.
				if live == "" {
					live = "class=lost-wakeup callers still blocked after Terminate returned"
				}
				for _, w := range blocked {
					if c := w.cancel.Load(); c != nil {
						(*c)()
					}
				}
				barrier()
				break
			}
			x := rootR.Intn(4)
			if round > 12 || live != "" {
				x = 3
			}
			switch x {
			case 0, 1:
				doOp(root, wop{kind: 'n'}, j, tr, tl)
			case 2:
				w := blocked[rootR.Intn(len(blocked))]
				if c := w.cancel.Load(); c != nil && w.status.Load() == stInPoll {
					j.add(fmt.Sprintf("x%d", w.id))
					(*c)()
				}
			default:
				doOp(root, wop{kind: 't'}, j, tr, tl)
				terminated = true
			}
		}
		if !terminated {
			doOp(root, wop{kind: 't'}, j, tr, tl)
		}
		barrier()
		line = strconv.Itoa(nw) + " " + strings.Join(j.ev, " ")
	})
	return
}

// implOf projects the observed outputs out of a journal.
func implOf(evs []string) string {
	var outs []string
	for _, e := range evs {
		if i := strings.IndexByte(e, '='); i >= 0 {
			outs = append(outs, e[i+1:])
		}
	}
	return strings.Join(outs, " ")
}

type callRec struct {
	w          int
	op         string
	callAt     int
	retAt      int
	res        string
	idx        uint64
	err        string
	cancelSeen bool
}

// concOracle evaluates the property's predicates on a journal.
func concOracle(evs []string) string {
	var calls []*callRec
	open := map[int]*callRec{}
	termCalled := -1 // position of the first Terminate call
	snapIdx := make([]uint64, len(evs)+1)
	snapTerm := make([]bool, len(evs)+1)
	snapIdx[0] = 1
	incs := 0
	tlHolder := -1
	for i, e := range evs {
		snapIdx[i+1], snapTerm[i+1] = snapIdx[i], snapTerm[i]
		switch e[0] {
		case 'c':
			p := strings.SplitN(e[1:], ":", 2)
			w, _ := strconv.Atoi(p[0])
			if open[w] != nil {
				return fmt.Sprintf("class=journal caller %d called twice", w)
			}
			c := &callRec{w: w, op: p[1], callAt: i, retAt: -1}
			open[w] = c
			calls = append(calls, c)
			if p[1] == "t" && termCalled < 0 {
				termCalled = i
			}
			if p[1] == "u" || p[1] == "v" {
				if tlHolder != w {
					return fmt.Sprintf("class=journal caller %d unlocks a TrackingLock it does not hold", w)
				}
				tlHolder = -1
			}
		case 'x':
			w, _ := strconv.Atoi(e[1:])
			if c := open[w]; c != nil {
				c.cancelSeen = true
			}
		case 'r':
			p := strings.SplitN(e[1:], "=", 2)
			w, _ := strconv.Atoi(p[0])
			c := open[w]
			if c == nil {
				return fmt.Sprintf("class=journal caller %d returned without a call", w)
			}
			delete(open, w)
			c.retAt, c.res = i, p[1]
			if q := strings.SplitN(p[1], "/", 2); len(q) == 2 {
				c.idx, _ = strconv.ParseUint(q[0], 10, 64)
				c.err = q[1]
			}
			if c.op == "l" {
				if tlHolder >= 0 {
					return fmt.Sprintf("class=tl-exclusion caller %d acquired the TrackingLock while caller %d holds it", w, tlHolder)
				}
				tlHolder = w
			}
		case 's':
			p := strings.SplitN(e, "=", 2)
			f := strings.Split(p[1], ",")
			idx, _ := strconv.ParseUint(f[0], 10, 64)
			term := f[1] == "1"
			if idx < snapIdx[i] {
				return fmt.Sprintf("class=index-backwards index %d after %d at event %d", idx, snapIdx[i], i)
			}
			if idx > snapIdx[i]+1 {
				return fmt.Sprintf("class=index-jump index %d after %d at event %d", idx, snapIdx[i], i)
			}
			if idx == snapIdx[i]+1 {
				incs++
				a := p[0][1:]
				w, err := strconv.Atoi(a)
				c := open[w]
				if err != nil || c == nil || (c.op != "n" && c.op != "u") {
					return fmt.Sprintf("class=index-advance index advanced in a critical section of %s which is not notifying", a)
				}
				if snapTerm[i] {
					return fmt.Sprintf("class=index-advance index advanced after termination at event %d", i)
				}
			}
			if snapTerm[i] && !term {
				return fmt.Sprintf("class=unterminated terminated flag reset at event %d", i)
			}
			snapIdx[i+1], snapTerm[i+1] = idx, term
		}
	}
	for _, c := range calls {
		if c.retAt < 0 {
			return fmt.Sprintf("class=stuck caller %d never returned from %s", c.w, c.op)
		}
	}
	// Results of WaitForChange.
	var polls []*callRec
	for _, c := range calls {
		if c.op[0] != 'p' {
			// every notifying call that returned before Terminate was first called advanced the index
			if (c.op == "n" || c.op == "u") && (termCalled < 0 || c.retAt < termCalled) {
				if !(snapIdx[c.retAt] > snapIdx[c.callAt]) {
					return fmt.Sprintf("class=no-advance %s by caller %d (events %d..%d) did not advance the index (%d)", c.op, c.w, c.callAt, c.retAt, snapIdx[c.retAt])
				}
			}
			continue
		}
		polls = append(polls, c)
		prev, _ := strconv.ParseUint(c.op[1:], 10, 64)
		switch c.err {
		case "ok":
			if c.idx == prev {
				return fmt.Sprintf("class=no-change caller %d: WaitForChange(%d) returned %d without error", c.w, prev, c.idx)
			}
		case "term":
			if termCalled < 0 || termCalled > c.retAt {
				return fmt.Sprintf("class=bad-error caller %d got ErrTrackingTerminated but Terminate had not been called", c.w)
			}
		case "canc":
			if !c.cancelSeen {
				return fmt.Sprintf("class=bad-error caller %d got context.Canceled but its context was not cancelled", c.w)
			}
		default:
			return fmt.Sprintf("class=bad-error caller %d got unexpected error %q", c.w, c.err)
		}
		if c.idx == 0 {
			return fmt.Sprintf("class=zero-index caller %d got index 0", c.w)
		}
		// the result lies between the index when the call began and the index when it returned
		if c.idx < snapIdx[c.callAt] || c.idx > snapIdx[c.retAt] {
			return fmt.Sprintf("class=index-window caller %d: result %d outside [%d,%d]", c.w, c.idx, snapIdx[c.callAt], snapIdx[c.retAt])
		}
	}
	sort.Slice(polls, func(a, b int) bool { return polls[a].retAt < polls[b].retAt })
	for _, a := range polls {
		for _, b := range polls {
			if a.retAt < b.callAt && a.idx > b.idx {
				return fmt.Sprintf("class=backwards WaitForChange by caller %d returned %d (event %d) before caller %d called (event %d) and got %d",
					a.w, a.idx, a.retAt, b.w, b.callAt, b.idx)
			}
		}
	}
	return ""
}

func main() {
	args := os.Args
	os.Args = args[:1]
	testing.Main(func(pat, str string) (bool, error) { return true, nil }, []testing.InternalTest{{Name: "C30", F: func(t *testing.T) {
		os.Args = args
		hx.Main("C30", func(c *hx.Ctx) { drive(c, t) })
	}}}, nil, nil)
}

func drive(c *hx.Ctx, t *testing.T) {
	emitSeq := func(ops []string) {
		line := "seq " + strings.Join(ops, " ")
		impl, oracle := runSeq(t, ops)
		key := ""
		if strings.Contains(impl, "canc") || strings.Contains(impl, "term") || strings.Contains(impl, ",") {
			key = impl
		}
		c.Case(line, impl, oracle, key)
	}
	emitConc := func(rest string, live string) {
		evs := strings.Fields(rest)[1:]
		oracle := live
		if oracle == "" {
			oracle = concOracle(evs)
		}
		impl := implOf(evs)
		key := ""
		if strings.Contains(rest, "/canc") || strings.Contains(rest, "/term") {
			key = impl
		}
		for _, e := range evs {
			if strings.HasPrefix(e, "sT=") && !strings.HasSuffix(e, ",0") {
				c.Count("conc:track-left-waiters")
				break
			}
		}
		c.Case("conc "+rest, impl, oracle, key)
	}
	if lines := c.ReplayLines(); lines != nil {
		for _, l := range lines {
			f := strings.Fields(l)
			switch {
			case len(f) >= 1 && f[0] == "seq":
				emitSeq(f[1:])
			case len(f) >= 2 && f[0] == "conc":
				// A schedule cannot be re-executed; the journal itself is re-validated.
				emitConc(strings.Join(f[1:], " "), "")
			default:
				c.Case(l, "bad-line", "", "")
			}
		}
		return
	}

	// seq, exhaustive: every script of length <= L over an alphabet whose
	// previous-index arguments are resolved against the spec's current index.
	L := c.Size(4, 5)
	alphabet := []string{"n", "w0", "wc", "ws", "wf", "xo", "xn", "t", "l", "u", "v"}
	var rec func(prefix []string, depth int)
	resolve := func(script []string) ([]string, bool) {
		idx, term, held := uint64(1), false, false
		nw := 0
		blocked := []int{}
		var out []string
		for _, s := range script {
			switch s {
			case "n":
				if !term {
					idx++
					blocked = blocked[:0]
				}
				out = append(out, "n")
			case "t":
				term = true
				blocked = blocked[:0]
				out = append(out, "t")
			case "l":
				if held {
					return nil, false
				}
				held = true
				out = append(out, "l")
			case "u", "v":
				if !held {
					return nil, false
				}
				held = false
				if s == "u" && !term {
					idx++
					blocked = blocked[:0]
				}
				out = append(out, s)
			case "w0":
				nw++
				out = append(out, "w0")
			case "wc":
				nw++
				if !term {
					blocked = append(blocked, nw)
				}
				out = append(out, fmt.Sprintf("w%d", idx))
			case "ws":
				nw++
				if idx < 2 {
					return nil, false
				}
				out = append(out, fmt.Sprintf("w%d", idx-1))
			case "wf":
				nw++
				out = append(out, fmt.Sprintf("w%d", idx+1))
			case "xo", "xn":
				if len(blocked) == 0 {
					return nil, false
				}
				k := blocked[0]
				if s == "xn" {
					k = blocked[len(blocked)-1]
					blocked = blocked[:len(blocked)-1]
				} else {
					blocked = blocked[1:]
				}
				out = append(out, fmt.Sprintf("x%d", k))
			}
		}
		return out, true
	}
	rec = func(prefix []string, depth int) {
		if len(prefix) > 0 {
			if ops, ok := resolve(prefix); ok {
				if depth == 0 {
					emitSeq(ops)
					c.Count("seq:exhaustive")
				}
			} else {
				return
			}
		}
		if depth == 0 {
			return
		}
		for _, a := range alphabet {
			rec(append(prefix[:len(prefix):len(prefix)], a), depth-1)
		}
	}
	for l := 1; l <= L; l++ {
		rec(nil, l)
	}
	// seq, random long scripts.
	for i := 0; i < c.Size(1500, 60000); i++ {
		n := 5 + c.R.Intn(30)
		script := make([]string, 0, n)
		for len(script) < n {
			s := alphabet[c.R.Intn(len(alphabet))]
			if s == "t" && !c.R.Chance(1, 4) {
				continue
			}
			if _, ok := resolve(append(script[:len(script):len(script)], s)); ok {
				script = append(script, s)
			}
		}
		ops, _ := resolve(script)
		emitSeq(ops)
		c.Count("seq:random")
	}
	// conc: sampled schedules.
	for i := 0; i < c.Size(6000, 150000); i++ {
		line, live := runConc(t, c.R.Fork())
		emitConc(line, live)
		c.Count("conc")
		if live != "" {
			c.Count("conc:liveness-failure")
		}
	}
}
