// C45: the LRU cache matches its model.
//
// Drives the real lru.Cache through op sequences (exhaustive short ones over
// three keys and capacities -1..3, then random long ones), prints canonical
// per-op results for comparison with the Lean model, and evaluates the
// property's own oracle: a slice-backed most-recently-used list truncated to
// the capacity, with an explicit log of entries that left.
package main

import (
	"fmt"
	"sort"
	"strconv"
	"strings"
	"time"

	"github.com/mutagen-io/mutagen/pkg/container/lru"

	"verif/harness/hx"
)

type kv struct{ k, v int }

func showPairs(sep string, l []kv) string {
	if len(l) == 0 {
		return "-"
	}
	s := make([]string, len(l))
	for i, e := range l {
		s[i] = fmt.Sprintf("%d=%d", e.k, e.v)
	}
	return strings.Join(s, sep)
}

// spec is the oracle: most recently used first.
type spec struct {
	cap   int
	items []kv
}

func (s *spec) find(k int) int {
	for i, e := range s.items {
		if e.k == k {
			return i
		}
	}
	return -1
}

func (s *spec) touch(i int) {
	e := s.items[i]
	copy(s.items[1:i+1], s.items[:i])
	s.items[0] = e
}

func runCase(line string, count func(string)) (impl, oracle string) {
	f := strings.Fields(line)
	capacity, _ := strconv.Atoi(f[0])
	var log []kv
	c := lru.New[int, int](capacity, func(k, v int) { log = append(log, kv{k, v}) })
	s := &spec{cap: capacity}
	bad := func(i int, format string, a ...any) {
		if oracle == "" {
			oracle = fmt.Sprintf("class=lru-mismatch op#%d %s: ", i, f[i+1]) + fmt.Sprintf(format, a...)
		}
	}
	var outs []string
	for i, op := range f[1:] {
		parts := strings.Split(op, ":")
		before := len(log)
		var out string
		var left []kv // entries the spec says leave during this op
		switch parts[0] {
		case "a":
			k, _ := strconv.Atoi(parts[1])
			v, _ := strconv.Atoi(parts[2])
			c.Add(k, v)
			if j := s.find(k); j >= 0 {
				s.touch(j)
				s.items[0].v = v
				count("add-update")
			} else {
				s.items = append([]kv{{k, v}}, s.items...)
				if s.cap != 0 && len(s.items) > s.cap {
					left = append(left, s.items[len(s.items)-1])
					s.items = s.items[:len(s.items)-1]
					count("add-evict")
				} else {
					count("add-new")
				}
			}
			out = showPairs(";", log[before:])
		case "g":
			k, _ := strconv.Atoi(parts[1])
			v, ok := c.Get(k)
			if ok {
				out = strconv.Itoa(v)
			} else {
				out = "miss"
			}
			if j := s.find(k); j >= 0 {
				if !ok || v != s.items[j].v {
					bad(i, "got %d,%v want %d,true", v, ok, s.items[j].v)
				}
				s.touch(j)
				count("get-hit")
			} else {
				if ok || v != 0 {
					bad(i, "got %d,%v want miss", v, ok)
				}
				count("get-miss")
			}
		case "r":
			k, _ := strconv.Atoi(parts[1])
			c.Remove(k)
			if j := s.find(k); j >= 0 {
				left = append(left, s.items[j])
				s.items = append(s.items[:j:j], s.items[j+1:]...)
				count("remove-hit")
			} else {
				count("remove-miss")
			}
			out = showPairs(";", log[before:])
		case "l":
			out = strconv.Itoa(c.Len())
			count("len")
		default:
			return "bad-op", ""
		}
		// the callback ran exactly once for every entry that left, with its value
		if showPairs(";", log[before:]) != showPairs(";", left) {
			bad(i, "callback calls %s, entries that left %s", showPairs(";", log[before:]), showPairs(";", left))
		}
		if c.Len() != len(s.items) {
			bad(i, "Len %d, spec holds %d", c.Len(), len(s.items))
		}
		if s.cap > 0 && c.Len() > s.cap {
			bad(i, "Len %d exceeds capacity %d", c.Len(), s.cap)
		}
		outs = append(outs, out)
	}
	keys, values, indexKeys, consistent := lru.VerifC45Snapshot(c)
	content := make([]kv, len(keys))
	for i := range keys {
		content[i] = kv{keys[i], values[i]}
	}
	if showPairs(",", content) != showPairs(",", s.items) {
		bad(len(f)-2, "final contents %s, spec %s", showPairs(",", content), showPairs(",", s.items))
	}
	if !consistent || len(indexKeys) != len(keys) {
		bad(len(f)-2, "index inconsistent with list (index %v, list %v)", indexKeys, keys)
	}
	sort.Ints(indexKeys)
	idx := "-"
	if len(indexKeys) > 0 {
		ss := make([]string, len(indexKeys))
		for i, k := range indexKeys {
			ss[i] = strconv.Itoa(k)
		}
		idx = strings.Join(ss, ",")
	}
	return strings.Join(outs, " ") + fmt.Sprintf(" |%s|%s|%d", showPairs(",", content), idx, c.Len()), oracle
}

// watchdog runs one case with panic isolation and a time limit, so that a
// defect that makes the code under test loop forever is reported as a failing
// case (class=hang) instead of stalling the whole check.
func watchdog(f func() (string, string)) (impl, oracle string, ok bool) {
	type res struct{ impl, oracle string }
	ch := make(chan res, 1)
	go func() {
		var o string
		i := hx.Try(func() string {
			a, b := f()
			o = b
			return a
		})
		ch <- res{i, o}
	}()
	select {
	case r := <-ch:
		return r.impl, r.oracle, true
	case <-time.After(30 * time.Second):
		return "hang", "class=hang no answer within 10s", false
	}
}

func main() {
	hx.Main("C45", func(c *hx.Ctx) {
		hung := false
		emit := func(line string) {
			if hung {
				return // a case never returned: its goroutine is still spinning, stop here
			}
			impl, oracle, ok := watchdog(func() (string, string) { return runCase(line, c.Count) })
			if !ok {
				hung = true
			}
			if strings.HasPrefix(impl, "panic:") {
				oracle = "class=panic " + impl
			}
			key := ""
			if strings.Contains(impl, "=") {
				key = impl
			}
			c.Case(line, impl, oracle, key)
		}
		if lines := c.ReplayLines(); lines != nil {
			for _, l := range lines {
				emit(l)
			}
			return
		}
		// Exhaustive: all sequences of length <= L over 3 keys (values
		// distinguish the writes), capacities -1..3.
		alphabet := []string{"a:1:", "a:2:", "a:3:", "g:1", "g:2", "g:3", "r:1", "r:2", "r:3", "l"}
		L := c.Size(4, 6)
		var rec func(prefix []string, depth, capacity int)
		rec = func(prefix []string, depth, capacity int) {
			if depth == 0 {
				emit(strconv.Itoa(capacity) + " " + strings.Join(prefix, " "))
				c.Count("exhaustive")
				return
			}
			for _, a := range alphabet {
				if strings.HasSuffix(a, ":") {
					a += strconv.Itoa(10*(len(prefix)+1) + len(prefix)%3)
				}
				rec(append(prefix[:len(prefix):len(prefix)], a), depth-1, capacity)
			}
		}
		for capacity := -1; capacity <= 3; capacity++ {
			for l := 1; l <= L; l++ {
				rec(nil, l, capacity)
			}
		}
		// Random long sequences.
		for i := 0; i < c.Size(4000, 300000); i++ {
			capacity := c.R.Intn(6)
			if c.R.Chance(1, 10) {
				capacity = 6 + c.R.Intn(30)
			}
			if c.R.Chance(1, 50) {
				capacity = -1 - c.R.Intn(3)
			}
			nkeys := 1 + c.R.Intn(capacity+4)
			if capacity < 0 {
				nkeys = 1 + c.R.Intn(4)
			}
			n := 1 + c.R.Intn(60)
			ops := make([]string, n)
			for j := range ops {
				k := c.R.Intn(nkeys)
				switch c.R.Intn(10) {
				case 0, 1, 2, 3:
					ops[j] = fmt.Sprintf("a:%d:%d", k, 100+j)
				case 4, 5, 6:
					ops[j] = fmt.Sprintf("g:%d", k)
				case 7, 8:
					ops[j] = fmt.Sprintf("r:%d", k)
				default:
					ops[j] = "l"
				}
			}
			emit(strconv.Itoa(capacity) + " " + strings.Join(ops, " "))
			c.Count("random")
		}
	})
}
