// C02: directional modes respect their direction and protect the right side.
//
// Cases are (ancestor, alpha, beta) triples under each of the four modes. The
// real core.Reconcile's plan is printed canonically for comparison with the
// Lean model; the oracle, per mode:
//   - one-way-safe / one-way-replica: no alpha changes at all, and every beta
//     change installs exactly alpha's synchronizable content at that path;
//   - one-way-safe: per-path no-loss on beta; two-way-resolved: per-path
//     no-loss on alpha; two-way-safe: both;
//   - every change's Old describes the endpoint's current content.
//
// (The read-only endpoint half of the property — Stage/Transition refused on
// a one-way alpha endpoint — lives with the session-level streams.)
package main

import (
	"fmt"

	"github.com/mutagen-io/mutagen/pkg/synchronization/core"

	"verif/harness/corex"
	"verif/harness/hx"
)

func direction(t *corex.Triple, p *corex.Plan) string {
	if len(p.Alpha) > 0 {
		return fmt.Sprintf("%d change(s) planned for alpha in %s, first at %q", len(p.Alpha), t.ModeName, p.Alpha[0].Path)
	}
	for _, c := range p.Beta {
		if want := corex.Filter(hx.Lookup(t.Alpha, c.Path)); !corex.Same(c.New, want) {
			return fmt.Sprintf("beta change at %q installs %s, alpha holds %s", c.Path, hx.EncEntry(c.New), hx.EncEntry(want))
		}
	}
	return ""
}

func main() {
	hx.Main("C02", func(c *hx.Ctx) {
		cfg := corex.StreamCfg{
			Modes:  corex.AllModes,
			Stride: c.Size(4, 1),
			Random: c.Size(2500, 300000),
			Opts:   hx.TreeOpts{Unsync: true, Phantom: false, MaxDepth: c.Size(4, 6), MaxKids: 3},
		}
		corex.RunReconcileCases(c,
			func(emit func(string, *core.Entry, *core.Entry, *core.Entry), raw func(string)) {
				corex.Triples(c, cfg, emit)
				cfg2 := cfg
				cfg2.Stride, cfg2.Random = 1<<30, c.Size(300, 30000)
				cfg2.Opts.Phantom = true
				corex.Triples(c, cfg2, emit)
			},
			func(t *corex.Triple, p *corex.Plan) string {
				var dir, lossA, lossB string
				switch t.Mode {
				case core.SynchronizationMode_SynchronizationModeOneWaySafe:
					dir = direction(t, p)
					lossB = corex.NoLoss("beta", t.Beta, t.Anc, p.Beta)
				case core.SynchronizationMode_SynchronizationModeOneWayReplica:
					dir = direction(t, p)
				case core.SynchronizationMode_SynchronizationModeTwoWayResolved:
					lossA = corex.NoLoss("alpha", t.Alpha, t.Anc, p.Alpha)
				case core.SynchronizationMode_SynchronizationModeTwoWaySafe:
					lossA = corex.NoLoss("alpha", t.Alpha, t.Anc, p.Alpha)
					lossB = corex.NoLoss("beta", t.Beta, t.Anc, p.Beta)
				}
				return corex.First(
					"wrong-direction", dir,
					"protected-side-lost", lossA,
					"protected-side-lost", lossB,
					"stale-old", corex.OldDescribes("alpha", t.Alpha, p.Alpha),
					"stale-old", corex.OldDescribes("beta", t.Beta, p.Beta),
				)
			})
	})
}
