// C21: remote endpoints behave exactly like local endpoints.
//
// Streams (one PRNG):
//
//	k, t, n, q   the real endpoint client (client.go) talking to the real
//	             endpoint server request loop (server.go: serve, servePoll,
//	             serveScan, serveStage, serveTransition) over net.Pipe, with a
//	             *scripted* endpoint behind the server, so that every return
//	             value of the underlying endpoint — valid or not — can be
//	             chosen: stage subsets and signature lists (k), transition
//	             results / problems / missing-files flags (t), histories of
//	             snapshots (n), and the three orders of response and
//	             cancellation (q). Oracle: whenever the scripted endpoint
//	             behaves like a local endpoint (in-order subset of the requested
//	             paths with one valid signature each; valid synchronizable
//	             results, one per transition; valid snapshots) the client
//	             returns exactly the endpoint's values; after every operation
//	             the connection still serves a further request (alignment).
//	v            core.Reconcile + Change.EnsureValid(true) on every planned
//	             change (a remote endpoint never rejects a plan).
//	m            mirrored real roots, one through local.NewEndpoint, one through
//	             remote.NewEndpoint ⇄ remote.ServeEndpoint over net.Pipe
//	             (compression, initialize exchange, real scans, staging,
//	             supplying, transitions): every return value compared (see real.go).
package main

import (
	"bytes"
	"context"
	"errors"
	"fmt"
	"net"
	"strconv"
	"strings"
	"sync"
	"time"

	"google.golang.org/protobuf/proto"

	"github.com/mutagen-io/mutagen/pkg/synchronization"
	"github.com/mutagen-io/mutagen/pkg/synchronization/core"
	"github.com/mutagen-io/mutagen/pkg/synchronization/endpoint/remote"
	"github.com/mutagen-io/mutagen/pkg/synchronization/rsync"

	"verif/harness/corex"
	"verif/harness/hx"
)

func flag(b bool) string {
	if b {
		return "1"
	}
	return "0"
}

// ---- scripted endpoint behind the server ----

type nullEncoder struct{}

func (nullEncoder) Encode(*rsync.Transmission) error { return nil }
func (nullEncoder) Finalize() error                  { return nil }

type scripted struct {
	mu sync.Mutex
	// Stage
	stagePaths []string
	stageSigs  []*rsync.Signature
	stageErr   error
	// Transition
	results  []*core.Entry
	problems []*core.Problem
	missing  bool
	transErr error
	// Scan: consumed one per call
	scans []scanStep
	// blocking behaviour of Poll/Scan/Transition: wait for cancellation, then fail
	block bool
	calls []string
}

type scanStep struct {
	snapshot *core.Snapshot
	err      error
	tryAgain bool
}

func (s *scripted) wait(ctx context.Context) error {
	if s.block {
		<-ctx.Done()
		return errors.New("cancelled")
	}
	return nil
}

func (s *scripted) Poll(ctx context.Context) error { return s.wait(ctx) }

func (s *scripted) Scan(ctx context.Context, _ *core.Entry, full bool) (*core.Snapshot, error, bool) {
	if err := s.wait(ctx); err != nil {
		return nil, err, false
	}
	s.mu.Lock()
	defer s.mu.Unlock()
	s.calls = append(s.calls, "scan:"+flag(full))
	if len(s.scans) == 0 {
		return &core.Snapshot{}, nil, false
	}
	st := s.scans[0]
	s.scans = s.scans[1:]
	return st.snapshot, st.err, st.tryAgain
}

func (s *scripted) Stage(paths []string, digests [][]byte) ([]string, []*rsync.Signature, rsync.Receiver, error) {
	if s.stageErr != nil {
		return nil, nil, nil, s.stageErr
	}
	return s.stagePaths, s.stageSigs, rsync.NewEncodingReceiver(nullEncoder{}), nil
}

func (s *scripted) Supply([]string, []*rsync.Signature, rsync.Receiver) error {
	return errors.New("scripted endpoint cannot supply")
}

func (s *scripted) Transition(ctx context.Context, ts []*core.Change) ([]*core.Entry, []*core.Problem, bool, error) {
	if err := s.wait(ctx); err != nil {
		return nil, nil, false, err
	}
	if s.transErr != nil {
		return nil, nil, false, s.transErr
	}
	return s.results, s.problems, s.missing, nil
}

func (s *scripted) Shutdown() error { return nil }

// pair connects a client to a server loop over the scripted endpoint.
type pair struct {
	client synchronization.Endpoint
	done   chan error
}

func newPair(ep synchronization.Endpoint) *pair {
	c, s := net.Pipe()
	p := &pair{done: make(chan error, 1)}
	go func() {
		err := remote.VerifC21Serve(ep, s)
		s.Close()
		p.done <- err
	}()
	p.client = remote.VerifC21Client(c)
	return p
}

func (p *pair) close() {
	p.client.Shutdown()
	select {
	case <-p.done:
	case <-time.After(5 * time.Second):
	}
}

// errorKind maps a client error to the protocol's error classes.
func errorKind(err error) string {
	msg := err.Error()
	switch {
	case strings.Contains(msg, "remote error"):
		return "remote-error"
	case strings.Contains(msg, "invalid stage response"), strings.Contains(msg, "invalid transition response"),
		strings.Contains(msg, "invalid scan response"), strings.Contains(msg, "invalid snapshot received"),
		strings.Contains(msg, "invalid poll response"):
		return "invalid"
	case strings.Contains(msg, "unable to receive"):
		return "rejected"
	case strings.Contains(msg, "does not match"):
		return "local-error"
	case strings.Contains(msg, "unable to patch"):
		return "patch-failed"
	}
	return "error:" + msg
}

// ---- encodings ----

func decTextList(s string) ([]string, bool) {
	if s == "-" {
		return nil, true
	}
	var out []string
	for _, t := range strings.Split(s, ",") {
		d, err := hx.DecText(t)
		if err != nil {
			return nil, false
		}
		out = append(out, d)
	}
	return out, true
}

func encTextList(l []string) string {
	if len(l) == 0 {
		return "-"
	}
	out := make([]string, len(l))
	for i, s := range l {
		out[i] = hx.EncText(s)
	}
	return strings.Join(out, ",")
}

var (
	engine      = rsync.NewEngine()
	validSigs   = []*rsync.Signature{{}, engine.BytesSignature([]byte("some base content"), 0), engine.BytesSignature(bytes.Repeat([]byte{7}, 5000), 0)}
	invalidSigs = []*rsync.Signature{{BlockSize: 0, LastBlockSize: 5}, {BlockSize: 10, LastBlockSize: 0}, {BlockSize: 4, LastBlockSize: 9, Hashes: []*rsync.BlockHash{{Weak: 1, Strong: []byte{1}}}}}
	sigCounter  int
)

func makeSigs(spec string) ([]*rsync.Signature, bool) {
	if spec == "-" {
		return nil, true
	}
	out := make([]*rsync.Signature, len(spec))
	for i, c := range spec {
		sigCounter++
		switch c {
		case '1':
			out[i] = validSigs[sigCounter%len(validSigs)]
		case '0':
			out[i] = invalidSigs[sigCounter%len(invalidSigs)]
		default:
			return nil, false
		}
	}
	return out, true
}

func decEntries(s string) ([]*core.Entry, bool) {
	if s == "-" {
		return nil, true
	}
	var out []*core.Entry
	for _, t := range strings.Split(s, ";") {
		e, err := hx.DecEntry(t)
		if err != nil {
			return nil, false
		}
		out = append(out, e)
	}
	return out, true
}

func encEntries(l []*core.Entry) string {
	if len(l) == 0 {
		return "-"
	}
	out := make([]string, len(l))
	for i, e := range l {
		out[i] = hx.EncEntry(e)
	}
	return strings.Join(out, ";")
}

func decProblems(s string) ([]*core.Problem, bool) {
	if s == "-" {
		return nil, true
	}
	var out []*core.Problem
	for _, t := range strings.Split(s, ";") {
		p, text, ok := strings.Cut(t, "!")
		if !ok {
			return nil, false
		}
		path, err := hx.DecPath(p)
		if err != nil {
			return nil, false
		}
		msg, err := hx.DecText(text)
		if err != nil {
			return nil, false
		}
		out = append(out, &core.Problem{Path: path, Error: msg})
	}
	return out, true
}

func encProblems(l []*core.Problem) string {
	if len(l) == 0 {
		return "-"
	}
	out := make([]string, len(l))
	for i, p := range l {
		out[i] = hx.EncPath(p.Path) + "!" + hx.EncText(p.Error)
	}
	return strings.Join(out, ";")
}

func isSubsequence(filtered, original []string) bool {
	i := 0
	for _, f := range filtered {
		for i < len(original) && original[i] != f {
			i++
		}
		if i == len(original) {
			return false
		}
		i++
	}
	return true
}

func sameStrings(a, b []string) bool {
	if len(a) != len(b) {
		return false
	}
	for i := range a {
		if a[i] != b[i] {
			return false
		}
	}
	return true
}

// aligned checks that the connection still serves a request: a Stage with one
// path that the scripted endpoint answers with "nothing to stage".
func aligned(p *pair, ep *scripted) bool {
	ep.stagePaths, ep.stageSigs, ep.stageErr = nil, nil, nil
	done := make(chan bool, 1)
	go func() {
		paths, sigs, recv, err := p.client.Stage([]string{"probe"}, [][]byte{{1}})
		done <- err == nil && paths == nil && sigs == nil && recv == nil
	}()
	select {
	case ok := <-done:
		return ok
	case <-time.After(60 * time.Second):
		return false
	}
}

// ---- cases ----

func runStage(c *hx.Ctx, f []string) (impl, verdict, key string) {
	req, ok := decTextList(f[1])
	nd, err := strconv.Atoi(f[2])
	if !ok || err != nil {
		return "bad-op", "", ""
	}
	ep := &scripted{}
	local := true // the scripted endpoint behaves like a local endpoint
	if len(f) == 4 && f[3] == "!" {
		ep.stageErr = errors.New("scripted staging failure")
	} else if len(f) == 5 {
		paths, ok1 := decTextList(f[3])
		sigs, ok2 := makeSigs(f[4])
		if !ok1 || !ok2 {
			return "bad-op", "", ""
		}
		ep.stagePaths, ep.stageSigs = paths, sigs
		local = isSubsequence(paths, req) && len(sigs) == len(paths) && !strings.Contains(f[4], "0")
	} else {
		return "bad-op", "", ""
	}
	digests := make([][]byte, nd)
	for i := range digests {
		digests[i] = []byte{byte(i + 1)}
	}
	p := newPair(ep)
	defer p.close()
	reqCopy := append([]string{}, req...)
	paths, sigs, recv, serr := p.client.Stage(reqCopy, digests)
	switch {
	case serr != nil:
		impl = errorKind(serr)
	case paths == nil && sigs == nil && recv == nil:
		impl = "none"
	default:
		impl = "need " + encTextList(paths) + " " + strconv.Itoa(len(sigs))
	}
	c.Count("k:" + strings.Fields(impl)[0])
	// remote = local
	if local && nd == len(req) {
		switch {
		case len(req) == 0:
			// Every endpoint answers an empty request with "nothing to stage".
			if impl != "none" {
				verdict = "class=stage-mismatch empty request but the client returned " + impl
			}
		case ep.stageErr != nil:
			if serr == nil {
				verdict = "class=stage-mismatch the endpoint failed but the client returned no error"
			}
		case len(ep.stagePaths) == 0:
			if impl != "none" {
				verdict = "class=stage-mismatch nothing to stage but the client returned " + impl
			}
		default:
			if serr != nil || !sameStrings(paths, ep.stagePaths) || len(sigs) != len(ep.stageSigs) || recv == nil {
				verdict = "class=stage-mismatch the endpoint returned " + encTextList(ep.stagePaths) + " but the client returned " + impl
			} else {
				for i := range sigs {
					if !proto.Equal(sigs[i], ep.stageSigs[i]) {
						verdict = "class=stage-mismatch signature " + strconv.Itoa(i) + " differs"
					}
				}
			}
		}
		key = "k-local " + strings.Join(f, " ")
	} else {
		key = "k-odd " + impl + f[1]
	}
	// The validator by itself, on the response the server sends.
	if len(f) == 5 && nd == len(req) && len(req) > 0 {
		respPaths := ep.stagePaths
		if len(respPaths) == len(req) {
			respPaths = nil
		}
		verr := remote.VerifC21StageResponseEnsureValid(respPaths, ep.stageSigs, "", req)
		if (verr == nil) != (impl != "invalid") {
			verdict = "class=validator-mismatch StageResponse.ensureValid disagrees with the client's verdict " + impl
		}
		if local && verr != nil {
			verdict = "class=valid-response-rejected " + verr.Error()
		}
	}
	return
}

func runTransition(c *hx.Ctx, f []string) (impl, verdict, key string) {
	ts, err := hx.DecChanges(f[1])
	if err != nil {
		return "bad-op", "", ""
	}
	ep := &scripted{}
	local := true
	if len(f) == 3 && f[2] == "!" {
		ep.transErr = errors.New("scripted transition failure")
	} else if len(f) == 5 {
		rs, ok1 := decEntries(f[2])
		ps, ok2 := decProblems(f[3])
		if !ok1 || !ok2 {
			return "bad-op", "", ""
		}
		ep.results, ep.problems, ep.missing = rs, ps, f[4] == "1"
		local = len(rs) == len(ts)
		for _, r := range rs {
			if r.EnsureValid(true) != nil {
				local = false
			}
		}
		for _, pr := range ps {
			if pr.Error == "" {
				local = false
			}
		}
	} else {
		return "bad-op", "", ""
	}
	requestValid := true
	for _, t := range ts {
		if t.EnsureValid(true) != nil {
			requestValid = false
		}
	}
	p := newPair(ep)
	defer p.close()
	results, problems, missing, terr := p.client.Transition(context.Background(), ts)
	if terr != nil {
		impl = errorKind(terr)
	} else {
		impl = "done " + encEntries(results) + " " + encProblems(problems) + " " + flag(missing)
	}
	c.Count("t:" + strings.Fields(impl)[0])
	if requestValid && local {
		key = "t-local " + strings.Join(f, " ")
		if ep.transErr != nil {
			if terr == nil {
				verdict = "class=transition-mismatch the endpoint failed but the client returned no error"
			}
		} else if terr != nil {
			verdict = "class=transition-mismatch the endpoint succeeded but the client returned " + impl
		} else if encEntries(results) != encEntries(ep.results) || encProblems(problems) != encProblems(ep.problems) || missing != ep.missing {
			verdict = "class=transition-mismatch the client returned " + impl
		}
		if terr == nil {
			if !aligned(p, ep) {
				verdict = "class=misaligned the connection does not serve a request after the transition"
			}
		}
	} else {
		key = "t-odd " + impl
	}
	return
}

func snapshotToken(s *core.Snapshot) string {
	return hx.EncEntry(s.Content) + "+" + flag(s.PreservesExecutability) + flag(s.DecomposesUnicode)
}

func runScans(c *hx.Ctx, f []string) (impl, verdict, key string) {
	ep := &scripted{}
	type step struct {
		ancestor *core.Entry
		scan     scanStep
	}
	var steps []step
	for _, tok := range f[1:] {
		parts := strings.Split(tok, "+")
		if len(parts) < 2 {
			return "bad-op", "", ""
		}
		anc, err := hx.DecEntry(parts[0])
		if err != nil {
			return "bad-op", "", ""
		}
		switch {
		case len(parts) == 2 && (parts[1] == "!0" || parts[1] == "!1"):
			steps = append(steps, step{anc, scanStep{err: errors.New("scripted scan failure"), tryAgain: parts[1] == "!1"}})
		case len(parts) == 3 && len(parts[2]) == 2:
			tree, err := hx.DecEntry(parts[1])
			if err != nil {
				return "bad-op", "", ""
			}
			steps = append(steps, step{anc, scanStep{snapshot: &core.Snapshot{Content: tree, PreservesExecutability: parts[2][0] == '1', DecomposesUnicode: parts[2][1] == '1'}}})
		default:
			return "bad-op", "", ""
		}
		ep.scans = append(ep.scans, steps[len(steps)-1].scan)
	}
	p := newPair(ep)
	defer p.close()
	var outs []string
	for i, st := range steps {
		full := i%2 == 1
		snap, err, tryAgain := p.client.Scan(context.Background(), st.ancestor, full)
		var out string
		switch {
		case err != nil && errorKind(err) == "remote-error":
			out = "remote-error:" + flag(tryAgain)
		case err != nil:
			out = errorKind(err)
		default:
			out = "ok:" + snapshotToken(snap)
		}
		last := "-"
		if b := remote.VerifC21LastSnapshotBytes(p.client); b != nil {
			ls := &core.Snapshot{}
			if proto.Unmarshal(b, ls) != nil {
				last = "?"
			} else {
				last = snapshotToken(ls)
			}
		}
		outs = append(outs, out+"/last="+last)
		c.Count("n:" + strings.SplitN(out, ":", 2)[0])
		// remote = local
		if verdict == "" {
			switch {
			case st.scan.err != nil:
				if err == nil || tryAgain != st.scan.tryAgain {
					verdict = "class=scan-mismatch the endpoint failed (try again " + flag(st.scan.tryAgain) + ") but the client returned " + out
				}
			case st.scan.snapshot.EnsureValid() == nil:
				if err != nil || !proto.Equal(snap, st.scan.snapshot) {
					verdict = "class=scan-mismatch scan " + strconv.Itoa(i+1) + ": the endpoint returned " + snapshotToken(st.scan.snapshot) + " but the client returned " + out
				}
			}
		}
	}
	if verdict == "" && !aligned(p, ep) {
		verdict = "class=misaligned the connection does not serve a request after the scans"
	}
	impl = strings.Join(outs, " ")
	key = "n " + impl
	return
}

func runValid(c *hx.Ctx, f []string) (impl, verdict, key string) {
	t, ok := corex.ParseTriple(f[1:])
	if !ok {
		return "bad-op", "", ""
	}
	p := corex.Reconcile(t.Anc, t.Alpha, t.Beta, t.Mode)
	bad := func(cs []*core.Change) int {
		n := 0
		for _, ch := range cs {
			if ch.EnsureValid(true) != nil {
				n++
			}
		}
		return n
	}
	a, b := bad(p.Alpha), bad(p.Beta)
	impl = strconv.Itoa(a) + "," + strconv.Itoa(b)
	inputsValid := t.Anc.EnsureValid(true) == nil && t.Alpha.EnsureValid(false) == nil && t.Beta.EnsureValid(false) == nil
	if inputsValid && corex.NoPhantom(t) && a+b > 0 {
		verdict = "class=plan-rejected-remotely a planned change fails Change.EnsureValid(true): " + p.Enc()
	}
	if len(p.Alpha)+len(p.Beta) > 0 {
		key = "v " + p.Enc()
		c.Count("v:with-changes")
	}
	return
}

func runCancel(c *hx.Ctx, f []string) (impl, verdict, key string) {
	if len(f) != 3 {
		return "bad-op", "", ""
	}
	op, timing := f[1], f[2]
	ep := &scripted{block: timing != "r"}
	ep.results = []*core.Entry{nil}
	p := newPair(ep)
	defer p.close()
	ctx, cancel := context.WithCancel(context.Background())
	defer cancel()
	switch timing {
	case "r":
	case "b":
		cancel()
	case "c":
		go func() {
			time.Sleep(time.Duration(200+c.R.Intn(800)) * time.Microsecond)
			cancel()
		}()
	default:
		return "bad-op", "", ""
	}
	var err error
	finished := make(chan struct{})
	go func() {
		switch op {
		case "poll":
			err = p.client.Poll(ctx)
		case "scan":
			_, err, _ = p.client.Scan(ctx, nil, false)
		case "transition":
			_, _, _, err = p.client.Transition(ctx, []*core.Change{{Path: ""}})
		default:
			err = errors.New("bad-op")
		}
		close(finished)
	}()
	select {
	case <-finished:
	case <-time.After(90 * time.Second):
		return "hung", "class=hang the operation did not return", "q"
	}
	if err != nil && err.Error() == "bad-op" {
		return "bad-op", "", ""
	}
	result := "ok"
	if err != nil {
		result = errorKind(err)
	}
	ep.block = false
	al := "aligned"
	if !aligned(p, ep) {
		al = "misaligned"
		verdict = "class=misaligned the connection does not serve a request after " + op + " (" + timing + ")"
	}
	impl = result + " " + al
	if timing == "r" && err != nil {
		verdict = "class=cancel-mismatch uncancelled " + op + " failed: " + err.Error()
	}
	if timing != "r" && err == nil {
		verdict = "class=cancel-mismatch cancelled " + op + " succeeded although the endpoint reported cancellation"
	}
	c.Count("q:" + op + ":" + timing)
	key = "q " + op + timing + impl
	return
}

type runner struct {
	c    *hx.Ctx
	real *realEnv
}

func (rn *runner) runLine(line string) (impl, verdict, key string) {
	f := strings.Fields(line)
	if len(f) < 2 {
		return "bad-op", "", ""
	}
	switch f[0] {
	case "k":
		if len(f) < 4 {
			return "bad-op", "", ""
		}
		return runStage(rn.c, f)
	case "t":
		if len(f) < 3 {
			return "bad-op", "", ""
		}
		return runTransition(rn.c, f)
	case "n":
		return runScans(rn.c, f)
	case "v":
		return runValid(rn.c, f)
	case "q":
		return runCancel(rn.c, f)
	case "m":
		return rn.runMirror(f)
	}
	return "bad-op", "", ""
}

func main() {
	hx.Main("C21", func(c *hx.Ctx) {
		rn := &runner{c: c}
		defer rn.closeReal()
		run := func(line string) {
			var verdict, key string
			impl := hx.Try(func() string {
				i, v, k := rn.runLine(line)
				verdict, key = v, k
				return i
			})
			if strings.HasPrefix(impl, "panic:") {
				verdict = "class=panic " + impl
			}
			c.Case(line, impl, verdict, key)
		}
		if lines := c.ReplayLines(); lines != nil {
			for _, l := range lines {
				run(l)
			}
			return
		}
		generate(c, run)
	})
}

var _ = fmt.Sprint
