package main

// The mirrored-roots stream: two real directories with identical content, one
// driven through local.NewEndpoint, the other through remote.NewEndpoint ⇄
// remote.ServeEndpoint over net.Pipe (compression handshake, initialize
// exchange, delta-encoded snapshots, compacted staging responses, rsync
// forwarding, transitions). Every return value is compared between the two.

import (
	"context"
	"crypto/sha1"
	"fmt"
	"net"
	"os"
	"path/filepath"
	"strings"
	"time"

	"google.golang.org/protobuf/proto"

	"github.com/mutagen-io/mutagen/pkg/logging"
	"github.com/mutagen-io/mutagen/pkg/synchronization"
	"github.com/mutagen-io/mutagen/pkg/synchronization/core"
	"github.com/mutagen-io/mutagen/pkg/synchronization/endpoint/local"
	"github.com/mutagen-io/mutagen/pkg/synchronization/endpoint/remote"
	"github.com/mutagen-io/mutagen/pkg/synchronization/rsync"

	"verif/harness/hx"
	sessx "verif/harness/scriptx"
)

type realEnv struct {
	base string
	n    int
}

func (rn *runner) realEnv() *realEnv {
	if rn.real == nil {
		base := os.Getenv("VERIF_OUT")
		if base == "" {
			base = "out"
		}
		base, _ = filepath.Abs(filepath.Join(base, "c21-real"))
		os.RemoveAll(base)
		if err := os.MkdirAll(filepath.Join(base, "data"), 0o700); err != nil {
			panic(err)
		}
		os.Setenv("MUTAGEN_DATA_DIRECTORY", filepath.Join(base, "data"))
		rn.real = &realEnv{base: base}
	}
	return rn.real
}

func (rn *runner) closeReal() {
	if rn.real != nil {
		os.RemoveAll(rn.real.base)
	}
}

func digestOf(content []byte) []byte {
	h := sha1.Sum(content)
	return h[:]
}

type mirror struct {
	localRoot, remoteRoot, sourceRoot string
	local, remote                     synchronization.Endpoint
	serverDone                        chan error
	lastLocal                         *core.Snapshot
}

func newMirror(env *realEnv, mode core.SynchronizationMode) (*mirror, error) {
	env.n++
	dir := filepath.Join(env.base, fmt.Sprintf("m%d", env.n))
	m := &mirror{localRoot: filepath.Join(dir, "l"), remoteRoot: filepath.Join(dir, "r"), sourceRoot: filepath.Join(dir, "s")}
	for _, d := range []string{m.localRoot, m.remoteRoot, m.sourceRoot} {
		if err := os.MkdirAll(d, 0o755); err != nil {
			return nil, err
		}
	}
	logger := logging.NewLogger(logging.LevelDisabled, nil)
	cfg := &synchronization.Configuration{SynchronizationMode: mode, WatchMode: synchronization.WatchMode_WatchModeNoWatch}
	var err error
	m.local, err = local.NewEndpoint(logger, m.localRoot, fmt.Sprintf("sync_c21local%d", env.n), synchronization.DefaultVersion, cfg, false)
	if err != nil {
		return nil, err
	}
	c, s := net.Pipe()
	m.serverDone = make(chan error, 1)
	go func() { m.serverDone <- remote.ServeEndpoint(logger, s) }()
	m.remote, err = remote.NewEndpoint(logger, c, m.remoteRoot, fmt.Sprintf("sync_c21remote%d", env.n), synchronization.DefaultVersion, cfg, false)
	if err != nil {
		m.local.Shutdown()
		return nil, err
	}
	return m, nil
}

func (m *mirror) close() {
	m.local.Shutdown()
	m.remote.Shutdown()
	select {
	case <-m.serverDone:
	case <-time.After(5 * time.Second):
	}
	os.RemoveAll(filepath.Dir(m.localRoot))
}

func encRealProblems(ps []*core.Problem) string {
	out := make([]string, len(ps))
	for i, p := range ps {
		out[i] = p.Path + "!" + p.Error
	}
	return strings.Join(out, ";")
}

// scanBoth scans through both endpoints and compares.
func (m *mirror) scanBoth(full bool) (token, mismatch string) {
	ls, lerr, lagain := m.local.Scan(context.Background(), nil, full)
	rs, rerr, ragain := m.remote.Scan(context.Background(), nil, full)
	if (lerr == nil) != (rerr == nil) || lagain != ragain {
		return "scan-error", fmt.Sprintf("class=scan-mismatch local error %v (again %v), remote error %v (again %v)", lerr, lagain, rerr, ragain)
	}
	if lerr != nil {
		return "scan-error", ""
	}
	if !proto.Equal(ls, rs) {
		mismatch = "class=scan-mismatch local snapshot " + hx.EncEntry(sessx.Abstract(ls.Content)) + " remote snapshot " + hx.EncEntry(sessx.Abstract(rs.Content))
	}
	m.lastLocal = ls
	return "scan:" + hx.EncEntry(sessx.Abstract(ls.Content)), mismatch
}

type fileSpec struct {
	path    string
	content []byte
	exec    bool
}

// transitionBoth stages, supplies and transitions the changes on both endpoints.
func (m *mirror) transitionBoth(changes []*core.Change, files []fileSpec) (token, mismatch string) {
	note := func(s string) {
		if mismatch == "" {
			mismatch = s
		}
	}
	paths, digests := core.TransitionDependencies(changes)
	need := "-"
	if len(paths) > 0 {
		// The source of the file contents.
		os.RemoveAll(m.sourceRoot)
		os.MkdirAll(m.sourceRoot, 0o755)
		for _, f := range files {
			t := filepath.Join(m.sourceRoot, filepath.FromSlash(f.path))
			os.MkdirAll(filepath.Dir(t), 0o755)
			os.RemoveAll(t)
			if err := os.WriteFile(t, f.content, 0o644); err != nil {
				panic(err)
			}
		}
		lp, lsig, lrecv, lerr := m.local.Stage(append([]string{}, paths...), digests)
		rp, rsig, rrecv, rerr := m.remote.Stage(append([]string{}, paths...), digests)
		if (lerr == nil) != (rerr == nil) {
			return "stage-error", fmt.Sprintf("class=stage-mismatch local error %v, remote error %v", lerr, rerr)
		}
		if lerr != nil {
			return "stage-error", ""
		}
		if !sameStrings(lp, rp) || len(lsig) != len(rsig) || (lrecv == nil) != (rrecv == nil) {
			note("class=stage-mismatch local needs " + encTextList(lp) + ", remote needs " + encTextList(rp))
		} else {
			for i := range lsig {
				if !proto.Equal(lsig[i], rsig[i]) {
					note(fmt.Sprintf("class=stage-mismatch signature %d differs", i))
				}
			}
		}
		need = encTextList(lp)
		if lrecv != nil {
			if err := rsync.Transmit(m.sourceRoot, lp, lsig, lrecv); err != nil {
				note("class=supply-failed local: " + err.Error())
			}
		}
		if rrecv != nil {
			if err := rsync.Transmit(m.sourceRoot, rp, rsig, rrecv); err != nil {
				note("class=supply-failed remote: " + err.Error())
			}
		}
	}
	lres, lprob, lmiss, lerr := m.local.Transition(context.Background(), changes)
	rres, rprob, rmiss, rerr := m.remote.Transition(context.Background(), changes)
	if (lerr == nil) != (rerr == nil) {
		return "transition-error", fmt.Sprintf("class=transition-mismatch local error %v, remote error %v", lerr, rerr)
	}
	if lerr != nil {
		return "transition-error", ""
	}
	if encEntries(lres) != encEntries(rres) || encRealProblems(lprob) != encRealProblems(rprob) || lmiss != rmiss {
		note("class=transition-mismatch local " + encEntries(lres) + " [" + encRealProblems(lprob) + "] remote " + encEntries(rres) + " [" + encRealProblems(rprob) + "]")
	}
	abstract := make([]*core.Entry, len(lres))
	for i, r := range lres {
		abstract[i] = sessx.Abstract(r)
	}
	problems := "ok"
	if len(lprob) > 0 {
		problems = "problem"
	}
	return "need=" + need + ":" + encEntries(abstract) + ":" + problems + ":" + flag(lmiss), mismatch
}

func (rn *runner) runMirror(f []string) (impl, verdict, key string) {
	c := rn.c
	if len(f) != 2 {
		return "bad-op", "", ""
	}
	env := rn.realEnv()
	m, err := newMirror(env, core.SynchronizationMode_SynchronizationModeTwoWaySafe)
	if err != nil {
		panic(err)
	}
	defer m.close()
	note := func(s string) {
		if verdict == "" && s != "" {
			verdict = s
		}
	}
	var outs []string
	for _, step := range strings.Split(f[1], ",") {
		parts := strings.Split(step, "=")
		switch {
		case step == "s" || step == "S":
			tok, mm := m.scanBoth(step == "S")
			outs = append(outs, tok)
			note(mm)
			c.Count("m:scan")
		case parts[0] == "T" && len(parts) >= 3 && len(parts)%2 == 1:
			_, mm := m.scanBoth(false)
			note(mm)
			var changes []*core.Change
			var files []fileSpec
			for i := 1; i+1 < len(parts); i += 2 {
				path, err := hx.DecPath(parts[i])
				if err != nil {
					return "bad-op", "", ""
				}
				spec := parts[i+1]
				exec := strings.HasSuffix(spec, "x")
				spec = strings.TrimSuffix(spec, "x")
				var b byte
				if _, err := fmt.Sscanf(spec, "%02x", &b); err != nil || len(spec) != 2 {
					return "bad-op", "", ""
				}
				content := []byte{b}
				changes = append(changes, &core.Change{Path: path, Old: hx.Lookup(m.lastLocal.Content, path),
					New: &core.Entry{Kind: core.EntryKind_File, Digest: digestOf(content), Executable: exec}})
				files = append(files, fileSpec{path, content, exec})
			}
			tok, mm := m.transitionBoth(changes, files)
			outs = append(outs, "T:"+tok)
			note(mm)
			c.Count("m:transition-create")
		case parts[0] == "D" && len(parts) == 2:
			_, mm := m.scanBoth(false)
			note(mm)
			path, err := hx.DecPath(parts[1])
			if err != nil {
				return "bad-op", "", ""
			}
			tok, mm := m.transitionBoth([]*core.Change{{Path: path, Old: hx.Lookup(m.lastLocal.Content, path)}}, nil)
			outs = append(outs, "D:"+tok)
			note(mm)
			c.Count("m:transition-delete")
		case parts[0] == "X" && len(parts) == 2:
			// A transition whose expectation about the disk is wrong.
			_, mm := m.scanBoth(false)
			note(mm)
			path, err := hx.DecPath(parts[1])
			if err != nil {
				return "bad-op", "", ""
			}
			bogus := &core.Entry{Kind: core.EntryKind_File, Digest: digestOf([]byte("not on disk"))}
			tok, mm := m.transitionBoth([]*core.Change{{Path: path, Old: bogus}}, nil)
			fields := strings.Split(tok, ":")
			outs = append(outs, "X:"+fields[len(fields)-2])
			note(mm)
			c.Count("m:transition-stale")
		case parts[0] == "w" || parts[0] == "m" || parts[0] == "d" || parts[0] == "e":
			if err := sessx.FSEdit(m.localRoot, parts); err != nil {
				return "bad-op", "", ""
			}
			if err := sessx.FSEdit(m.remoteRoot, parts); err != nil {
				return "bad-op", "", ""
			}
			// identical modification times on both sides
			syncTimes(m.localRoot, m.remoteRoot)
		default:
			return "bad-op", "", ""
		}
		if lt, rt := hx.EncEntry(sessx.ReadTree(m.localRoot)), hx.EncEntry(sessx.ReadTree(m.remoteRoot)); lt != rt {
			note("class=roots-diverged local root " + lt + " remote root " + rt)
		}
	}
	impl = strings.Join(outs, " | ")
	key = "m " + impl
	return
}

// syncTimes copies the modification times of the local root's files to the
// mirror, so that both endpoints see identical metadata.
func syncTimes(a, b string) {
	filepath.Walk(a, func(p string, info os.FileInfo, err error) error {
		if err != nil || info.IsDir() {
			return nil
		}
		rel, _ := filepath.Rel(a, p)
		os.Chtimes(filepath.Join(b, rel), info.ModTime(), info.ModTime())
		return nil
	})
}
