package main

import (
	"strconv"
	"strings"

	"github.com/mutagen-io/mutagen/pkg/synchronization/core"

	"verif/harness/corex"
	"verif/harness/hx"
)

var pathPool = []string{"a", "b", "c", "a/b", "a/c", "d/e/f", "é", "x y"}

func subsequence(r *hx.Rand, l []string) []string {
	var out []string
	for _, x := range l {
		if r.Chance(1, 2) {
			out = append(out, x)
		}
	}
	return out
}

func sigSpec(r *hx.Rand, n int, allValid bool) string {
	if n == 0 {
		return "-"
	}
	b := make([]byte, n)
	for i := range b {
		b[i] = '1'
		if !allValid && r.Chance(1, 4) {
			b[i] = '0'
		}
	}
	return string(b)
}

func genSyncEntry(r *hx.Rand) *core.Entry {
	return hx.GenRoot(r, hx.TreeOpts{MaxDepth: 2, MaxKids: 2, Names: []string{"a", "b", "c"}})
}

func generate(c *hx.Ctx, run func(string)) {
	r := c.R

	// k: exhaustive over requests of up to 3 distinct paths, every list of up
	// to 3 paths over the same alphabet as endpoint answer, with matching valid
	// signatures; then random (with wrong counts, invalid signatures, errors).
	alphabet := []string{"a", "b", "c"}
	var lists func(n int) [][]string
	lists = func(n int) [][]string {
		if n == 0 {
			return [][]string{nil}
		}
		var out [][]string
		for _, l := range lists(n - 1) {
			out = append(out, l)
			if len(l) == n-1 {
				for _, x := range alphabet {
					out = append(out, append(append([]string{}, l...), x))
				}
			}
		}
		return out
	}
	for _, req := range [][]string{{"a"}, {"a", "b"}, {"a", "b", "c"}, {"a", "a", "b"}} {
		for _, ans := range lists(3) {
			run("k " + encTextList(req) + " " + strconv.Itoa(len(req)) + " " + encTextList(ans) + " " + sigSpec(r, len(ans), true))
			c.Count("exhaustive")
		}
	}
	for n := 0; n < c.Size(2500, 60000); n++ {
		req := make([]string, r.Intn(6))
		for i := range req {
			req[i] = pathPool[r.Intn(len(pathPool))]
		}
		nd := len(req)
		if r.Chance(1, 15) {
			nd = r.Intn(6)
		}
		if r.Chance(1, 12) {
			run("k " + encTextList(req) + " " + strconv.Itoa(nd) + " !")
			continue
		}
		ans := subsequence(r, req)
		nsig := len(ans)
		allValid := true
		switch r.Intn(12) {
		case 0:
			ans = append(ans, pathPool[r.Intn(len(pathPool))])
			nsig = len(ans)
		case 1:
			if len(ans) > 1 {
				ans[0], ans[len(ans)-1] = ans[len(ans)-1], ans[0]
			}
		case 2:
			nsig = r.Intn(7)
		case 3:
			allValid = false
		case 4:
			ans = append([]string{}, req...)
			nsig = len(ans)
		case 5:
			ans = nil
			nsig = r.Intn(7)
		}
		run("k " + encTextList(req) + " " + strconv.Itoa(nd) + " " + encTextList(ans) + " " + sigSpec(r, nsig, allValid))
	}

	// t: transition requests and responses.
	so := hx.TreeOpts{MaxDepth: 2, MaxKids: 2, Names: []string{"a", "b", "c"}}
	uo := hx.TreeOpts{Unsync: true, Phantom: true, MaxDepth: 2, MaxKids: 2, Names: []string{"a", "b", "c"}}
	for n := 0; n < c.Size(2500, 60000); n++ {
		k := r.Intn(4)
		ts := make([]*core.Change, k)
		for i := range ts {
			ts[i] = &core.Change{Path: pathPool[r.Intn(5)]}
			if r.Chance(2, 3) {
				ts[i].Old = hx.GenEntry(r, so, 2)
			}
			if r.Chance(2, 3) {
				ts[i].New = hx.GenEntry(r, so, 2)
			}
			if r.Chance(1, 25) {
				ts[i].New = hx.GenEntry(r, uo, 2)
			}
			if r.Chance(1, 40) {
				ts[i].Old = hx.GenMalformed(r, so)
			}
		}
		if r.Chance(1, 12) {
			run("t " + hx.EncChangesOrdered(ts) + " !")
			continue
		}
		nres := k
		if r.Chance(1, 10) {
			nres = r.Intn(5)
		}
		rs := make([]*core.Entry, nres)
		for i := range rs {
			switch r.Intn(8) {
			case 0:
				rs[i] = nil
			case 1:
				rs[i] = hx.GenEntry(r, uo, 2)
			case 2:
				if i < len(ts) {
					rs[i] = ts[i].Old
				}
			default:
				if i < len(ts) {
					rs[i] = ts[i].New
				} else {
					rs[i] = hx.GenEntry(r, so, 2)
				}
			}
		}
		var ps []*core.Problem
		for i := 0; i < r.Intn(3); i++ {
			ps = append(ps, &core.Problem{Path: pathPool[r.Intn(len(pathPool))], Error: r.Pick("unable to create file", "e", "modification detected", "é")})
		}
		if r.Chance(1, 20) {
			ps = append(ps, &core.Problem{Path: "a"})
		}
		run("t " + hx.EncChangesOrdered(ts) + " " + encEntries(rs) + " " + encProblems(ps) + " " + flag(r.Chance(1, 4)))
	}

	// n: scan histories.
	for n := 0; n < c.Size(1200, 30000); n++ {
		k := 1 + r.Intn(6)
		toks := make([]string, k)
		cur := genSyncEntry(r)
		anc := cur
		for i := range toks {
			switch r.Intn(10) {
			case 0:
				toks[i] = hx.EncEntry(anc) + "+!" + flag(r.Chance(1, 2))
				continue
			case 1:
				cur = nil
			case 2:
				cur = hx.GenRoot(r, uo)
			case 3:
				cur = hx.GenMalformed(r, uo)
			case 4:
				// unchanged
			default:
				if cur == nil {
					cur = genSyncEntry(r)
				} else {
					paths := hx.Paths(cur)
					q := paths[r.Intn(len(paths))]
					if next, ok := hx.Set(cur, corex.Join(q, "n"+strconv.Itoa(r.Intn(3))), hx.GenEntry(r, uo, 1)); ok && corex.IsDirKind(hx.Lookup(cur, q)) {
						cur = next
					} else if next, ok := hx.Set(cur, q, hx.GenEntry(r, uo, 1)); ok {
						cur = next
					}
				}
			}
			if r.Chance(1, 3) {
				anc = genSyncEntry(r)
			}
			toks[i] = hx.EncEntry(anc) + "+" + hx.EncEntry(cur) + "+" + flag(r.Chance(3, 4)) + flag(r.Chance(1, 8))
		}
		run("n " + strings.Join(toks, " "))
	}

	// v: every planned change passes the remote validation.
	cfg := corex.StreamCfg{
		Modes:  corex.AllModes,
		Stride: c.Size(12, 1),
		Random: c.Size(2500, 150000),
		Opts:   hx.TreeOpts{Unsync: true, Phantom: false, MaxDepth: c.Size(4, 5), MaxKids: 3},
	}
	corex.Triples(c, cfg, func(mode string, anc, alpha, beta *core.Entry) {
		run("v " + corex.TripleLine(mode, anc, alpha, beta))
	})

	// q: response and cancellation in every order.
	for n := 0; n < c.Size(20, 300); n++ {
		for _, op := range []string{"poll", "scan", "transition"} {
			for _, timing := range []string{"r", "c", "b"} {
				run("q " + op + " " + timing)
			}
		}
	}

	// m: mirrored real roots.
	names := []string{"a", "b", "c", "d"}
	for n := 0; n < c.Size(60, 2500); n++ {
		tree := &core.Entry{Kind: core.EntryKind_Directory}
		k := 4 + r.Intn(14)
		var steps []string
		rndPath := func(existingDirParent bool) string {
			for tries := 0; tries < 20; tries++ {
				p := names[r.Intn(len(names))]
				if r.Chance(1, 3) {
					p += "/" + names[r.Intn(len(names))]
				}
				parent := ""
				if i := strings.LastIndexByte(p, '/'); i >= 0 {
					parent = p[:i]
				}
				if !existingDirParent || corex.IsDirKind(hx.Lookup(tree, parent)) {
					return p
				}
			}
			return names[r.Intn(len(names))]
		}
		content := func() (string, *core.Entry) {
			b := byte(1 + r.Intn(5))
			x := r.Chance(1, 4)
			s := hx.Hex([]byte{b})
			if x {
				s += "x"
			}
			return s, &core.Entry{Kind: core.EntryKind_File, Digest: []byte{b}, Executable: x}
		}
		set := func(p string, v *core.Entry) {
			if next, ok := hx.Set(tree, p, v); ok {
				tree = next
			}
		}
		for j := 0; j < k; j++ {
			switch r.Intn(12) {
			case 0, 1:
				p := rndPath(true)
				spec, e := content()
				steps = append(steps, "w="+hx.EncPath(p)+"="+spec)
				set(p, e)
			case 2:
				p := rndPath(true)
				steps = append(steps, "m="+hx.EncPath(p))
				set(p, &core.Entry{Kind: core.EntryKind_Directory})
			case 3:
				p := rndPath(true)
				steps = append(steps, "d="+hx.EncPath(p))
				set(p, nil)
			case 4:
				steps = append(steps, "s")
			case 5:
				steps = append(steps, "S")
			case 6, 7, 8:
				cnt := 1 + r.Intn(3)
				item := "T"
				used := map[string]bool{}
				for i := 0; i < cnt; i++ {
					p := rndPath(true)
					conflict := false
					for u := range used {
						if hx.PathIsPrefix(u, p) || hx.PathIsPrefix(p, u) {
							conflict = true
						}
					}
					if conflict {
						continue
					}
					used[p] = true
					spec, e := content()
					item += "=" + hx.EncPath(p) + "=" + spec
					set(p, e)
				}
				if item != "T" {
					steps = append(steps, item)
				}
			case 9:
				paths := hx.Paths(tree)
				if len(paths) > 1 {
					p := paths[1+r.Intn(len(paths)-1)]
					steps = append(steps, "D="+hx.EncPath(p))
					set(p, nil)
				}
			case 10:
				var files []string
				for _, p := range hx.Paths(tree) {
					if hx.Lookup(tree, p).Kind == core.EntryKind_File {
						files = append(files, p)
					}
				}
				if len(files) > 0 {
					steps = append(steps, "X="+hx.EncPath(files[r.Intn(len(files))]))
				}
			default:
				steps = append(steps, "s")
			}
		}
		steps = append(steps, "S")
		run("m " + strings.Join(steps, ","))
	}
}
