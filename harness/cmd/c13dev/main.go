// Command c13dev is a one-scenario experiment for C13 (not part of ./check):
// the implementation-level counterpart of the Lean theorem
// Properties/C13.lean `same_root_device_needed`.
//
// Scenario: a cold scan of a root X on one filesystem (X/a, X/b/a); then a root
// Y on another filesystem (a tmpfs) holding a changed `a` and, bind-mounted at
// Y/b, the unchanged old directory X/b (still on the first filesystem). The
// accelerated scan of Y (baseline and caches from X, recheck path "a") is
// compared with a cold scan of Y.
//
// Usage (needs CAP_SYS_ADMIN for the mounts):
//
//	cd harness && go run -tags verif ./cmd/c13dev
//
// Output: the kind of entry `b` in both results and whether they differ.
package main

import (
	"fmt"
	"os"
	"syscall"

	"github.com/mutagen-io/mutagen/pkg/synchronization/core"
	"github.com/mutagen-io/mutagen/pkg/synchronization/core/ignore"

	"verif/harness/scanx"
)

func must(err error) {
	if err != nil {
		fmt.Println("setup failed:", err)
		os.Exit(2)
	}
}

func kindOf(r *scanx.Result, name string) string {
	if !r.OK() {
		return fmt.Sprintf("scan failed: err=%v panic=%q", r.Err, r.Panic)
	}
	e := r.Snapshot.Content
	if e == nil {
		return "no content"
	}
	c := e.Contents[name]
	if c == nil {
		return "absent"
	}
	if c.Kind == core.EntryKind_Problematic {
		return "Problematic(" + c.Problem + ")"
	}
	return c.Kind.String()
}

func main() {
	base := scanx.Scratch("c13dev")
	os.RemoveAll(base)
	must(os.MkdirAll(base, 0o755))
	x, y := base+"/x", base+"/y"
	defer func() {
		syscall.Unmount(y+"/b", syscall.MNT_DETACH)
		syscall.Unmount(y, syscall.MNT_DETACH)
		os.RemoveAll(base)
	}()
	must(os.MkdirAll(x+"/b", 0o755))
	must(os.WriteFile(x+"/a", []byte("one"), 0o644))
	must(os.WriteFile(x+"/b/a", []byte("9"), 0o644))

	cfg := &scanx.Cfg{
		SymlinkMode: core.SymbolicLinkMode_SymbolicLinkModePortable,
		PermsMode:   core.PermissionsMode_PermissionsModePortable,
		Ignorer: scanx.FuncIgnorer(func(string, bool) (ignore.IgnoreStatus, bool) {
			return ignore.IgnoreStatusNominal, false
		}),
	}
	first := scanx.Scan(x, cfg, true, false, nil)
	if !first.OK() {
		fmt.Println("first scan failed:", first.Err, first.Panic)
		os.Exit(2)
	}

	must(os.Mkdir(y, 0o755))
	must(syscall.Mount("tmpfs", y, "tmpfs", 0, "size=4m"))
	must(os.WriteFile(y+"/a", []byte("three"), 0o644))
	must(os.Mkdir(y+"/b", 0o755))
	must(syscall.Mount(x+"/b", y+"/b", "", syscall.MS_BIND, ""))

	fmt.Printf("device of old root %d, of new root %d, of new root's b %d\n",
		scanx.RootDevice(x), scanx.RootDevice(y), scanx.RootDevice(y+"/b"))

	accel := scanx.Scan(y, cfg, true, false, &scanx.Prev{
		Baseline: first.Snapshot, Recheck: []string{"a"}, Cache: first.Cache, IgnoreCache: first.IgnoreCache,
	})
	cold := scanx.Scan(y, cfg, true, false, nil)
	ka, kc := kindOf(accel, "b"), kindOf(cold, "b")
	fmt.Println("accelerated scan: b is", ka)
	fmt.Println("cold scan:        b is", kc)
	if ka != kc {
		fmt.Println("RESULT: accelerated and cold scans differ")
	} else {
		fmt.Println("RESULT: equal")
	}
}
