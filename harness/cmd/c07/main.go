// C07: tree diff, apply, copy and filtering are mutually consistent.
//
// Drives the real core.Diff / core.Apply / Entry.Copy / Entry.Equal /
// Entry.Count / Entry.EnsureValid / Entry.Problems and the (verif-exported)
// synchronizable filter on exhaustive small shapes and random deep trees,
// prints canonical answers for comparison with the Lean model, and evaluates
// the property's own oracles (written from the statement, not from the model).
package main

import (
	"fmt"
	"sort"
	"strconv"
	"strings"

	"github.com/mutagen-io/mutagen/pkg/synchronization/core"
	"github.com/mutagen-io/mutagen/pkg/synchronization/core/fastpath"

	"verif/harness/corex"
	"verif/harness/hx"
)

var behaviors = map[string]core.EntryCopyBehavior{
	"deep":    core.EntryCopyBehaviorDeep,
	"dpl":     core.EntryCopyBehaviorDeepPreservingLeaves,
	"shallow": core.EntryCopyBehaviorShallow,
	"slim":    core.EntryCopyBehaviorSlim,
}

func flag(b bool) string {
	if b {
		return "1"
	}
	return "0"
}

// scramble mutates a node of the original after a copy was taken: scalar
// fields (assigned, never written through shared slices) and the content map.
func scramble(e *core.Entry, fields bool) {
	if fields {
		e.Kind = hx.UnknownKind
		e.Executable = !e.Executable
		e.Target += "~"
		e.Problem += "~"
		e.Digest = []byte{0xee}
	}
	if e.Contents != nil {
		for n := range e.Contents {
			delete(e.Contents, n)
			break
		}
		e.Contents["\x01scrambled"] = &core.Entry{Kind: core.EntryKind_File, Digest: []byte{0xee}}
	}
}

// scrambleFor mutates everything of the original that the given copy
// behaviour promises not to share with the copy.
func scrambleFor(e *core.Entry, behavior string, top bool) {
	if e == nil {
		return
	}
	switch behavior {
	case "deep":
		for _, c := range e.Contents {
			scrambleFor(c, behavior, false)
		}
		scramble(e, true)
	case "dpl":
		// Leaves below the root are shared by design; directories are fresh.
		for _, c := range e.Contents {
			if corex.IsDirKind(c) {
				scrambleFor(c, behavior, false)
			}
		}
		scramble(e, true)
	default: // shallow, slim: only the top node is fresh
		scramble(e, true)
	}
}

// dirParents reports whether every change's parent path resolves to a
// directory kind while the changes are applied in order (the situation Apply
// is specified for).
func dirParents(base *core.Entry, changes []*core.Change) bool {
	cur := base
	for _, c := range changes {
		if c.Path != "" {
			parent := ""
			if i := strings.LastIndexByte(c.Path, '/'); i >= 0 {
				parent = c.Path[:i]
			}
			if !corex.IsDirKind(hx.Lookup(cur, parent)) {
				return false
			}
		}
		next, ok := hx.Set(cur, c.Path, c.New)
		if !ok {
			return false
		}
		cur = next
	}
	return true
}

func applyResult(e *core.Entry, err error) string {
	if err != nil {
		return "err:unresolved"
	}
	return hx.EncEntry(e)
}

func runCase(line string) (impl, oracle string) {
	f := strings.Fields(line)
	fail := func(class, format string, a ...any) {
		if oracle == "" {
			oracle = "class=" + class + " " + fmt.Sprintf(format, a...)
		}
	}
	if len(f) == 0 {
		return "bad-op", ""
	}
	switch f[0] {
	case "diff":
		a, b := hx.MustEntry(f[1]), hx.MustEntry(f[2])
		cs := core.Diff(a, b)
		impl = hx.EncChanges(cs)
		if corex.Same(a, b) && len(cs) != 0 {
			fail("diff-self", "diff of identical trees has %d changes", len(cs))
		}
		for i, c := range cs {
			if !corex.Same(c.Old, hx.Lookup(a, c.Path)) || !corex.Same(c.New, hx.Lookup(b, c.Path)) {
				fail("diff-shape", "change at %q does not carry the two sub-trees", c.Path)
			}
			if corex.ShallowSame(c.Old, c.New) {
				fail("diff-shape", "change at %q between shallowly equal nodes", c.Path)
			}
			for j := 0; j < i; j++ {
				if corex.Comparable(cs[j].Path, c.Path) {
					fail("diff-shape", "comparable change paths %q %q", cs[j].Path, c.Path)
				}
			}
		}
	case "appdiff":
		a, b := hx.MustEntry(f[1]), hx.MustEntry(f[2])
		before := hx.EncEntry(a)
		res, err := core.Apply(a, core.Diff(a, b))
		impl = applyResult(res, err)
		if err != nil {
			fail("apply-diff", "Apply failed: %v", err)
		} else if !corex.Same(res, b) {
			fail("apply-diff", "got %s want %s", hx.EncEntry(res), hx.EncEntry(b))
		} else if !res.Equal(b, true) || !b.Equal(res, true) {
			fail("apply-diff", "result encodes like the target but Equal says different")
		}
		if hx.EncEntry(a) != before {
			fail("apply-aliasing", "Apply modified its base")
		}
	case "apply":
		a := hx.MustEntry(f[1])
		cs, err := hx.DecChanges(f[2])
		if err != nil {
			return "bad-op", ""
		}
		before := hx.EncEntry(a)
		res, aerr := core.Apply(a, cs)
		impl = applyResult(res, aerr)
		if dirParents(a, cs) {
			// Reference: set/delete at each path in order.
			want := a
			for _, c := range cs {
				want, _ = hx.Set(want, c.Path, c.New)
			}
			if aerr != nil {
				fail("apply-spec", "Apply failed although every parent is a directory: %v", aerr)
			} else if !corex.Same(res, want) {
				fail("apply-spec", "got %s want %s", hx.EncEntry(res), hx.EncEntry(want))
			}
			if hx.EncEntry(a) != before {
				fail("apply-aliasing", "Apply modified its base")
			}
			// Later mutation of the result's directories must not reach the base.
			if aerr == nil && len(cs) > 1 && res != nil {
				scrambleFor(res, "dpl", true)
				if hx.EncEntry(a) != before {
					fail("apply-aliasing", "result shares a directory with the base")
				}
			}
		}
	case "copy":
		b, ok := behaviors[f[1]]
		if !ok {
			return "bad-op", ""
		}
		a := hx.MustEntry(f[2])
		cp := a.Copy(b)
		impl = hx.EncEntry(cp)
		if f[1] == "slim" {
			if !corex.ShallowSame(cp, a) || (cp != nil && len(cp.Contents) != 0) {
				fail("copy", "slim copy is not the node without contents")
			}
		} else if !corex.Same(cp, a) || !cp.Equal(a, true) || !a.Equal(cp, true) {
			fail("copy", "%s copy differs from the original", f[1])
		}
		if a != nil && cp == a {
			fail("copy-aliasing", "copy returned the original pointer")
		}
		scrambleFor(a, f[1], true)
		if hx.EncEntry(cp) != impl {
			fail("copy-aliasing", "%s copy changed when the original was modified", f[1])
		}
	case "xsync":
		impl = hx.EncEntry(core.VerifC07Synchronizable(hx.MustEntry(f[1])))
	case "sync":
		a := hx.MustEntry(f[1])
		before := hx.EncEntry(a)
		s := core.VerifC07Synchronizable(a)
		impl = hx.EncEntry(s)
		if want := corex.Filter(a); !corex.Same(s, want) {
			fail("sync-filter", "got %s want %s", impl, hx.EncEntry(want))
		}
		if hx.EncEntry(a) != before {
			fail("sync-filter", "filter modified its argument")
		}
	case "count":
		a := hx.MustEntry(f[1])
		n := a.Count()
		impl = strconv.FormatUint(n, 10)
		if want := corex.Nodes(corex.Filter(a)); n != want {
			fail("count", "got %d want %d", n, want)
		}
	case "valid":
		a := hx.MustEntry(f[2])
		impl = flag(a.EnsureValid(f[1] == "1") == nil)
	case "validgen":
		// Same as valid, for trees from the valid-tree generators.
		a := hx.MustEntry(f[2])
		ok := a.EnsureValid(f[1] == "1") == nil
		impl = flag(ok)
		want := f[1] == "0" || !corex.HasUnsync(a)
		if ok != want {
			fail("valid", "EnsureValid(%s) ok=%v on a generated valid tree (unsync=%v)", f[1], ok, corex.HasUnsync(a))
		}
	case "equal":
		a, b := hx.MustEntry(f[2]), hx.MustEntry(f[3])
		deep := f[1] == "1"
		eq := a.Equal(b, deep)
		impl = flag(eq)
		want := corex.ShallowSame(a, b)
		if deep {
			want = corex.Same(a, b)
		}
		if eq != want || b.Equal(a, deep) != eq {
			fail("equal", "Equal(deep=%v)=%v want %v", deep, eq, want)
		}
	case "problems":
		a := hx.MustEntry(f[1])
		var items []string
		for _, p := range a.Problems() {
			items = append(items, hx.EncPath(p.Path)+"!"+hx.EncText(p.Error))
		}
		sort.Strings(items)
		if len(items) == 0 {
			impl = "-"
		} else {
			impl = strings.Join(items, ";")
		}
		var want []string
		for _, p := range hx.Paths(a) {
			if e := hx.Lookup(a, p); e.Kind == core.EntryKind_Problematic {
				want = append(want, hx.EncPath(p)+"!"+hx.EncText(e.Problem))
			}
		}
		sort.Strings(want)
		if strings.Join(want, ";") != strings.Join(items, ";") {
			fail("problems", "got %v want %v", items, want)
		}
	case "glue":
		var names []string
		if f[1] != "-" {
			for _, t := range strings.Split(f[1], ",") {
				n, err := hx.DecText(t)
				if err != nil {
					return "bad-op", ""
				}
				names = append(names, n)
			}
		}
		path := ""
		for _, n := range names {
			path = fastpath.Joinable(path) + n // diff.go:29-37, reconcile.go:117-130
		}
		var comps []string
		if path != "" { // apply.go:29
			comps = strings.Split(path, "/") // apply.go:36
		}
		enc := make([]string, len(comps))
		ok := len(comps) == len(names)
		valid := true
		for _, n := range names {
			valid = valid && n != "" && !strings.Contains(n, "/")
		}
		for i, cmp := range comps {
			enc[i] = hx.EncText(cmp)
			ok = ok && i < len(names) && names[i] == cmp
		}
		impl = hx.Hex([]byte(path)) + "|"
		if len(enc) == 0 {
			impl += "-"
		} else {
			impl += strings.Join(enc, ",")
		}
		if valid && !ok {
			fail("path-glue", "names %q became components %q", names, comps)
		}
	case "chvalid":
		c, err := hx.DecChange(f[2])
		if err != nil {
			return "bad-op", ""
		}
		impl = flag(c.EnsureValid(f[1] == "1") == nil) + "|" + hx.EncChange(core.VerifC07SlimChange(c)) + "|" +
			flag(c.IsRootDeletion()) + flag(c.IsRootTypeChange())
	default:
		return "bad-op", ""
	}
	return impl, oracle
}

func main() {
	hx.Main("C07", func(c *hx.Ctx) {
		emit := func(line string) {
			var oracle string
			impl := hx.Try(func() string {
				i, o := runCase(line)
				oracle = o
				return i
			})
			if impl == "panic:"+nilDeref {
				impl = "err:panic"
			} else if strings.HasPrefix(impl, "panic:") {
				oracle = "class=panic " + impl
			}
			op, _, _ := strings.Cut(line, " ")
			c.Count("op:" + op)
			key := ""
			if impl != "-" && impl != "~" && impl != "0" {
				key = op + " " + impl
			}
			c.Case(line, impl, oracle, key)
		}
		if lines := c.ReplayLines(); lines != nil {
			for _, l := range lines {
				emit(l)
			}
			return
		}
		enc := hx.EncEntry

		single := func(e *core.Entry, generatedValid bool) {
			s := enc(e)
			for _, b := range []string{"deep", "dpl", "shallow", "slim"} {
				emit("copy " + b + " " + s)
			}
			emit("sync " + s)
			emit("count " + s)
			emit("problems " + s)
			v := "valid"
			if generatedValid {
				v = "validgen"
			}
			emit(v + " 0 " + s)
			emit(v + " 1 " + s)
		}
		pair := func(a, b *core.Entry) {
			sa, sb := enc(a), enc(b)
			emit("diff " + sa + " " + sb)
			emit("appdiff " + sa + " " + sb)
			emit("equal 1 " + sa + " " + sb)
			emit("equal 0 " + sa + " " + sb)
		}

		// Exhaustive: every depth-1 shape over two names, singly and in pairs.
		shapes := hx.SmallShapes([]string{"a", "b"}, true)
		for _, a := range shapes {
			single(a, true)
			c.Count("exhaustive-single")
		}
		for _, a := range shapes {
			emit("diff " + enc(a) + " " + enc(a))
			for _, b := range shapes {
				pair(a, b)
				c.Count("exhaustive-pair")
			}
		}

		// Random deep trees (with unsynchronizable kinds and phantoms), related pairs.
		o := hx.TreeOpts{Unsync: true, Phantom: true, MaxDepth: c.Size(5, 8), MaxKids: 4}
		for i := 0; i < c.Size(1500, 150000); i++ {
			_, a, b := hx.GenTriple(c.R, o)
			if c.R.Chance(1, 3) {
				a = hx.GenRoot(c.R, o)
			}
			pair(a, b)
			if c.R.Chance(1, 4) {
				emit("diff " + enc(a) + " " + enc(a))
			}
			single(a, true)
			if corex.HasUnsync(a) {
				c.Count("random-with-unsync")
			}
			c.Count("random")
		}

		// Apply with arbitrary change lists (ordered), including unresolvable
		// paths, nil bases, mid-list root replacements and non-directory parents.
		for i := 0; i < c.Size(3000, 200000); i++ {
			base := hx.GenRoot(c.R, o)
			k := c.R.Intn(5)
			var items []string
			cur := base
			for j := 0; j < k; j++ {
				var p string
				paths := hx.Paths(cur)
				if len(paths) > 0 {
					p = paths[c.R.Intn(len(paths))]
				}
				switch c.R.Intn(8) {
				case 0:
					p = corex.Join(p, "zz/y") // unresolvable (or through a leaf)
				case 1, 2, 3:
					p = corex.Join(p, hx.DefaultNames[c.R.Intn(4)])
				case 4:
					if c.R.Chance(1, 3) {
						p = "" // root replacement
					}
				}
				var nw *core.Entry
				if !c.R.Chance(1, 3) {
					nw = hx.GenEntry(c.R, o, 2)
				}
				ch := &core.Change{Path: p, New: nw}
				if c.R.Chance(1, 4) {
					ch.Old = hx.GenLeaf(c.R, o)
				}
				items = append(items, hx.EncChange(ch))
				if next, ok := hx.Set(cur, p, nw); ok {
					cur = next
				}
			}
			list := "-"
			if len(items) > 0 {
				list = strings.Join(items, ";")
			}
			emit("apply " + enc(base) + " " + list)
			c.Count("apply-random")
		}

		// Path-string glue: names (valid and invalid) joined on the way down and split by Apply.
		pool := append([]string{"", "/", "a/b", "/x", "y/", ".", ".."}, hx.DefaultNames...)
		for i := 0; i < c.Size(3000, 100000); i++ {
			k := c.R.Intn(5)
			toks := make([]string, k)
			for j := range toks {
				if c.R.Chance(3, 4) {
					toks[j] = hx.EncText(hx.DefaultNames[c.R.Intn(len(hx.DefaultNames))])
				} else {
					toks[j] = hx.EncText(pool[c.R.Intn(len(pool))])
				}
			}
			if k == 0 {
				emit("glue -")
			} else {
				emit("glue " + strings.Join(toks, ","))
			}
			c.Count("glue")
		}

		// Malformed entries and changes for the validity predicates.
		mo := hx.TreeOpts{Unsync: true, Phantom: true, MaxDepth: 3, MaxKids: 3}
		for i := 0; i < c.Size(4000, 200000); i++ {
			e := hx.GenMalformed(c.R, mo)
			s := enc(e)
			emit("valid 0 " + s)
			emit("valid 1 " + s)
			if c.R.Chance(1, 3) {
				emit("count " + s)
				emit("xsync " + s)
				emit("copy " + c.R.Pick("deep", "dpl", "shallow", "slim") + " " + s)
			}
			old := hx.GenRoot(c.R, mo)
			if c.R.Chance(1, 2) {
				old, e = e, old
			}
			path := ""
			if c.R.Chance(2, 3) {
				path = "a/b"
			}
			emit("chvalid " + flag(c.R.Chance(1, 2)) + " " + hx.EncChange(&core.Change{Path: path, Old: old, New: e}))
			c.Count("malformed")
		}
	})
}

// nilDeref is the runtime error text of a nil-pointer dereference.
const nilDeref = "runtime error: invalid memory address or nil pointer dereference"
